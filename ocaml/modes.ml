(* ocaml/modes.ml — dispatch table: mode name -> extracted run function (coq/Extract/Runs.v). *)
open Model
let table : (string * (args -> args)) list = [
  ("vi_read", run_vi_read);
  ("vi_write", run_vi_write);
  ("vi_try", run_vi_try);
]
