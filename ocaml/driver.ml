(* ocaml/driver.ml — runs the extracted model (model.ml, from coq/Extract/Extract.v) on a case file.
   Input, one case per line:   <mode> <arg> <arg> ...     where <arg> is "-" (empty list) or
   comma-separated decimal numbers.  Output, one line per case, in the same argument syntax.
   Numbers are converted between decimal text and the extracted binary type [n] without going
   through OCaml's int for large values. *)
open Model

let rec pos_of_int (i : int) : positive =
  if i = 1 then XH
  else if i land 1 = 0 then XO (pos_of_int (i lsr 1))
  else XI (pos_of_int (i lsr 1))

let n_of_int (i : int) : n = if i = 0 then N0 else Npos (pos_of_int i)

let rec int_of_pos (p : positive) : int =
  match p with XH -> 1 | XO q -> 2 * int_of_pos q | XI q -> 2 * int_of_pos q + 1

let rec pos_bits (p : positive) : int = match p with XH -> 1 | XO q | XI q -> 1 + pos_bits q

let ten = n_of_int 10

let n_of_string (s : string) : n =
  if String.length s <= 17 then n_of_int (int_of_string s)
  else begin
    let acc = ref N0 in
    String.iter (fun c -> acc := N.add (N.mul !acc ten) (n_of_int (Char.code c - 48))) s;
    !acc
  end

let string_of_n (x : n) : string =
  match x with
  | N0 -> "0"
  | Npos p when pos_bits p <= 60 -> string_of_int (int_of_pos p)
  | _ ->
    let buf = Buffer.create 24 in
    let rec go (x : n) (acc : char list) =
      match x with
      | N0 -> acc
      | _ -> let (q, r) = N.div_eucl x ten in
             let d = (match r with N0 -> 0 | Npos p -> int_of_pos p) in
             go q (Char.chr (48 + d) :: acc) in
    List.iter (Buffer.add_char buf) (go x []);
    Buffer.contents buf

let parse_arg (s : string) : n list =
  if s = "-" then [] else List.map n_of_string (String.split_on_char ',' s)

let print_arg (buf : Buffer.t) (l : n list) : unit =
  match l with
  | [] -> Buffer.add_char buf '-'
  | _ -> List.iteri (fun i x -> if i > 0 then Buffer.add_char buf ','; Buffer.add_string buf (string_of_n x)) l

let table : (string * (args -> args)) list = Modes.table

let () =
  let buf = Buffer.create 65536 in
  (try
    while true do
      let line = input_line stdin in
      if String.length line > 0 then begin
        let toks = List.filter (fun s -> s <> "") (String.split_on_char ' ' line) in
        (match toks with
         | [] -> ()
         | mode :: rest ->
           let a = List.map parse_arg rest in
           let res =
             (match List.assoc_opt mode table with
              | Some f -> (try f a with Stack_overflow -> [[n_of_int 999998]])
              | None -> [[n_of_int 999997]]) in
           List.iteri (fun i l -> if i > 0 then Buffer.add_char buf ' '; print_arg buf l) res;
           if res = [] then Buffer.add_char buf '-';
           Buffer.add_char buf '\n';
           if Buffer.length buf > 60000 then (print_string (Buffer.contents buf); Buffer.clear buf))
      end
    done
  with End_of_file -> ());
  print_string (Buffer.contents buf)
