//! fv-harness: runs the real fastcgi-server crate on the case files of the correspondence check.
//!
//! Input, one case per line: `<mode> <arg> <arg> ...` where `<arg>` is `-` (empty list) or
//! comma-separated decimal numbers.  Output: one line per case in the same syntax.  Every case
//! runs under `catch_unwind`; a panic is the observation `18446744073710440504`.
use std::io::{self, BufRead, Write};
use std::panic::{catch_unwind, AssertUnwindSafe};

mod codec;
mod conn;
mod names;
mod proto;
mod reqp;
mod response;
mod strp;
mod sync;

pub type Arg = Vec<u128>;
pub type Args = Vec<Arg>;

pub const PANIC: u128 = 18_446_744_073_710_440_504; // 2^64 + 888888: outside every data domain of the observations

pub fn bytes(a: &Arg) -> Vec<u8> {
    a.iter().map(|&x| x as u8).collect()
}
pub fn nums(b: &[u8]) -> Arg {
    b.iter().map(|&x| u128::from(x)).collect()
}
pub fn arg(a: &Args, i: usize) -> Arg {
    a.get(i).cloned().unwrap_or_default()
}
pub fn argn(a: &Args, i: usize) -> u128 {
    a.get(i).and_then(|v| v.first().copied()).unwrap_or(0)
}

fn parse_arg(s: &str) -> Arg {
    if s == "-" {
        Vec::new()
    } else {
        s.split(',').map(|t| t.parse::<u128>().expect("bad number")).collect()
    }
}

fn fmt_args(out: &mut String, res: &Args) {
    if res.is_empty() {
        out.push('-');
    }
    for (i, l) in res.iter().enumerate() {
        if i > 0 {
            out.push(' ');
        }
        if l.is_empty() {
            out.push('-');
        }
        for (j, x) in l.iter().enumerate() {
            if j > 0 {
                out.push(',');
            }
            out.push_str(&x.to_string());
        }
    }
    out.push('\n');
}

fn dispatch(mode: &str, a: &Args) -> Args {
    // each module owns its modes: `dispatch(mode, args) -> Option<Args>`
    None.or_else(|| codec::dispatch(mode, a))
        .or_else(|| names::dispatch(mode, a))
        .or_else(|| proto::dispatch(mode, a))
        .or_else(|| response::dispatch(mode, a))
        .or_else(|| reqp::dispatch(mode, a))
        .or_else(|| strp::dispatch(mode, a))
        .or_else(|| conn::dispatch(mode, a))
        .or_else(|| conn::dispatch_writers(mode, a))
        .or_else(|| sync::dispatch(mode, a))
        .unwrap_or_else(|| vec![vec![999_997]])
}

fn main() {
    // keep panic messages out of stdout; stderr gets one short line per panic
    std::panic::set_hook(Box::new(|info| {
        if std::env::var_os("FV_PANIC_VERBOSE").is_some() {
            eprintln!("panic: {info}");
        }
    }));
    let stdin = io::stdin();
    let stdout = io::stdout();
    let mut w = io::BufWriter::new(stdout.lock());
    let mut out = String::new();
    for line in stdin.lock().lines() {
        let line = line.expect("read");
        let mut toks = line.split_ascii_whitespace();
        let Some(mode) = toks.next() else { continue };
        let a: Args = toks.map(parse_arg).collect();
        let res = catch_unwind(AssertUnwindSafe(|| dispatch(mode, &a)))
            .unwrap_or_else(|_| vec![vec![PANIC]]);
        out.clear();
        fmt_args(&mut out, &res);
        w.write_all(out.as_bytes()).expect("write");
    }
    w.flush().expect("flush");
}
