//! Connection-level modes (C07-C12, C14): `Token::run` of the real crate on a deterministic
//! single-task executor with a scripted transport, a gated (closed-loop) client and scripted
//! request handlers.  The same world is modelled in coq/Async/Conn.v.
//!
//! conn_run <cfg> <rscript> <wscript> <segtable> <wire> <handler script>...
//!   cfg      = [buffer_size, max_conns, vectored(0/1), stop_at]
//!   rscript  = per poll_read call: n > 0 deliver up to n bytes; 0 = Pending (self-waking);
//!              4000000001 = read error.  Exhausted: deliver all that is available.
//!   wscript  = per poll_write(_vectored) call: k > 0 accept up to k bytes; 0 = Pending (self-waking);
//!              4000000001 = Ok(0); 4000000002 = write error (BrokenPipe); 4000000003 = write error of kind ConnectionAborted.  Exhausted: accept everything.
//!   segtable = [gate_end, gate_mgmt, len]*: the client sends `len` more bytes of <wire> once the
//!              server has written >= gate_end EndRequest records and >= gate_mgmt management replies
//!              (GetValuesResult / Unknown records).  After the last segment: EOF.
//!   handler script (one per request, the last one is reused): flat list of ops
//!      1 n          read(&mut buf[..n])            2           read to end (64-byte reads)
//!      3 k          fill_buf + consume(min(k,len))  4 s         set_stream(s)
//!      5            writeable().await              6 s n b..   output_stream(s).write_all(b[..n])
//!      7 s          output_stream(s).flush()       8 d c       return Ok(ExitStatus d c)
//!      9 kind       return Err(kind)
use crate::proto::{config, exit_status};
use crate::reqp::req_obs;
use crate::{arg, bytes, nums, Args, PANIC};
use fastcgi_server::async_io::Request;
use fastcgi_server::protocol::RecordType;
use fastcgi_server::ExitStatus;
use futures_util::future::BoxFuture;
use futures_util::io::{AsyncBufReadExt, AsyncRead, AsyncReadExt, AsyncWrite, AsyncWriteExt};
use std::future::Future;
use std::io::{self, IoSlice};
use std::panic::{catch_unwind, AssertUnwindSafe};
use std::pin::Pin;
use std::sync::atomic::{AtomicBool, AtomicUsize, Ordering};
use std::sync::{Arc, Mutex};
use std::task::{Context, Poll, Wake, Waker};

pub fn dispatch(mode: &str, a: &Args) -> Option<Args> {
    Some(match mode {
        "conn_run" => conn_run(a),
        "req_new" => req_new(a),
        "flush_fault" => flush_fault(a),
        _ => return None,
    })
}

const R_ERR: u128 = 4_000_000_001;
const W_ZERO: u128 = 4_000_000_001;
const W_ERR: u128 = 4_000_000_002;
const W_ERR_AB: u128 = 4_000_000_003;

struct World {
    rscript: Vec<u128>,
    ri: usize,
    wscript: Vec<u128>,
    wi: usize,
    segs: Vec<(u128, u128, usize)>,
    seg_i: usize,
    seg_off: usize,
    wire: Vec<u8>,
    pos: usize,
    wlog: Vec<u8>,
    blocked: bool,
    vectored: bool,
    eof_reads: usize,
}

/// complete records in the write log: (#EndRequest, #GetValuesResult + #Unknown)
fn count_records(log: &[u8]) -> (u128, u128) {
    let (mut e, mut m, mut pos) = (0, 0, 0usize);
    while pos + 8 <= log.len() {
        let cl = usize::from(log[pos + 4]) * 256 + usize::from(log[pos + 5]);
        let pl = usize::from(log[pos + 6]);
        if pos + 8 + cl + pl > log.len() {
            break;
        }
        match log[pos + 1] {
            3 => e += 1,
            10 | 11 => m += 1,
            _ => {},
        }
        pos += 8 + cl + pl;
    }
    (e, m)
}

fn errkind(e: &io::Error) -> u128 {
    use io::ErrorKind::*;
    match e.kind() {
        Other => 1,
        ConnectionAborted => 2,
        UnexpectedEof => 3,
        ConnectionReset => 4,
        InvalidData => 5,
        WriteZero => 6,
        BrokenPipe | Interrupted | TimedOut | WouldBlock => 7,
        _ => 8,
    }
}

fn kind_of(k: u128) -> io::ErrorKind {
    use io::ErrorKind::*;
    match k {
        2 => ConnectionAborted,
        3 => UnexpectedEof,
        4 => ConnectionReset,
        5 => InvalidData,
        6 => WriteZero,
        7 => BrokenPipe,
        _ => Other,
    }
}

#[derive(Clone)]
struct Reader(Arc<Mutex<World>>);
#[derive(Clone)]
struct Writer(Arc<Mutex<World>>);

impl AsyncRead for Reader {
    fn poll_read(self: Pin<&mut Self>, cx: &mut Context, buf: &mut [u8]) -> Poll<io::Result<usize>> {
        let mut w = self.0.lock().expect("world");
        if buf.is_empty() {
            return Poll::Ready(Ok(0));
        }
        // is anything available?
        while w.seg_i < w.segs.len() && w.seg_off == w.segs[w.seg_i].2 {
            w.seg_i += 1;
            w.seg_off = 0;
        }
        if w.seg_i == w.segs.len() {
            // client closed its side; a task that keeps reading after EOF is spinning
            w.eof_reads += 1;
            assert!(w.eof_reads < 2000, "the connection task spins on a transport that reported EOF");
            return Poll::Ready(Ok(0));
        }
        let (ge, gm, slen) = w.segs[w.seg_i];
        let (e, m) = count_records(&w.wlog);
        if e < ge || m < gm {
            w.blocked = true;                    // the client is waiting for the server: no wake
            return Poll::Pending;
        }
        let r = if w.ri < w.rscript.len() { w.ri += 1; w.rscript[w.ri - 1] } else { u128::MAX };
        if r == 0 {
            cx.waker().wake_by_ref();
            return Poll::Pending;
        }
        if r == R_ERR {
            // a transport error is a transport error whatever its kind: the mock alternates between kinds (by the parity of the bytes
            // delivered so far) that the observation maps to the same code; no kind may be treated as "try again"
            let kind = [io::ErrorKind::BrokenPipe, io::ErrorKind::Interrupted, io::ErrorKind::TimedOut, io::ErrorKind::WouldBlock][w.pos % 4];
            return Poll::Ready(Err(kind.into()));
        }
        let n = (r.min(usize::MAX as u128) as usize).min(buf.len()).min(slen - w.seg_off);
        let pos = w.pos;
        buf[..n].copy_from_slice(&w.wire[pos..pos + n]);
        w.pos += n;
        w.seg_off += n;
        Poll::Ready(Ok(n))
    }
}

impl Writer {
    fn accept(&self, cx: &mut Context, slices: &[&[u8]]) -> Poll<io::Result<usize>> {
        let mut w = self.0.lock().expect("world");
        let total: usize = slices.iter().map(|s| s.len()).sum();
        let k = if w.wi < w.wscript.len() { w.wi += 1; w.wscript[w.wi - 1] } else { u128::MAX };
        if k == 0 {
            cx.waker().wake_by_ref();
            return Poll::Pending;
        }
        if k == W_ZERO {
            return Poll::Ready(Ok(0));
        }
        if k == W_ERR {
            return Poll::Ready(Err(io::ErrorKind::BrokenPipe.into()));
        }
        if k == W_ERR_AB {
            // a transport error whose kind happens to be ConnectionAborted (ECONNABORTED)
            return Poll::Ready(Err(io::ErrorKind::ConnectionAborted.into()));
        }
        let mut n = (k.min(usize::MAX as u128) as usize).min(total);
        let ret = n;
        for s in slices {
            let t = n.min(s.len());
            w.wlog.extend_from_slice(&s[..t]);
            n -= t;
        }
        Poll::Ready(Ok(ret))
    }
}

impl AsyncWrite for Writer {
    fn poll_write(self: Pin<&mut Self>, cx: &mut Context, buf: &[u8]) -> Poll<io::Result<usize>> {
        self.accept(cx, &[buf])
    }
    fn poll_write_vectored(self: Pin<&mut Self>, cx: &mut Context, bufs: &[IoSlice<'_>]) -> Poll<io::Result<usize>> {
        let vectored = self.0.lock().expect("world").vectored;
        if vectored {
            let v: Vec<&[u8]> = bufs.iter().map(|b| &**b).collect();
            self.accept(cx, &v)
        } else {
            // futures-io default: first non-empty slice
            let first = bufs.iter().find(|b| !b.is_empty()).map_or(&[][..], |b| &**b);
            self.accept(cx, &[first])
        }
    }
    fn poll_flush(self: Pin<&mut Self>, _: &mut Context) -> Poll<io::Result<()>> {
        Poll::Ready(Ok(()))
    }
    fn poll_close(self: Pin<&mut Self>, _: &mut Context) -> Poll<io::Result<()>> {
        Poll::Ready(Ok(()))
    }
}

struct Flag(AtomicBool);
impl Wake for Flag {
    fn wake(self: Arc<Self>) {
        self.0.store(true, Ordering::SeqCst);
    }
    fn wake_by_ref(self: &Arc<Self>) {
        self.0.store(true, Ordering::SeqCst);
    }
}

fn stype(s: u128) -> RecordType {
    RecordType::try_from(s as u8).expect("record type")
}

async fn run_script(
    req: &mut Request<'_, Reader, Writer>,
    script: Vec<u128>,
    ev: Arc<Mutex<Args>>,
    wake_flag: Arc<Flag>,
) -> io::Result<ExitStatus> {
    let push = |v: Vec<u128>| ev.lock().expect("ev").push(v);
    let mut i = 0;
    while i < script.len() {
        let a = |k: usize| script.get(i + k).copied().unwrap_or(0);
        match script[i] {
            1 => {
                let mut buf = vec![0u8; a(1) as usize];
                match req.read(&mut buf).await {
                    Ok(n) => {
                        push(vec![1, 1, n as u128]);
                        push(nums(&buf[..n]));
                    },
                    Err(e) => {
                        push(vec![1, 0, errkind(&e)]);
                        push(vec![]);
                    },
                }
                i += 2;
            },
            2 => {
                let mut all = Vec::new();
                let mut buf = [0u8; 64];
                let res = loop {
                    match req.read(&mut buf).await {
                        Ok(0) => break 0,
                        Ok(n) => all.extend_from_slice(&buf[..n]),
                        Err(e) => break errkind(&e),
                    }
                };
                push(vec![2, res]);
                push(nums(&all));
                i += 1;
            },
            3 => {
                match req.fill_buf().await {
                    Ok(b) => {
                        let seen = b.to_vec();
                        let k = (a(1) as usize).min(seen.len());
                        req.consume_unpin(k);
                        push(vec![3, 1, k as u128]);
                        push(nums(&seen));
                    },
                    Err(e) => {
                        push(vec![3, 0, errkind(&e)]);
                        push(vec![]);
                    },
                }
                i += 2;
            },
            4 => {
                req.set_stream(stype(a(1)));
                push(vec![4, req.active_stream().map_or(0, |t| u128::from(u8::from(t)))]);
                i += 2;
            },
            5 => {
                let r = req.writeable().await;
                push(vec![5, r.as_ref().map_or_else(errkind, |_| 0), u128::from(req.is_writeable()),
                          req.active_stream().map_or(0, |t| u128::from(u8::from(t)))]);
                i += 1;
            },
            6 => {
                let n = a(2) as usize;
                let data: Vec<u8> = script[i + 3..i + 3 + n].iter().map(|&x| x as u8).collect();
                if !req.is_writeable() {
                    push(vec![6, 99]);
                } else {
                    let mut w = req.output_stream(stype(a(1)));
                    assert_eq!(w.stream(), stype(a(1)), "StreamWriter::stream()");
                    if data.is_empty() {
                        // an empty write is answered at once (it never waits for the output lock) and writes nothing
                        assert!(matches!(w.write(&[]).await, Ok(0)), "an empty write must return Ok(0)");
                    }
                    let r = w.write_all(&data).await;
                    push(vec![6, r.as_ref().map_or_else(errkind, |_| 0)]);
                    if let Err(e) = r {
                        // a handler that propagates I/O errors
                        drop(w);
                        return Err(e);
                    }
                }
                i += 3 + n;
            },
            7 => {
                if req.is_writeable() {
                    let mut w = req.output_stream(stype(a(1)));
                    let r = w.flush().await;
                    if r.is_ok() {
                        // closing a StreamWriter neither writes nor waits: the stream is ended by Request::close alone
                        assert!(w.close().await.is_ok(), "StreamWriter::poll_close");
                    }
                    push(vec![7, r.as_ref().map_or_else(errkind, |_| 0)]);
                } else {
                    push(vec![7, 99]);
                }
                i += 2;
            },
            10 => {
                // req.read(&mut buf).await? : a handler that propagates read errors
                let mut buf = vec![0u8; a(1) as usize];
                match req.read(&mut buf).await {
                    Ok(n) => {
                        push(vec![1, 1, n as u128]);
                        push(nums(&buf[..n]));
                    },
                    Err(e) => {
                        push(vec![1, 0, errkind(&e)]);
                        push(vec![]);
                        return Err(e);
                    },
                }
                i += 2;
            },
            11 => {
                // poll a read ONCE; a pending read future is abandoned; then look at is_writeable()
                let mut buf = vec![0u8; a(1) as usize];
                let p = std::future::poll_fn(|cx| Poll::Ready(Pin::new(&mut *req).poll_read(cx, &mut buf))).await;
                let wr = u128::from(req.is_writeable());
                match p {
                    Poll::Ready(Ok(n)) => {
                        push(vec![11, 1, n as u128, wr]);
                        push(nums(&buf[..n]));
                    },
                    Poll::Ready(Err(e)) => {
                        push(vec![11, 0, errkind(&e), wr]);
                        push(vec![]);
                    },
                    Poll::Pending => {
                        // the wake-up that may have been requested belongs to the abandoned future
                        wake_flag.0.store(false, Ordering::SeqCst);
                        push(vec![11, 2, 0, wr]);
                        push(vec![]);
                    },
                }
                i += 2;
            },
            8 => {
                push(vec![8]);
                return Ok(exit_status(a(1), a(2)).expect("exit status"));
            },
            9 => {
                push(vec![9]);
                return Err(kind_of(a(1)).into());
            },
            _ => panic!("bad handler op"),
        }
    }
    push(vec![8]);
    Ok(ExitStatus::SUCCESS)
}

fn mk_handler(
    scripts: Vec<Vec<u128>>,
    ev2: Arc<Mutex<Args>>,
    polls: Arc<std::sync::atomic::AtomicUsize>,
    wake_flag: Arc<Flag>,
) -> impl for<'a, 'b> FnMut(&'a mut Request<'b, Reader, Writer>) -> BoxFuture<'a, io::Result<ExitStatus>> {
    let mut served = 0usize;
    move |req| {
        let script = if scripts.is_empty() { Vec::new() } else { scripts[served.min(scripts.len() - 1)].clone() };
        served += 1;
        let ev3 = ev2.clone();
        {
            let mut e = ev3.lock().expect("ev");
            e.push(vec![100, polls.load(Ordering::SeqCst) as u128]);
            // Request has no accessor for the id; role/flags/env are public
            let mut env: Vec<(Vec<u8>, Vec<u8>)> =
                req.env_iter().map(|(k, v)| (k.as_ref().as_bytes().to_vec(), v.to_vec())).collect();
            env.sort();
            // the async Request's accessors are thin wrappers: they must agree with the iteration
            assert_eq!(env.len(), req.env_len());
            for (k, v) in &env {
                let ks = std::str::from_utf8(k).expect("keys are strings");
                let name = fastcgi_server::cgi::VarName::new(ks);
                assert_eq!(req.get_var(name), Some(&v[..]));
                assert!(req.contains_var(name));
                assert_eq!(req.get_var_str(name), std::str::from_utf8(v).ok());
            }
            assert!(!req.contains_var(fastcgi_server::cgi::VarName::new("FV_NO_SUCH_VARIABLE")));
            e.push(vec![u128::from(u16::from(req.role())), u128::from(u8::from(req.flags())), env.len() as u128,
                        req.active_stream().map_or(0, |t| u128::from(u8::from(t))), u128::from(req.is_writeable())]);
            for (k, v) in env {
                e.push(nums(&k));
                e.push(nums(&v));
            }
        }
        Box::pin(run_script(req, script, ev3, wake_flag.clone()))
    }
}

/// req_new <cfg: B, max_conns, vectored, preselect, leak> <rscript> <wscript> <wire> <script>
/// (leak = 1: if the request is writeable when the handler returns, the application keeps one StreamWriter alive across
/// Request::close, which must then refuse - after its reading part, before writing anything - with an error of kind Other)
/// The embedding application does what Token::run does, by hand, through the public constructors: it parses the preamble with a
/// request::Parser (greedy reads, replies written at once), converts it, optionally selects a stream on the stream::Parser
/// (preselect != 0) BEFORE wrapping it with the public `Request::new`, runs the handler script, and calls `Request::close` itself.
/// observation: [outcome 0 returned / 1 suspended for good, polls, code], counters, log, events; first event [300, is_writeable() at
/// construction, active stream]; code: 10 close handed back a parser, 20 + kind close failed, 40 + kind the handler failed (no close)
fn req_new(a: &Args) -> Args {
    let cfgv = arg(a, 0);
    let g = |i: usize| cfgv.get(i).copied().unwrap_or(0);
    let cfg = config(g(0) as usize, g(1).max(1) as usize);
    let wire = bytes(&arg(a, 3));
    let script = arg(a, 4);
    let mut rp = fastcgi_server::parser::request::Parser::new(&cfg);
    let mut out = Vec::new();
    let (done, unfed) = crate::reqp::feed(&mut rp, &wire, &[], &mut out);
    if !done {
        return vec![vec![3]];
    }
    let Ok(mut sp) = rp.into_stream_parser() else { return vec![vec![3]] };
    if g(3) != 0 && sp.set_stream(Some(stype(g(3)))).is_err() {
        return vec![vec![3]];
    }
    let rest = wire[wire.len() - unfed..].to_vec();
    let consumed0 = wire.len() - unfed;
    let world = Arc::new(Mutex::new(World {
        rscript: arg(a, 1), ri: 0, wscript: arg(a, 2), wi: 0, segs: vec![(0, 0, rest.len())], seg_i: 0, seg_off: 0,
        wire: rest, pos: 0, wlog: out, blocked: false, vectored: g(2) != 0, eof_reads: 0,
    }));
    let ev: Arc<Mutex<Args>> = Arc::new(Mutex::new(Vec::new()));
    let mut head: Vec<u128> = Vec::new();
    let r = catch_unwind(AssertUnwindSafe(|| {
        let flag = Arc::new(Flag(AtomicBool::new(false)));
        let waker = Waker::from(flag.clone());
        let mut cx = Context::from_waker(&waker);
        let (ev2, flag2, world2) = (ev.clone(), flag.clone(), world.clone());
        let leak = g(4) != 0;
        let mut task: Pin<Box<dyn Future<Output = u128> + '_>> = Box::pin(async move {
            let mut req = Request::new(sp, Reader(world2.clone()), Writer(world2.clone()));
            ev2.lock().expect("ev").push(vec![300, u128::from(req.is_writeable()), req.active_stream().map_or(0, |t| u128::from(u8::from(t)))]);
            match run_script(&mut req, script, ev2.clone(), flag2).await {
                Ok(status) => {
                    let leaked = if leak && req.is_writeable() { Some(req.output_stream(RecordType::Stdout)) } else { None };
                    let code = match req.close(status).await {
                        Ok(_) => 10,
                        Err(e) => 20 + errkind(&e),
                    };
                    drop(leaked);
                    code
                },
                Err(e) => 40 + errkind(&e),
            }
        });
        let mut polls: u128 = 0;
        loop {
            polls += 1;
            flag.0.store(false, Ordering::SeqCst);
            world.lock().expect("world").blocked = false;
            if let Poll::Ready(code) = task.as_mut().poll(&mut cx) {
                head = vec![0, polls, code];
                break;
            }
            if !flag.0.load(Ordering::SeqCst) {
                head = vec![1, polls];
                break;
            }
        }
    }));
    if r.is_err() {
        head = vec![PANIC];
    }
    let w = world.lock().unwrap_or_else(|e| e.into_inner());
    let mut res = vec![head, vec![(consumed0 + w.pos) as u128, w.ri.min(w.rscript.len()) as u128, w.wi.min(w.wscript.len()) as u128], nums(&w.wlog)];
    res.extend(ev.lock().unwrap_or_else(|e| e.into_inner()).iter().cloned());
    res
}

/// flush_fault <variant, fail_at>: the transport's poll_flush fails (the place where buffering transports report failed writes) at its
/// fail_at-th call; the handler does not drop the writer at once but goes on: variant 0 writes a note through ANOTHER StreamWriter,
/// 1 writes again through the SAME writer, 2 reads its input (a management record is waiting, its reply needs the output lock),
/// 3 returns the error at once, 4 reads ALL its input with the writers alive (the management reply must reach the transport); variant 5: instead of a flush fault the fail_at-th poll_write reports the transient Interrupted and the handler retries on the same writer (the wire must be the same as without the fault).  Harness-side assertion: the connection task ends (no hang on the output lock, no panic);
/// observation [1].  The scripted world of conn_run has no flush faults (the model's flush never fails), hence this separate mode.
static RETRIED: AtomicUsize = AtomicUsize::new(0);

fn flush_fault(a: &Args) -> Args {
    RETRIED.store(0, Ordering::SeqCst);
    struct FlushFail {
        calls: usize,
        fail_at: usize,
        log: Arc<Mutex<Vec<u8>>>,
        wcalls: usize,
        wfail_at: usize,          // variant 5: this poll_write call reports the transient Interrupted (nothing accepted)
    }
    impl AsyncWrite for FlushFail {
        fn poll_write(mut self: Pin<&mut Self>, _: &mut Context, b: &[u8]) -> Poll<io::Result<usize>> {
            self.wcalls += 1;
            if self.wcalls == self.wfail_at {
                return Poll::Ready(Err(io::ErrorKind::Interrupted.into()));
            }
            // (variant 5 accepts 3 bytes per call so that the fault can fall anywhere inside a record)
            let n = if self.wfail_at != 0 { b.len().min(3) } else { b.len() };
            self.log.lock().expect("log").extend_from_slice(&b[..n]);
            Poll::Ready(Ok(n))
        }
        fn poll_flush(mut self: Pin<&mut Self>, _: &mut Context) -> Poll<io::Result<()>> {
            self.calls += 1;
            if self.calls == self.fail_at {
                Poll::Ready(Err(io::ErrorKind::BrokenPipe.into()))
            } else {
                Poll::Ready(Ok(()))
            }
        }
        fn poll_close(self: Pin<&mut Self>, _: &mut Context) -> Poll<io::Result<()>> {
            Poll::Ready(Ok(()))
        }
    }
    struct Once(Vec<u8>, usize);
    impl AsyncRead for Once {
        fn poll_read(mut self: Pin<&mut Self>, _: &mut Context, buf: &mut [u8]) -> Poll<io::Result<usize>> {
            let n = buf.len().min(self.0.len() - self.1);
            if n == 0 {
                return Poll::Pending;             // the client waits for the response
            }
            let p = self.1;
            buf[..n].copy_from_slice(&self.0[p..p + n]);
            self.1 += n;
            Poll::Ready(Ok(n))
        }
    }
    fn mk(variant: u128, fail_at: usize) -> impl for<'a, 'b> FnMut(&'a mut Request<'b, Once, FlushFail>) -> BoxFuture<'a, io::Result<ExitStatus>> {
        move |req| {
            Box::pin(async move {
                let mut out = req.output_stream(RecordType::Stdout);
                let mut errw = req.output_stream(RecordType::Stderr);
                if variant == 5 {
                    // a handler that retries transient errors on the SAME writer, as std::io::Write::write_all does for Interrupted
                    for (k, data) in [&b"hello world!"[..], &b"warn"[..], &b"bye"[..]].iter().enumerate() {
                        let w = if k == 1 { &mut errw } else { &mut out };
                        let mut pos = 0;
                        while pos < data.len() {
                            match w.write(&data[pos..]).await {
                                Ok(n) => pos += n,
                                Err(e) if e.kind() == io::ErrorKind::Interrupted => { RETRIED.fetch_add(1, Ordering::SeqCst); continue },
                                Err(e) => return Err(e),
                            }
                        }
                    }
                    drop(out);
                    drop(errw);
                    return Ok(ExitStatus::SUCCESS);
                }
                out.write_all(b"hello").await?;
                let mut first: Option<io::Error> = None;
                for _ in 0..fail_at {
                    if let Err(e) = out.flush().await {
                        first = Some(e);
                        break;
                    }
                }
                let Some(e) = first else { return Ok(ExitStatus::SUCCESS) };
                match variant {
                    0 => { let _ = errw.write_all(b"flush failed").await; },
                    1 => { let _ = out.write_all(b"again").await; },
                    2 => { let mut buf = [0u8; 16]; let _ = req.read(&mut buf).await; },
                    // reads ALL its input with both writers still alive: the management query behind the first stdin record must be
                    // answered on the way (C08: "once the running handler reads input")
                    4 => { let mut v = Vec::new(); let _ = req.read_to_end(&mut v).await; assert_eq!(v, b"abc", "stdin content"); },
                    _ => {},
                }
                drop(out);
                drop(errw);
                Err(e)
            })
        }
    }
    let cfgv = arg(a, 0);
    let variant = cfgv.first().copied().unwrap_or(0);
    let fail_at = (cfgv.get(1).copied().unwrap_or(1) as usize).max(1);
    // BeginRequest(id 1, Responder, KeepConn) + empty Params + Stdin "abc" + GetValues(FCGI_MPXS_CONNS) + empty Stdin
    let mut wire = vec![1u8, 1, 0, 1, 0, 8, 0, 0, 0, 1, 1, 0, 0, 0, 0, 0, 1, 4, 0, 1, 0, 0, 0, 0, 1, 5, 0, 1, 0, 3, 0, 0, 97, 98, 99];
    wire.extend_from_slice(&[1, 9, 0, 0, 0, 17, 0, 0, 15, 0]);
    wire.extend_from_slice(b"FCGI_MPXS_CONNS");
    wire.extend_from_slice(&[1, 5, 0, 1, 0, 0, 0, 0]);
    if variant == 5 {
        wire[10] = 0;          // no KeepConn: the handler returns a status, the request is closed and the connection ends
    }
    let log = Arc::new(Mutex::new(Vec::new()));
    let r = catch_unwind(AssertUnwindSafe(|| {
        let flag = Arc::new(Flag(AtomicBool::new(false)));
        let waker = Waker::from(flag.clone());
        let mut cx = Context::from_waker(&waker);
        let runner = config(256, 1).async_runner();
        let token = {
            let fut = runner.get_token();
            futures_util::pin_mut!(fut);
            match fut.poll(&mut cx) {
                Poll::Ready(t) => t,
                Poll::Pending => panic!("no token"),
            }
        };
        let handler = mk(variant, fail_at);
        let mut task: Pin<Box<dyn Future<Output = ()>>> =
            Box::pin(token.run(Once(wire.clone(), 0), FlushFail { calls: 0, fail_at: if variant == 5 { usize::MAX } else { fail_at }, log: log.clone(), wcalls: 0,
                                        wfail_at: if variant == 5 { fail_at } else { 0 } }, handler));
        let mut polls = 0;
        loop {
            polls += 1;
            flag.0.store(false, Ordering::SeqCst);
            if task.as_mut().poll(&mut cx).is_ready() {
                break;
            }
            assert!(flag.0.load(Ordering::SeqCst), "after a failed flush the connection task is suspended and nobody will wake it (it waits for the output lock)");
            assert!(polls < 10_000, "the connection task spins after a failed flush");
        }
        if variant == 5 {
            // the transient error must be invisible on the wire: the same bytes as without it (reference: the fault far away)
            let reflog = Arc::new(Mutex::new(Vec::new()));
            let rrunner = config(256, 1).async_runner();
            let rtoken = {
                let fut = rrunner.get_token();
                futures_util::pin_mut!(fut);
                match fut.poll(&mut cx) {
                    Poll::Ready(t) => t,
                    Poll::Pending => panic!("no token"),
                }
            };
            let mut rtask: Pin<Box<dyn Future<Output = ()>>> = Box::pin(rtoken.run(Once(wire.clone(), 0),
                FlushFail { calls: 0, fail_at: usize::MAX, log: reflog.clone(), wcalls: 0, wfail_at: usize::MAX }, mk(5, 1)));
            let mut n = 0;
            while rtask.as_mut().poll(&mut cx).is_pending() {
                n += 1;
                assert!(n < 10_000, "reference run does not end");
            }
            let (l, r) = (log.lock().expect("log"), reflog.lock().expect("log"));
            if RETRIED.load(Ordering::SeqCst) > 0 {
                assert_eq!(*l, *r, "a transient write error that the handler retried changed the bytes on the wire");
            } else {
                // the fault hit a write of the connection task itself (management reply, epilogue): the connection is dropped there
                assert!(r.starts_with(&l), "after a write error outside the handler the wire is not a prefix of the undisturbed output");
            }
        }
        if variant == 4 {
            let l = log.lock().expect("log");
            let needle: &[u8] = b"FCGI_MPXS_CONNS";
            assert!(l.windows(needle.len()).any(|w| w == needle), "the handler read its input to the end but the management query was never answered");
        }
    }));
    if r.is_err() { vec![vec![PANIC]] } else { vec![vec![1]] }
}

fn conn_run(a: &Args) -> Args {
    let cfgv = arg(a, 0);
    let g = |i: usize| cfgv.get(i).copied().unwrap_or(0);
    let cfg = config(g(0) as usize, g(1).max(1) as usize);
    let stop_at = g(3);
    let segt = arg(a, 3);
    let segs: Vec<(u128, u128, usize)> = segt.chunks(3).map(|c| (c[0], c[1], c[2] as usize)).collect();
    let world = Arc::new(Mutex::new(World {
        rscript: arg(a, 1), ri: 0, wscript: arg(a, 2), wi: 0, segs, seg_i: 0, seg_off: 0,
        wire: bytes(&arg(a, 4)), pos: 0, wlog: Vec::new(), blocked: false, vectored: g(2) != 0, eof_reads: 0,
    }));
    let scripts: Vec<Vec<u128>> = a.iter().skip(5).cloned().collect();
    let ev: Arc<Mutex<Args>> = Arc::new(Mutex::new(Vec::new()));

    let mut head: Vec<u128> = Vec::new();
    let mut shutdown_obs: Vec<u128> = Vec::new();
    let r = catch_unwind(AssertUnwindSafe(|| {
        let flag = Arc::new(Flag(AtomicBool::new(false)));
        let waker = Waker::from(flag.clone());
        let mut cx = Context::from_waker(&waker);
        let mut runner = Some(cfg.clone().async_runner());
        let token = {
            let fut = runner.as_ref().expect("runner").get_token();
            futures_util::pin_mut!(fut);
            match fut.poll(&mut cx) {
                Poll::Ready(t) => t,
                Poll::Pending => panic!("no token"),
            }
        };
        let pollc = Arc::new(std::sync::atomic::AtomicUsize::new(0));
        let handler = mk_handler(scripts, ev.clone(), pollc.clone(), flag.clone());
        let mut task: Option<Pin<Box<dyn Future<Output = ()>>>> =
            Some(Box::pin(token.run(Reader(world.clone()), Writer(world.clone()), handler)));
        let mut shutdown_fut = None;
        let mut early_ready = false;
        let probe_waker = Waker::from(Arc::new(Flag(AtomicBool::new(false))));
        let mut probe_cx = Context::from_waker(&probe_waker);
        let mut polls: u128 = 0;
        let outcome;
        loop {
            if stop_at != 0 && polls + 1 == stop_at && shutdown_fut.is_none() {
                shutdown_fut = Some(Box::pin(runner.take().expect("runner").shutdown()));
            }
            polls += 1;
            pollc.store(polls as usize, Ordering::SeqCst);
            flag.0.store(false, Ordering::SeqCst);
            world.lock().expect("world").blocked = false;
            let res = task.as_mut().expect("task").as_mut().poll(&mut cx);
            if res.is_ready() {
                outcome = 0;
                break;
            }
            // the connection is still being served: a shutdown requested meanwhile must not complete yet
            if let Some(f) = shutdown_fut.as_mut() {
                if !early_ready && f.as_mut().poll(&mut probe_cx).is_ready() {
                    early_ready = true;
                    shutdown_fut = None;
                }
            }
            if flag.0.load(Ordering::SeqCst) {
                continue;
            }
            // not woken: the task waits for the client; an idle connection is woken by shutdown
            if stop_at != 0 && shutdown_fut.is_none() {
                shutdown_fut = Some(Box::pin(runner.take().expect("runner").shutdown()));
                if flag.0.load(Ordering::SeqCst) {
                    continue;
                }
            }
            outcome = 1;
            break;
        }
        // dropping the task drops the token
        let mut fut = match shutdown_fut {
            Some(f) => {
                // shutdown was requested while the connection was live: Pending until the token is gone
                let mut f = f;
                let before = if task.is_some() && outcome == 1 { u128::from(f.as_mut().poll(&mut cx).is_ready()) } else { 2 };
                shutdown_obs.push(before);
                task = None;
                f
            },
            None if early_ready => {
                // the shutdown future completed while the connection task was alive
                task = None;
                shutdown_obs.push(1);
                Box::pin(fastcgi_server::Config::new().async_runner().shutdown())
            },
            None => {
                task = None;
                shutdown_obs.push(2);
                Box::pin(runner.take().expect("runner").shutdown())
            },
        };
        drop(task);
        shutdown_obs.push(u128::from(fut.as_mut().poll(&mut cx).is_ready()));
        head = vec![outcome, polls];
    }));
    if r.is_err() {
        head = vec![PANIC];
    }
    let w = world.lock().unwrap_or_else(|e| e.into_inner());
    let mut res = vec![head, vec![w.pos as u128, w.ri.min(w.rscript.len()) as u128, w.wi.min(w.wscript.len()) as u128], nums(&w.wlog)];
    res.extend(ev.lock().unwrap_or_else(|e| e.into_inner()).iter().cloned());
    res.push(vec![200]);
    res.push(shutdown_obs);
    let _ = req_obs;
    res
}

// ------------------------------------------------------------------------------------------------
// writers mode (C10): several StreamWriters (and the request's own reply flushing) polled in a
// scripted order inside one handler, over a transport that splits / delays writes.
//
// writers <cfg> <wscript> <order> <wire> <writer>...
//   cfg    = [buffer_size, max_conns, vectored]
//   order  = per step: index of the writer to poll once, or 99 = poll the request's read side once
//            (which flushes pending parser replies through the same lock); afterwards round-robin
//   wire   = bytes the client sends (one ungated segment; then the client stays silent)
//   writer = [stream type, clone_of (999 = fresh output_stream, else index of an earlier writer), data...]
// observation: [outcome, polls], transport log, per step [index, 0 pending / 1 ready / 2 already done / 3 error]
// ------------------------------------------------------------------------------------------------
pub fn dispatch_writers(mode: &str, a: &Args) -> Option<Args> {
    if mode == "writers" { Some(writers(a)) } else { None }
}

type WFut = Pin<Box<dyn Future<Output = io::Result<()>> + Send>>;

fn writers(a: &Args) -> Args {
    let res = writers_run(a, false);
    if res.first().map_or(false, |h| h.first() == Some(&0)) {
        // the same case once more under a WAKE-DRIVEN schedule after the scripted steps: a participant is polled again only when its own
        // waker has fired.  Pure liveness assertion (nothing of this run is compared with the model): every writer finishes and a
        // reply owed by the request is flushed; otherwise a wake-up was lost (lock hand-over or transport readiness).
        let second = writers_run(a, true);
        if second.first().map_or(true, |h| h.first() != Some(&0)) {
            return vec![vec![PANIC]];
        }
    }
    res
}

fn writers_run(a: &Args, wake_driven: bool) -> Args {
    use fastcgi_server::async_io::StreamWriter;
    let cfgv = arg(a, 0);
    let g = |i: usize| cfgv.get(i).copied().unwrap_or(0);
    let cfg = config(g(0) as usize, g(1).max(1) as usize);
    let wire = bytes(&arg(a, 3));
    let world = Arc::new(Mutex::new(World {
        rscript: Vec::new(), ri: 0, wscript: arg(a, 1), wi: 0,
        segs: vec![(0, 0, wire.len()), (99, 0, 8)], seg_i: 0, seg_off: 0,
        wire: { let mut w = wire.clone(); w.extend_from_slice(&[1, 1, 0, 9, 0, 8, 0, 0]); w }, pos: 0,
        wlog: Vec::new(), blocked: false, vectored: g(2) != 0, eof_reads: 0,
    }));
    let order = arg(a, 2);
    let specs: Vec<Vec<u128>> = a.iter().skip(4).cloned().collect();
    let steps: Arc<Mutex<Args>> = Arc::new(Mutex::new(Vec::new()));
    let mut head: Vec<u128> = Vec::new();
    let r = catch_unwind(AssertUnwindSafe(|| {
        let flag = Arc::new(Flag(AtomicBool::new(false)));
        let waker = Waker::from(flag.clone());
        let mut cx = Context::from_waker(&waker);
        let runner = cfg.clone().async_runner();
        let token = {
            let fut = runner.get_token();
            futures_util::pin_mut!(fut);
            match fut.poll(&mut cx) {
                Poll::Ready(t) => t,
                Poll::Pending => panic!("no token"),
            }
        };
        let has_query = {
            // a GetValues record (type 9, id 0) with a non-empty body among the client's records
            let (mut k, mut q) = (0usize, false);
            while k + 8 <= wire.len() {
                let clen = usize::from(wire[k + 4]) * 256 + usize::from(wire[k + 5]);
                if wire[k + 1] == 9 && wire[k + 2] == 0 && wire[k + 3] == 0 && clen > 0 {
                    q = true;
                }
                k += 8 + clen + usize::from(wire[k + 6]);
            }
            q
        };
        let handler = mk_writers_handler(specs, order, steps.clone(), wake_driven, has_query, world.clone());
        let mut task: Pin<Box<dyn Future<Output = ()>>> =
            Box::pin(token.run(Reader(world.clone()), Writer(world.clone()), handler));
        let mut polls: u128 = 0;
        let outcome;
        loop {
            polls += 1;
            flag.0.store(false, Ordering::SeqCst);
            if task.as_mut().poll(&mut cx).is_ready() {
                outcome = 0;
                break;
            }
            if !flag.0.load(Ordering::SeqCst) || polls > 100_000 {
                outcome = 1;
                break;
            }
        }
        head = vec![outcome, polls];
        let _: Option<StreamWriter<Writer>> = None;
    }));
    if r.is_err() {
        head = vec![PANIC];
    }
    let w = world.lock().unwrap_or_else(|e| e.into_inner());
    let mut res = vec![head, nums(&w.wlog)];
    res.extend(steps.lock().unwrap_or_else(|e| e.into_inner()).iter().cloned());
    res
}

fn mk_writers_handler(
    specs: Vec<Vec<u128>>,
    order: Vec<u128>,
    steps: Arc<Mutex<Args>>,
    wake_driven: bool,
    has_query: bool,
    world: Arc<Mutex<World>>,
) -> impl for<'a, 'b> FnMut(&'a mut Request<'b, Reader, Writer>) -> BoxFuture<'a, io::Result<ExitStatus>> {
    move |req| {
        let specs = specs.clone();
        let order = order.clone();
        let steps = steps.clone();
        let world = world.clone();
        Box::pin(async move {
            // build the writers (clones share everything but their per-record state) and their write_all futures
            let mut ws: Vec<Option<fastcgi_server::async_io::StreamWriter<Writer>>> = Vec::new();
            for s in &specs {
                let st = stype(s[0]);
                let w = if s.get(1).copied().unwrap_or(999) == 999 {
                    req.output_stream(st)
                } else {
                    // a clone writes to the same stream as its original
                    ws[s[1] as usize].as_ref().expect("original").clone()
                };
                ws.push(Some(w));
            }
            let mut futs: Vec<Option<WFut>> = Vec::new();
            for (i, s) in specs.iter().enumerate() {
                let mut w = ws[i].take().expect("writer");
                let data: Vec<u8> = s.iter().skip(2).map(|&x| x as u8).collect();
                futs.push(Some(Box::pin(async move {
                    let r = w.write_all(&data).await;
                    drop(w);
                    r
                })));
            }
            let mut oi = 0usize;
            let mut rr = 0usize;
            let mut idle_rounds = 0usize;
            let mut err: Option<io::Error> = None;
            if wake_driven {
                // participants 0..n-1 = writers, n = the request's read side; each has its own waker
                let n = futs.len();
                let flags: Vec<Arc<Flag>> = (0..=n).map(|_| Arc::new(Flag(AtomicBool::new(false)))).collect();
                let wakers: Vec<Waker> = flags.iter().map(|f| Waker::from(f.clone())).collect();
                let mut request_polled = false;
                let mut failed = false;
                let mut poll_one = |idx: usize, futs: &mut Vec<Option<WFut>>, req: &mut Request<'_, Reader, Writer>, failed: &mut bool, request_polled: &mut bool| {
                    flags[idx].0.store(false, Ordering::SeqCst);
                    let mut pcx = Context::from_waker(&wakers[idx]);
                    if idx == n {
                        *request_polled = true;
                        let mut buf = [0u8; 4];
                        if let Poll::Ready(Err(_)) = Pin::new(&mut *req).poll_read(&mut pcx, &mut buf) {
                            *failed = true;
                        }
                    } else if let Some(f) = futs[idx].as_mut() {
                        match f.as_mut().poll(&mut pcx) {
                            Poll::Pending => {},
                            Poll::Ready(Ok(())) => futs[idx] = None,
                            Poll::Ready(Err(_)) => {
                                futs[idx] = None;
                                *failed = true;
                            },
                        }
                    }
                };
                for &o in &order {
                    let idx = if o == 99 { n } else { o as usize };
                    if idx <= n {
                        poll_one(idx, &mut futs, req, &mut failed, &mut request_polled);
                    }
                }
                // every participant that was never polled gets its first poll; afterwards only wake-ups count
                for idx in 0..n {
                    poll_one(idx, &mut futs, req, &mut failed, &mut request_polled);
                }
                let mut rounds = 0usize;
                while let Some(idx) = (0..=n).find(|&i| flags[i].0.load(Ordering::SeqCst)) {
                    rounds += 1;
                    assert!(rounds < 2_000_000, "writers (wake-driven): no termination");
                    poll_one(idx, &mut futs, req, &mut failed, &mut request_polled);
                }
                if !failed {
                    assert!(futs.iter().all(Option::is_none), "a writer is suspended and nobody will wake it: lost wake-up");
                    if has_query && request_polled {
                        let w = world.lock().expect("world");
                        let mut k = 0usize;
                        let mut replied = false;
                        while k + 8 <= w.wlog.len() {
                            if w.wlog[k + 1] == 10 {
                                replied = true;
                            }
                            k += 8 + usize::from(w.wlog[k + 4]) * 256 + usize::from(w.wlog[k + 5]) + usize::from(w.wlog[k + 6]);
                        }
                        assert!(replied, "the request owes a management reply, is suspended, and nobody will wake it: lost wake-up");
                    }
                }
                drop(futs);
                return Ok(ExitStatus::SUCCESS);
            }
            std::future::poll_fn(|cx| {
                let n = futs.len();
                if futs.iter().all(Option::is_none) {
                    return Poll::Ready(());
                }
                idle_rounds += 1;
                assert!(idle_rounds < 200_000, "writers: no termination");
                let idx = if oi < order.len() {
                    oi += 1;
                    order[oi - 1] as usize
                } else {
                    // round-robin over all writers and the request's read side
                    rr += 1;
                    let k = (rr - 1) % (n + 1);
                    if k == n { 99 } else { k }
                };
                let code = if idx == 99 {
                    let mut buf = [0u8; 4];
                    match Pin::new(&mut *req).poll_read(cx, &mut buf) {
                        Poll::Pending => 0,
                        Poll::Ready(Ok(_)) => 1,
                        Poll::Ready(Err(_)) => 3,
                    }
                } else if idx < n {
                    match futs[idx].as_mut() {
                        None => 2,
                        Some(f) => match f.as_mut().poll(cx) {
                            Poll::Pending => 0,
                            Poll::Ready(Ok(())) => {
                                futs[idx] = None;
                                1
                            },
                            Poll::Ready(Err(e)) => {
                                futs[idx] = None;
                                err = Some(e);
                                3
                            },
                        },
                    }
                } else {
                    2
                };
                steps.lock().expect("steps").push(vec![idx as u128, code]);
                cx.waker().wake_by_ref();
                Poll::Pending
            }).await;
            drop(futs);
            match err {
                Some(e) => Err(e),
                None => Ok(ExitStatus::SUCCESS),
            }
        })
    }
}
