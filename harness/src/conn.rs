//! (stub) modes of this area are added here; see main.rs for the calling convention.
use crate::Args;

pub fn dispatch(_mode: &str, _a: &Args) -> Option<Args> {
    None
}
