//! Request-parser modes (C01, C03, C04, C05, C06): drives the real `request::Parser` with the
//! same schedule interpreter as coq/Extract/RunsReq.v.
use crate::proto::config;
use crate::{arg, argn, bytes, nums, Args};
use fastcgi_server::cgi::VarName;
use fastcgi_server::parser::{self, request};

pub fn dispatch(mode: &str, a: &Args) -> Option<Args> {
    Some(match mode {
        "req_run" => req_run(a),
        "bufsize" => bufsize(a),
        "lossy" => lossy(a),
        _ => return None,
    })
}

pub fn perr_code(e: &parser::Error) -> Vec<u128> {
    use parser::Error::*;
    match e {
        Paniced => vec![1],
        StuckOnInput => vec![2],
        Interrupted => vec![3],
        UnknownVersion(v) => vec![4, u128::from(*v)],
        InvalidRequestLen(l) => vec![5, u128::from(*l)],
        NullRequest => vec![6],
        AbortRequest => vec![7],
        Protocol(_) => vec![8],
        _ => vec![9],
    }
}

/// canonical observation of a parsed request: [id, role, flags, n] then sorted (key, value) pairs.
/// Also asserts that every key is found again through a lower-cased spelling (C01/C19).
pub fn req_obs(r: &parser::Request) -> Args {
    let mut env: Vec<(Vec<u8>, Vec<u8>)> =
        r.env_iter().map(|(k, v)| (k.as_ref().as_bytes().to_vec(), v.to_vec())).collect();
    env.sort();
    assert_eq!(env.len(), r.env_len());
    assert_eq!(r.env_iter().len(), r.env_len(), "EnvIter is an ExactSizeIterator");
    for (k, v) in &env {
        let ks = std::str::from_utf8(k).expect("keys are strings");
        let lower = ks.to_ascii_lowercase();
        assert_eq!(r.get_var(VarName::new(&lower)), Some(&v[..]), "case-insensitive lookup failed");
        assert!(r.contains_var(VarName::new(ks)));
        assert_eq!(r.get_var_str(VarName::new(ks)), std::str::from_utf8(v).ok(), "get_var_str is get_var + UTF-8 validation");
    }
    assert!(!r.contains_var(VarName::new("FV_NO_SUCH_VARIABLE")) && r.get_var(VarName::new("FV_NO_SUCH_VARIABLE")).is_none());
    let mut out = vec![vec![
        u128::from(r.request_id.get()),
        u128::from(u16::from(r.role)),
        u128::from(u8::from(r.flags)),
        env.len() as u128,
    ]];
    for (k, v) in env {
        out.push(nums(&k));
        out.push(nums(&v));
    }
    out
}

/// Same schedule interpreter as `feed` in RunsReq.v.  Returns (done, unfed, output).
pub fn feed(p: &mut request::Parser, wire: &[u8], sched: &[u128], out: &mut Vec<u8>) -> (bool, usize) {
    let mut pos = 0usize;
    let mut si = 0usize;
    loop {
        // a clone is the same parser: every other call goes to a clone of the parser as it stands, the original is dropped
        if si % 2 == 1 {
            let c = p.clone();
            *p = c;
        }
        let space = p.input_buffer().len();
        let avail = space.min(wire.len() - pos);
        let n = if si < sched.len() { (sched[si] as usize).min(avail) } else { avail };
        if si >= sched.len() && n == 0 {
            return (false, wire.len() - pos);
        }
        p.input_buffer()[..n].copy_from_slice(&wire[pos..pos + n]);
        pos += n;
        si += 1;
        let y = p.parse(n);
        out.extend_from_slice(y.output);
        if y.done {
            return (true, wire.len() - pos);
        }
    }
}

fn req_run(a: &Args) -> Args {
    let cfg = config(argn(a, 0) as usize, argn(a, 1) as usize);
    let wire = bytes(&arg(a, 2));
    let sched = arg(a, 3);
    let mut p = request::Parser::new(&cfg);
    let mut out = Vec::new();
    let (done, unfed) = feed(&mut p, &wire, &sched, &mut out);
    let space = p.input_buffer().len();
    let mut res = vec![vec![u128::from(done), unfed as u128, space as u128]];
    let mut again = Vec::new();
    if done {
        let mut q = p.clone();
        let y1 = q.parse(0);
        let (d1, o1) = (y1.done, y1.output.len());
        let y2 = q.parse(0);
        let (d2, o2) = (y2.done, y2.output.len());
        again.push(vec![u128::from(d1), o1 as u128, u128::from(d2), o2 as u128, q.input_buffer().len() as u128]);
        // the result after the extra calls must be the same as before them
        let r1 = format!("{:?}", q.into_request().map_err(|e| perr_code(&e)));
        let r0 = format!("{:?}", p.clone().into_request().map_err(|e| perr_code(&e)));
        assert_eq!(r0, r1, "parse() after done changed the result");
        // a driver that drains its socket into the parser before looking at `done`: bytes reported to parse() after the
        // request is complete must end up, in order, at the end of the leftover (C05)
        let mut q = p.clone();
        let before = q.clone().into_request().map(|(_, left)| left.to_vec());
        let rest = &wire[wire.len() - unfed..];
        let n = q.input_buffer().len().min(rest.len()).min(7);
        q.input_buffer()[..n].copy_from_slice(&rest[..n]);
        let y = q.parse(n);
        assert!(y.done && y.output.is_empty(), "parse() after done must report done again and emit nothing");
        if let (Ok(mut b), Ok((_, after))) = (before, q.into_request()) {
            b.extend_from_slice(&rest[..n]);
            assert_eq!(&b[..], &after[..], "input fed after the request was complete is not the tail of the leftover");
        }
    }
    match p.into_request() {
        Ok((r, left)) => {
            res.push(vec![1]);
            res.extend(req_obs(&r));
            res.push(nums(&left));
        },
        Err(e) => {
            let mut v = vec![2];
            v.extend(perr_code(&e));
            res.push(v);
        },
    }
    res.push(nums(&out));
    res.extend(again);
    res
}

fn bufsize(a: &Args) -> Args {
    let cfg = config(argn(a, 0) as usize, 1);
    let mut p = request::Parser::new(&cfg);
    let n = p.input_buffer().len();
    // the second public constructor that allocates a buffer, stream::Parser::new, must size it the same way, and the request
    // parser it is later converted into (connection reuse) must offer that same buffer
    let small = config(64, 1);
    let mut q = request::Parser::new(&small);
    let wire = [1u8, 1, 0, 1, 0, 8, 0, 0, 0, 1, 1, 0, 0, 0, 0, 0, 1, 4, 0, 1, 0, 0, 0, 0];
    q.input_buffer()[..wire.len()].copy_from_slice(&wire);
    let y = q.parse(wire.len());
    assert!(y.done, "minimal preamble");
    let (req, _) = q.into_request().expect("request");
    let mut sp = fastcgi_server::parser::stream::Parser::new(&cfg, req);
    assert_eq!(sp.input_buffer().len(), n, "stream::Parser::new sizes its buffer differently from request::Parser::new");
    let mut rp = sp.into_request_parser().expect("a fresh stream parser stands at a record boundary");
    assert_eq!(rp.input_buffer().len(), n, "the request parser converted from stream::Parser::new has a different buffer");
    vec![vec![n as u128]]
}

/// the key normalisation of make_cgivar, observed through the public API: a one-pair request
fn lossy(a: &Args) -> Args {
    let name = bytes(&arg(a, 0));
    let cfg = config(name.len() + 64, 1);
    let mut wire = fastcgi_server::protocol::body::BeginRequest {
        role: fastcgi_server::protocol::Role::Responder,
        flags: 0.into(),
    }.to_record(1).to_vec();
    let mut body = Vec::new();
    fastcgi_server::protocol::nv::write((&name, b"v"), &mut body).expect("nv write");
    for chunk in [&body[..], &[][..]] {
        let mut h = fastcgi_server::protocol::RecordHeader::new(fastcgi_server::protocol::RecordType::Params, 1);
        h.content_length = chunk.len() as u16;
        wire.extend_from_slice(&h.to_bytes());
        wire.extend_from_slice(chunk);
    }
    let mut p = request::Parser::new(&cfg);
    let mut out = Vec::new();
    let (done, _) = feed(&mut p, &wire, &[], &mut out);
    assert!(done);
    let (r, _) = p.into_request().expect("request");
    let keys: Vec<Vec<u8>> = r.env_iter().map(|(k, _)| k.as_ref().as_bytes().to_vec()).collect();
    assert_eq!(keys.len(), 1);
    vec![nums(&keys[0])]
}
