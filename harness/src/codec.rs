//! Codec modes: VarInt (C15).
use crate::{arg, argn, bytes, nums, Args};
use fastcgi_server::protocol::varint::VarInt;

pub fn dispatch(mode: &str, a: &Args) -> Option<Args> {
    Some(match mode {
        "vi_read" => vi_read(a),
        "vi_write" => vi_write(a),
        "vi_try" => vi_try(a),
        _ => return None,
    })
}

pub fn vi_read(a: &Args) -> Args {
    let d = bytes(&arg(a, 0));
    let mut cur = &d[..];
    match VarInt::read(&mut cur) {
        Ok(v) => vec![vec![1], vec![u128::from(u32::from(v))], nums(cur)],
        Err(e) => {
            assert_eq!(e.kind(), std::io::ErrorKind::UnexpectedEof);
            vec![vec![0]]
        },
    }
}

pub fn vi_write(a: &Args) -> Args {
    let x = argn(a, 0);
    let Ok(x32) = u32::try_from(x) else { return vec![vec![0]] };
    match VarInt::try_from(x32) {
        Err(_) => vec![vec![0]],
        Ok(v) => {
            let mut buf = Vec::new();
            let n = v.write(&mut buf).expect("Vec write");
            assert_eq!(n, buf.len(), "VarInt::write reported a wrong byte count");
            vec![vec![1], nums(&buf)]
        },
    }
}

pub fn vi_try(a: &Args) -> Args {
    let x = argn(a, 0);
    let r32 = match u32::try_from(x) {
        Ok(x32) => match VarInt::try_from(x32) {
            Ok(v) => vec![1, u128::from(u32::from(v))],
            Err(_) => vec![0],
        },
        Err(_) => vec![0],
    };
    let rus = match usize::try_from(x) {
        Ok(xs) => match VarInt::try_from(xs) {
            Ok(v) => vec![1, u128::from(u32::from(v))],
            Err(_) => vec![0],
        },
        Err(_) => vec![0],
    };
    vec![r32, rus]
}
