//! Codec modes: VarInt (C15), name-value pairs (C16).
use crate::{arg, argn, bytes, nums, Args};
use fastcgi_server::protocol::varint::VarInt;
use std::io::{self, Read, Write};

/// a reader that hands out at most `step` bytes per `read` call (what sockets, chained and buffered readers do)
struct Dribble<'a> {
    data: &'a [u8],
    step: usize,
    /// 0: never; otherwise every `eintr`-th call (counting from `calls`) reports a transient `Interrupted` first, as a blocking
    /// source hit by a signal does: the caller is expected to retry (Read::read_exact does)
    eintr: usize,
    calls: usize,
}
impl Read for Dribble<'_> {
    fn read(&mut self, buf: &mut [u8]) -> io::Result<usize> {
        self.calls += 1;
        if self.eintr != 0 && self.calls % self.eintr == 1 % self.eintr {
            return Err(io::ErrorKind::Interrupted.into());
        }
        let n = buf.len().min(self.step).min(self.data.len());
        buf[..n].copy_from_slice(&self.data[..n]);
        self.data = &self.data[n..];
        Ok(n)
    }
}

/// a writer that accepts at most `step` bytes per `write` call
struct Trickle {
    out: Vec<u8>,
    step: usize,
}
impl Write for Trickle {
    fn write(&mut self, buf: &[u8]) -> io::Result<usize> {
        let n = buf.len().min(self.step);
        self.out.extend_from_slice(&buf[..n]);
        Ok(n)
    }
    fn flush(&mut self) -> io::Result<()> {
        Ok(())
    }
}

pub fn dispatch(mode: &str, a: &Args) -> Option<Args> {
    Some(match mode {
        "vi_read" => vi_read(a),
        "vi_write" => vi_write(a),
        "vi_try" => vi_try(a),
        "nv_run" => nv_run(a),
        "nv_write" => nv_write(a),
        "nv_write_big" => nv_write_big(a),
        _ => return None,
    })
}

pub fn vi_read(a: &Args) -> Args {
    let d = bytes(&arg(a, 0));
    let mut cur = &d[..];
    let whole = VarInt::read(&mut cur).map(|v| (u32::from(v), cur.len()));
    // the same bytes through readers that return them in pieces: same value, same number of bytes consumed
    for (step, eintr) in [(1usize, 0usize), (2, 0), (3, 0), (4, 2), (1, 2), (4, 3), (2, 1 + 2)] {
        let mut r = Dribble { data: &d[..], step, eintr, calls: 0 };
        let piecewise = VarInt::read(&mut r).map(|v| (u32::from(v), r.data.len()));
        match (&whole, &piecewise) {
            (Ok(x), Ok(y)) => assert_eq!(x, y, "VarInt::read depends on how the reader splits the bytes"),
            (Err(_), Err(_)) => {},
            _ => panic!("VarInt::read succeeds or fails depending on how the reader splits the bytes"),
        }
    }
    match whole {
        Ok((v, _)) => vec![vec![1], vec![u128::from(v)], nums(cur)],
        Err(e) => {
            assert_eq!(e.kind(), std::io::ErrorKind::UnexpectedEof);
            vec![vec![0]]
        },
    }
}

pub fn vi_write(a: &Args) -> Args {
    let x = argn(a, 0);
    let Ok(x32) = u32::try_from(x) else { return vec![vec![0]] };
    match VarInt::try_from(x32) {
        Err(_) => vec![vec![0]],
        Ok(v) => {
            let mut buf = Vec::new();
            let n = v.write(&mut buf).expect("Vec write");
            assert_eq!(n, buf.len(), "VarInt::write reported a wrong byte count");
            let mut t = Trickle { out: Vec::new(), step: 1 };
            assert_eq!(v.write(&mut t).expect("trickle write"), n);
            assert_eq!(t.out, buf, "VarInt::write depends on the writer accepting everything at once");
            let mut exact = vec![0u8; n];
            assert_eq!(v.write(&mut exact[..]).expect("exact-size destination"), n);
            assert_eq!(exact, buf);
            if n > 0 {
                let mut short = vec![0u8; n - 1];
                assert!(v.write(&mut short[..]).is_err(), "VarInt::write into a too small destination must fail");
            }
            vec![vec![1], nums(&buf)]
        },
    }
}

pub fn vi_try(a: &Args) -> Args {
    let x = argn(a, 0);
    let r32 = match u32::try_from(x) {
        Ok(x32) => match VarInt::try_from(x32) {
            Ok(v) => vec![1, u128::from(u32::from(v))],
            Err(_) => vec![0],
        },
        Err(_) => vec![0],
    };
    let rus = match usize::try_from(x) {
        Ok(xs) => match VarInt::try_from(xs) {
            Ok(v) => vec![1, u128::from(u32::from(v))],
            Err(_) => vec![0],
        },
        Err(_) => vec![0],
    };
    // the infallible conversions from the narrower integer types and the way back agree with the fallible ones
    if let Ok(x8) = u8::try_from(x) {
        assert_eq!(u128::from(u32::from(VarInt::from(x8))), x, "From<u8> for VarInt");
    }
    if let Ok(x16) = u16::try_from(x) {
        assert_eq!(u128::from(u32::from(VarInt::from(x16))), x, "From<u16> for VarInt");
    }
    if let Some(v) = u32::try_from(x).ok().and_then(|x32| VarInt::try_from(x32).ok()) {
        assert_eq!(usize::try_from(v).ok().map(|u| u as u128), Some(x), "TryFrom<VarInt> for usize");
    }
    vec![r32, rus]
}

use fastcgi_server::protocol::nv;

/// Drives `NVIter` over `&[u8]` and over `&mut [u8]`; asserts that both agree, that every yielded
/// name/value is a consecutive sub-slice of the input (zero-copy), that the iterator is fused and
/// that `into_inner` hands back exactly the undecoded suffix.
pub fn nv_run(a: &Args) -> Args {
    let d = bytes(&arg(a, 0));
    let base = d.as_ptr() as usize;
    let mut it = nv::NVIter::new(&d[..]);
    let hint = it.size_hint();
    assert_eq!(hint.0, 0);
    let mut pairs: Vec<(Vec<u8>, Vec<u8>)> = Vec::new();
    let mut pos = 0usize;
    for (n, v) in &mut it {
        let no = n.as_ptr() as usize - base;
        let vo = v.as_ptr() as usize - base;
        let h = no - pos;
        assert!(h == 2 || h == 5 || h == 8, "header length {h}");
        assert_eq!(vo, no + n.len(), "value does not follow name");
        pos = vo + v.len();
        pairs.push((n.to_vec(), v.to_vec()));
    }
    assert!(it.next().is_none() && it.next().is_none(), "iterator not fused");
    let rest = it.into_inner();
    assert_eq!(rest.as_ptr() as usize - base, pos, "remainder is not the undecoded suffix");
    assert_eq!(rest.len(), d.len() - pos);
    let rest = rest.to_vec();

    let mut dm = d.clone();
    let mut itm = nv::NVIter::new(&mut dm[..]);
    let mut pm: Vec<(Vec<u8>, Vec<u8>)> = Vec::new();
    for (n, v) in &mut itm {
        pm.push((n.to_vec(), v.to_vec()));
    }
    assert!(itm.next().is_none());
    let restm = itm.into_inner().to_vec();
    assert_eq!(pairs, pm, "shared and mutable iterators disagree");
    assert_eq!(rest, restm, "shared and mutable remainders disagree");

    // the other ways of driving the decoder agree with next(): nth(k), count(), last(), skip(k) for small inputs
    if d.len() <= 64 {
        for k in 0..=pairs.len() + 1 {
            let mut it2 = nv::NVIter::new(&d[..]);
            let got = it2.nth(k).map(|(n, v)| (n.to_vec(), v.to_vec()));
            assert_eq!(got, pairs.get(k).cloned(), "nth({k}) disagrees with repeated next()");
            let after: Vec<(Vec<u8>, Vec<u8>)> = (&mut it2).map(|(n, v)| (n.to_vec(), v.to_vec())).collect();
            let exp_after: Vec<(Vec<u8>, Vec<u8>)> = pairs.iter().skip(k + 1).cloned().collect();
            assert_eq!(after, exp_after, "pairs yielded after nth({k}) differ");
            assert_eq!(it2.into_inner(), &rest[..], "the remainder after nth({k}) and exhaustion is not the undecoded suffix");
        }
        assert_eq!(nv::NVIter::new(&d[..]).count(), pairs.len(), "count() disagrees");
        assert_eq!(nv::NVIter::new(&d[..]).last().map(|(n, v)| (n.to_vec(), v.to_vec())), pairs.last().cloned(), "last() disagrees");
    }
    let mut out = vec![vec![pairs.len() as u128], vec![hint.1.expect("upper bound") as u128]];
    for (n, v) in &pairs {
        out.push(nums(n));
        out.push(nums(v));
    }
    out.push(nums(&rest));
    out
}

pub fn nv_write(a: &Args) -> Args {
    let n = bytes(&arg(a, 0));
    let v = bytes(&arg(a, 1));
    let mut buf = vec![0xAAu8; 3];
    match nv::write((&n, &v), &mut buf) {
        Ok(cnt) => {
            assert_eq!(&buf[..3], &[0xAA; 3], "existing contents touched");
            // the same pair through writers that accept the bytes in pieces, and into bounded destinations
            for step in [1usize, 3, 100] {
                let mut t = Trickle { out: Vec::new(), step };
                let c2 = nv::write((&n, &v), &mut t).expect("short-writing writer");
                assert_eq!(c2, cnt, "nv::write reports a different count for a short-writing writer");
                assert_eq!(&t.out[..], &buf[3..], "nv::write loses bytes when the writer accepts them in pieces");
            }
            let mut exact = vec![0u8; cnt];
            assert_eq!(nv::write((&n, &v), &mut exact[..]).expect("exact-size destination"), cnt);
            assert_eq!(&exact[..], &buf[3..]);
            if cnt > 0 {
                let mut short = vec![0u8; cnt - 1];
                assert!(nv::write((&n, &v), &mut short[..]).is_err(), "nv::write into a too small destination must fail");
            }
            vec![vec![1], vec![cnt as u128], nums(&buf[3..])]
        },
        Err(_) => vec![vec![0]],
    }
}

/// Components given by length only (zero-filled, lazily allocated); output goes to a sink.
pub fn nv_write_big(a: &Args) -> Args {
    let nl = argn(a, 0) as usize;
    let vl = argn(a, 1) as usize;
    let n = vec![0u8; nl];
    let v = vec![0u8; vl];
    match nv::write((&n, &v), std::io::sink()) {
        Ok(cnt) => vec![vec![1], vec![cnt as u128]],
        Err(e) => {
            assert_eq!(e.kind(), std::io::ErrorKind::InvalidInput);
            vec![vec![0]]
        },
    }
}
