//! Codec modes: VarInt (C15), name-value pairs (C16).
use crate::{arg, argn, bytes, nums, Args};
use fastcgi_server::protocol::varint::VarInt;

pub fn dispatch(mode: &str, a: &Args) -> Option<Args> {
    Some(match mode {
        "vi_read" => vi_read(a),
        "vi_write" => vi_write(a),
        "vi_try" => vi_try(a),
        "nv_run" => nv_run(a),
        "nv_write" => nv_write(a),
        "nv_write_big" => nv_write_big(a),
        _ => return None,
    })
}

pub fn vi_read(a: &Args) -> Args {
    let d = bytes(&arg(a, 0));
    let mut cur = &d[..];
    match VarInt::read(&mut cur) {
        Ok(v) => vec![vec![1], vec![u128::from(u32::from(v))], nums(cur)],
        Err(e) => {
            assert_eq!(e.kind(), std::io::ErrorKind::UnexpectedEof);
            vec![vec![0]]
        },
    }
}

pub fn vi_write(a: &Args) -> Args {
    let x = argn(a, 0);
    let Ok(x32) = u32::try_from(x) else { return vec![vec![0]] };
    match VarInt::try_from(x32) {
        Err(_) => vec![vec![0]],
        Ok(v) => {
            let mut buf = Vec::new();
            let n = v.write(&mut buf).expect("Vec write");
            assert_eq!(n, buf.len(), "VarInt::write reported a wrong byte count");
            vec![vec![1], nums(&buf)]
        },
    }
}

pub fn vi_try(a: &Args) -> Args {
    let x = argn(a, 0);
    let r32 = match u32::try_from(x) {
        Ok(x32) => match VarInt::try_from(x32) {
            Ok(v) => vec![1, u128::from(u32::from(v))],
            Err(_) => vec![0],
        },
        Err(_) => vec![0],
    };
    let rus = match usize::try_from(x) {
        Ok(xs) => match VarInt::try_from(xs) {
            Ok(v) => vec![1, u128::from(u32::from(v))],
            Err(_) => vec![0],
        },
        Err(_) => vec![0],
    };
    vec![r32, rus]
}

use fastcgi_server::protocol::nv;

/// Drives `NVIter` over `&[u8]` and over `&mut [u8]`; asserts that both agree, that every yielded
/// name/value is a consecutive sub-slice of the input (zero-copy), that the iterator is fused and
/// that `into_inner` hands back exactly the undecoded suffix.
pub fn nv_run(a: &Args) -> Args {
    let d = bytes(&arg(a, 0));
    let base = d.as_ptr() as usize;
    let mut it = nv::NVIter::new(&d[..]);
    let hint = it.size_hint();
    assert_eq!(hint.0, 0);
    let mut pairs: Vec<(Vec<u8>, Vec<u8>)> = Vec::new();
    let mut pos = 0usize;
    for (n, v) in &mut it {
        let no = n.as_ptr() as usize - base;
        let vo = v.as_ptr() as usize - base;
        let h = no - pos;
        assert!(h == 2 || h == 5 || h == 8, "header length {h}");
        assert_eq!(vo, no + n.len(), "value does not follow name");
        pos = vo + v.len();
        pairs.push((n.to_vec(), v.to_vec()));
    }
    assert!(it.next().is_none() && it.next().is_none(), "iterator not fused");
    let rest = it.into_inner();
    assert_eq!(rest.as_ptr() as usize - base, pos, "remainder is not the undecoded suffix");
    assert_eq!(rest.len(), d.len() - pos);
    let rest = rest.to_vec();

    let mut dm = d.clone();
    let mut itm = nv::NVIter::new(&mut dm[..]);
    let mut pm: Vec<(Vec<u8>, Vec<u8>)> = Vec::new();
    for (n, v) in &mut itm {
        pm.push((n.to_vec(), v.to_vec()));
    }
    assert!(itm.next().is_none());
    let restm = itm.into_inner().to_vec();
    assert_eq!(pairs, pm, "shared and mutable iterators disagree");
    assert_eq!(rest, restm, "shared and mutable remainders disagree");

    let mut out = vec![vec![pairs.len() as u128], vec![hint.1.expect("upper bound") as u128]];
    for (n, v) in &pairs {
        out.push(nums(n));
        out.push(nums(v));
    }
    out.push(nums(&rest));
    out
}

pub fn nv_write(a: &Args) -> Args {
    let n = bytes(&arg(a, 0));
    let v = bytes(&arg(a, 1));
    let mut buf = vec![0xAAu8; 3];
    match nv::write((&n, &v), &mut buf) {
        Ok(cnt) => {
            assert_eq!(&buf[..3], &[0xAA; 3], "existing contents touched");
            vec![vec![1], vec![cnt as u128], nums(&buf[3..])]
        },
        Err(_) => vec![vec![0]],
    }
}

/// Components given by length only (zero-filled, lazily allocated); output goes to a sink.
pub fn nv_write_big(a: &Args) -> Args {
    let nl = argn(a, 0) as usize;
    let vl = argn(a, 1) as usize;
    let n = vec![0u8; nl];
    let v = vec![0u8; vl];
    match nv::write((&n, &v), std::io::sink()) {
        Ok(cnt) => vec![vec![1], vec![cnt as u128]],
        Err(e) => {
            assert_eq!(e.kind(), std::io::ErrorKind::InvalidInput);
            vec![vec![0]]
        },
    }
}
