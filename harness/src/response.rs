//! CGI response writer modes (C20): `fastcgi_server::cgi::response::{write_headers, http_headers,
//! simple_redirect}` on a `Vec<u8>` and on a bounded `&mut [u8]`.
//!
//! hdr_write <code> <cap> <reason> <pre> <n1> <v1> <n2> <v2> ...
//! hdr_http  <code> <cap> <reason> <pre> <n1> <v1> ...        (builds an http::Response)
//! redirect  <cap> <pre> <loc>
//! http_reasons                                                (generator support, not a case mode)
//!
//! `cap` = u64::MAX selects a `Vec<u8>` that already holds `pre`; any other value a slice of `cap`
//! free bytes placed behind `pre` in a larger buffer. `<reason>` is ignored here: the real
//! `http::StatusCode::canonical_reason` is what the crate uses (the model gets it from the case
//! line, so a wrong table entry on either side is a disagreement).
//! Observation: `[flag] [count]|- <destination contents>`; flag 1 = Ok(count), 0 = Err(WriteZero),
//! `[2]` = the code is not a constructible `StatusCode`.
use crate::{arg, argn, bytes, nums, Args};
use fastcgi_server::cgi::response::{http_headers, simple_redirect, write_headers};
use std::io;

const VEC: u128 = u64::MAX as u128;
/// generator error: the case cannot be expressed through the API used by the mode
const BAD_CASE: u128 = 999_996;
const FILL: u8 = 0xA5;

pub fn dispatch(mode: &str, a: &Args) -> Option<Args> {
    Some(match mode {
        "hdr_write" => hdr_write(a),
        "hdr_http" => hdr_http(a),
        "redirect" => redirect(a),
        "http_reasons" => http_reasons(),
        _ => return None,
    })
}

/// One call of a crate function with a concrete writer type (no `dyn Write` in between).
trait Job {
    fn run<W: io::Write>(&self, w: W) -> io::Result<usize>;
}

/// a destination that accepts the bytes in short pieces (3, then 2, then 5, then 1 bytes per `write` call, cyclically; its
/// `write_vectored` is the default: the first non-empty slice), as pipes and sockets do
/// with `eintr` set every third call first reports the transient `Interrupted` (a signal arrived: `Write::write_all` retries, nothing is lost)
struct Pieces {
    out: Vec<u8>,
    k: usize,
    eintr: bool,
    calls: usize,
}
impl io::Write for Pieces {
    fn write(&mut self, buf: &[u8]) -> io::Result<usize> {
        self.calls += 1;
        if self.eintr && self.calls % 3 == 1 {
            return Err(io::ErrorKind::Interrupted.into());
        }
        let step = [3usize, 2, 5, 1][self.k % 4];
        self.k += 1;
        let n = buf.len().min(step);
        self.out.extend_from_slice(&buf[..n]);
        Ok(n)
    }
    fn flush(&mut self) -> io::Result<()> {
        Ok(())
    }
}

/// Runs `job` on the destination selected by `cap` and reports what the destination holds afterwards.
fn with_dest(cap: u128, pre: &[u8], job: &impl Job) -> Args {
    let (res, contents) = if cap == VEC {
        let mut v = pre.to_vec();
        let res = job.run(&mut v);
        // the same call on a destination that takes the bytes in short pieces: same bytes, same count
        for eintr in [false, true] {
            let mut p = Pieces { out: Vec::new(), k: 0, eintr, calls: 0 };
            let res2 = job.run(&mut p);
            match (&res, &res2) {
                (Ok(a), Ok(b)) => {
                    assert_eq!(a, b, "the returned count depends on how the destination splits the writes");
                    assert_eq!(&p.out[..], &v[pre.len()..], "the bytes written depend on how the destination splits the writes");
                },
                _ => panic!("a destination that never runs out of space (short writes, transient Interrupted) made the writer fail"),
            }
        }
        (res, v)
    } else {
        let cap = usize::try_from(cap).expect("capacity");
        // the same job on an unbounded destination BEFORE and AFTER the bounded (possibly failing) call: a call's output must not
        // depend on what earlier calls on this thread did (no state may survive a failed write)
        let mut before = Vec::new();
        let rb = job.run(&mut before).ok();
        let mut store = vec![FILL; pre.len() + cap];
        store[..pre.len()].copy_from_slice(pre);
        let (res, remaining) = {
            let mut slice: &mut [u8] = &mut store[pre.len()..];
            let res = job.run(&mut slice);
            (res, slice.len())
        };
        let filled = cap - remaining;
        // nothing behind the write position may have been touched
        assert!(store[pre.len() + filled..].iter().all(|&b| b == FILL), "bytes behind the cursor changed");
        store.truncate(pre.len() + filled);
        let mut after = Vec::new();
        let ra = job.run(&mut after).ok();
        assert!(rb == ra && before == after, "the output of a call depends on an earlier (failed) call: state leaked between calls");
        (res, store)
    };
    match res {
        Ok(n) => vec![vec![1], vec![n as u128], nums(&contents)],
        Err(e) => {
            assert_eq!(e.kind(), io::ErrorKind::WriteZero, "unexpected error kind");
            vec![vec![0], vec![], nums(&contents)]
        },
    }
}

struct WriteHeaders<'a>(http::StatusCode, &'a [(Vec<u8>, Vec<u8>)]);
impl Job for WriteHeaders<'_> {
    fn run<W: io::Write>(&self, w: W) -> io::Result<usize> {
        write_headers(w, self.0, self.1.iter().map(|(n, v)| (&n[..], &v[..])))
    }
}

struct HttpHeaders<'a>(&'a http::Response<()>);
impl Job for HttpHeaders<'_> {
    fn run<W: io::Write>(&self, w: W) -> io::Result<usize> {
        http_headers(w, self.0)
    }
}

struct Redirect<'a>(&'a str);
impl Job for Redirect<'_> {
    fn run<W: io::Write>(&self, w: W) -> io::Result<usize> {
        simple_redirect(w, self.0)
    }
}

fn status(a: &Args) -> Option<http::StatusCode> {
    u16::try_from(argn(a, 0)).ok().and_then(|c| http::StatusCode::from_u16(c).ok())
}

fn pairs(a: &Args) -> Vec<(Vec<u8>, Vec<u8>)> {
    a.get(4..).unwrap_or(&[]).chunks_exact(2).map(|c| (bytes(&c[0]), bytes(&c[1]))).collect()
}

pub fn hdr_write(a: &Args) -> Args {
    let Some(st) = status(a) else { return vec![vec![2]] };
    let pre = bytes(&arg(a, 3));
    let hs = pairs(a);
    let res = with_dest(argn(a, 1), &pre, &WriteHeaders(st, &hs));
    if argn(a, 1) == VEC {
        // `headers` is any IntoIterator: the same list handed over through iterators that do not know their length
        // (filter: size_hint lower bound 0; from_fn: (0, None)) must give the same bytes and the same count
        let mut v1 = pre.clone();
        let r1 = write_headers(&mut v1, st, hs.iter().filter(|_| true).map(|(n, v)| (&n[..], &v[..])));
        let mut it = hs.iter();
        let mut v2 = pre.clone();
        let r2 = write_headers(&mut v2, st, std::iter::from_fn(|| it.next().map(|(n, v)| (&n[..], &v[..]))));
        for (r, v) in [(r1, v1), (r2, v2)] {
            let n = r.expect("a Vec never fails");
            assert_eq!(vec![vec![1], vec![n as u128], nums(&v)], res, "the result depends on the kind of iterator the headers come from");
        }
    }
    res
}

pub fn hdr_http(a: &Args) -> Args {
    let Some(st) = status(a) else { return vec![vec![2]] };
    let pre = bytes(&arg(a, 3));
    let mut b = http::response::Builder::new().status(st);
    for (n, v) in pairs(a) {
        let (Ok(name), Ok(val)) = (http::HeaderName::from_bytes(&n), http::HeaderValue::from_bytes(&v)) else {
            return vec![vec![BAD_CASE]];
        };
        // from_bytes lower-cases; the generator only sends canonical (lower-case) names
        if name.as_str().as_bytes() != &n[..] {
            return vec![vec![BAD_CASE]];
        }
        b = b.header(name, val);
    }
    let Ok(resp) = b.body(()) else { return vec![vec![BAD_CASE]] };
    with_dest(argn(a, 1), &pre, &HttpHeaders(&resp))
}

pub fn redirect(a: &Args) -> Args {
    let pre = bytes(&arg(a, 1));
    let loc = bytes(&arg(a, 2));
    let Ok(loc) = std::str::from_utf8(&loc) else { return vec![vec![BAD_CASE]] };
    with_dest(argn(a, 0), &pre, &Redirect(loc))
}

/// One list per status code 100..=999: the canonical reason phrase, empty when there is none.
pub fn http_reasons() -> Args {
    (100u16..=999)
        .map(|c| {
            let st = http::StatusCode::from_u16(c).expect("100..=999 is constructible");
            assert_eq!(st.as_u16(), c);
            st.canonical_reason().map_or_else(Vec::new, |r| nums(r.as_bytes()))
        })
        .collect()
}
