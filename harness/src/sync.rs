//! Token accounting (C13) and wait-group (C14) modes: single-threaded, deterministic histories on
//! the real `Runner` with one counting waker per pending request.
//!
//! tok_run <max_conns> <ops>:  ops (flat):
//!    1 r   new get_token() future on runner r (0 = original, 1.. = clones created on demand); it gets the next index
//!    2 i   poll future i (Ready -> its token becomes live)
//!    3 i   drop the token obtained by future i
//!    4 i   drop the (pending) future i
//!    5 i   hand token i to Token::run on an idle connection (its transport never delivers a byte); the connection is polled once
//!          and stays pending: the token is still in use (it counts as live); if its runner clone was shut down the connection ends at once
//!    3 i / 6 i   also drop that connection task (the client went away): only now is the slot free
//!    8 i / 9 i   hand token i to Token::run on a connection that carries ONE complete request (8: without KeepConn, 9: with) and whose
//!          write side never becomes ready: the handler returns at once and Request::close stalls in its first write; the request is
//!          in flight, the token stays in use until the connection task is dropped (3 i / 6 i), also across a shutdown
//!    10 i  the client of the stalled connection i (ops 8/9) drains its socket: the epilogue goes out, Request::close completes; the
//!          connection then ends - unless the request had KeepConn and its runner is still running: then it idles like after op 5
//!    11 i  token i is handed to Token::run with a handler that panics; the task is owned by the unwinding frame
//!    12 i  token i is held, unused, by a frame that an unrelated panic unwinds
//!    7 r   Runner::shutdown on clone r (r >= 1, created, not yet shut down, no unfinished get_token future of it outstanding; otherwise
//!          nothing happens): its idle connections are polled and end, which frees their slots for the other clones.  A later `1 r`
//!          falls back to the original runner.
//!  observation per op: [live tokens, ready flag of the polled future (or 2), wake counters of all futures so far...]
//! wg_race <trials>: REAL two-thread races of one poll of the shutdown future against the drop of the last token (fresh runner per
//!    trial, relative timing steered towards coincidence).  Sound oracle: if the poll returned Pending then, once the token is gone,
//!    the waker it registered must have been woken.  observation: [lost wake-ups seen (must be 0)]; a supporting search for windows
//!    that no deterministic hook reaches - it can miss, it cannot raise a false alarm.
//! tok_many <n>: n tokens alive on ONE runner at the moment of shutdown (n may exceed 65535), the three youngest serving idle
//!    connections, the others not yet run: the idle connections are woken and end without reading, every token run afterwards ends at
//!    once without reading, then the shutdown future completes.  Harness-side assertions; observation [1] (the model's answer is the
//!    property: C14_nothing_new, C14_idle_connection_stops).
//! wg_run <tokens> <ops>: 1 = drop a token, 2 = (unused), 10+w = poll the shutdown future with a token drop forced into window w
//!    (1 = before the poll, 2 = between Weak::upgrade and waker registration, 3 = after registration before the temporary
//!    reference is dropped, 4 = after the poll).  observation per poll: [ready, wakes received by the waker of the most recent poll (cumulative), live tokens after]
use crate::proto::config;
use crate::{arg, argn, Args};
use fastcgi_server::async_io::{Request, Runner, Token};
use fastcgi_server::ExitStatus;
use futures_util::future::BoxFuture;
use futures_util::io::{AsyncRead, AsyncWrite};
use std::panic::{catch_unwind, AssertUnwindSafe};
use std::io;
use std::future::Future;
use std::pin::Pin;
use std::sync::atomic::{AtomicUsize, Ordering};
use std::sync::{Arc, Mutex};
use std::task::{Context, Poll, Wake, Waker};

pub fn dispatch(mode: &str, a: &Args) -> Option<Args> {
    Some(match mode {
        "tok_run" => tok_run(a),
        "tok_fill" => tok_fill(a),
        "wg_run" => wg_run(a),
        "wg_race" => wg_race(a),
        "tok_many" => tok_many(a),
        _ => return None,
    })
}

struct Count(AtomicUsize);
impl Wake for Count {
    fn wake(self: Arc<Self>) {
        self.0.fetch_add(1, Ordering::SeqCst);
    }
    fn wake_by_ref(self: &Arc<Self>) {
        self.0.fetch_add(1, Ordering::SeqCst);
    }
}

type TokFut = Pin<Box<dyn Future<Output = Token>>>;

/// a connection on which the client never sends anything
struct IdleReader;
impl AsyncRead for IdleReader {
    fn poll_read(self: Pin<&mut Self>, _: &mut Context, _: &mut [u8]) -> Poll<io::Result<usize>> {
        Poll::Pending
    }
}
struct Sink;
impl AsyncWrite for Sink {
    fn poll_write(self: Pin<&mut Self>, _: &mut Context, b: &[u8]) -> Poll<io::Result<usize>> {
        Poll::Ready(Ok(b.len()))
    }
    fn poll_flush(self: Pin<&mut Self>, _: &mut Context) -> Poll<io::Result<()>> {
        Poll::Ready(Ok(()))
    }
    fn poll_close(self: Pin<&mut Self>, _: &mut Context) -> Poll<io::Result<()>> {
        Poll::Ready(Ok(()))
    }
}
/// a connection that delivers one complete request and then nothing
struct OneShot {
    data: Vec<u8>,
    pos: usize,
}
impl AsyncRead for OneShot {
    fn poll_read(mut self: Pin<&mut Self>, _: &mut Context, buf: &mut [u8]) -> Poll<io::Result<usize>> {
        let n = buf.len().min(self.data.len() - self.pos);
        if n == 0 {
            return Poll::Pending;
        }
        let p = self.pos;
        buf[..n].copy_from_slice(&self.data[p..p + n]);
        self.pos += n;
        Poll::Ready(Ok(n))
    }
}
/// a write side that never becomes ready (a client that does not drain its socket)
/// ... until the harness opens it (op 10): from then on it accepts everything
struct Stall(Arc<std::sync::atomic::AtomicBool>);
impl AsyncWrite for Stall {
    fn poll_write(self: Pin<&mut Self>, _: &mut Context, b: &[u8]) -> Poll<io::Result<usize>> {
        if self.0.load(Ordering::SeqCst) { Poll::Ready(Ok(b.len())) } else { Poll::Pending }
    }
    fn poll_flush(self: Pin<&mut Self>, _: &mut Context) -> Poll<io::Result<()>> {
        if self.0.load(Ordering::SeqCst) { Poll::Ready(Ok(())) } else { Poll::Pending }
    }
    fn poll_close(self: Pin<&mut Self>, _: &mut Context) -> Poll<io::Result<()>> {
        Poll::Ready(Ok(()))
    }
}
fn returns_at_once() -> impl for<'a, 'b> FnMut(&'a mut Request<'b, OneShot, Stall>) -> BoxFuture<'a, io::Result<ExitStatus>> {
    |_req| Box::pin(async { Ok(ExitStatus::SUCCESS) })
}
/// BeginRequest(id 1, Responder, flags) + empty Params + empty Stdin
fn one_request(keep: bool) -> Vec<u8> {
    let mut v = vec![1, 1, 0, 1, 0, 8, 0, 0, 0, 1, u8::from(keep), 0, 0, 0, 0, 0];
    v.extend_from_slice(&[1, 4, 0, 1, 0, 0, 0, 0]);
    v.extend_from_slice(&[1, 5, 0, 1, 0, 0, 0, 0]);
    v
}

/// a handler that panics (a bug in the application): the connection task unwinds
fn panics_at_once() -> impl for<'a, 'b> FnMut(&'a mut Request<'b, OneShot, Stall>) -> BoxFuture<'a, io::Result<ExitStatus>> {
    |_req| Box::pin(async { panic!("handler panic (deliberate)") })
}

fn never_called() -> impl for<'a, 'b> FnMut(&'a mut Request<'b, IdleReader, Sink>) -> BoxFuture<'a, io::Result<ExitStatus>> {
    |_req| Box::pin(async { Ok(ExitStatus::SUCCESS) })
}

/// tok_fill <max_conns>: issue and poll get_token() one after the other on the runner and a clone alternately, keeping every
/// token: [[how many completed at once, 0 if the next one waits / 2 if max_conns + 1 tokens were handed out]]
fn tok_fill(a: &Args) -> Args {
    let maxc = argn(a, 0).max(1) as usize;
    let base = config(64, maxc).async_runner();
    let other = base.clone();
    let waker = Waker::from(Arc::new(Count(AtomicUsize::new(0))));
    let mut cx = Context::from_waker(&waker);
    let mut toks: Vec<Token> = Vec::with_capacity(maxc + 1);
    let mut flag = 2u128;
    for i in 0..=maxc {
        let r = if i % 2 == 0 { &base } else { &other };
        let fut = r.get_token();
        futures_util::pin_mut!(fut);
        match fut.poll(&mut cx) {
            Poll::Ready(t) => toks.push(t),
            Poll::Pending => {
                flag = 0;
                break;
            },
        }
    }
    vec![vec![toks.len() as u128, flag]]
}

fn tok_run(a: &Args) -> Args {
    let maxc = argn(a, 0).max(1) as usize;
    let ops = arg(a, 1);
    // the original runner lives in a leaked box so that the futures may borrow it for 'static; clones are owned boxes (they can
    // be shut down) and lent to their futures through a raw pointer: op 7 makes sure no such future is left before it moves the box
    let base: &'static Runner = Box::leak(Box::new(config(64, maxc).async_runner()));
    let mut clones: Vec<Option<Box<Runner>>> = vec![None];
    let mut created: Vec<bool> = vec![true];
    let mut owner: Vec<usize> = Vec::new();
    // shutdown futures of the clones that were shut down: (clone, future, its waker's counter, wakes seen at the last Pending poll)
    let mut shutdowns: Vec<(usize, Option<Pin<Box<dyn Future<Output = ()>>>>, Arc<Count>, usize)> = Vec::new();
    let mut futs: Vec<Option<TokFut>> = Vec::new();
    let mut toks: Vec<Option<Token>> = Vec::new();
    let mut kept: Vec<Option<TokFut>> = Vec::new();
    let mut kept_owner: Vec<usize> = Vec::new();
    let mut conns: Vec<Option<Pin<Box<dyn Future<Output = ()>>>>> = Vec::new();
    let mut stalled: Vec<bool> = Vec::new();
    let mut gates: Vec<Option<(Arc<std::sync::atomic::AtomicBool>, bool)>> = Vec::new();
    let idle_counter = Arc::new(Count(AtomicUsize::new(0)));
    let mut counters: Vec<Arc<Count>> = Vec::new();
    let mut res: Args = Vec::new();
    let mut i = 0;
    while i + 1 < ops.len() {
        let (op, x) = (ops[i], ops[i + 1] as usize);
        i += 2;
        let mut ready = 2u128;
        match op {
            1 => {
                while clones.len() <= x {
                    // a clone is a clone however it is made: every other one through Clone::clone_from on a runner that was built
                    // separately from an equal configuration
                    let c = if clones.len() % 2 == 0 {
                        let mut c = config(64, maxc).async_runner();
                        c.clone_from(base);
                        c
                    } else {
                        base.clone()
                    };
                    clones.push(Some(Box::new(c)));
                    created.push(true);
                }
                let (r, own): (&'static Runner, usize) = match (x, clones[x].as_ref()) {
                    (0, _) | (_, None) => (base, 0),
                    // SAFETY: the box is not moved or dropped while a future created here exists (see op 7)
                    (_, Some(b)) => (unsafe { &*(&**b as *const Runner) }, x),
                };
                owner.push(own);
                futs.push(Some(Box::pin(r.get_token())));
                toks.push(None);
                conns.push(None);
                stalled.push(false);
                gates.push(None);
                counters.push(Arc::new(Count(AtomicUsize::new(0))));
            },
            2 => {
                if let Some(Some(f)) = futs.get_mut(x) {
                    let waker = Waker::from(counters[x].clone());
                    let mut cx = Context::from_waker(&waker);
                    match f.as_mut().poll(&mut cx) {
                        Poll::Ready(t) => {
                            toks[x] = Some(t);
                            // the finished future is NOT dropped here: an accept loop may keep it in a local
                            // (pin_mut!/Box::pin) while it awaits accept(); it must hold nothing that matters
                            kept.push(futs[x].take());
                            kept_owner.push(owner[x]);
                            ready = 1;
                        },
                        Poll::Pending => ready = 0,
                    }
                }
            },
            3 | 6 => {
                // release token x, wherever it lives: in the caller's hands or inside its connection task
                if let Some(t) = toks.get_mut(x) {
                    *t = None;
                }
                if let Some(c) = conns.get_mut(x) {
                    *c = None;
                }
            },
            4 => {
                if let Some(f) = futs.get_mut(x) {
                    *f = None;
                }
            },
            5 => {
                if let Some(t) = toks.get_mut(x).and_then(Option::take) {
                    let mut c: Pin<Box<dyn Future<Output = ()>>> = Box::pin(t.run(IdleReader, Sink, never_called()));
                    let waker = Waker::from(idle_counter.clone());
                    let mut cx = Context::from_waker(&waker);
                    if c.as_mut().poll(&mut cx).is_pending() {
                        conns[x] = Some(c);
                    } else {
                        // only a connection whose runner has been shut down may end without its client: nothing new is started
                        assert!(owner[x] != 0 && clones[owner[x]].is_none(), "an idle connection cannot finish");
                    }
                }
            },
            8 | 9 => {
                if let Some(t) = toks.get_mut(x).and_then(Option::take) {
                    let rd = OneShot { data: one_request(op == 9), pos: 0 };
                    let gate = Arc::new(std::sync::atomic::AtomicBool::new(false));
                    gates[x] = Some((gate.clone(), op == 9));
                    let mut c: Pin<Box<dyn Future<Output = ()>>> = Box::pin(t.run(rd, Stall(gate), returns_at_once()));
                    let waker = Waker::from(idle_counter.clone());
                    let mut cx = Context::from_waker(&waker);
                    // a request in flight is completed even when its runner has been shut down: it cannot end while its epilogue is stuck
                    if c.as_mut().poll(&mut cx).is_pending() {
                        conns[x] = Some(c);
                        stalled[x] = true;
                    } else {
                        // only a connection whose runner was shut down before it started may end here: nothing new is started
                        assert!(owner[x] != 0 && clones[owner[x]].is_none(), "a connection whose epilogue cannot be written cannot finish");
                    }
                }
            },
            11 | 12 => {
                // token x leaves by UNWINDING: (11) it is inside a connection task whose handler panics, the task owned by the frame that
                // unwinds; (12) it is held, unused, by a frame that an unrelated panic unwinds.  Its slot must be free afterwards
                if let Some(t) = toks.get_mut(x).and_then(Option::take) {
                    let ic = idle_counter.clone();
                    let r = catch_unwind(AssertUnwindSafe(move || {
                        if op == 12 {
                            let _held = t;
                            panic!("unrelated panic while a token is held (deliberate)");
                        }
                        let rd = OneShot { data: one_request(false), pos: 0 };
                        let gate = Arc::new(std::sync::atomic::AtomicBool::new(true));
                        let mut c = Box::pin(t.run(rd, Stall(gate), panics_at_once()));
                        let waker = Waker::from(ic);
                        let mut cx = Context::from_waker(&waker);
                        let _ = c.as_mut().poll(&mut cx);
                    }));
                    // a connection of a runner that was shut down ends before it reads anything: then nothing panics
                    let dead = owner[x] != 0 && clones[owner[x]].is_none();
                    assert!(r.is_err() || (op == 11 && dead), "the deliberate panic did not propagate");
                }
            },
            10 => {
                if x < conns.len() && stalled[x] && conns[x].is_some() {
                    let (gate, keep) = gates[x].clone().expect("gate of a stalled connection");
                    gate.store(true, Ordering::SeqCst);
                    let waker = Waker::from(idle_counter.clone());
                    let mut cx = Context::from_waker(&waker);
                    let done = conns[x].as_mut().expect("conn").as_mut().poll(&mut cx).is_ready();
                    let runner_alive = owner[x] == 0 || clones[owner[x]].is_some();
                    // the request in flight is completed; then a connection without KeepConn ends, and so does one whose runner was
                    // shut down meanwhile (nothing new is started); otherwise it waits for the next request like an idle connection
                    assert_eq!(done, !(keep && runner_alive), "after its request was completed the connection must end exactly when it had no KeepConn or its runner was shut down");
                    stalled[x] = false;
                    if done {
                        conns[x] = None;
                    }
                }
            },
            7 => {
                let unfinished = futs.iter().enumerate().any(|(i, f)| f.is_some() && owner[i] == x);
                if x >= 1 && x < clones.len() && clones[x].is_some() && !unfinished {
                    // the accept loop of this clone has ended: its finished get_token futures go away with it
                    for (k, o) in kept_owner.iter().enumerate() {
                        if *o == x {
                            kept[k] = None;
                        }
                    }
                    let r = clones[x].take().expect("checked above");
                    let mut sd: Pin<Box<dyn Future<Output = ()>>> = Box::pin(r.shutdown());
                    let waker = Waker::from(idle_counter.clone());
                    let mut cx = Context::from_waker(&waker);
                    for i in 0..conns.len() {
                        if owner[i] == x {
                            if let Some(c) = conns[i].as_mut() {
                                let done = c.as_mut().poll(&mut cx).is_ready();
                                assert_eq!(done, !stalled[i], "an idle connection must end when its runner is shut down, a request in flight must not be cut off");
                                if done {
                                    conns[i] = None;
                                }
                            }
                        }
                    }
                    shutdowns.push((x, Some(sd), Arc::new(Count(AtomicUsize::new(0))), usize::MAX));
                }
            },
            _ => {},
        }
        // C14 on the shutdown futures of the clones: each completes exactly when no token of ITS OWN clone is alive (whatever the other
        // clones do), and a pending one has been woken by the time its last token is gone
        for (cl, fut, cnt, seen) in shutdowns.iter_mut() {
            if let Some(f) = fut.as_mut() {
                let alive = (0..toks.len()).filter(|&i| owner[i] == *cl && (toks[i].is_some() || conns[i].is_some())).count();
                if alive == 0 && *seen != usize::MAX {
                    assert!(cnt.0.load(Ordering::SeqCst) > *seen, "the last token of a shut-down clone is gone but its shutdown future was not woken");
                }
                let waker = Waker::from(cnt.clone());
                let mut scx = Context::from_waker(&waker);
                let before = cnt.0.load(Ordering::SeqCst);
                let ready = f.as_mut().poll(&mut scx).is_ready();
                assert_eq!(ready, alive == 0, "a clone's shutdown future must be ready exactly when none of that clone's tokens is alive");
                if ready {
                    *fut = None;
                } else {
                    *seen = before;
                }
            }
        }
        let live = (toks.iter().filter(|t| t.is_some()).count() + conns.iter().filter(|c| c.is_some()).count()) as u128;
        assert!(live <= maxc as u128, "more live tokens than max_conns");
        let mut row = vec![live, ready];
        row.extend(counters.iter().map(|c| c.0.load(Ordering::SeqCst) as u128));
        res.push(row);
    }
    drop(kept);
    drop(shutdowns);
    res
}

/// a waker that knows whether it is the one handed to the most recent poll
struct Gen {
    id: usize,
    current: Arc<AtomicUsize>,
    fresh: Arc<AtomicUsize>,
    stale: Arc<AtomicUsize>,
}
impl Wake for Gen {
    fn wake(self: Arc<Self>) {
        self.wake_by_ref();
    }
    fn wake_by_ref(self: &Arc<Self>) {
        if self.current.load(Ordering::SeqCst) == self.id {
            self.fresh.fetch_add(1, Ordering::SeqCst);
        } else {
            self.stale.fetch_add(1, Ordering::SeqCst);
        }
    }
}

fn wg_run(a: &Args) -> Args {
    let n = argn(a, 0) as usize;
    let ops = arg(a, 1);
    let runner = config(64, n.max(1) + 1).async_runner();
    // every poll of the shutdown future gets a NEW waker (a future may be polled by different tasks / combinators);
    // the wake-up owed after the last token drop must reach the waker of the most recent poll.  Wakes of older
    // wakers are not counted (a wake-up that only reaches a stale waker is a lost wake-up).
    let current = Arc::new(AtomicUsize::new(0));
    let fresh = Arc::new(AtomicUsize::new(0));
    let stale = Arc::new(AtomicUsize::new(0));
    let mk = |id: usize| Waker::from(Arc::new(Gen { id, current: current.clone(), fresh: fresh.clone(), stale: stale.clone() }));
    let tokens: Arc<Mutex<Vec<Token>>> = Arc::new(Mutex::new(Vec::new()));
    {
        let w0 = mk(0);
        let mut cx = Context::from_waker(&w0);
        for _ in 0..n {
            let fut = runner.get_token();
            futures_util::pin_mut!(fut);
            match fut.poll(&mut cx) {
                Poll::Ready(t) => tokens.lock().expect("tokens").push(t),
                Poll::Pending => panic!("token not available"),
            }
        }
    }
    let mut fut = Box::pin(runner.shutdown());
    let mut res: Args = Vec::new();
    let mut next_id = 1usize;
    for &op in &ops {
        if op == 1 {
            tokens.lock().expect("tokens").pop();
        } else if op >= 10 {
            let w = op - 10;
            if w == 1 {
                tokens.lock().expect("tokens").pop();
            }
            if w == 2 || w == 3 {
                let t2 = tokens.clone();
                let at = if w == 2 { 1u8 } else { 2u8 };
                fastcgi_server::async_io::verif_set_wg_hook(Some(Box::new(move |point| {
                    if point == at {
                        t2.lock().expect("tokens").pop();
                    }
                })));
            }
            let waker = mk(next_id);
            current.store(next_id, Ordering::SeqCst);
            next_id += 1;
            let mut cx = Context::from_waker(&waker);
            let r = fut.as_mut().poll(&mut cx);
            fastcgi_server::async_io::verif_set_wg_hook(None);
            if w == 4 {
                tokens.lock().expect("tokens").pop();
            }
            res.push(vec![
                u128::from(r.is_ready()),
                fresh.load(Ordering::SeqCst) as u128,
                tokens.lock().expect("tokens").len() as u128,
            ]);
            if r.is_ready() {
                break;
            }
        }
    }
    res
}


/// see the module comment: wg_race
fn wg_race(a: &Args) -> Args {
    use std::sync::atomic::AtomicBool;
    struct Shared {
        slot: Mutex<Option<Token>>,
        ready: AtomicUsize,
        armed: AtomicUsize,
        go: AtomicUsize,
        dropped: AtomicUsize,
        quit: AtomicBool,
    }
    fn wait_for(var: &AtomicUsize, val: usize) {
        let mut spins = 0u32;
        while var.load(Ordering::Acquire) != val {
            spins += 1;
            if spins % 20_000 == 0 {
                std::thread::yield_now();
            } else {
                std::hint::spin_loop();
            }
        }
    }
    let trials = (argn(a, 0) as usize).clamp(1, 2_000_000);
    let sh = Arc::new(Shared {
        slot: Mutex::new(None), ready: AtomicUsize::new(0), armed: AtomicUsize::new(0), go: AtomicUsize::new(0),
        dropped: AtomicUsize::new(0), quit: AtomicBool::new(false),
    });
    let th = std::thread::spawn({
        let sh = sh.clone();
        move || {
            let mut trial = 0;
            loop {
                trial += 1;
                let mut spins = 0u32;
                while sh.ready.load(Ordering::Acquire) != trial {
                    if sh.quit.load(Ordering::Acquire) {
                        return;
                    }
                    spins += 1;
                    if spins % 20_000 == 0 {
                        std::thread::yield_now();
                    } else {
                        std::hint::spin_loop();
                    }
                }
                let token = sh.slot.lock().expect("slot").take().expect("token for this trial");
                sh.armed.store(trial, Ordering::Release);
                wait_for(&sh.go, trial);
                drop(token);
                sh.dropped.store(trial, Ordering::Release);
            }
        }
    });
    let noop = Waker::from(Arc::new(Count(AtomicUsize::new(0))));
    let mut noop_cx = Context::from_waker(&noop);
    let mut delay: i64 = 200;
    let mut rng: u64 = 0x9e37_79b9_7f4a_7c15;
    let mut lost = 0u128;
    let start = std::time::Instant::now();
    for trial in 1..=trials {
        if start.elapsed() > std::time::Duration::from_secs(20) {
            break;
        }
        let runner = config(64, 1).async_runner();
        let token = {
            let fut = runner.get_token();
            futures_util::pin_mut!(fut);
            match fut.poll(&mut noop_cx) {
                Poll::Ready(t) => t,
                Poll::Pending => panic!("a fresh runner must hand out a token at once"),
            }
        };
        let mut fut = Box::pin(runner.shutdown());
        let counter = Arc::new(Count(AtomicUsize::new(0)));
        let waker = Waker::from(counter.clone());
        let mut cx = Context::from_waker(&waker);
        *sh.slot.lock().expect("slot") = Some(token);
        sh.ready.store(trial, Ordering::Release);
        wait_for(&sh.armed, trial);
        rng ^= rng << 13;
        rng ^= rng >> 7;
        rng ^= rng << 17;
        let d = (delay + (rng % 41) as i64 - 20).max(0) as u32;
        sh.go.store(trial, Ordering::Release);
        for i in 0..d {
            std::hint::black_box(i);
        }
        let first = fut.as_mut().poll(&mut cx);
        wait_for(&sh.dropped, trial);
        match first {
            Poll::Ready(()) => delay = (delay - 1).max(0),
            Poll::Pending => {
                delay = (delay + 1).min(100_000);
                // the last token is gone and the poll has returned: the waker that poll registered must have been woken by now
                if counter.0.load(Ordering::SeqCst) == 0 {
                    lost += 1;
                    break;
                }
                assert!(fut.as_mut().poll(&mut cx).is_ready(), "no token is left, the shutdown future must be ready");
            },
        }
    }
    sh.quit.store(true, Ordering::Release);
    th.join().expect("dropper thread");
    vec![vec![lost]]
}


/// see the module comment: tok_many
fn tok_many(a: &Args) -> Args {
    let n = (argn(a, 0) as usize).clamp(4, 200_000);
    let runner = config(64, n).async_runner();
    let noop = Waker::from(Arc::new(Count(AtomicUsize::new(0))));
    let mut ncx = Context::from_waker(&noop);
    let mut toks: Vec<Token> = Vec::with_capacity(n);
    for _ in 0..n {
        let fut = runner.get_token();
        futures_util::pin_mut!(fut);
        match fut.poll(&mut ncx) {
            Poll::Ready(t) => toks.push(t),
            Poll::Pending => panic!("a slot is free: get_token must complete at once"),
        }
    }
    // the three YOUNGEST tokens serve idle connections, each with its own counting waker
    let mut idle: Vec<(Pin<Box<dyn Future<Output = ()>>>, Arc<Count>)> = Vec::new();
    for _ in 0..3 {
        let t = toks.pop().expect("token");
        let cnt = Arc::new(Count(AtomicUsize::new(0)));
        let mut c: Pin<Box<dyn Future<Output = ()>>> = Box::pin(t.run(IdleReader, Sink, never_called()));
        let w = Waker::from(cnt.clone());
        assert!(c.as_mut().poll(&mut Context::from_waker(&w)).is_pending(), "an idle connection cannot finish");
        idle.push((c, cnt));
    }
    let sdc = Arc::new(Count(AtomicUsize::new(0)));
    let sdw = Waker::from(sdc.clone());
    let mut sd = Box::pin(runner.shutdown());
    assert!(sd.as_mut().poll(&mut Context::from_waker(&sdw)).is_pending(), "tokens are alive: the shutdown future must be pending");
    for (k, (c, cnt)) in idle.iter_mut().enumerate() {
        assert!(cnt.0.load(Ordering::SeqCst) > 0, "idle connection #{k} was not woken by the shutdown request");
        let w = Waker::from(cnt.clone());
        assert!(c.as_mut().poll(&mut Context::from_waker(&w)).is_ready(), "idle connection #{k} did not stop after the shutdown request");
    }
    drop(idle);
    // tokens that are run only now: nothing new is started, each ends at once (a handler call would panic: never_called is not called
    // because the transport is idle; a READ would leave the task pending)
    for (k, t) in toks.drain(..).enumerate() {
        let mut c: Pin<Box<dyn Future<Output = ()>>> = Box::pin(t.run(IdleReader, Sink, never_called()));
        assert!(c.as_mut().poll(&mut ncx).is_ready(), "token #{k} started serving its connection although shutdown had been requested");
    }
    assert!(sdc.0.load(Ordering::SeqCst) > 0, "the last token is gone but the shutdown future was not woken");
    assert!(sd.as_mut().poll(&mut Context::from_waker(&sdw)).is_ready(), "no token is left: the shutdown future must be ready");
    vec![vec![1]]
}
