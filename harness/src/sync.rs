//! Token accounting (C13) and wait-group (C14) modes: single-threaded, deterministic histories on
//! the real `Runner` with one counting waker per pending request.
//!
//! tok_run <max_conns> <ops>:  ops (flat):
//!    1 r   new get_token() future on runner r (0 = original, 1.. = clones created on demand); it gets the next index
//!    2 i   poll future i (Ready -> its token becomes live)
//!    3 i   drop the token obtained by future i
//!    4 i   drop the (pending) future i
//!  observation per op: [live tokens, ready flag of the polled future (or 2), wake counters of all futures so far...]
//! wg_run <tokens> <ops>: 1 = drop a token, 2 = (unused), 10+w = poll the shutdown future with a token drop forced into window w
//!    (1 = before the poll, 2 = between Weak::upgrade and waker registration, 3 = after registration before the temporary
//!    reference is dropped, 4 = after the poll).  observation per poll: [ready, total wakes, live tokens after]
use crate::proto::config;
use crate::{arg, argn, Args};
use fastcgi_server::async_io::{Runner, Token};
use std::future::Future;
use std::pin::Pin;
use std::sync::atomic::{AtomicUsize, Ordering};
use std::sync::{Arc, Mutex};
use std::task::{Context, Poll, Wake, Waker};

pub fn dispatch(mode: &str, a: &Args) -> Option<Args> {
    Some(match mode {
        "tok_run" => tok_run(a),
        "wg_run" => wg_run(a),
        _ => return None,
    })
}

struct Count(AtomicUsize);
impl Wake for Count {
    fn wake(self: Arc<Self>) {
        self.0.fetch_add(1, Ordering::SeqCst);
    }
    fn wake_by_ref(self: &Arc<Self>) {
        self.0.fetch_add(1, Ordering::SeqCst);
    }
}

type TokFut = Pin<Box<dyn Future<Output = Token>>>;

fn tok_run(a: &Args) -> Args {
    let maxc = argn(a, 0).max(1) as usize;
    let ops = arg(a, 1);
    // runners live in leaked boxes so that the futures may borrow them for 'static
    let base: &'static Runner = Box::leak(Box::new(config(64, maxc).async_runner()));
    let mut runners: Vec<&'static Runner> = vec![base];
    let mut futs: Vec<Option<TokFut>> = Vec::new();
    let mut toks: Vec<Option<Token>> = Vec::new();
    let mut kept: Vec<Option<TokFut>> = Vec::new();
    let mut counters: Vec<Arc<Count>> = Vec::new();
    let mut res: Args = Vec::new();
    let mut i = 0;
    while i + 1 < ops.len() {
        let (op, x) = (ops[i], ops[i + 1] as usize);
        i += 2;
        let mut ready = 2u128;
        match op {
            1 => {
                while runners.len() <= x {
                    let c: &'static Runner = Box::leak(Box::new(base.clone()));
                    runners.push(c);
                }
                let r = runners[x];
                futs.push(Some(Box::pin(r.get_token())));
                toks.push(None);
                counters.push(Arc::new(Count(AtomicUsize::new(0))));
            },
            2 => {
                if let Some(Some(f)) = futs.get_mut(x) {
                    let waker = Waker::from(counters[x].clone());
                    let mut cx = Context::from_waker(&waker);
                    match f.as_mut().poll(&mut cx) {
                        Poll::Ready(t) => {
                            toks[x] = Some(t);
                            // the finished future is NOT dropped here: an accept loop may keep it in a local
                            // (pin_mut!/Box::pin) while it awaits accept(); it must hold nothing that matters
                            kept.push(futs[x].take());
                            ready = 1;
                        },
                        Poll::Pending => ready = 0,
                    }
                }
            },
            3 => {
                if let Some(t) = toks.get_mut(x) {
                    *t = None;
                }
            },
            4 => {
                if let Some(f) = futs.get_mut(x) {
                    *f = None;
                }
            },
            _ => {},
        }
        let live = toks.iter().filter(|t| t.is_some()).count() as u128;
        assert!(live <= maxc as u128, "more live tokens than max_conns");
        let mut row = vec![live, ready];
        row.extend(counters.iter().map(|c| c.0.load(Ordering::SeqCst) as u128));
        res.push(row);
    }
    drop(kept);
    res
}

fn wg_run(a: &Args) -> Args {
    let n = argn(a, 0) as usize;
    let ops = arg(a, 1);
    let runner = config(64, n.max(1) + 1).async_runner();
    let counter = Arc::new(Count(AtomicUsize::new(0)));
    let waker = Waker::from(counter.clone());
    let mut cx = Context::from_waker(&waker);
    let tokens: Arc<Mutex<Vec<Token>>> = Arc::new(Mutex::new(Vec::new()));
    for _ in 0..n {
        let fut = runner.get_token();
        futures_util::pin_mut!(fut);
        match fut.poll(&mut cx) {
            Poll::Ready(t) => tokens.lock().expect("tokens").push(t),
            Poll::Pending => panic!("token not available"),
        }
    }
    let mut fut = Box::pin(runner.shutdown());
    let mut res: Args = Vec::new();
    for &op in &ops {
        if op == 1 {
            tokens.lock().expect("tokens").pop();
        } else if op >= 10 {
            let w = op - 10;
            if w == 1 {
                tokens.lock().expect("tokens").pop();
            }
            if w == 2 || w == 3 {
                let t2 = tokens.clone();
                let at = if w == 2 { 1u8 } else { 2u8 };
                fastcgi_server::async_io::verif_set_wg_hook(Some(Box::new(move |point| {
                    if point == at {
                        t2.lock().expect("tokens").pop();
                    }
                })));
            }
            let r = fut.as_mut().poll(&mut cx);
            fastcgi_server::async_io::verif_set_wg_hook(None);
            if w == 4 {
                tokens.lock().expect("tokens").pop();
            }
            res.push(vec![
                u128::from(r.is_ready()),
                counter.0.load(Ordering::SeqCst) as u128,
                tokens.lock().expect("tokens").len() as u128,
            ]);
            if r.is_ready() {
                break;
            }
        }
    }
    res
}
