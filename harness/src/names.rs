//! CGI variable-name modes (C19): VarName / OwnedVarName / StaticVarName of the real crate.
use crate::{arg, argn, bytes, nums, Arg, Args};
use fastcgi_server::cgi::{OwnedVarName, StaticVarName, VarName};
use std::borrow::Cow;
use std::cmp::Ordering;
use std::collections::{BTreeMap, HashMap, HashSet};
use std::hash::{Hash, Hasher};

pub fn dispatch(mode: &str, a: &Args) -> Option<Args> {
    Some(match mode {
        "names_pair" => names_pair(a),
        "names_sort" => names_sort(a),
        "names_header" => names_header(a),
        "consts_names" => consts_names(a),
        _ => return None,
    })
}

/// Records every `Hasher::write` payload. Only `write` is implemented: the provided integer
/// methods of `Hasher` forward to it, so anything hashed is captured.
#[derive(Default)]
struct Recorder(Vec<Vec<u8>>);
impl Hasher for Recorder {
    fn write(&mut self, b: &[u8]) {
        self.0.push(b.to_vec());
    }
    fn finish(&self) -> u64 {
        0
    }
}

fn writes<T: Hash + ?Sized>(v: &T) -> Vec<Vec<u8>> {
    let mut r = Recorder::default();
    v.hash(&mut r);
    r.0
}

fn enc_writes(w: &[Vec<u8>]) -> Arg {
    let mut out = Vec::new();
    for p in w {
        out.push(p.len() as u128);
        out.extend(nums(p));
    }
    out
}

fn b2n(b: bool) -> u128 {
    u128::from(b)
}
fn c2n(c: Ordering) -> u128 {
    match c {
        Ordering::Less => 0,
        Ordering::Equal => 1,
        Ordering::Greater => 2,
    }
}

fn utf8(b: &[u8]) -> String {
    String::from_utf8(b.to_vec()).expect("case strings must be valid UTF-8")
}

/// constructor number -> (name, the caller's string afterwards)
fn mk(c: u128, s: &str) -> Option<(OwnedVarName, String)> {
    let keep = s.to_owned();
    Some(match c {
        0 => (OwnedVarName::from(s), keep),
        1 => (OwnedVarName::from(s.to_owned()), keep),
        2 => (OwnedVarName::from(s.to_owned().into_boxed_str()), keep),
        3 => (OwnedVarName::from(Cow::Borrowed(s)), keep),
        4 => (OwnedVarName::from(Cow::<str>::Owned(s.to_owned())), keep),
        5 => {
            let mut m = s.to_owned();
            let o = OwnedVarName::from_mut_str(m.as_mut_str());
            (o, m)
        },
        6 => (OwnedVarName::from(VarName::new(s)), keep),
        7 => (VarName::new(s).to_owned(), keep),
        8 => match s.parse::<StaticVarName>() {
            Ok(v) => (OwnedVarName::from(v), keep),
            Err(_) => return None,
        },
        _ => return None,
    })
}

pub fn names_pair(a: &Args) -> Args {
    let s1 = utf8(&bytes(&arg(a, 1)));
    let s2 = utf8(&bytes(&arg(a, 3)));
    let (Some((o1, p1)), Some((o2, p2))) = (mk(argn(a, 0), &s1), mk(argn(a, 2), &s2)) else {
        return vec![vec![777]];
    };
    let (v1, v2) = (VarName::new(&s1), VarName::new(&s2));
    let r1: &str = o1.as_ref();
    let r2: &str = o2.as_ref();
    let (b1, b2): (&VarName, &VarName) = (std::borrow::Borrow::borrow(&o1), std::borrow::Borrow::borrow(&o2));
    // the borrowed view of an owned name is exactly its as_ref string
    assert_eq!(<&str>::from(b1), r1);
    assert_eq!(<&str>::from(b2), r2);
    assert_eq!(o1.to_string(), r1);
    let (h1, h2, g1, g2) = (writes(&o1), writes(&o2), writes(v1), writes(v2));
    // PartialOrd agrees with Ord; != is the negation of ==
    assert_eq!(o1.partial_cmp(&o2), Some(o1.cmp(&o2)));
    assert_eq!(v1.partial_cmp(v2), Some(v1.cmp(v2)));
    assert_eq!(o1 != o2, !(o1 == o2));

    let mut hm: HashMap<OwnedVarName, u8> = HashMap::new();
    hm.insert(o1.clone(), 1);
    let mut bm: BTreeMap<OwnedVarName, u8> = BTreeMap::new();
    bm.insert(o1.clone(), 1);
    vec![
        vec![1],
        nums(r1.as_bytes()),
        nums(r2.as_bytes()),
        nums(p1.as_bytes()),
        nums(p2.as_bytes()),
        vec![b2n(v1 == v2), b2n(b1 == b2), b2n(o1 == o2), b2n(o2 == o1)],
        vec![c2n(v1.cmp(v2)), c2n(b1.cmp(b2)), c2n(o1.cmp(&o2)), c2n(o2.cmp(&o1))],
        vec![b2n(h1 == h2), b2n(g1 == h1), b2n(g2 == h2)],
        enc_writes(&h1),
        enc_writes(&h2),
        vec![
            b2n(hm.get(&o2).is_some()),
            b2n(hm.get(v2).is_some()),
            b2n(bm.get(&o2).is_some()),
            b2n(bm.get(v2).is_some()),
        ],
    ]
}

pub fn names_sort(a: &Args) -> Args {
    let mut bm: BTreeMap<OwnedVarName, u128> = BTreeMap::new();
    let mut hs: HashSet<OwnedVarName> = HashSet::new();
    for (i, x) in a.iter().enumerate() {
        let Some((&c, s)) = x.split_first() else { return vec![vec![777]] };
        let s = utf8(&bytes(&s.to_vec()));
        let Some((o, _)) = mk(c, &s) else { return vec![vec![777]] };
        bm.insert(o.clone(), i as u128);
        hs.insert(o);
    }
    let mut out = vec![vec![bm.len() as u128, hs.len() as u128]];
    for (k, v) in &bm {
        let mut e = vec![*v];
        e.extend(nums(k.as_ref().as_bytes()));
        out.push(e);
    }
    out
}

pub fn names_header(a: &Args) -> Args {
    let raw = bytes(&arg(a, 0));
    let Ok(hn) = http::header::HeaderName::from_bytes(&raw) else { return vec![vec![0]] };
    let o = OwnedVarName::from(&hn);
    // the CGI spelling computed independently, through the case-preserving constructor
    let spelled = format!("HTTP_{}", hn.as_str().replace('-', "_"));
    let o2 = OwnedVarName::from(spelled.as_str());
    let (w, w2) = (writes(&o), writes(&o2));
    vec![
        vec![1],
        nums(hn.as_str().as_bytes()),
        nums(o.as_ref().as_bytes()),
        nums(o2.as_ref().as_bytes()),
        vec![b2n(o == o2), c2n(o.cmp(&o2)), b2n(w == w2)],
        enc_writes(&w),
    ]
}

pub fn consts_names(a: &Args) -> Args {
    a.iter()
        .map(|x| {
            let Ok(s) = String::from_utf8(bytes(x)) else { return vec![0] };
            match s.parse::<StaticVarName>() {
                Ok(v) => {
                    let back: &'static str = v.into();
                    assert_eq!(back, v.as_ref());
                    let mut e = vec![1];
                    e.extend(nums(back.as_bytes()));
                    e
                },
                Err(_) => vec![0],
            }
        })
        .collect()
}
