//! Stream-parser and conversion-chain modes (C02, C03, C04, C05, C18): the same op interpreter as
//! coq/Extract/RunsStr.v, driving the real `stream::Parser` / `request::Parser`.
use crate::proto::config;
use crate::reqp::{feed, perr_code, req_obs};
use crate::{arg, argn, bytes, nums, Args, PANIC};
use fastcgi_server::parser::{self, stream};
use fastcgi_server::protocol::{RecordType, Role};
use std::panic::{catch_unwind, AssertUnwindSafe};

pub fn dispatch(mode: &str, a: &Args) -> Option<Args> {
    Some(match mode {
        "str_run" => str_run(a),
        "cmp_streams" => cmp_streams(a),
        _ => return None,
    })
}

fn stream_code(s: Option<RecordType>) -> u128 {
    s.map_or(0, |t| u128::from(u8::from(t)))
}

/// unparsed protocol bytes, observed through a clone (into_input works at record boundaries only)
fn raw_obs(p: &stream::Parser) -> Vec<u128> {
    match p.clone().into_input() {
        Ok(b) => nums(&b),
        Err(_) => Vec::new(),
    }
}

fn status_obs(res: &mut Args, tag: u128, e: Vec<u128>, st: (usize, bool, usize), dest: &[u8], p: &mut stream::Parser) {
    let mut head = vec![tag];
    head.extend(e);
    head.extend([
        st.0 as u128, u128::from(st.1), st.2 as u128, stream_code(p.active_stream()),
        u128::from(p.is_record_boundary()), p.input_buffer().len() as u128,
    ]);
    res.push(head);
    res.push(nums(dest));
    res.push(nums(p.stream_buffer()));
    res.push(nums(p.output_buffer()));
}

fn feed_amount(p: &mut stream::Parser, remaining: usize, n: u128) -> usize {
    (n.min(usize::MAX as u128) as usize).min(p.input_buffer().len()).min(remaining)
}

/// op 6 helper; returns (collected output, code)
fn to_boundary(p: &mut stream::Parser, wire: &[u8], pos: &mut usize) -> (Vec<u8>, u128) {
    let mut out = Vec::new();
    let fuel = wire.len() - *pos + 4;
    for _ in 0..fuel {
        let space = p.input_buffer().len();
        let n = space.min(wire.len() - *pos);
        p.input_buffer()[..n].copy_from_slice(&wire[*pos..*pos + n]);
        match p.parse(n, None) {
            Err(parser::Error::AbortRequest) => {
                *pos += n;
                out.extend_from_slice(p.output_buffer());
                let l = p.output_buffer().len();
                p.consume_output(l);
                return (out, if p.is_record_boundary() { 0 } else { 3 });
            },
            Err(_) => {
                *pos += n;
                return (out, 2);
            },
            Ok(_) => {
                *pos += n;
                out.extend_from_slice(p.output_buffer());
                let l = p.output_buffer().len();
                p.consume_output(l);
                if p.is_record_boundary() {
                    return (out, 0);
                }
                if *pos == wire.len() && n == 0 {
                    return (out, 1);
                }
                p.compress();
            },
        }
    }
    panic!("to_boundary: out of fuel");
}

fn str_run(a: &Args) -> Args {
    let cfg = config(argn(a, 0) as usize, argn(a, 1) as usize);
    let wire = bytes(&arg(a, 2));
    let ops: Vec<Vec<u128>> = a.iter().skip(3).cloned().collect();
    let mut res: Args = Vec::new();
    let gate0 = arg(a, 0).get(1).copied().unwrap_or(0) as usize;
    let r = catch_unwind(AssertUnwindSafe(|| run_ops(&cfg, &wire, gate0, &ops, &mut res)));
    if r.is_err() {
        res.push(vec![PANIC]);
    }
    res
}

fn run_ops(cfg: &fastcgi_server::Config, full: &[u8], gate0: usize, ops: &[Vec<u128>], res: &mut Args) {
    // `wire` = the bytes the client has sent so far; grows at op 6
    let mut gate = if gate0 == 0 { full.len() } else { gate0.min(full.len()) };
    let mut wire = &full[..gate];
    let mut rp = parser::request::Parser::new(cfg);
    let mut out = Vec::new();
    let (_done, unfed) = feed(&mut rp, wire, &[], &mut out);
    let mut pos = wire.len() - unfed;
    let mut p = match rp.into_stream_parser() {
        Ok(p) => p,
        Err(e) => {
            let mut v = vec![2];
            v.extend(perr_code(&e));
            res.push(v);
            res.push(nums(&out));
            return;
        },
    };
    res.push(vec![1, stream_code(p.active_stream()), p.input_buffer().len() as u128]);
    res.push(nums(&out));
    res.push(raw_obs(&p));

    for (opi, op) in ops.iter().enumerate() {
        // a clone is the same parser: every other operation is carried out on a clone of the parser as it stands (buffer contents,
        // cursors, pending output, active stream and all), the original is dropped
        if opi % 2 == 1 {
            let c = p.clone();
            p = c;
        }
        let a1 = op.get(1).copied().unwrap_or(0);
        let a2 = op.get(2).copied().unwrap_or(0);
        match op.first().copied().unwrap_or(99) {
            code @ (0 | 1 | 7) => {
                if code == 1 && !p.stream_buffer().is_empty() {
                    res.push(vec![10]);
                    continue;
                }
                let n = feed_amount(&mut p, wire.len() - pos, a1);
                p.input_buffer()[..n].copy_from_slice(&wire[pos..pos + n]);
                pos += n;
                let mut dest = vec![0u8; if code == 0 { 0 } else { a2 as usize }];
                let r = if code == 0 { p.parse(n, None) } else { p.parse(n, Some(&mut dest[..])) };
                match r {
                    Ok(st) => {
                        let written = if code == 0 { 0 } else { st.stream };
                        status_obs(res, 1, vec![], (st.stream, st.stream_end, st.output), &dest[..written], &mut p);
                    },
                    Err(e) => status_obs(res, 2, perr_code(&e), (0, false, 0), &[], &mut p),
                }
            },
            2 => {
                p.consume_stream(a1 as usize);
                res.push(vec![3]);
                res.push(nums(p.stream_buffer()));
            },
            3 => {
                p.compress();
                res.push(vec![4, p.input_buffer().len() as u128]);
                res.push(nums(p.stream_buffer()));
            },
            4 => {
                p.consume_output(a1 as usize);
                res.push(vec![5]);
                res.push(nums(p.output_buffer()));
            },
            5 => {
                let s = if a1 == 0 { None } else { Some(RecordType::try_from(a1 as u8).expect("known type")) };
                let ok = p.set_stream(s).is_ok();
                res.push(vec![6, u128::from(ok), stream_code(p.active_stream())]);
                res.push(nums(p.stream_buffer()));
            },
            6 => {
                // [6, k, 2]: the plain hand-off of the parser API: no set_stream(None), no skipping
                if a2 != 2 {
                    p.set_stream(None).expect("None is always allowed");
                }
                // [6, k, 1]: like Request::close, do not parse at all when already at a record boundary
                let (out2, code) = if (a2 == 1 || a2 == 2) && p.is_record_boundary() {
                    // close writes the pending replies first
                    let o = p.output_buffer().to_vec();
                    p.consume_output(o.len());
                    (o, 0)
                } else if a2 == 2 {
                    // off a record boundary the conversion is refused (the parser is consumed by the attempt: the run ends)
                    let l = p.output_buffer().len();
                    p.consume_output(l);
                    assert!(matches!(p.into_request_parser(), Err(parser::Error::Interrupted)), "conversion off a record boundary must be refused");
                    res.push(vec![7, 5]);
                    res.push(Vec::new());
                    return;
                } else {
                    to_boundary(&mut p, wire, &mut pos)
                };
                if code != 0 {
                    res.push(vec![7, code]);
                    res.push(nums(&out2));
                    return;
                }
                match p.into_request_parser() {
                    Err(_) => {
                        res.push(vec![7, 5]);
                        return;
                    },
                    Ok(mut rp) => {
                        gate = (gate + a1 as usize).min(full.len());
                        wire = &full[..gate];
                        let mut out3 = Vec::new();
                        // like Token::parse_request: first a parse call without new input (the leftover may fill the whole buffer)
                        let (done, unfed) = feed(&mut rp, &wire[pos..], &[0], &mut out3);
                        pos = wire.len() - unfed;
                        match rp.into_stream_parser() {
                            Ok(p3) => {
                                res.push(vec![7, 0, u128::from(done)]);
                                res.push(nums(&out2));
                                res.push(nums(&out3));
                                res.extend(req_obs(&p3.request));
                                res.push(raw_obs(&p3));
                                p = p3;
                            },
                            Err(e) => {
                                let mut v = vec![7, 4];
                                v.extend(perr_code(&e));
                                res.push(v);
                                res.push(nums(&out2));
                                res.push(nums(&out3));
                                return;
                            },
                        }
                    },
                }
            },
            8 => {
                match p.into_input() {
                    Ok(b) => {
                        res.push(vec![8, 1]);
                        res.push(nums(&b));
                    },
                    Err(_) => res.push(vec![8, 0]),
                }
                return;
            },
            _ => {
                res.push(vec![999_996]);
                return;
            },
        }
    }
    res.push(vec![9, (wire.len() - pos) as u128]);
}

/// cmp_input_streams is private; its table is observed through set_stream on a parser whose
/// active stream is `exp`:  role, recv, exp  ->  0 (Less: rejected) / 1 (Equal) / 2 (Greater).
fn cmp_streams(a: &Args) -> Args {
    let role = Role::try_from(argn(a, 0) as u16).expect("role");
    let recv = RecordType::try_from(argn(a, 1) as u8).expect("type");
    let exp = argn(a, 2);
    let cfg = config(64, 1);
    let mut wire = fastcgi_server::protocol::body::BeginRequest { role, flags: 0.into() }.to_record(1).to_vec();
    wire.extend_from_slice(&fastcgi_server::protocol::RecordHeader::new(RecordType::Params, 1).to_bytes());
    let mut rp = parser::request::Parser::new(&cfg);
    let mut out = Vec::new();
    let (done, _) = feed(&mut rp, &wire, &[], &mut out);
    assert!(done);
    let mut p = rp.into_stream_parser().expect("stream parser");
    // bring the parser to active stream = exp (None = 0) along the role's order
    if exp == 0 {
        p.set_stream(None).expect("none");
    } else {
        let e = RecordType::try_from(exp as u8).expect("type");
        if p.active_stream() != Some(e) && p.set_stream(Some(e)).is_err() {
            return vec![vec![777_777]];      // exp is not reachable for this role
        }
    }
    let before = p.active_stream();
    match p.set_stream(Some(recv)) {
        Err(_) => vec![vec![0]],
        Ok(()) => vec![vec![if Some(recv) == before { 1 } else { 2 }]],
    }
}
