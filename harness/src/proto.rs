//! Protocol element modes (C17): record headers, fixed bodies, GetValuesResult, exit status map,
//! and the constants of the compiled crate (validates coq/Gen/Generated.v).
use crate::{arg, argn, bytes, nums, Args};
use fastcgi_server::protocol as fcgi;
use fastcgi_server::protocol::body::{BeginRequest, EndRequest, UnknownType};
use fastcgi_server::{Config, ExitStatus};
use std::num::NonZeroUsize;

pub fn dispatch(mode: &str, a: &Args) -> Option<Args> {
    Some(match mode {
        "hdr_decode" => hdr_decode(a),
        "hdr_encode" => hdr_encode(a),
        "pad" => pad(a),
        "begin_decode" => begin_decode(a),
        "end_decode" => end_decode(a),
        "unk_decode" => unk_decode(a),
        "exit_map" => exit_map(a),
        "parse_name" => parse_name(a),
        "gvr" => gvr(a),
        "consts" => consts(a),
        _ => return None,
    })
}

fn arr8(a: &Args, i: usize) -> [u8; 8] {
    let b = bytes(&arg(a, i));
    let mut r = [0u8; 8];
    r.copy_from_slice(&b[..8]);
    r
}

fn hdr_decode(a: &Args) -> Args {
    match fcgi::RecordHeader::from_bytes(arr8(a, 0)) {
        Ok(h) => {
            assert_eq!(h.version, fcgi::Version::V1);
            vec![vec![0, u128::from(u8::from(h.rtype)), h.request_id.into(), h.content_length.into(), h.padding_length.into()]]
        },
        Err(fcgi::Error::UnknownVersion(v)) => vec![vec![1, v.into()]],
        Err(fcgi::Error::UnknownRecordType(t)) => vec![vec![2, t.into()]],
        Err(e) => panic!("unexpected error {e:?}"),
    }
}

fn hdr_encode(a: &Args) -> Args {
    let rtype = fcgi::RecordType::try_from(argn(a, 0) as u8).expect("generator supplies known types");
    let h = fcgi::RecordHeader {
        version: fcgi::Version::V1, rtype, request_id: argn(a, 1) as u16,
        content_length: argn(a, 2) as u16, padding_length: argn(a, 3) as u8,
    };
    vec![nums(&h.to_bytes())]
}

fn pad(a: &Args) -> Args {
    let mut h = fcgi::RecordHeader::new(fcgi::RecordType::Stdout, 1);
    h.set_lengths(argn(a, 0) as u16);
    assert_eq!(h.content_length, argn(a, 0) as u16);
    assert_eq!(h.padding_bytes().len(), usize::from(h.padding_length));
    assert!(h.padding_bytes().iter().all(|&b| b == 0));
    // set_lengths is a function of the new content length alone: a header that is reused for the next record, or that was decoded
    // from the wire, must end up with the same lengths as a fresh one, whatever lengths it carried before
    for prior_pad in [1u8, 3, 7, 8, 0x8b, 255] {
        for prior_len in [0u16, 5, 16, 65535] {
            let mut h2 = fcgi::RecordHeader {
                version: fcgi::Version::V1, rtype: fcgi::RecordType::Stdout, request_id: 1,
                content_length: prior_len, padding_length: prior_pad,
            };
            h2.set_lengths(argn(a, 0) as u16);
            assert_eq!((h2.content_length, h2.padding_length), (h.content_length, h.padding_length),
                       "set_lengths depends on the lengths the header carried before");
        }
    }
    vec![vec![h.padding_length.into()]]
}

fn begin_decode(a: &Args) -> Args {
    let id = argn(a, 1) as u16;
    match BeginRequest::from_bytes(arr8(a, 0)) {
        Ok(b) => {
            // RequestFlags::validate: Ok exactly when no bit besides KeepConn is set, otherwise the unknown bits are named
            let raw = u8::from(b.flags);
            match b.flags.validate() {
                Ok(()) => assert_eq!(raw & !1, 0, "validate accepted unknown flag bits"),
                Err(fcgi::Error::UnknownFlags(u)) => assert!(u == raw & !1 && u != 0, "validate names the wrong bits"),
                Err(e) => panic!("unexpected error {e:?}"),
            }
            vec![
                vec![1, u128::from(u16::from(b.role)), u128::from(u8::from(b.flags))],
                nums(&b.to_bytes()),
                nums(&b.to_record(id)),
            ]
        },
        Err(fcgi::Error::UnknownRole(r)) => vec![vec![0, r.into()]],
        Err(e) => panic!("unexpected error {e:?}"),
    }
}

fn end_decode(a: &Args) -> Args {
    let id = argn(a, 1) as u16;
    match EndRequest::from_bytes(arr8(a, 0)) {
        Ok(b) => vec![
            vec![1, b.app_status.into(), u128::from(u8::from(b.protocol_status))],
            nums(&b.to_bytes()),
            nums(&b.to_record(id)),
        ],
        Err(fcgi::Error::UnknownStatus(s)) => vec![vec![0, s.into()]],
        Err(e) => panic!("unexpected error {e:?}"),
    }
}

fn unk_decode(a: &Args) -> Args {
    let id = argn(a, 1) as u16;
    let u = UnknownType::from_bytes(arr8(a, 0));
    vec![vec![u.rtype.into()], nums(&u.to_bytes()), nums(&u.to_record(id))]
}

pub fn exit_status(disc: u128, code: u128) -> Option<ExitStatus> {
    Some(match disc {
        0 => ExitStatus::Complete(code as u32),
        2 => ExitStatus::Overloaded,
        3 => ExitStatus::UnknownRole,
        _ => return None,
    })
}

fn exit_map(a: &Args) -> Args {
    match exit_status(argn(a, 0), argn(a, 1)) {
        None => vec![vec![0]],
        Some(s) => {
            let e = EndRequest::from(s);
            if argn(a, 0) == 0 {
                // the conversion from a plain exit code and the default status
                let f = EndRequest::from(ExitStatus::from(argn(a, 1) as u32));
                assert_eq!((f.app_status, u8::from(f.protocol_status)), (e.app_status, u8::from(e.protocol_status)), "From<u32> for ExitStatus");
                let d = EndRequest::from(ExitStatus::default());
                let z = EndRequest::from(ExitStatus::SUCCESS);
                assert_eq!((d.app_status, u8::from(d.protocol_status)), (z.app_status, u8::from(z.protocol_status)), "Default for ExitStatus");
            }
            vec![vec![1, e.app_status.into(), u128::from(u8::from(e.protocol_status))]]
        },
    }
}

fn parse_name(a: &Args) -> Args {
    match fcgi::ProtocolVariables::parse_name(&bytes(&arg(a, 0))) {
        Ok(v) => vec![vec![1, v.bits().into()]],
        Err(_) => vec![vec![0]],
    }
}

pub fn config(buffer_size: usize, max_conns: usize) -> Config {
    let mut c = Config::with_conns(NonZeroUsize::new(max_conns).expect("max_conns >= 1"));
    c.buffer_size = buffer_size;
    c
}

/// gvr <vars> <maxc> <prefix>: Vec target; a SmallVec-like target is exercised through the parsers.
fn gvr(a: &Args) -> Args {
    let vars = fcgi::ProtocolVariables::from_bits_truncate(argn(a, 0) as u8);
    let cfg = config(8192, argn(a, 1) as usize);
    let mut out = bytes(&arg(a, 2));
    let n = vars.write_response(&mut out, &cfg);
    vec![vec![n as u128], nums(&out)]
}

fn consts(_a: &Args) -> Args {
    use fcgi::{ProtocolStatus, RecordType, Role, Version};
    let types: Vec<RecordType> = (0..=255u8).filter_map(|b| RecordType::try_from(b).ok()).collect();
    let tv = |f: &dyn Fn(RecordType) -> bool| -> Vec<u128> {
        types.iter().filter(|&&t| f(t)).map(|&t| u128::from(u8::from(t))).collect()
    };
    let roles: Vec<Role> = (0..=65535u16).filter_map(|r| Role::try_from(r).ok()).collect();
    let mut inputs = Vec::new();
    let mut nexts = Vec::new();
    for &r in &roles {
        inputs.push(u128::from(u16::from(r)));
        inputs.push(r.input_streams().len() as u128);
        inputs.extend(r.input_streams().iter().map(|&t| u128::from(u8::from(t))));
        for cur in [None, Some(RecordType::Stdin), Some(RecordType::Data)] {
            // next_input_stream debug-asserts membership of `cur`; ask only what the role allows
            let v = if cur.map_or(true, |c| r.input_streams().contains(&c)) {
                r.next_input_stream(cur).map_or(0, |t| u128::from(u8::from(t)))
            } else {
                crate::PANIC
            };
            nexts.push(v);
        }
    }
    let mut pv = Vec::new();
    for (name, f) in fcgi::ProtocolVariables::all().iter_names() {
        pv.push(u128::from(f.bits()));
        pv.push(name.len() as u128);
        pv.extend(name.bytes().map(u128::from));
    }
    let abort = match ExitStatus::ABORT { ExitStatus::Complete(c) => c, _ => unreachable!() };
    let success = match ExitStatus::SUCCESS { ExitStatus::Complete(c) => c, _ => unreachable!() };
    vec![
        tv(&|_| true),
        tv(&|t| t.is_management()),
        tv(&|t| t.is_input_stream()),
        tv(&|t| t.is_output_stream()),
        roles.iter().map(|&r| u128::from(u16::from(r))).collect(),
        (0..=255u8).filter_map(|b| ProtocolStatus::try_from(b).ok()).map(|s| u128::from(u8::from(s))).collect(),
        (0..=255u8).filter_map(|b| Version::try_from(b).ok()).map(|s| u128::from(u8::from(s))).collect(),
        inputs,
        nexts,
        Role::Responder.output_streams().iter().map(|&t| u128::from(u8::from(t))).collect(),
        vec![
            fcgi::RecordHeader::LEN as u128, UnknownType::LEN as u128, BeginRequest::LEN as u128, EndRequest::LEN as u128,
            fcgi::ProtocolVariables::RESPONSE_LEN as u128, u128::from(u32::from(fcgi::varint::VarInt::MAX)),
            fcgi::FCGI_NULL_REQUEST_ID.into(), fcgi::RequestFlags::KeepConn.bits().into(), abort.into(), success.into(),
        ],
        pv,
    ]
}
