"""Connection-level case construction for conn_run (see harness/src/conn.rs, coq/Async/Conn.v)."""
import fcgen
from fcgen import *  # noqa
from fvgen import fmt_arg

R_ERR = 4000000001
W_ZERO = 4000000001
W_ERR = 4000000002
W_ERR_AB = 4000000003   # write error of kind ConnectionAborted


def hscript(ops):
    out = []
    for op in ops:
        if op[0] == "read":
            out += [1, op[1]]
        elif op[0] == "readall":
            out += [2]
        elif op[0] == "fill":
            out += [3, op[1]]
        elif op[0] == "set":
            out += [4, op[1]]
        elif op[0] == "writeable":
            out += [5]
        elif op[0] == "write":
            out += [6, op[1], len(op[2])] + list(op[2])
        elif op[0] == "flush":
            out += [7, op[1]]
        elif op[0] == "ret":
            out += [8, op[1], op[2]]
        elif op[0] == "fail":
            out += [9, op[1]]
        elif op[0] == "read?":
            out += [10, op[1]]
        elif op[0] == "poll1":
            out += [11, op[1]]
    return out


def conn_case(B, maxc, segs, scripts, rscript=(), wscript=(), vectored=1, stop_at=0):
    """segs: list of (gate_end, gate_mgmt, bytes)"""
    table, wire = [], []
    for ge, gm, b in segs:
        table += [ge, gm, len(b)]
        wire += list(b)
    args = [[B, maxc, vectored, stop_at], list(rscript), list(wscript), table, wire] + [hscript(s) for s in scripts]
    return "conn_run " + " ".join(fmt_arg(x) for x in args)


def req_new_case(B, maxc, wire, script, rscript=(), wscript=(), vectored=1, preselect=0, leak=0):
    """the public constructors used by hand: request::Parser -> into_stream_parser [-> set_stream(preselect)] -> Request::new -> handler
    script -> Request::close (harness mode req_new)"""
    args = [[B, maxc, vectored, preselect, leak], list(rscript), list(wscript), list(wire), hscript(script)]
    return "req_new " + " ".join(fmt_arg(x) for x in args)
