#!/usr/bin/env python3
"""Regenerates the table of seeded changes in DESIGN.md (between the SEEDED-TABLE markers) from seeded/*/meta.json."""
import json, glob, os, re
ROOT = os.path.dirname(os.path.dirname(os.path.abspath(__file__)))
rows = []
for d in sorted(glob.glob(os.path.join(ROOT, "seeded", "*", ""))):
    m = json.load(open(d + "meta.json"))
    res = []
    for x in m["checks_run_against_it"].split(";"):
        x = x.strip()
        if not x:
            continue
        pid = x.split(":")[0]
        if "VIOLATION" in x:
            res.append(pid + (": reported, no failing input" if "no-failing-input-found" in x else ": reported with failing input"))
        elif "MISSED-AT-FIRST" in x:
            res.append(pid + ": missed at first, check strengthened, now reported with failing input")
        elif "OK" in x:
            res.append(pid + ": not affected (OK)")
        else:
            res.append(pid + ": check crashed (repaired since, see 13.6)")
    extra = m.get("later_note", "")
    rows.append("| %s | %s | %s | %s%s |" % (os.path.basename(d[:-1]), m["property"], (m["needs"] or "")[:170].replace("\n", " ").replace("|", "/"),
                                         "; ".join(res), (" — " + extra) if extra else ""))
table = "\n".join(["<!-- SEEDED-TABLE-BEGIN -->", "| seeded change | property | needs to manifest (abridged) | quick checks run against it |", "|---|---|---|---|"] + rows + ["<!-- SEEDED-TABLE-END -->"])
p = os.path.join(ROOT, "DESIGN.md")
s = open(p).read()
if "<!-- SEEDED-TABLE-BEGIN -->" in s:
    s = re.sub(r"<!-- SEEDED-TABLE-BEGIN -->.*?<!-- SEEDED-TABLE-END -->", lambda _: table, s, flags=re.S)
else:
    s = re.sub(r"\| seeded change \| property \|.*?\n\n", lambda _: table + "\n\n", s, count=1, flags=re.S)
open(p, "w").write(s)
print(len(rows), "rows")
