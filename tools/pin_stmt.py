#!/usr/bin/env python3
"""Helper used when WRITING coq/Props/*.v (not at check time): asks Coq for the full statement of proved lemmas
(`Check name.`, so section variables such as maxc appear explicitly) and prints Props-style pinned copies
    Theorem <ID>_<name> : <statement>.  Proof. exact <lemma>. Qed.
The Props files produced this way are ordinary committed sources; every check re-compiles them, so a lemma whose
statement no longer matches the pinned text breaks the build."""
import re, subprocess, sys, os, tempfile

COQ = os.path.join(os.path.dirname(os.path.dirname(os.path.abspath(__file__))), "coq")

def statements(prelude, names, unfold=None):
    unfold = unfold or {}
    src = prelude + "\nSet Printing Width 112.\n"
    for n in names:
        if unfold.get(n):
            # same statement with the named *_stmt definitions unfolded, printed in the `Check` layout
            src += ("Definition pin_tmp_%s := ltac:(let t := type of %s in let t' := eval cbv beta delta [%s] in t in exact t').\n"
                    "Eval cbv delta [pin_tmp_%s] in pin_tmp_%s.\n" % (n, n, " ".join(unfold[n]), n, n))
        else:
            src += "Check %s.\n" % n
    with tempfile.TemporaryDirectory() as d:
        p = os.path.join(d, "pin.v")
        open(p, "w").write(src)
        r = subprocess.run(["coqc", "-Q", COQ, "FV", p], capture_output=True, text=True, cwd=d)
        if r.returncode != 0:
            raise SystemExit(r.stdout + r.stderr)
    out, res = r.stdout, {}
    blocks = re.split(r'^(?=\S+\n     : )', out, flags=re.M)
    # Eval output:  "     = <stmt>\n     : Prop"  -> rewrite into the Check layout
    k = 0
    evn = [n for n in names if unfold.get(n)]
    def fix(mo):
        nonlocal k
        n = evn[k]; k += 1
        return "%s\n     : %s\n" % (n, mo.group(1).rstrip())
    out = re.sub(r'^     = (.*?)\n     : Prop\n', fix, out, flags=re.S | re.M)
    blocks = re.split(r'^(?=\S+\n     : )', out, flags=re.M)
    for b in blocks:
        m = re.match(r'(\S+)\n     : (.*)', b, re.S)
        if m:
            body = m.group(2).rstrip()
            body = "\n".join(l[7:] if l.startswith("       ") else l for l in body.split("\n"))
            res[m.group(1)] = body
    return res

def pins(prelude, items):
    """items: list of (comment or None, lemma, new theorem name[, definitions to unfold in the printed statement])"""
    st = statements(prelude, [it[1] for it in items], {it[1]: it[3] for it in items if len(it) > 3})
    out = ""
    for it in items:
        c, l, n = it[:3]
        if c:
            import textwrap
            out += "(* " + "\n   ".join(textwrap.wrap(c, 108)) + " *)\n"
        body = "\n".join("  " + x for x in st[l.split(".")[-1]].split("\n"))
        out += "Theorem %s :\n%s.\nProof. exact %s. Qed.\n\n" % (n, body, l)
    return out
