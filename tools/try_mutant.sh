#!/bin/bash
# tools/try_mutant.sh <scratch worktree with deliver/> <name> <check id>...
# 1. confirms in the scratch worktree: compiles + baseline passes with the change, demo fails with it and passes without
# 2. applies the change to /repo, runs the listed checks, reverts /repo (git checkout -- .)
# 3. stores the mutant under /verif/seeded/<name>/ with the outcome
set -u
D=$1; NAME=$2; shift 2
cd "$D" || exit 2
git checkout -q -- . 2>/dev/null; rm -f tests/demo_mutation.rs
mkdir -p tests
git apply deliver/patch.diff || { echo "PATCH DOES NOT APPLY"; exit 2; }
cp deliver/demo_mutation.rs tests/demo_mutation.rs
B1=$(cargo test --workspace --no-fail-fast --offline --lib 2>&1 | grep -E "^test result" | head -1)
B2=$(cargo test --offline --features async,http --lib 2>&1 | grep -E "^test result" | head -1)
W=$(cargo test --offline --features async,http --test demo_mutation 2>&1 | grep -E "^test result|error\[" | head -2 | tr '\n' ' ')
git checkout -q -- src Cargo.toml 2>/dev/null
WO=$(cargo test --offline --features async,http --test demo_mutation 2>&1 | grep -E "^test result|error\[" | head -2 | tr '\n' ' ')
rm -f tests/demo_mutation.rs
echo "baseline(with change): $B1 | $B2"
echo "demo with change   : $W"
echo "demo without change: $WO"
cd /verif
mkdir -p seeded/$NAME
cp "$D"/deliver/patch.diff "$D"/deliver/demo_mutation.rs seeded/$NAME/
cp "$D"/deliver/meta.json seeded/$NAME/meta_author.json
git -C /repo apply "$D"/deliver/patch.diff || { echo "cannot apply to /repo"; exit 2; }
RES=""
for id in "$@"; do
  OUT=$(./check $id 2>&1 | grep -E "^(OK|VIOLATION|KNOWN)" | head -2 | tr '\n' ' ')
  echo "check $id: $OUT"
  RES="$RES$id: $OUT; "
  for f in $(echo "$OUT" | grep -o 'replays/[^ ]*'); do cp "$f" seeded/$NAME/ 2>/dev/null; done
done
git -C /repo checkout -- .
python3 - "$NAME" "$B1 | $B2" "$W" "$WO" "$RES" <<'PY'
import json, sys
name, base, w, wo, res = sys.argv[1:6]
a = json.load(open('/verif/seeded/%s/meta_author.json' % name))
m = {"property": a.get("property"), "what": a.get("what"), "needs": a.get("needs"),
     "confirmed_by_us": {"baseline_with_change": base, "demo_with_change": w, "demo_without_change": wo},
     "checks_run_against_it": res}
json.dump(m, open('/verif/seeded/%s/meta.json' % name, 'w'), indent=1)
PY
# restore evidence of the unchanged tree
for id in "$@"; do ./check $id >/dev/null 2>&1; done
rm -f replays/*.json
