#!/usr/bin/env python3
"""Writes /verif/MANIFEST.json from the table below (kept in one place so it is always valid)."""
import json, os
ROOT = os.path.dirname(os.path.dirname(os.path.abspath(__file__)))

NOTE_COMMON = ("Trusted: Coq 8.16.1 kernel (+vm_compute for finite sweeps/examples; no native_compute); no axioms "
               "(Print Assumptions of each property theorem is checked to be closed on every run); extract_consts.py; "
               "ExtrOcamlBasic extraction + ocaml/driver.ml; coq/Extract/Runs.v; the Rust harness. The Gallina model is "
               "hand-written and tied to /repo by differential execution on every run; Rust core/std and third-party "
               "crates are modelled by their documented behaviour, not verified. ")

CLAIMED = {
    "C15": dict(
        text="Proof: vi_read/vi_write/TryFrom of src/protocol/varint.rs are modelled in Gallina (bit operations as in the code) and "
             "the round-trip, exact encoding shape, injectivity, exact conversion domain, decode-completeness and canonical "
             "re-encoding are proved for all values/byte strings (8 theorems, no bound). The model is tied to the crate by "
             "differential execution of the extracted model and the real VarInt API on boundary, exhaustive one-byte, truncation and random cases.",
        design="6/C15", technique="Coq proof (round-trip/bijection lemmas, byte sweeps lifted) + model-vs-crate differential execution",
        note="usize assumed 64-bit; slice read_exact modelled."),
    "C16": dict(
        text="Proof: NVIter::next / nv::write of src/protocol/nv.rs modelled in Gallina; proved for all byte strings and all pair lists: "
             "round trip with nothing left over, exact byte count and shape of the encoding, rejection of components >= 2^31, no out-of-bounds "
             "slice operation on any input, yielded pairs are consecutive sub-lists after a 2/5/8-byte header, fusedness and 'remainder is the "
             "undecoded suffix', exact additive prefix law nv_run (a++b), size hint bound (12 theorems). Partial as to two clauses a list model "
             "cannot express (address identity of the yielded slices; agreement of the &[u8] and &mut [u8] instantiations): these are asserted "
             "inside the harness on every case. Tie: extracted model vs real iterator on exhaustive short strings over a boundary alphabet, "
             "all prefixes of encodings, mutations, random bytes.",
        design="6/C16", technique="Coq proof (induction on input length; additive prefix law) + differential execution; pointer-range assertions in harness",
        note="usize assumed 64-bit; zero-copy and shared/mutable agreement are tested, not proved."),
    "C17": dict(
        text="Proof: RecordHeader, the BeginRequest/EndRequest/UnknownType bodies and their whole-record encoders, the automatic padding rule, "
             "ExitStatus->EndRequest, make_request_epilogue and ProtocolVariables::write_response (with usize->decimal) are modelled in Gallina over "
             "tables regenerated from the source; 19 theorems for all field values: round trips, exact decode domain (version checked first), "
             "decode-then-encode identity up to reserved bytes, minimal padding < 8 making the body a multiple of 8, GetValuesResult = one "
             "well-formed management record <= RESPONSE_LEN whose body decodes to exactly the requested variables in declaration order with the "
             "decimal connection limit (any limit < 2^64, any subset), exit-status map, epilogue shape, and equality of the regenerated constants "
             "with a hand transcription of the FastCGI specification. Tie: differential execution incl. all (version,type) pairs, all 65536 "
             "padding inputs/roles in thorough, all flag/status bytes, all variable subsets x decimal-length boundaries, and a `consts` case "
             "comparing the regenerated tables with the compiled crate.",
        design="6/C17", technique="Coq proof (arithmetic on be16/be32, decimal induction, table lemmas) + differential execution with field-exhaustive sweeps",
        note="make_request_epilogue is crate-private: its theorem is tied to the code through the connection-level check (C07). bitflags iter_names order modelled."),
    "C19": dict(
        text="Proof: VarName/OwnedVarName/StaticVarName equality, ordering, hashing (as the sequence of Hasher::write payloads) and all "
             "constructors are modelled over byte strings and the regenerated interned-name table; 32 theorems for all strings: "
             "eq_ignore_ascii_case <-> equal upper-casings, equivalence, total order consistent with it (antisymmetry, transitivity, "
             "compatibility), write-stream equality iff equality (hence identical hashes under any hasher), stream shape/injectivity/"
             "prefix-freeness, owned fast paths agree with the string definitions (needs: table has no duplicates and is upper-case - re-checked "
             "by vm_compute whenever the table changes), constructor normalisation/interning, header-name mapping, lookup by any spelling. "
             "Tie: differential execution through every constructor with a recording Hasher, HashMap/BTreeMap look-ups, all interned names in "
             "three case classes, chunk-boundary lengths, non-ASCII case pairs.",
        design="6/C19", technique="Coq proof (list induction, table facts by vm_compute lifted) + differential execution with recording hasher",
        note="strum EnumString(use_phf)/IntoStaticStr modelled as exact table lookup; std ascii helpers, Iterator::cmp, chunks_exact modelled; "
             "real SipHash collisions not modelled; C19_hash_prefix_free assumes no 0xff byte (true of UTF-8)."),
    "C20": dict(
        text="Proof: write_headers / simple_redirect / http_headers are modelled as the exact sequence of write_all calls on a bounded "
             "(&mut [u8]) or unbounded (Vec) destination; 12 theorems for all codes 100..999, header lists, byte strings, capacities and any reason "
             "table: fits => Ok(len) and exactly the documented text appended; does not fit => Err and the destination holds take cap expected; "
             "Ok(n) => exactly n bytes appended; line structure (status line, one line per header in order, blank line); 3-digit status rendering. "
             "Tie: differential execution incl. every code, every capacity 0..len+1 for sampled lists, Vec target, http::Response path; the real "
             "http reason table is read from the compiled crate on every run.",
        design="6/C20", technique="Coq proof (induction over the header list / write sequence) + differential execution over all codes and capacities",
        note="std Write for &mut [u8]/Vec and http::StatusCode::{as_str,canonical_reason} modelled; header name 'status' excluded (documented precondition, debug_assert)."),
    "C06": dict(
        text="Proof: (1) Config::aligned_bufsize (64-bit usize, overflow arm stated separately) is >= the configured size, >= 24, a multiple of 8 "
             "and the least such value, for every size; (2) C06_sufficient: for EVERY well-formed preamble (any junk, cuts, paddings), buffer size, "
             "trailing bytes and read schedule, if every pair satisfies |name|+|value|+13 <= effective buffer (and GetValues junk pairs fit) the "
             "model never reaches StuckOnInput and ends Done; (3) C06_reported / C06_stuck_same_call: for every parser state and call, done=false "
             "implies a non-empty input buffer, and an empty one is reported by that very call; a tightness witness (encoded pair of B+1 bytes "
             "gets stuck) is included. Tie: bufsize for all b in 0..4096 (quick) / 0..2^20 (thorough), critical pairs of size B-13-d..B-4 at "
             "start/middle/end/across records under greedy (exactly-filling), 1-byte and random reads.",
        design="6/C06", technique="Coq proof (arithmetic; never-stuck via the 'unconsumed rest is a proper prefix of one unit' bound; exact drive additivity) + differential execution",
        note="usize assumed 64-bit; sizes assumed < 2^62 (SIZE_LIMIT) to discharge checked_add arms."),
    "C18": dict(
        text="Proof (partial so far): cmp_input_streams and set_stream of src/parser/stream.rs are modelled at index level. Proved: the full comparison "
             "table and the full acceptance table over their finite domains (decided by vm_compute inside Coq and lifted, domain stated in the "
             "theorem), and for EVERY parser state: rejected selections change nothing, re-selecting keeps all buffered data, an accepted change "
             "sets the stream, empties the stream buffer and leaves request/record position/pending output untouched; the initial stream is the "
             "first of the role. The unbounded clause 'only bytes of the active stream are ever delivered, for any record order' is decided by the "
             "correspondence check + oracle on scrambled stream orders with matching/foreign ids (proof pending: stream-parser invariant).",
        design="6/C18", technique="Coq proof (finite tables by vm_compute lifted with In-lemmas; set_stream by case analysis) + differential execution on scrambled stream orders",
        note="requested selections restricted to None/Stdin/Data: other record types hit a private debug_assert in debug builds (release rejects); recorded, not claimed."),
    "C01": dict(
        text="Proof: request::Parser (State machine, SkipState/GetValuesState/HeaderState/ParamsState drives, parse_buffered/parse_stream cross-record "
             "reassembly, Parser::parse with buffer compaction and stuck detection) is modelled function by function in Gallina. C01_exact is proved "
             "for every key-normalisation function, buffer size, well-formed preamble (any junk before BeginRequest, any id/role/flag byte, any cut of "
             "the Params payload into records incl. inside a length prefix, any padding, any management / unknown-type / foreign-id / duplicate or foreign "
             "BeginRequest records in between), pairs within the documented bound, trailing bytes and EVERY read schedule (incl. 0-byte calls): the run "
             "ends Done with exactly id/role/flags and the insertion log of the pairs under normalised names, the owed replies as output, and "
             "leftover++unfed = trailing. Lookup = last value wins (C01_lookup_*). Proof route: parse_buffered characterised against plain NV decoding "
             "(S1-S4), exact additivity of the drive loop, schedule invariance, record-level simulation, never-stuck bound. Tie: differential execution "
             "on generated preambles (every cut offset x paddings for boundary-length pairs, junk, 5 schedule styles, both build profiles) + an "
             "independent Python oracle; the lossy-UTF-8 instance of norm is a transcription tied by its own case stream.",
        design="6/C01", technique="Coq proof (exact drive additivity + parse_buffered characterisation + record-level simulation, all schedules) + differential execution with independent oracle",
        note="HashMap modelled as insertion log (lookup = last match); CompactString::from_utf8_lossy is a theorem parameter (instance transcribed, tested); "
             "case-insensitive key matching is C19's; sizes < 2^62."),
    "C03": dict(
        text="Proof (request parser complete, stream parser pending): for ANY byte string and ANY read schedule the request-parser model returns from "
             "every call without panic or loop-bound exhaustion and keeps its invariant (C03_req_call_total, C03_req_total); any two schedules agree on "
             "done/unfinished, output bytes, unread remainder and outcome incl. the specific fatal error and StuckOnInput (C03_req_chunk_invariant; the "
             "over-strong exact-state variant is refuted with a witness and the normalisation [settle] made explicit); exact drive additivity; final "
             "states are sticky with no further output. The stream-parser clauses (totality, invariants, prefix, error persistence) are decided by the "
             "correspondence check + oracle and by lockstep checks of the abstract machine until their proofs (Parser/StreamSpec.v targets) complete. "
             "Tie: mutated and random wires, >= 3 schedules per wire compared by a group oracle, all 256 type bytes, conversions at non-final states, "
             "both build profiles (debug assertions and overflow checks on).",
        design="6/C03", technique="Coq proof (totality by measure, exact additivity, schedule-invariance incl. uniqueness of the stuck point) + differential execution on hostile inputs with cross-schedule group oracle",
        note="stream-parser part not yet proved (partial); allocation failure not modelled; sizes < 2^62."),
    "C04": dict(
        text="Proof (request parser complete, stream parser pending): reply_for is the specification of the owed reply per record and phase. "
             "C04_req_record: every complete record at a record boundary is consumed entirely, emits exactly reply_for and moves the phase machine as "
             "specified; C04_req_sequence: for any accepted record sequence the output is the concatenation of the owed replies in order; "
             "C04_req_preamble_replies: under every chunking of a well-formed preamble. GetValues bodies split at any offset are covered through exact "
             "drive additivity. Stream-parser replies (T_replies_stmt) are decided by correspondence + oracle + lockstep until proved. Tie: dense junk, "
             "all 245 unknown types x positions x paddings, GetValues bodies with known/unknown/repeated/non-UTF-8/value-carrying names and incomplete "
             "trailing pairs under 1-byte reads, abort mid-Params, consume_output(k) interleavings; oracle recomputes owed replies independently.",
        design="6/C04", technique="Coq proof (record-level simulation of the state machine against the reply specification) + differential execution with independent reply oracle",
        note="stream-parser part not yet proved (partial); unknown-type replies echo the received request id (as the crate's tests pin)."),
    "C05": dict(
        text="Proof (request-parser hand-offs complete; stream-parser hand-offs and the k-request chain pending): after any schedule over any bytes "
             "fed = consumed ++ held ++ unfed (C05_leftover_req); into_request / into_stream_parser hand over exactly the held bytes; on well-formed "
             "preambles the leftover is exactly the bytes after the preamble for every look-ahead (C05_leftover_exact). The chain property is decided "
             "by the correspondence check (k = 1..4/8 requests on one buffer, reader policies never/mid/end, gated client) + oracle until proved. "
             "Observation recorded in DESIGN.md: a stream parser told to skip (set_stream(None)) consumes a buffered next BeginRequest as a foreign one; "
             "the property's hand-offs therefore assume the next request's bytes are not yet buffered (one-outstanding client).",
        design="6/C05", technique="Coq proof (rest-is-suffix through drive/parse/schedule) + differential execution of conversion chains with gated client",
        note="stream-parser part not yet proved (partial)."),
    "C07": dict(
        text="Proof on the connection model (Async/Conn.v: Token::run, parse_request, Request::{poll_input, poll_output, writeable, record_boundary, "
             "close}, StreamWriter writes, scripted handlers/transport/gated client), partial: C07_epilogue is proved for every transport "
             "behaviour - close writes, after skipping to a record boundary without writing, exactly the pending management replies, the empty "
             "Stdout and Stderr records and one EndRequest with the exit status' protocol/application status and the request id. The one-call and "
             "reuse clauses are decided by the correspondence check (the model agrees with the real Token::run on every generated connection: "
             "handler events, transport log, bytes consumed, poll count) + an independent oracle that decodes the transport log; these clauses "
             "found defect F3 (leftover filling the buffer => connection dropped despite KeepConn), repaired in /repo fd29a7b; its replay is in "
             "corpus/C07 and runs first. Partial as to the runtime: executor/waker protocol, rustc's async lowering, futures-util select/Mutex are "
             "modelled by contract.",
        design="6/C07, 13.3", technique="Coq proof on an executable connection model (write path, epilogue) + differential execution of scripted connections on a deterministic executor with log-decoding oracle",
        note="one-call/reuse clauses not yet proved (correspondence + oracle only); single task; handlers await each I/O op to completion."),
    "C10": dict(
        text="Proof, partial: for a writer's write_all the transport log grows by exactly the records of the data's <= 65535-byte chunks "
             "(C10_exact), for every way the transport splits or delays the vectored write incl. the first-slice fallback (C10_any_split); each "
             "record is complete and well-formed with the writer's type, the request id, padding < 8 and body+padding a multiple of 8 "
             "(C10_record_wf); payloads concatenate to exactly the written bytes (C10_payload_is_data) and decode back (C10_decodes_back); the "
             "parser's own replies are flushed under the same lock discipline (C10_poll_output). The mutual exclusion of several writers on "
             "separately polled tasks is modelled (Async/Writer.v: lock owner, per-record state) and decided by the correspondence check: 1..3 "
             "writers incl. clones + the request's reply flushing polled in scripted orders over cutting/Pending transports; proof pending.",
        design="6/C10", technique="Coq proof (write loops: exact bytes for every transport split) + differential execution of scripted multi-writer poll orders with record-decoding oracle",
        note="multi-writer exclusion not yet proved (model + correspondence); futures-util Mutex modelled as owner field; fairness not claimed."),
    "C12": dict(
        text="Proof on the connection model (Async/Conn.v): C12_terminates - for EVERY read script and write script (read errors, write errors, "
             "zero-length writes, spurious not-ready results at any call index), every client byte string cut off at any offset, every buffer size and "
             "every list of well-formed handler scripts the task returns: no Rust panic site and no loop bound of the model is reachable "
             "(C12_total for gated clients: the only other outcome is waiting for a client that waits; C12_total_lax: rejected set_stream in a "
             "handler is the handler's own documented panic); C12_write_all / C12_writer_prefix - a failed write leaves only a prefix of the "
             "bytes of that write, i.e. a prefix of a well-formed record sequence, and is reported. 'No handler for an incomplete preamble' and "
             "'unexpected-EOF instead of a short success' are decided by the correspondence check (EOF at every byte offset of short connections, a "
             "read error at every read index, a write error / zero write at every write index) + oracle; their proofs are pending.",
        design="6/C12", technique="Coq proof (totality of the connection model under all fault scripts; write path) + exhaustive fault-position enumeration per scripted connection through model and crate",
        note="two clauses (no handler on partial preamble; EOF is an error) by correspondence + oracle only; handlers propagate write errors; single task."),
    "C13": dict(
        text="Proof on the token model (Async/Tokens.v: permit counter + event-listener queue with notify(1) being a no-op while a listener is already "
             "notified, notified listeners passing the notification on when dropped, the acquire future trying the counter first - all modelled from "
             "the async-lock 3.4.0 / event-listener 5.3.1 sources): for every limit and EVERY history of get_token / poll / drop-token / "
             "drop-pending-request, live tokens + free permits = limit (C13_bound), a request polled while a slot is free completes at once "
             "(C13_immediate), and whenever a slot is free while requests are queued some queued listener has been notified (C13_not_stranded), "
             "wake counters only grow, listeners are owned by pending requests. Partial as the brief says: the two crates are third-party code tied by "
             "differential execution of single-threaded histories (random + directed: k releases in a row with waiters queued, cancellation of the "
             "notified waiter, barging) with one counting waker per request; thread interleavings inside their atomics are below the model's granularity.",
        design="6/C13, 13.3", technique="Coq proof (inductive invariant over all operation histories of the semaphore/event-listener model) + differential execution of histories on the real Runner with counting wakers",
        note="async-lock / event-listener internals modelled from source, not verified; single-threaded granularity; clones share the semaphore by construction."),
    "C14": dict(
        text="Proof on the wait-group model (Async/WaitGroup.v: Arc/Weak/AtomicWaker by their documented atomic behaviour, one poller, token drops "
             "forced into each window of WaitGroupFuture::poll): invariant for every history (C14_wg_invariant), the shutdown future is ready exactly "
             "when no token is alive at its liveness check - never earlier (C14_ready_iff_done), and no lost wake-up: after a Pending poll the "
             "registered waker has been invoked as soon as the last token is gone, whether the final drop landed between the liveness check and "
             "the registration, between registration and the release of the temporary reference, or later (C14_no_lost_wakeup). Connection side: "
             "run_loop consults the stop listener before starting a request (C14_nothing_new); 'in-flight requests complete' and 'idle connections "
             "stop without reading' are decided by the correspondence check (shutdown requested before every scheduling step k of Pending-heavy "
             "connections, idle clients woken by shutdown) + oracle. The wait-group windows are forced on the real crate through the "
             "cfg(fastcgi_server_verif) hook (/repo ed42bbf).",
        design="6/C14, 13.4", technique="Coq proof (wait-group transition system, all window placements) + differential execution with hook-forced interleavings and shutdown injected at every scheduling step",
        note="Arc/Weak/AtomicWaker modelled; select polls its left future first (modelled); in-flight-completes clause by correspondence + oracle."),
}

PENDING = {}
for i in range(1, 21):
    pid = "C%02d" % i
    if pid not in CLAIMED:
        PENDING[pid] = "model and check not built yet in this round (planned in DESIGN.md section 6); not claimed until its check exists"


def main():
    checks = []
    for pid in sorted(CLAIMED):
        c = CLAIMED[pid]
        checks.append({
            "property_id": pid,
            "quick_cmd": "./check %s --tier quick" % pid,
            "thorough_cmd": "./check %s --tier thorough" % pid,
            "evidence_file": "/verif/evidence/%s.json" % pid,
            "replay_cmd_template": "./check %s --replay {path}" % pid,
            "engine": "coq-proof+correspondence",
            "level_claimed": {"category": "proof", "text": c["text"], "design_ref": "DESIGN.md section " + c["design"]},
            "level_note": NOTE_COMMON + c["note"],
            "technique": c["technique"],
        })
    m = {
        "version": 1,
        "setup_cmd": "./check --setup",
        "hooks": {
            "guard": "fastcgi_server_verif",
            "enable": "RUSTFLAGS='--cfg fastcgi_server_verif' (set by ./check when it builds /verif/harness against /repo)",
            "baseline_off_cmd": "cd /repo && cargo test --workspace --no-fail-fast --offline",
            "source_commits": ["ed42bbf"],
            "add_only": True,
        },
        "engines": [{
            "name": "coq-proof+correspondence", "path": "/verif/check",
            "serves_properties": sorted(CLAIMED),
            "kind_free_text": "Coq 8.16.1 theorems about hand-written Gallina models (coq/), data tables regenerated from /repo/src, "
                              "model extracted to OCaml and run against the real crate (harness/) on generated cases",
        }],
        "checks": checks,
        "not_applicable": [{"property_id": p, "reason": r} for p, r in sorted(PENDING.items())],
        "notes": "All checks rebuild from /repo's working tree; see DESIGN.md.",
    }
    with open(os.path.join(ROOT, "MANIFEST.json"), "w") as f:
        json.dump(m, f, indent=1)
    print("MANIFEST.json: %d claimed, %d not claimed" % (len(checks), len(PENDING)))


if __name__ == "__main__":
    main()
