#!/usr/bin/env python3
"""Writes /verif/MANIFEST.json from the table below (kept in one place so it is always valid)."""
import json, os
ROOT = os.path.dirname(os.path.dirname(os.path.abspath(__file__)))

NOTE_COMMON = ("Trusted: Coq 8.16.1 kernel (+vm_compute for finite sweeps/examples; no native_compute); no axioms "
               "(Print Assumptions of each property theorem is checked to be closed on every run); extract_consts.py; "
               "ExtrOcamlBasic extraction + ocaml/driver.ml; coq/Extract/Runs.v; the Rust harness. The Gallina model is "
               "hand-written and tied to /repo by differential execution on every run; Rust core/std and third-party "
               "crates are modelled by their documented behaviour, not verified. ")

CLAIMED = {
    "C02": dict(
        text="Proof: stream::Parser (parse with dest = Some/None, parse_head, the four record states, compress/copy_within, consume_stream, "
             "consume_output, set_stream, conversions) is modelled at index level (cursors into one buffer) and proved to refine a list-level "
             "machine on every input (C02_refinement). The specification content K (what the active stream of this request still delivers from "
             "given bytes) is conserved: for every call under the caller contract and ANY bytes, what is handed over is exactly the front of K, "
             "nothing lost, duplicated or reordered, Status.stream counts it (C02_call, C02_call_concrete); over EVERY legal schedule of "
             "parse / consume_stream / compress / consume_output with any chunking (C02_schedule, C02_schedule_concrete). C02_delivery(_exact): "
             "for a request parsed from the wire and a wire continuing with ANY records (other streams, management, unknown, foreign-id records, "
             "any padding), delivered ++ buffered ++ still-to-come is exactly the concatenated bodies of the active stream's records up to its "
             "terminator, each byte once, in order; all of it once the input is exhausted or the end is reached. C02_stream_end / "
             "C02_end_flag: stream_end is reported exactly when the parser stands at the terminating header, and then everything has been "
             "delivered; C02_end_reported: once the terminator has been fed the next parse(None) reports it; C02_parse_progress / C02_schedule_progress - "
             "progress in BOTH delivery modes: an Ok call leaves no byte of the selected stream behind in the unparsed part of the buffer "
             "unless the caller's destination is full, so a call returns 0 bytes only when the buffered input holds nothing more of the stream. Tie: differential execution of "
             "op-interpreter schedules (direct and buffered reads of every size, 1-byte to whole-buffer feeding, compress / consume_output "
             "interleavings) on generated stream sections, with an independent oracle.",
        design="6/C02", technique="Coq proof (index-to-list refinement; conserved specification functions K/F/R; induction over all schedules; record-level reading) + differential execution of scheduled parser operations with independent oracle",
        note="caller contract as documented (fed bytes fit the input buffer; dest only with an empty stream buffer); sizes < 2^62; progress for dest = Some c is stated for dest = None only (a full caller buffer legitimately stops the call)."),
    "C08": dict(
        text="Proof on the connection model (Async/Conn.v; gated client segments = a peer that withholds further records until it has seen the "
             "replies it waits for; PBlock = Pending without wake-up), C08_never_panics_or_spins - for every well-formed handler script list the task "
             "either returns or is suspended without a pending wake-up; C08_only_waits_for_client - on a fault-free write side and with handlers "
             "that await the reads they start, such a suspension happens only in a transport read that a gated client does not satisfy "
             "(with a dropped read the handler can also wait on the request's own output lock: known finding F6, "
             "C08_abandoned_read_counterexample, confirmed against the real crate, KNOWN-FINDING line); at EVERY such suspension point the "
             "accounting is proved: inside a handler read (C08_poll_input_block / C08_await_input_deadlock) the parser's output buffer is empty, "
             "everything produced is in the transport's log, NOTHING is owed for bytes already received (R .. [] = []), the replies still owed "
             "are exactly those of bytes the client has not delivered, and no stream data is withheld; between requests "
             "(C08_parse_request_deadlock, C08_read_after_flush) every reply of every parse call so far is completely written before the read; "
             "while skipping in close() (C08_record_boundary_deadlock) a suspension happens only strictly inside an unfinished record. The "
             "'Hence' part is proved per read, counted the way the waiting peer counts (complete EndRequest / GetValuesResult / UnknownType "
             "records received): C08_counts_additive, C08_replies_are_whole_records, C08_read_block_counts - a handler read that ends up "
             "waiting has put into the log EXACTLY the replies the specification owes for the bytes received during it - and "
             "C08_peer_read_never_deadlocks: if every gate of the client asks for no more than what is already in the log plus the replies "
             "owed for the bytes it sent before, a handler read NEVER ends in the wait-for cycle, for every readiness pattern; "
             "C08_parse_request_block_counts is the counted form between requests; and for the WHOLE connection C08_peer_never_deadlocks: on a "
             "fault-free transport, for every buffer size, every list of well-formed handler scripts (reading, buffered reading, switching, "
             "writing, early return, failing), every readiness pattern and every client whose segments are whole records and whose gates "
             "ask only for management replies owed for records of earlier segments (pipelining allowed), the connection task returns - the "
             "two sides never wait on each other (global counting invariant over both parsers, handler output, partial flushes, close). "
             "C08_client_never_deadlocks: the same for the one-outstanding client of C07 (one complete request per segment, request j+1 "
             "released after exactly j EndRequest records and at most the management replies owed so far) - it is never waited for in "
             "vain either, whether it waits for an EndRequest or for a management reply. End to end the correspondence check adds: closed-loop gated clients with queries before / between / inside "
             "requests and in the same read as a request's end, on an executor that re-polls only on wake. Defects F1 and F2 found here are "
             "repaired in /repo (1a75639, fd29a7b); their replays are in corpus/C08 and run first.",
        design="6/C08, 13.3", technique="Coq proof (totality + reply accounting at every suspension point of the connection model) + differential execution with closed-loop gated clients on a wake-only executor",
        note="KNOWN FINDING F6 (not repaired): a read polled once and dropped while a reply is partly flushed, then a StreamWriter operation: self-deadlock; the whole-connection theorems therefore assume handlers that await their reads (no_abandoned_read). Two whole-connection theorems: peers gating on management replies only (pipelining allowed), and the strict one-outstanding client gating on EndRequest and management replies (no stray BeginRequest/AbortRequest records); other mixtures are by correspondence; the property's 'once the running handler reads input or returns' is reflected by handlers always progressing in the model; executor/waker protocol modelled by contract."),
    "C09": dict(
        text="Proof on the connection model: C09_poll_input / C09_await_input - for ONE poll or awaited read with any caller buffer (read into c bytes, "
             "fill_buf), any transport read/write behaviour and pending parser output: with dl the bytes handed over, K(before)(remaining) = dl "
             "++ K(after)(remaining'), replies and later streams conserved; Ok(n) has n = |dl| <= c, and Ok(0) into a non-empty buffer occurs "
             "only at end-of-stream; C09_eof_persists - at the terminator every later read returns Ok(0) without touching the transport's read "
             "side; C09_read_to_end, C09_handler_reads - a handler mixing read / read_to_end / fill_buf+consume with any buffer sizes observes "
             "exactly a prefix of the stream content, in order, once each; C09_handler_reads_and_switches - after set_stream the bytes delivered "
             "are content of the newly selected stream only (trace law over the handler's observations); C09_handler_reads_with_writes - the same "
             "trace law for EVERY handler script of the family, writes and flushes interleaved anywhere (all eleven opcodes, write faults included); C09_gate / C09_initial_gate / "
             "C09_writeable - the writeable flag is opened only by a successful parser call while the active stream is the role's final one (or "
             "at construction for roles whose first stream is final) and never closed; C09_bodies_in_order - over a whole connection of the "
             "one-outstanding client, handler invocation i starts with request i and the content still to come of EVERY input stream (the K / F "
             "the trace law reads from) is exactly that stream's content in the records sent for request i, nothing of another request; "
             "C09_connection_reads - end to end: at every handler invocation of such a connection the trace law (hw_post) holds for the script that "
             "runs, with exactly those contents. "
             "Tie: differential execution of handler scripts "
             "(all ops, buffer sizes 0..n) over cutting/Pending transports with mid-stream management records.",
        design="6/C09", technique="Coq proof (conservation record acct over poll_input / await_input / run_handler; trace law for stream switches; gate lemmas) + differential execution of scripted handlers",
        note="writeable() returning Ok with the gate still closed is possible only after a parser error (observation O1 in DESIGN.md, outside the property's compliant-client clause)."),
    "C11": dict(
        text="Proof: C11_abort_in_params - during Params an AbortRequest for the request in progress is consumed entirely, exactly one "
             "EndRequest(RequestComplete, 0, id) is emitted and the parser returns to Header, so no request is produced and no handler can be "
             "invoked; an abort for any other id is skipped without reply (any body/padding). Later: C11_read_fails_with_aborted(_no_fault) - a handler read "
             "returns ConnectionAborted because the parser stands at this request's AbortRequest header (Request.aborted is then set: C11_aborted_flag_source/_sticky) or because a reply flush failed with a transport error of that kind (flag untouched; exactly the former on fault-free transports); C11_abort_sticky - the error repeats "
             "on every later read without touching the transport; C11_prefix_before_error - input delivered before the error is a prefix of what "
             "the client sent; C11_boundary_ignores_abort + C11_one_endrequest_and_reuse - close() passes the retained abort header, writes "
             "exactly one EndRequest with the given status and, with KeepConn, returns the connection for reuse (the C07 reuse law). END TO END: "
             "C11_handler_abort_source (a reading handler that fabricates no abort of its own ends with Err(ConnectionAborted) on a fault-free "
             "transport only because a read hit the client's AbortRequest: parser at the abort header, flag set), C11_abort_close (close on "
             "such a request: never suspends, reads nothing, writes exactly the pending replies, the stream terminators owed and ONE EndRequest; "
             "KeepConn hands back a parser holding exactly the unparsed input beginning with the retained abort header) and C11_abort_iteration "
             "(Token::run maps the Err to ExitStatus::ABORT and goes on with that parser, or returns). Tie: abort "
             "placed after every record of preamble and streams, handlers reading / buffered-reading / not reading / past EOF, 0..k following "
             "requests, all chunkings, through model and crate with an independent oracle.",
        design="6/C11", technique="Coq proof (record-step theorem of the request parser; sticky-error and conservation lemmas of the connection model; close/reuse law) + differential execution with aborts at every record position",
        note="'unless the handler chose its own status' is the run loop's mapping Err(ConnectionAborted) -> ABORT, modelled in Conn.run_loop and tied by correspondence; next request served correctly = C07/C01 on the reused parser."),
    "C15": dict(
        text="Proof: vi_read/vi_write/TryFrom of src/protocol/varint.rs are modelled in Gallina (bit operations as in the code) and "
             "the round-trip, exact encoding shape, injectivity, exact conversion domain, decode-completeness and canonical "
             "re-encoding are proved for all values/byte strings (8 theorems, no bound). The model is tied to the crate by "
             "differential execution of the extracted model and the real VarInt API on boundary, exhaustive one-byte, truncation and random cases.",
        design="6/C15", technique="Coq proof (round-trip/bijection lemmas, byte sweeps lifted) + model-vs-crate differential execution",
        note="usize assumed 64-bit; slice read_exact modelled."),
    "C16": dict(
        text="Proof: NVIter::next / nv::write of src/protocol/nv.rs modelled in Gallina; proved for all byte strings and all pair lists: "
             "round trip with nothing left over, exact byte count and shape of the encoding, rejection of components >= 2^31, no out-of-bounds "
             "slice operation on any input, yielded pairs are consecutive sub-lists after a 2/5/8-byte header, fusedness and 'remainder is the "
             "undecoded suffix', exact additive prefix law nv_run (a++b), size hint bound (12 theorems). Partial as to two clauses a list model "
             "cannot express (address identity of the yielded slices; agreement of the &[u8] and &mut [u8] instantiations): these are asserted "
             "inside the harness on every case. Tie: extracted model vs real iterator on exhaustive short strings over a boundary alphabet, "
             "all prefixes of encodings, mutations, random bytes.",
        design="6/C16", technique="Coq proof (induction on input length; additive prefix law) + differential execution; pointer-range assertions in harness",
        note="usize assumed 64-bit; zero-copy and shared/mutable agreement are tested, not proved."),
    "C17": dict(
        text="Proof: RecordHeader, the BeginRequest/EndRequest/UnknownType bodies and their whole-record encoders, the automatic padding rule, "
             "ExitStatus->EndRequest, make_request_epilogue and ProtocolVariables::write_response (with usize->decimal) are modelled in Gallina over "
             "tables regenerated from the source; 19 theorems for all field values: round trips, exact decode domain (version checked first), "
             "decode-then-encode identity up to reserved bytes, minimal padding < 8 making the body a multiple of 8, GetValuesResult = one "
             "well-formed management record <= RESPONSE_LEN whose body decodes to exactly the requested variables in declaration order with the "
             "decimal connection limit (any limit < 2^64, any subset), exit-status map, epilogue shape, and equality of the regenerated constants "
             "with a hand transcription of the FastCGI specification. Tie: differential execution incl. all (version,type) pairs, all 65536 "
             "padding inputs/roles in thorough, all flag/status bytes, all variable subsets x decimal-length boundaries, and a `consts` case "
             "comparing the regenerated tables with the compiled crate.",
        design="6/C17", technique="Coq proof (arithmetic on be16/be32, decimal induction, table lemmas) + differential execution with field-exhaustive sweeps",
        note="make_request_epilogue is crate-private: its theorem is tied to the code through the connection-level check (C07). bitflags iter_names order modelled."),
    "C19": dict(
        text="Proof: VarName/OwnedVarName/StaticVarName equality, ordering, hashing (as the sequence of Hasher::write payloads) and all "
             "constructors are modelled over byte strings and the regenerated interned-name table; 32 theorems for all strings: "
             "eq_ignore_ascii_case <-> equal upper-casings, equivalence, total order consistent with it (antisymmetry, transitivity, "
             "compatibility), write-stream equality iff equality (hence identical hashes under any hasher), stream shape/injectivity/"
             "prefix-freeness, owned fast paths agree with the string definitions (needs: table has no duplicates and is upper-case - re-checked "
             "by vm_compute whenever the table changes), constructor normalisation/interning, header-name mapping, lookup by any spelling. "
             "Tie: differential execution through every constructor with a recording Hasher, HashMap/BTreeMap look-ups, all interned names in "
             "three case classes, chunk-boundary lengths, non-ASCII case pairs.",
        design="6/C19", technique="Coq proof (list induction, table facts by vm_compute lifted) + differential execution with recording hasher",
        note="strum EnumString(use_phf)/IntoStaticStr modelled as exact table lookup; std ascii helpers, Iterator::cmp, chunks_exact modelled; "
             "real SipHash collisions not modelled; C19_hash_prefix_free assumes no 0xff byte (true of UTF-8)."),
    "C20": dict(
        text="Proof: write_headers / simple_redirect / http_headers are modelled as the exact sequence of write_all calls on a bounded "
             "(&mut [u8]) or unbounded (Vec) destination; 12 theorems for all codes 100..999, header lists, byte strings, capacities and any reason "
             "table: fits => Ok(len) and exactly the documented text appended; does not fit => Err and the destination holds take cap expected; "
             "Ok(n) => exactly n bytes appended; line structure (status line, one line per header in order, blank line); 3-digit status rendering. "
             "Tie: differential execution incl. every code, every capacity 0..len+1 for sampled lists, Vec target, http::Response path; the real "
             "http reason table is read from the compiled crate on every run.",
        design="6/C20", technique="Coq proof (induction over the header list / write sequence) + differential execution over all codes and capacities",
        note="std Write for &mut [u8]/Vec and http::StatusCode::{as_str,canonical_reason} modelled; header name 'status' excluded (documented precondition, debug_assert)."),
    "C06": dict(
        text="Proof: (1) Config::aligned_bufsize (64-bit usize, overflow arm stated separately) is >= the configured size, >= 24, a multiple of 8 "
             "and the least such value, for every size; (2) C06_sufficient: for EVERY well-formed preamble (any junk, cuts, paddings), buffer size, "
             "trailing bytes and read schedule, if every pair satisfies |name|+|value|+13 <= effective buffer (and GetValues junk pairs fit) the "
             "model never reaches StuckOnInput and ends Done; (3) C06_reported / C06_stuck_same_call: for every parser state and call, done=false "
             "implies a non-empty input buffer, and an empty one is reported by that very call; a tightness witness (encoded pair of B+1 bytes "
             "gets stuck) is included. Tie: bufsize for all b in 0..4096 (quick) / 0..2^20 (thorough), critical pairs of size B-13-d..B-4 at "
             "start/middle/end/across records under greedy (exactly-filling), 1-byte and random reads.",
        design="6/C06", technique="Coq proof (arithmetic; never-stuck via the 'unconsumed rest is a proper prefix of one unit' bound; exact drive additivity) + differential execution",
        note="usize assumed 64-bit; sizes assumed < 2^62 (SIZE_LIMIT) to discharge checked_add arms."),
    "C18": dict(
        text="Proof: cmp_input_streams and set_stream of src/parser/stream.rs are modelled at index level. Proved: the full comparison table and "
             "the full acceptance table over their finite domains (decided by vm_compute inside Coq and lifted, domain stated in the theorem) "
             "and cmp = the readable order for EVERY role value; for EVERY parser state: rejected selections change nothing, re-selecting keeps "
             "all buffered data, an accepted change sets the stream, empties the stream buffer and leaves request / record position / pending "
             "output / raw input / all replies / all stream contents untouched (C18_set_stream, C18_set_stream_effect); the initial stream is "
             "the first of the role; and the full clause C18_only_active(_records): any legal schedule, then set_stream(later stream), then any "
             "legal schedule, over ANY record order - everything delivered in the second epoch is content of the newly selected stream of this "
             "request as defined by the specification function over all bytes fed, and of no other; replies are conserved across the switch. "
             "Tie: differential execution on scrambled stream orders with matching/foreign ids.",
        design="6/C18", technique="Coq proof (finite tables by vm_compute lifted; conservation laws K/F/R of the stream parser through index-to-list refinement; two-epoch law) + differential execution on scrambled stream orders",
        note="requested selections restricted to None/Stdin/Data: other record types hit a private debug_assert in debug builds (release rejects); recorded, not claimed."),
    "C01": dict(
        text="Proof: request::Parser (State machine, SkipState/GetValuesState/HeaderState/ParamsState drives, parse_buffered/parse_stream cross-record "
             "reassembly, Parser::parse with buffer compaction and stuck detection) is modelled function by function in Gallina. C01_exact is proved "
             "for every key-normalisation function, buffer size, well-formed preamble (any junk before BeginRequest, any id/role/flag byte, any cut of "
             "the Params payload into records incl. inside a length prefix, any padding, any management / unknown-type / foreign-id / duplicate or foreign "
             "BeginRequest records in between), pairs within the documented bound, trailing bytes and EVERY read schedule (incl. 0-byte calls): the run "
             "ends Done with exactly id/role/flags and the insertion log of the pairs under normalised names, the owed replies as output, and "
             "leftover++unfed = trailing. Lookup = last value wins (C01_lookup_*). Proof route: parse_buffered characterised against plain NV decoding "
             "(S1-S4), exact additivity of the drive loop, schedule invariance, record-level simulation, never-stuck bound. Tie: differential execution "
             "on generated preambles (every cut offset x paddings for boundary-length pairs, junk, 5 schedule styles, both build profiles) + an "
             "independent Python oracle; the lossy-UTF-8 instance of norm is a transcription tied by its own case stream.",
        design="6/C01", technique="Coq proof (exact drive additivity + parse_buffered characterisation + record-level simulation, all schedules) + differential execution with independent oracle",
        note="HashMap modelled as insertion log (lookup = last match); CompactString::from_utf8_lossy is a theorem parameter (instance transcribed, tested); "
             "case-insensitive key matching is C19's; sizes < 2^62."),
    "C03": dict(
        text="Proof: request parser - for ANY byte string and ANY read schedule every call returns without panic or loop-bound exhaustion and keeps "
             "its invariant (C03_req_call_total, C03_req_total); any two schedules agree on done/unfinished, output bytes, unread remainder and "
             "outcome incl. the specific fatal error and StuckOnInput (C03_req_chunk_invariant; the over-strong exact-state variant is refuted "
             "with a witness and the normalisation [settle] made explicit); exact drive additivity; final states are sticky with no further "
             "output. Stream parser - C03_stream_total_and_invariant: every state reachable from a converted parser by legal calls and accepted "
             "set_stream calls satisfies the five debug_assert_invars! inequalities and the representation invariant; every call under the "
             "caller contract returns Ok or Err for ANY bytes (no panic); an Err is AbortRequest or UnknownVersion and is reported again by "
             "every later call with nothing delivered and nothing emitted; over every legal schedule the bytes handed over are a prefix of the "
             "specification content K of the bytes fed (a function of the bytes alone, hence chunking-invariant); the index-level parser "
             "refines the list-level machine on every input (C03_stream_refinement). Tie: mutated and random wires, >= 3 schedules per wire "
             "compared by a group oracle, all 256 type bytes, conversions at non-final states, both build profiles.",
        design="6/C03", technique="Coq proof (totality by measure, exact additivity, schedule invariance; stream parser: index-to-list refinement + conserved quantities over all schedules) + differential execution on hostile inputs with cross-schedule group oracle",
        note="allocation failure not modelled; sizes < 2^62; the stream parser's caller contract (new input fits, dest only with empty stream buffer) is the documented one."),
    "C04": dict(
        text="Proof: reply_for is the specification of the owed reply per record and phase. Request parser - C04_req_record: every complete record "
             "at a record boundary is consumed entirely, emits exactly reply_for and moves the phase machine as specified; C04_req_sequence: for "
             "any accepted record sequence the output is the concatenation of the owed replies in order; C04_req_preamble_replies: under every "
             "chunking of a well-formed preamble. Stream parser - C04_stream_any_bytes: for ARBITRARY bytes and every legal schedule, emitted ++ "
             "pending ++ still-owed equals the reply specification R of the bytes fed (none lost, none duplicated, in order); "
             "C04_replies_of_records reads R record by record (unknown type -> UnknownType, non-empty GetValues -> GetValuesResult, BeginRequest "
             "for another id -> EndRequest CantMpxConn, nothing else); C04_stream_records(_exact): for a converted parser over a wire of records, "
             "everything emitted and pending is a prefix of the replies owed, all of them once nothing is left to parse. Tie: dense junk, all "
             "245 unknown types x positions x paddings, GetValues bodies with known/unknown/repeated/non-UTF-8/value-carrying names and incomplete "
             "trailing pairs under 1-byte reads, abort mid-Params, consume_output(k) interleavings; oracle recomputes owed replies independently.",
        design="6/C04", technique="Coq proof (record-level simulation against the reply specification; stream parser: conserved reply function R over all schedules, record-level reading) + differential execution with independent reply oracle",
        note="unknown-type replies echo the received request id (as the crate's tests pin); replies after an AbortRequest of the running request are not owed (the parser stops there)."),
    "C05": dict(
        text="Proof: request parser - after any schedule over any bytes fed = consumed ++ held ++ unfed (C05_leftover_req); into_request / "
             "into_stream_parser hand over exactly the held bytes (C05_to_stream_parser); on well-formed preambles the leftover is exactly the "
             "bytes after the preamble for every look-ahead (C05_leftover_exact). Stream parser - C05_stream_handoff: over every legal schedule "
             "the unparsed input is exactly the unread suffix of leftover ++ fed; at a record boundary with the output taken, "
             "into_request_parser succeeds and the new request parser holds exactly those bytes with unchanged capacity in state Header; "
             "into_input returns them; off a boundary both refuse (Interrupted) without touching anything. THE K-REQUEST CHAIN ('Consequently ...') is one theorem, C05_chain: k requests back to back (C01's "
             "preamble family, records closing each request's streams), every read schedule of every request parser, every legal stream-phase "
             "behaviour of the caller (reading nothing / part / all of each stream, any chunking, any number of later-stream selections), any "
             "look-ahead at every hand-off up to the whole rest of the connection: all k stages complete, request i is exactly the i-th "
             "transmitted one (= the same request alone on a fresh connection, C05_chain_separately), stage i hands out only prefixes of "
             "request i's stream contents, and what is left is a suffix of the last request's records plus the trailing bytes. It rests on "
             "C05_stream_phase: during the stream phase the parser never reads past the request's own records (it stands at the terminator of "
             "the selected stream) - a new position invariant through the abstract parse loop. Caller obligations are exactly chain_legal "
             "(legal calls, hand-off at a record boundary with the output taken, the reused parser looks at its leftover first, no parse during "
             "the stream phase of a role WITHOUT input streams: with no stream selected the parser discards everything, including a pipelined "
             "successor - witness C05_authorizer_overread, DESIGN.md observation O4). The chain is also exercised end to end by the "
             "correspondence check (k = 1..4/8 requests on one buffer, reader policies never/mid/end, gated client) + oracle.",
        design="6/C05", technique="Coq proof (rest-is-suffix through drive/parse/schedule; stream-parser raw-bytes conservation, position invariant and conversion lemmas; induction over the k requests) + differential execution of conversion chains with gated client",
        note="into_request_parser with pending output is the crate's debug_assert (contract); set_stream(None) during the stream phase is outside the chain theorem (it discards everything by design)."),
    "C07": dict(
        text="Proof on the connection model (Async/Conn.v: Token::run, parse_request, Request::{poll_input, poll_output, writeable, record_boundary, "
             "close}, StreamWriter writes, scripted handlers/transport/gated client): C07_handler_sees_exactly_the_request - Token::parse_request "
             "is a read schedule of the request parser whose chunks are the transport reads (C07_parse_request_is_a_schedule), a reused "
             "connection's parser with leftover L behaves like a fresh one fed L first (C07_leftover_as_fed), hence by C01: whenever the client's "
             "stream (leftover ++ what it still delivers) begins with a well-formed preamble and a handler is started, it sees exactly the "
             "transmitted id, role, flags and environment, exactly the owed management replies have been written, and the stream parser starts "
             "with exactly the bytes after the preamble - for every transport behaviour; C07_epilogue - close writes, after skipping to a record "
             "boundary without writing, exactly the pending management replies, the empty Stdout and Stderr records and one EndRequest with the "
             "exit status' protocol/application status and the request id; C07_reuse / C07_close_cases - the connection is handed back IF AND "
             "ONLY IF the request carried KeepConn and every write succeeded; otherwise ConnectionReset after the complete epilogue, or the "
             "write error after a proper prefix; a read error while skipping writes nothing. C07_requests_in_order - over a WHOLE connection of the one-outstanding client (one complete request per segment, released after "
             "the previous EndRequest; requests within the buffer bound; any handlers, any readiness pattern; no write faults) the requests the "
             "handler is started with are exactly the requests sent - id, role, flags, environment - in order, each once, none invented "
             "(ghost trace of Token::run, C07_trace_is_ghost: erasing it gives the loop); "
             "C07_one_handler_call_per_request - one iteration of Token::run in the model: one parse_request, ONE handler run on "
             "its result, ONE close when the handler returned a status, continuation only with the parser a successful close handed back; "
             "that Conn.run_loop has the shape of the real Token::run is tied to the code "
             "by the correspondence check (handler events, transport log, bytes consumed, poll count on every generated connection) + an "
             "independent log-decoding oracle. Findings: F3 (leftover filling the buffer => connection dropped despite KeepConn, /repo fd29a7b) "
             "and F4 (a transport error of kind ConnectionAborted taken for a client abort => reuse after an I/O error, /repo b370518), both "
             "repaired; replays in corpus/C07, corpus/C12 run first. Partial as to the runtime: executor/waker protocol, rustc's async lowering, "
             "futures-util select/Mutex are modelled by contract. WHOLE-CONNECTION LOG: C07_connection_log - for every client, transport (faults included) and handler scripts the handler invocations are chained in the transport log and each one whose close completed is answered by exactly [parser replies][empty Stdout, empty Stderr if writeable][ONE EndRequest with the invocation's status and the id of the request the handler saw], written after everything the handler wrote and before anything of the next request (ghost log run_loop_log, C07_log_is_ghost). REUSE: C07_reuse_is_invisible - what invocation i of a connection carrying k requests starts with and can read (request, selected stream, content to come of every input stream) equals what the single invocation of a fresh connection carrying only request i starts with and can read. DECODED LOG: C07_epilogue_records - on a fault-free transport, for handlers that await their reads and write to Stdout/Stderr, every closed invocation owns a stretch of the log that decodes completely into records and contains exactly one EndRequest with the request's id: the last record, with the invocation's status, directly preceded (if the request became writeable) by the empty Stdout and Stderr records.",
        design="6/C07, 13.3", technique="Coq proof on an executable connection model (parse_request as a read schedule composed with the C01 theorem; write path, epilogue, reuse decision) + differential execution of scripted connections on a deterministic executor with log-decoding oracle",
        note="the composition 'k requests in sequence' is by the loop's shape and correspondence, not one theorem; single task; handlers await each I/O op to completion."),
    "C10": dict(
        text="Proof: single writer - for a writer's write_all the transport log grows by exactly the records of the data's <= 65535-byte chunks "
             "(C10_exact), for every way the transport splits or delays the vectored write incl. the first-slice fallback (C10_any_split); each "
             "record is complete and well-formed with the writer's type, the request id, padding < 8 and body+padding a multiple of 8 "
             "(C10_record_wf); payloads concatenate to exactly the written bytes (C10_payload_is_data) and decode back (C10_decodes_back); the "
             "parser's own replies are flushed under the same lock discipline (C10_poll_output). Several writers - C10_writers_exclusive: on the "
             "model of any number of StreamWriters plus the request's reply flushing sharing the output lock (Async/Writer.v), for EVERY poll "
             "order, data, transport write script (any accept sizes, Pending, zero and failing writes, vectored or not) and client input, the "
             "log is a concatenation of COMPLETE lock tenures (one whole record of one writer, or one whole reply flush) followed by the part of "
             "the current holder's tenure only; per writer, payloads in log order ++ record in progress ++ unwritten data = the data it was "
             "given; C10_writers_complete, C10_writer_waits, C10_request_waits. Tie: 1..3 writers incl. clones + reply flushing polled in "
             "scripted orders over cutting/Pending transports, through model and crate. WHOLE CONNECTION: C10_connection_framing - on a transport without write faults, for every client, buffer size, fuel and handler scripts (abandoned reads included) the transport log of Token::run is at every end of the run a prefix of a byte string that decodes completely into records, and decodes completely when the task returns (no shutdown, no abandoned reads): replies, stream records and epilogues never interleave, not even in the F6 scenario.",
        design="6/C10", technique="Coq proof (write loops: exact bytes for every transport split; inductive lock-tenure invariant over all poll orders) + differential execution of scripted multi-writer poll orders with record-decoding oracle",
        note="futures-util Mutex modelled as an owner field taken by whoever polls first while free (no hand-off, no fairness claimed); writers are created before the schedule starts."),
    "C12": dict(
        text="Proof on the connection model (Async/Conn.v), with one clause REFUTED (known finding F5): C12_never_panics_or_spins - for EVERY read "
             "script and write script (read errors, write errors of two kinds, zero-length writes, spurious not-ready results at any call "
             "index), every client byte string cut off at any offset, every buffer size and every list of well-formed handler scripts the "
             "outcome is 'returned' or 'suspended without a pending wake-up': no Rust panic site and no loop bound of the model is reachable; "
             "the task TERMINATES (returns) for clients that do not wait for it when the transport's write side is fault-free and the "
             "handlers await the reads they start (C12_terminates_fault_free_awaiting_handlers), or - under ANY write faults - when the "
             "handlers propagate I/O errors (C12_terminates_propagating_handlers); the unrestricted termination claim is refuted: "
             "C12_terminates_unrestricted_refuted exhibits a world (F5) in which a handler that does not propagate the error of a failed reply "
             "flush and then writes hangs for ever on the request's own output lock - confirmed against the real crate by the check (class "
             "swallowed-flush-error-then-write, KNOWN-FINDING line); "
             "C12_no_handler_for_partial_preamble - if everything the client will "
             "ever deliver (leftover included) is a proper prefix of a well-formed preamble, parse_request never hands over to a handler, "
             "whatever the read/write patterns; C12_parse_request_eof - EOF between requests ends the connection quietly, reads happen only "
             "after the replies were written; C12_empty_read_means_end_of_stream / C12_poll_input_cases - a handler read returns Ok(0) into a "
             "non-empty buffer only at the stream's end, a dry transport yields UnexpectedEof or the transport's error; C12_write_all / "
             "C12_writer_prefix - a failed write leaves only a prefix of the bytes of that write, i.e. a prefix of a well-formed record "
             "sequence, and is reported; C12_nothing_after_failed_write - for handlers that propagate I/O errors (every read `read(..).await?`, "
             "writes return their error) the first failing write call (zero-length write or write error) is the LAST write call the task "
             "makes, for every connection. The ConnectionAborted-kind write error is covered by the correspondence check + oracle (fault at "
             "every write index followed by counted accept-all calls; handlers with propagating reads), which exposed finding F4 (repaired, "
             "/repo b370518; replay corpus/C12). Also: EOF at every "
             "byte offset of short connections, a read error at every read index. WHOLE CONNECTION, write side: C12_connection_framing_under_faults - with a first write fault (zero-length write or write error) at ANY write call and handlers that propagate I/O errors, the transport log of Token::run is at every end of the run a prefix of a byte string that decodes completely into records (together with C12_nothing_after_failed_write: the failed call is the last write call, and what was written before it is a prefix of a well-formed record sequence).",
        design="6/C12, 13.3", technique="Coq proof (totality of the connection model under all fault scripts; parse_request composed with the request-parser theorems; read/write accounting) + exhaustive fault-position enumeration per scripted connection through model and crate",
        note="KNOWN FINDING F5 (not repaired): hang after a swallowed failed reply flush followed by a StreamWriter operation; for the ConnectionAborted-kind write error the nothing-written-after clause is by correspondence + oracle (judged on runs in which the handler swallowed no error); after a real client abort, a reply flush that fails with that very kind during close is still taken for the abort (outside C12's traffic; DESIGN 13.3); single task."),
    "C13": dict(
        text="Proof on the token model (Async/Tokens.v: permit counter + event-listener queue with notify(1) being a no-op while a listener is already "
             "notified, notified listeners passing the notification on when dropped, the acquire future trying the counter first - all modelled from "
             "the async-lock 3.4.0 / event-listener 5.3.1 sources): for every limit and EVERY history of get_token / poll / drop-token / "
             "drop-pending-request, live tokens + free permits = limit (C13_bound), a request polled while a slot is free completes at once "
             "(C13_immediate), and whenever a slot is free while requests are queued some queued listener has been notified (C13_not_stranded), "
             "wake counters only grow, listeners are owned by pending requests. Partial as the brief says: the two crates are third-party code tied by "
             "differential execution of single-threaded histories (random + directed: k releases in a row with waiters queued, cancellation of the "
             "notified waiter, barging; tokens handed to Token::run on idle connections and on connections whose request is in flight with its epilogue "
             "stuck; Runner::shutdown of a clone while its connections are idle or in flight; limits up to 70000) with one counting waker per request; thread interleavings inside their atomics are below the model's granularity.",
        design="6/C13, 13.3", technique="Coq proof (inductive invariant over all operation histories of the semaphore/event-listener model) + differential execution of histories on the real Runner with counting wakers",
        note="async-lock / event-listener internals modelled from source, not verified; single-threaded granularity; clones share the semaphore by construction."),
    "C14": dict(
        text="Proof on the wait-group model (Async/WaitGroup.v: Arc/Weak/AtomicWaker by their documented atomic behaviour, one poller, token drops "
             "forced into each window of WaitGroupFuture::poll): invariant for every history (C14_wg_invariant), the shutdown future is ready exactly "
             "when no token is alive at its liveness check - never earlier (C14_ready_iff_done), and no lost wake-up: after a Pending poll the "
             "registered waker has been invoked as soon as the last token is gone, whether the final drop landed between the liveness check and "
             "the registration, between registration and the release of the temporary reference, or later (C14_no_lost_wakeup). Connection side: "
             "run_loop consults the stop listener before starting a request (C14_nothing_new); in-flight requests complete: C14_inflight_handler_completes / "
             "C14_inflight_close_completes / C14_blocked_request_keeps_waiting - a handler run and Request::close behave identically (same "
             "result, bytes read and written, observations) whenever and however often shutdown is requested meanwhile; idle connections: C14_idle_connection_stops / "
             "C14_pending_read_sees_stop - the read between requests is given up as soon as shutdown is requested, nothing further is read or "
             "written; the WHOLE connection: C14_shutdown_cut - compared with the same connection never shut down, a shutdown requested at ANY moment "
             "either makes no difference or makes the task return at a request boundary: the handler invocations are an initial segment of the "
             "undisturbed run's (same requests, results and transport log at every invocation boundary), every one closed with its complete epilogue, "
             "the transport log a prefix, no more input consumed (non-vacuity: C14_shutdown_cut_example); C14_shutdown_answers_inflight - on the decoded log: with a shutdown at any moment every closed invocation is answered by exactly one EndRequest of its id after the empty stream records, and the task returns with every invocation it started closed; end to end this is also exercised by the correspondence check (shutdown requested before every scheduling step k of Pending-heavy "
             "connections, idle clients woken by shutdown) + oracle. The wait-group windows are forced on the real crate through the "
             "cfg(fastcgi_server_verif) hook (/repo ed42bbf); in addition mode wg_race runs real two-thread races of one poll against the last token "
             "drop (10^5 steered trials per case; sound oracle, probabilistic detection) as a supporting search for windows no hook reaches.",
        design="6/C14, 13.4", technique="Coq proof (wait-group transition system, all window placements) + differential execution with hook-forced interleavings and shutdown injected at every scheduling step",
        note="Arc/Weak/AtomicWaker modelled; select polls its left future first (modelled); all clauses have theorems, including the composition over a whole connection (C14_shutdown_cut)."),
}

PENDING = {}
for i in range(1, 21):
    pid = "C%02d" % i
    if pid not in CLAIMED:
        PENDING[pid] = "model and check not built yet in this round (planned in DESIGN.md section 6); not claimed until its check exists"


def main():
    checks = []
    for pid in sorted(CLAIMED):
        c = CLAIMED[pid]
        checks.append({
            "property_id": pid,
            "quick_cmd": "./check %s --tier quick" % pid,
            "thorough_cmd": "./check %s --tier thorough" % pid,
            "evidence_file": "/verif/evidence/%s.json" % pid,
            "replay_cmd_template": "./check %s --replay {path}" % pid,
            "engine": "coq-proof+correspondence",
            "level_claimed": {"category": "proof", "text": c["text"], "design_ref": "DESIGN.md section " + c["design"]},
            "level_note": NOTE_COMMON + c["note"],
            "technique": c["technique"],
        })
    m = {
        "version": 1,
        "setup_cmd": "./check --setup",
        "hooks": {
            "guard": "fastcgi_server_verif",
            "enable": "RUSTFLAGS='--cfg fastcgi_server_verif' (set by ./check when it builds /verif/harness against /repo)",
            "baseline_off_cmd": "cd /repo && cargo test --workspace --no-fail-fast --offline",
            "source_commits": ["ed42bbf"],
            "add_only": True,
        },
        "engines": [{
            "name": "coq-proof+correspondence", "path": "/verif/check",
            "serves_properties": sorted(CLAIMED),
            "kind_free_text": "Coq 8.16.1 theorems about hand-written Gallina models (coq/), data tables regenerated from /repo/src, "
                              "model extracted to OCaml and run against the real crate (harness/) on generated cases",
        }],
        "checks": checks,
        "not_applicable": [{"property_id": p, "reason": r} for p, r in sorted(PENDING.items())],
        "notes": "All checks rebuild from /repo's working tree; see DESIGN.md.",
    }
    with open(os.path.join(ROOT, "MANIFEST.json"), "w") as f:
        json.dump(m, f, indent=1)
    print("MANIFEST.json: %d claimed, %d not claimed" % (len(checks), len(PENDING)))


if __name__ == "__main__":
    main()
