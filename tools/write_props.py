#!/usr/bin/env python3
"""One-off writer for the parts of coq/Props/*.v that restate lemmas of the large proof files (StreamFinal, ConnReads,
WriterProofs): statements are taken from Coq itself (tools/pin_stmt.py) and pinned as text.  Re-run only when a Props
file is to be extended; the result is committed."""
import os, re, sys
sys.path.insert(0, os.path.dirname(os.path.abspath(__file__)))
from pin_stmt import pins
COQ = os.path.join(os.path.dirname(os.path.dirname(os.path.abspath(__file__))), "coq")
MARK = "(* ==== pinned from the proof files (tools/write_props.py) ==== *)\n"

def put(pid, prelude_add, items, head=None, tail=""):
    path = os.path.join(COQ, "Props", pid + ".v")
    if head is None:
        src = open(path).read().split(MARK)[0].rstrip() + "\n"
    else:
        src = head
    # the import line of the existing file + the additions
    m = re.search(r'From FV Require Import(.*?)\.\n', src, re.S)
    mods = m.group(1).split()
    for x in prelude_add.split():
        if x not in mods:
            mods.append(x)
    imp = "From FV Require Import " + " ".join(mods) + ".\n"
    src = src[:m.start()] + imp + src[m.end():]
    body = re.sub(r"\bsms\b", "same_mod_stop", pins(imp, items))
    open(path, "w").write(src + "\n" + MARK + "\n" + body + tail)

SF = "Parser.StreamFinal"
which = sys.argv[1:] or ["C02", "C03", "C04", "C05", "C07", "C08", "C09", "C10", "C11", "C12", "C14", "C18"]

if "C02" in which:
    put("C02", "Parser.ReqWire Parser.ReqTargets " + SF + " Parser.ProgressTargets Parser.ProgressProofs", [
        ("the CONCRETE parser (cursors into one buffer), one call under the caller contract, ANY bytes: Ok or Err, never a panic; "
         "what it hands over is exactly the front of the specification content K of (fed ++ anything to come); replies R and "
         "every later stream's content F are conserved; Status.stream / Status.output count what was appended; the end flag is "
         "'standing at the terminating header'; an error (abort, bad version) is sticky", "sparse_call", "C02_call_concrete"),
        ("every legal schedule of parse(Some/None) / consume_stream / compress / consume_output on the concrete parser, any "
         "chunking: no panic, invariant kept, consumed bytes are a prefix, delivered ++ K(final) = K(initial) etc.", "concrete_schedule", "C02_schedule_concrete"),
        ("the stream parser a finished request parser converts into: empty buffers, the role's first stream, the leftover as raw input", "into_stream_parser_inv", "C02_initial_state"),
        ("the specification content, read record by record: the bodies of the active stream's records of this request up to its "
         "terminator / an abort, whatever else (management, unknown, foreign-id, other-stream records, padding) lies between", "CF_rcds", "C02_content_of_records"),
        ("MAIN: a request parsed from the wire, then ANY legal schedule over a wire that continues with records rs (then bytes t): "
         "delivered ++ buffered ++ still-to-come = exactly the stream's content, each byte once, in order; all of it once the input is "
         "exhausted or the end was reached; at the end the terminator really was in the wire", "C02_delivery", "C02_delivery"),
        ("... and when the wire consists of whole records only", "C02_delivery_exact", "C02_delivery_exact"),
        ("Status.stream_end is true exactly when the parser stands at the stream's end; then everything was delivered", "C02_stream_end", "C02_stream_end"),
        ("liveness: once the terminator has been fed, the next parse(None) call reports the end", "C02_end_reported", "C02_end_reported"),
        ("PROGRESS in both delivery modes: a call that returns Ok leaves nothing of the selected stream behind in the unparsed part of the "
         "buffer, unless the caller's destination is full (then exactly c bytes were delivered): a call returns 0 bytes only when the "
         "buffered input holds no further byte of the stream", "parse_progress", "C02_parse_progress", ["parse_progress_stmt"]),
        ("... along a whole schedule: if the last call left its destination unfilled, what the caller has received plus the stream "
         "buffer is everything the bytes fed so far contain of the stream", "schedule_progress", "C02_schedule_progress", ["schedule_progress_stmt"]),
    ], tail='''(* non-vacuity: a Filter request, 9 records (Stdin / junk / Data), a 7-operation schedule with 1..n byte chunks *)
Example C02_example : cdelivered 10 exf_sp0 exf_ops1 ++ stream_buffer (cfinal 10 exf_sp0 exf_ops1) = [97; 98; 99].
Proof. exact (proj1 exf_C02). Qed.
''')

if "C03" in which:
    put("C03", "Parser.StreamModel Parser.AbsStream Parser.StreamSpec Parser.StreamRefine Parser.StreamInv " + SF, [
        ("---- stream parser ----  every state reachable by legal calls and accepted set_stream calls from a converted parser keeps "
         "the buffer invariants (= debug_assert_invars!); every call under the caller contract returns Ok or Err for ANY bytes (no "
         "panic); an Err is AbortRequest or UnknownVersion and is reported again by every later call, nothing delivered, nothing "
         "emitted; over every schedule the bytes handed over are a prefix of the specification content of the bytes fed "
         "(chunking-invariant by construction: K is a function of the bytes alone)", "C03_stream", "C03_stream_total_and_invariant"),
        ("the index-level parser refines the list-level machine on every input", "sparse_refines", "C03_stream_refinement"),
    ])

if "C04" in which:
    put("C04", "Parser.StreamModel Parser.AbsStream Parser.StreamSpec Parser.StreamRefine Parser.StreamInv " + SF, [
        ("---- stream parser ----  for ARBITRARY bytes and every legal schedule: emitted ++ pending ++ still-owed = the reply "
         "specification R of the bytes fed: one reply per reply-owing record, in order, none lost, none duplicated", "C04_stream", "C04_stream_any_bytes"),
        ("the reply specification read record by record (unknown type -> UnknownType; GetValues with a non-empty body -> "
         "GetValuesResult; BeginRequest for another id -> EndRequest CantMpxConn; nothing else owes a reply)", "RA_rcds", "C04_replies_of_records"),
        ("MAIN: for a converted parser over a wire that continues with records rs: everything emitted and pending is a prefix "
         "of the replies owed for rs, and all of them once nothing is left to parse", "C04_stream_rcds", "C04_stream_records"),
        ("... and when the wire consists of whole records only", "C04_stream_rcds_exact", "C04_stream_records_exact"),
    ])

if "C05" in which:
    put("C05", "Parser.StreamModel Parser.AbsStream Parser.StreamSpec Parser.StreamRefine Parser.StreamInv " + SF + " Parser.ChainTargets Parser.ChainStream Parser.ChainProofs Parser.Chain", [
        ("---- stream parser and the hand-off back ----  over every legal schedule the unparsed input is exactly the unread suffix of "
         "(leftover ++ fed); at a record boundary with the output taken, into_request_parser succeeds and the new request parser "
         "holds exactly those bytes (capacity unchanged, state Header); into_input returns them; off a boundary both refuse", "C05_stream", "C05_stream_handoff"),
        ("request parser -> stream parser: the leftover becomes the raw input, nothing else", "into_stream_parser_inv", "C05_to_stream_parser"),
        ("---- the k-request chain ('Consequently ...') ----  the stream phase of ONE request under every legal caller behaviour (parse calls "
         "with any chunking and destination, consume_stream, compress, consume_output, any number of selections of later streams): per "
         "stream the bytes handed out are a prefix of that stream's content in the request's own records, and the parser never reads "
         "past the request's records: at every record boundary the uninterpreted bytes are a suffix of the record list followed by "
         "whatever the client sent next", "stream_phase", "C05_stream_phase", ["stream_phase_stmt"]),
        ("THE CHAIN: k requests back to back (C01's preamble family, records closing each request's streams), every read schedule of "
         "every request parser, every legal stream-phase behaviour (reading nothing, part or all of each stream), any look-ahead at "
         "every hand-off: all k stages complete, the i-th request is exactly the i-th transmitted one, stage i hands out only "
         "prefixes of request i's streams, and what is left at the end is a suffix of the last request's records plus the trailing "
         "bytes. chain_run / chain_legal / creq_ok: Parser/ChainTargets.v", "chain", "C05_chain", ["chain_stmt"]),
        ("... and each request alone on a fresh connection yields the same request: 'the same k environments as k separate connections'",
         "chain_separately", "C05_chain_separately", ["chain_separately_stmt"]),
    ], tail='''(* non-vacuity of C05_chain: two pipelined requests (a Responder whose Stdin is read completely, a Filter whose Stdin is read in part
   before Data is selected), B = 256, the whole connection in the buffer at the first hand-off: every hypothesis holds and the run
   yields both requests *)
Example C05_chain_example :
  Forall (creq_ok (aligned_bufsize 256)) [ch_c1; ch_c2] /\\
  chain_legal ch_norm 10 (new_parser 256) ch_wire [ch_g1; ch_g2].
Proof. destruct chain_nonvacuous as (_ & H1 & _ & _ & _ & H2). split; [exact H1|exact H2]. Qed.

(* the caller obligation "do not parse during the stream phase of a role without input streams" is needed: DESIGN.md, observation O4 *)
Example C05_authorizer_overread :
  o4_left [] = Some (creq_wire o4_resp ++ [9; 9; 9]) /\\
  o4_left [XC (CParse [] None); XC (CConsumeOutput 100)] = Some [9; 9; 9].
Proof. exact authorizer_overread_swallows_successor. Qed.
''')

if "C18" in which:
    put("C18", "Parser.ReqWire Parser.ReqTargets Parser.AbsStream Parser.StreamSpec Parser.StreamRefine Parser.StreamInv " + SF, [
        ("an accepted set_stream on ANY reachable state: request, buffer size, pending output, raw input, all replies and all "
         "stream contents are untouched; re-selecting the current stream changes nothing at all; a change empties the stream "
         "buffer and from then on the content is that of the newly selected stream, computed from the same bytes", "set_stream_call", "C18_set_stream_effect"),
        ("a later stream of the role can always be selected", "set_stream_later", "C18_later_selectable"),
        ("MAIN (full statement): any schedule, then set_stream(later stream), then any schedule: everything delivered in the second "
         "epoch is content of the newly selected stream and of no other (F of the ORIGINAL state over all bytes fed in both epochs), "
         "and the replies are conserved across the switch", "C18_only_active", "C18_only_active"),
        ("... read record by record from the wire", "C18_only_active_rcds", "C18_only_active_records"),
        ("cmp_input_streams agrees with the readable order spec_cmp for EVERY role value", "cmp_spec_all", "C18_cmp_all_roles"),
    ])

CR = "Async.Conn Async.ConnWrites Async.ConnTotal Async.ConnReads"
PRE = "Base.Bytes Gen.Generated Parser.ReqModel Parser.ReqTargets Parser.StreamModel Parser.AbsStream Parser.StreamSpec Parser.StreamRefine Parser.StreamInv "

TAIL_C08 = '''(* non-vacuity of C08_peer_read_never_deadlocks: a GetValues query in the first segment, the second segment gated on its
   reply (gm = 1): all hypotheses hold, the read returns the Stdin bytes; with the gate at 2 replies the read does deadlock *)
Example C08_peer_example : forall fuel dest w', await_input 10 fuel dest ex_peer_r ex_peer_w <> Halt ODeadlock w'.
Proof. exact ex_peer_no_deadlock. Qed.

(* non-vacuity of C08_peer_never_deadlocks: a request whose Stdin carries a GetValues query in segment 1 and whose second segment is
   gated on that reply: the hypotheses hold and the run returns; with the gate asking for 2 replies the peer condition fails and
   the run does end in the wait-for cycle *)
Example C08_connection_example : forall norm maxc,
  fst (run_loop norm maxc (nb (ex2_w 1) + 4) (new_parser 64) ex2_scripts 0 (ex2_w 1)) = ORet.
Proof. exact ex2_never_deadlocks. Qed.

(* non-vacuity of C08_client_never_deadlocks: two KeepConn requests in two segments, the second released after one EndRequest *)
Example C08_client_example : forall norm maxc,
  fst (run_loop norm maxc (nb (ex3_w 1) + 4) (new_parser 64) ex3_scripts 0 (ex3_w 1)) = ORet.
Proof. exact ex3_never_deadlocks. Qed.

(* the hypothesis no_abandoned_read of C08_only_waits_for_client and of the two MAIN theorems cannot be dropped (known finding
   F6): a well-formed script with op 11 (a read polled once and dropped while Request::poll_output has written only part of a
   management reply and holds Request.lock) followed by a StreamWriter write, every other hypothesis satisfied: the writer
   waits for the lock, the client for the rest of the reply — the run ends in the wait-for cycle; with the read awaited it
   returns.  Instances: Async/PeerProofs2.v (ex2p_hyps ...), Async/PeerProofs3.v (ex3p_hyps ...) *)
Example C08_abandoned_read_counterexample :
  (scripts_ok true (ex2p_scripts 11) /\ ~ Forall no_abandoned_read (ex2p_scripts 11) /\\
   segs ex2p_w = enc_segs ex2p_sg /\ peer_segs 0 ex2p_sg /\ wlog ex2p_w = [] /\ no_fault (wscript ex2p_w) /\\
   no_read_fault (rscript ex2p_w) /\ stop_at ex2p_w = 0 /\ stopped ex2p_w = false) /\\
  fst (run_loop (fun b => b) 10 (nb ex2p_w + 4) (new_parser 64) (ex2p_scripts 11) 0 ex2p_w) = ODeadlock /\\
  fst (run_loop (fun b => b) 10 (nb ex2p_w + 4) (new_parser 64) (ex2p_scripts 1) 0 ex2p_w) = ORet.
Proof.
  destruct ex2p_hyps as (_ & H2 & H3 & _ & H5 & H6 & H7 & H8 & H9 & H10 & H11 & _).
  split; [exact (conj H2 (conj H3 (conj H5 (conj H6 (conj H7 (conj H8 (conj H9 (conj H10 H11))))))))|]. split; [exact (proj1 ex2p_abandoned_read_deadlocks)|exact (proj1 ex2p_awaited_read_returns)].
Qed.
Example C08_abandoned_read_counterexample_client :
  (scripts_ok true (ex3p_scripts 11) /\ ~ Forall no_abandoned_read (ex3p_scripts 11) /\\
   segs ex3p_w = enc_client ex3p_cs /\ client_segs 0 0 ex3p_cs /\ wlog ex3p_w = [] /\ no_fault (wscript ex3p_w)) /\\
  fst (run_loop (fun b => b) 10 (nb ex3p_w + 4) (new_parser 64) (ex3p_scripts 11) 0 ex3p_w) = ODeadlock /\\
  fst (run_loop (fun b => b) 10 (nb ex3p_w + 4) (new_parser 64) (ex3p_scripts 1) 0 ex3p_w) = ORet.
Proof.
  destruct ex3p_hyps as (_ & H2 & H3 & _ & H5 & H6 & H7 & H8).
  split; [exact (conj H2 (conj H3 (conj H5 (conj H6 (conj H7 H8)))))|]. split; [exact (proj1 ex3p_abandoned_read_deadlocks)|exact (proj1 ex3p_awaited_read_returns)].
Qed.
'''

if "C08" in which:
    head = '''(* Props/C08.v — The server never waits for client input while it owes a reply.
   Only statements.  Model: Async/Conn.v (scripted world: gated client segments = a peer that withholds further
   records until it has seen the replies it waits for; PBlock = Pending without a wake-up).  Proofs: Async/ConnTotal.v
   (totality), Async/ConnReads.v (accounting at every suspension point).  R is the reply specification of
   Parser/StreamSpec.v: the replies owed for a byte string by a parser in a given state. *)
From FV Require Import %s%s Async.PeerTargets Async.PeerProofs Async.PeerTargets2 Async.PeerProofs2 Async.PeerTargets3 Async.PeerProofs3.
''' % (PRE, CR)
    put("C08", "", [
        ("layer (i), every transport (write faults included) and every well-formed handler: the task ends by returning or suspended "
         "without a pending wake-up — never a panic, never a spin.  What it is suspended on is a transport read that a gated client "
         "does not satisfy or (known findings F5/F6, refuted form: C12_terminates_unrestricted_refuted) a StreamWriter op waiting "
         "for the request's own output lock", "run_loop_total", "C08_never_panics_or_spins"),
        ("layer (ii-a): on a transport without write faults, with handlers that await the reads they start (no abandoned poll, "
         "op 11), Request.lock is free between handler ops, and the only way the task can be suspended without a pending wake-up "
         "is a transport read that a GATED client does not satisfy: never a panic, a spin, or a wait on anything else",
         "run_loop_waits_fault_free", "C08_only_waits_for_client"),
        ("inside a handler's read (poll_input): a suspension without wake-up happens only with NOTHING OWED: the parser's output "
         "buffer is empty, everything it produced is in the transport's log (wlog w' = wlog w ++ flushed, and flushed ++ what is "
         "still owed for the undelivered bytes = what was owed before), nothing is owed for the bytes already received "
         "(R .. [] = []), no stream data is withheld from the handler, and the client's next bytes are gated", "poll_input_block", "C08_poll_input_block"),
        ("the awaited form: a deadlock inside poll_fn(poll_input) has exactly that shape", "await_input_deadlock", "C08_await_input_deadlock"),
        ("a parse call that reports neither stream data nor end-of-stream stops only when it is stuck on incomplete input "
         "(the fact behind 'nothing owed for received bytes')", "aparse_quiet", "C08_quiet_call_is_stuck"),
        ("between requests (Token::parse_request): a deadlock happens only in the read, with every reply produced by every parse "
         "call made so far completely written, and nothing else written", "parse_request_deadlock", "C08_parse_request_deadlock"),
        ("parse_request reads only after its write_all returned Ok", "parse_request_read_after_flush", "C08_read_after_flush"),
        ("while skipping to a record boundary in close(): a deadlock happens only strictly inside a record the client has not "
         "finished; nothing was written, all replies are still accounted for (their flush is deferred to close, which is why the "
         "peer of the property — one that sends whole records — cannot deadlock here)", "boundary_loop_deadlock", "C08_record_boundary_deadlock"),
        ("---- the 'Hence' part, counted the way the waiting peer counts (complete EndRequest records; complete GetValuesResult / "
         "UnknownType records in the bytes it received) ----  counting is additive over complete records", "counts_app", "C08_counts_additive", ["counts_app_stmt"]),
        ("every reply the stream parser owes is a complete record (for continuations made of bytes; the unrestricted form is refuted "
         "below: a 'byte' 300 would be echoed)", "replies_whole_partial", "C08_replies_are_whole_records", ["replies_whole_partial_stmt"]),
        ("... refuted without that restriction", "replies_whole_full_is_false", "C08_replies_whole_unrestricted_refuted", ["replies_whole_stmt"]),
        ("every output of a request-parser call is a sequence of complete records", "parse_out_whole", "C08_request_parser_output_whole", ["parse_out_whole_stmt"]),
        ("a handler read that ends up waiting for the client has put into the log EXACTLY the replies the specification owes for the "
         "bytes received during the read (pending output included), all complete records, counted additively — and the client's gate "
         "is still not met", "read_block_counts", "C08_read_block_counts", ["read_block_counts_stmt"]),
        ("MAIN (the peer of the property): if every gate of the client asks for no more than what is already in the log plus the "
         "replies owed (by the specification) for the bytes of the segments before it, a handler read NEVER ends in the wait-for "
         "cycle — whatever the transport's read/write readiness pattern", "peer_read_no_deadlock", "C08_peer_read_never_deadlocks",
         ["peer_read_no_deadlock_stmt", "gates_owed_only"]),
        ("between requests: the log has grown by exactly the (complete-record) outputs of the parse calls made, counted additively, when "
         "parse_request waits for the client", "parse_request_block_counts", "C08_parse_request_block_counts", ["parse_request_block_counts_stmt"]),
        ("MAIN, whole connection: on a fault-free transport, for EVERY buffer size, every list of well-formed handler scripts that await "
         "the reads they start (reading, buffered reading, stream switching, writing, early return, own status, failing; NOT the read "
         "polled once and dropped of op 11: see C08_abandoned_read_counterexample), every read/write readiness pattern and every "
         "client whose segments are whole records and whose gates ask only for management replies owed for records of EARLIER segments "
         "(pipelining allowed), the connection task RETURNS: server and peer never wait for each other", "peer_never_deadlocks",
         "C08_peer_never_deadlocks", ["peer_never_deadlocks_stmt"]),
        ("MAIN, the one-outstanding client of C07: one complete request per segment (C01-style preamble with junk, then stream records "
         "in which every input stream of the role is terminated; management and unknown-type records anywhere; no stray BeginRequest / "
         "AbortRequest), request j+1 released after exactly j EndRequest records and at most the management replies owed so far: for "
         "every buffer size, handler scripts and readiness pattern the connection task RETURNS — whether the client waits for an "
         "EndRequest or for a management reply", "client_never_deadlocks", "C08_client_never_deadlocks",
         ["client_never_deadlocks_stmt"]),
    ], head=head, tail=TAIL_C08)

if "C09" in which:
    head = '''(* Props/C09.v — Async reads deliver exactly the active stream; output gated on the final stream.
   Only statements.  Model: Async/Conn.v (Request::poll_input / poll_output / writeable, handler scripts).
   K a u = the content of the active stream still to come from parser state a over future bytes u (Parser/StreamSpec.v);
   [remaining w] = client bytes not yet delivered by the transport; acct = the conservation record of Async/ConnReads.v. *)
From FV Require Import %s%s Async.ReadsWTargets Async.ReadsWProofs.
From FV Require Import Codec.Varint Codec.NV Codec.Bodies Codec.Vars Parser.ReqWire Parser.ReqTargets Parser.AbsStream Parser.StreamSpec Parser.StreamFinal Parser.EnvCanon
  Async.PeerTargets Async.PeerTargets2 Async.PeerTargets3 Async.PeerTargets4 Async.BodyTargets Async.BodyProofs Async.BodyReadsTargets Async.BodyReadsProofs.
''' % (PRE, CR)
    put("C09", "Codec.Varint Codec.NV Codec.Bodies Codec.Vars Parser.ReqWire Parser.ReqTargets Parser.AbsStream Parser.StreamSpec Parser.StreamFinal Parser.EnvCanon Async.PeerTargets Async.PeerTargets2 Async.PeerTargets3 Async.PeerTargets4 Async.PeerProofs4 Async.BodyTargets Async.BodyProofs Async.BodyReadsTargets Async.BodyReadsProofs", [
        ("ONE poll of poll_input, any caller buffer (Some c / fill_buf = None), any transport behaviour: with dl the bytes handed to "
         "the caller, K(before)(remaining) = dl ++ K(after)(remaining'), replies and later streams conserved (acct); by outcome: "
         "Ok(n) with n = |dl| <= c, and Ok(0) for c > 0 only at end-of-stream; errors: a sticky parser error, UnexpectedEof only "
         "with no client byte left (or a full buffer), or the error of the flush; Pending leaves everything in place; and the "
         "writeable flag changes only as the gate law says", "poll_input_reads", "C09_poll_input"),
        ("the awaited read (Pending/wake cycles folded in)", "await_input_reads", "C09_await_input"),
        ("end-of-file PERSISTS: at the terminator every later read returns Ok(0) without touching the transport's read side", "poll_input_eof", "C09_eof_persists"),
        ("Ok(0) into a non-empty buffer means end-of-stream", "poll_input_zero_is_eof", "C09_zero_is_eof"),
        ("read_to_end returns exactly the stream's content", "read_all_complete", "C09_read_to_end"),
        ("a handler that only reads (read / read_to_end / fill_buf+consume in any mix, any buffer sizes): the bytes it observes, in "
         "order, are exactly a prefix of the stream content, and what it has not seen is still to come", "run_handler_read_only", "C09_handler_reads"),
        ("handlers that also switch streams / call writeable(): after a switch the delivered bytes are content of the newly selected "
         "stream computed from the handler's very first state (trace law tlaw)", "run_handler_reads_top", "C09_handler_reads_and_switches"),
        ("EVERY handler of the family, writes and flushes to stdout/stderr interleaved anywhere (all eleven opcodes, any write sizes, "
         "write faults included): the same trace law for the read side, whatever was written in between (hw_post / htlaw: "
         "Async/ReadsWTargets.v)", "run_handler_reads_w_top", "C09_handler_reads_with_writes", ["run_handler_reads_w_top_stmt"]),
        ("the gate: poll_input opens it only when it went to the parser, returned Ok and the active stream is the role's final "
         "stream; nothing closes it", "poll_input_gate", "C09_gate"),
        ("Request::new opens the gate only for roles whose first stream is the final one", "request_new_gate", "C09_initial_gate"),
        ("WHOSE bytes: over a whole connection of the one-outstanding client (C07; requests within the documented buffer bound, fault-free "
         "transport, every buffer size, handler scripts and readiness pattern) handler invocation i is started with request i, the role's first "
         "input stream selected, nothing delivered yet, and for EVERY input stream of the role the content still to come - the K / F of the "
         "trace law above, from whose front every read takes its bytes - is exactly that stream's content in the records the client sent for "
         "request i: nothing of an earlier or later request, nothing missing (run_loop_body = run_loop with a ghost trace: C09_body_trace_is_ghost)",
         "bodies_in_order", "C09_bodies_in_order", ["bodies_in_order_stmt"]),
        ("the ghost trace is a pure addition to Conn.run_loop", "run_loop_body_erase", "C09_body_trace_is_ghost", ["run_loop_body_erase_stmt"]),
        ("END TO END: at EVERY handler invocation of such a connection (run_loop_inv = run_loop with a ghost trace of script, request state and "
         "world at each handler start: C09_invocation_trace_is_ghost) the trace law holds for the script that runs - hw_post: every read-side "
         "operation takes its bytes from the front of what is still to come of the selected stream, a newly selected stream delivers its content "
         "as of the start of the handler, whatever is written in between and however the run ends - AND the contents it speaks about are those "
         "of the request the client sent at that position: the handler of request i reads the body of request i", "connection_reads",
         "C09_connection_reads", ["connection_reads_stmt"]),
        ("that ghost trace is a pure addition too", "run_loop_inv_erase", "C09_invocation_trace_is_ghost", ["run_loop_inv_erase_stmt"]),
        ("non-vacuity: two keep-alive Responder requests with bodies abc / de: the trace has two entries whose Stdin content to come is abc / de",
         "ex4_body_trace", "C09_bodies_example"),
        ("writeable(): Ok means the gate is open — or the stale case spelled out in the statement (gate closed, final stream "
         "already selected, buffered data, reachable only after a parser error; see DESIGN.md, observation O1)", "do_writeable_gate", "C09_writeable"),
    ], head=head)

if "C11" in which:
    head = '''(* Props/C11.v — A client abort ends exactly the aborted request; the connection stays usable.
   Only statements.  Request-parser side: Parser/ReqRecords.v; connection side: Async/ConnReads.v, Async/ConnWrites.v. *)
From FV Require Import %sCodec.Bodies Parser.ReqWire Parser.ReqRecords Parser.ReqFinal Parser.AbortProofs %s Async.ConnLoop Async.AbortFlowTargets Async.AbortFlowProofs.
''' % (PRE, CR)
    put("C11", "", [
        ("during Params: an AbortRequest for the request in progress is consumed entirely, exactly one "
         "EndRequest(RequestComplete, 0, id) is emitted and the parser is back at Header (no request is produced, so no handler can "
         "be invoked for it); an abort for any other id is skipped without reply", "abort_in_params", "C11_abort_in_params"),
        ("later: a handler read that returns ConnectionAborted does so because the parser stands at an AbortRequest header of this "
         "request — and Request.aborted is then set — or because a flush of parser replies failed with a transport error of that very "
         "kind (flag untouched: finding F4, the two are told apart by the flag)", "poll_input_aborted", "C11_read_fails_with_aborted"),
        ("on a transport without write faults: ConnectionAborted exactly for the parser's AbortRequest, flag set", "poll_input_aborted_no_fault", "C11_read_fails_with_aborted_no_fault"),
        ("Request.aborted is set only by a read that returns the parser's AbortRequest", "poll_input_sets_aborted", "C11_aborted_flag_source"),
        ("... and nothing a handler does clears it", "run_handler_raborted_mono", "C11_aborted_flag_sticky"),
        ("the error repeats: every later read reports it again (or the error of a failing flush), never touches the transport's read "
         "side, never suspends for good", "await_input_sticky", "C11_abort_sticky"),
        ("input delivered before the error is a prefix of what the client sent (the conservation law of one poll; for errors "
         "K(before) = dl ++ K(after) with dl the bytes handed over by that call)", "poll_input_reads", "C11_prefix_before_error"),
        ("close() after an abort: record_boundary returns at once at the abort header and ignores the abort error", "boundary_loop_abort", "C11_boundary_ignores_abort"),
        ("... so close writes exactly one EndRequest with the given status (ABORT unless the handler chose its own) and, with "
         "KeepConn, returns the connection for reuse: the reuse law of C07", "close_reuse_iff", "C11_one_endrequest_and_reuse"),
        ("---- the abort flow end to end ----  Request::close on an aborted request, every fault-free transport, any status: it never "
         "suspends for good, reads nothing, writes exactly close_bytes (pending replies, the stream terminators owed, ONE EndRequest), "
         "and with KeepConn hands back a parser whose leftover is exactly the unparsed input beginning with the retained abort header "
         "(skipped as idle junk by the next request parser: C01/C07); without KeepConn the connection ends after the complete epilogue",
         "abort_close", "C11_abort_close", ["abort_close_stmt"]),
        ("where the aborted state comes from: a handler that only reads and does not fabricate a ConnectionAborted error of its own ends "
         "with Err(ConnectionAborted) on a fault-free transport ONLY because a read hit the client's AbortRequest: the parser stands at "
         "the abort header and Request.aborted is set", "handler_abort_source", "C11_handler_abort_source", ["handler_abort_source_stmt"]),
        ("one iteration of Token::run for such a request: the handler's Err(ConnectionAborted) becomes ExitStatus::ABORT ('ABRT', "
         "RequestComplete), exactly close_bytes follow what the handler run had written, nothing more is read; with KeepConn the loop "
         "goes on with the handed-back parser, otherwise the task returns", "abort_iteration", "C11_abort_iteration", ["abort_iteration_stmt"]),
    ], head=head, tail='''(* non-vacuity of C11_abort_close: a Responder request (KeepConn) whose Stdin is followed by a GetValues query and the AbortRequest; the
   handler propagates its read errors; reads and writes are cut and Pending in between: every hypothesis holds for the state the
   handler run ends in, and close writes the two stream terminators and ONE EndRequest carrying "ABRT"; the handed-back parser holds
   the abort record and what followed it *)
Example C11_abort_close_example :
  match do_close 10 AbortExample.r1 EXIT_Complete EXIT_ABORT_CODE AbortExample.w1 with
  | Ok (inl rp') w' =>
      wlog w' = wlog AbortExample.w1 ++ [1;6;0;7;0;0;0;0; 1;7;0;7;0;0;0;0; 1;3;0;7;0;8;0;0; 65;66;82;84; 0; 0;0;0] /\\
      held rp' = [1;2;0;7;0;0;2;0;9;9; 1;5;0;7;0;0;0;0] /\\ cap rp' = 128 /\\ st rp' = Header
  | _ => False
  end.
Proof. exact AbortExample.abort_close_instance. Qed.
''')

if "C10" in which:
    put("C10", "Async.Writer Async.WriterTargets Async.WriterProofs Parser.ReqWire Parser.ReqTargets Async.ConnTotal Async.ConnReads Async.ReadsWTargets Async.FrameTargets Async.FrameProofs", [
        ("---- several writers + the request's own reply flushing on one connection (Async/Writer.v) ----  MAIN: for EVERY poll "
         "order, number of writers, data, transport write script and client input: the log is a concatenation of COMPLETE lock "
         "tenures (one whole record of one writer, or one whole flush of parser replies) followed by the part of the current "
         "holder's tenure; per writer, payloads in log order ++ record in progress ++ unwritten data = the data it was given; a "
         "writer not holding the lock has written nothing of its record in progress", "writers_exclusive", "C10_writers_exclusive", ["writers_exclusive_stmt"]),
        ("all writers done, none failed: the log is exactly a sequence of complete tenures carrying every writer's data", "writers_complete", "C10_writers_complete", ["writers_complete_stmt"]),
        ("a writer polled while someone else holds the lock changes nothing", "writer_waits", "C10_writer_waits", ["writer_waits_stmt"]),
        ("the request's flush polled while a writer holds the lock changes nothing", "request_waits_partial", "C10_request_waits", ["request_waits_partial_stmt"]),
        ("---- the WHOLE connection (Async/Conn.v: Token::run with parse_request, handler scripts of all eleven opcodes - reads polled once and "
         "abandoned included -, Request::close) ----  on a transport without write faults (any accept sizes, any Pending pattern), for EVERY client "
         "(any bytes, segmentation, gating), buffer size and fuel: whatever the outcome (returned, waiting, out of fuel), the transport log is a "
         "PREFIX of a byte string that decodes completely into records (framed: ConnWrites.parse_records - version 1, known type, lengths as "
         "announced); and it decodes completely (whole) when the task returns, no shutdown was requested and no script abandons a read.  Management "
         "replies, stream records and epilogues never interleave, not even in the F6 scenario (the writer waits, it does not write into the "
         "unfinished reply)", "connection_framing", "C10_connection_framing", ["connection_framing_stmt"]),
        ("non-vacuity: a run that returns with five records, the first a GetValuesResult", "exf_returns_whole", "C10_framing_example_whole"),
        ("... and the F6 run: ODeadlock with the log [1; 10; 0] - three bytes of the reply header: framed, not whole", "exf6_framed_not_whole", "C10_framing_example_f6"),
    ])

if "C07" in which:
    put("C07", "Codec.Varint Codec.NV Codec.Vars Parser.ReqWire Parser.ReqTargets Async.ConnTotal Async.ConnReads Async.LoopTargets Async.LoopProofs Async.PeerTargets4 Async.PeerProofs4 Async.LogTargets Async.LogProofs Parser.AbsStream Parser.StreamSpec Parser.StreamFinal Parser.EnvCanon Async.ReadsWTargets Async.PeerTargets Async.PeerTargets2 Async.PeerTargets3 Async.BodyTargets Async.BodyReadsTargets Async.BodyReadsProofs Async.FrameTargets Async.EpilogueTargets Async.EpilogueProofs", [
        ("'exactly that request': Token::parse_request IS a read schedule of the request parser whose chunks are the transport reads — "
         "whatever the transport does (any read sizes, Pending, any write pattern)", "parse_request_sched", "C07_parse_request_is_a_schedule", ["parse_request_sched_stmt"]),
        ("a reused connection's parser (leftover L of the previous request in its buffer) behaves exactly like a fresh parser fed L first", "leftover_as_fed", "C07_leftover_as_fed", ["leftover_as_fed_stmt"]),
        ("MAIN: if the client's stream (leftover of the previous request ++ everything still to be delivered) begins with a well-formed "
         "preamble (as in C01: any junk, cuts, padding; pairs within the documented bound) and parse_request hands over to a handler, the "
         "request the handler sees has exactly the transmitted id, role, flags and environment; exactly the replies owed for the "
         "preamble's management records have been written; and the stream parser starts with exactly the bytes that followed the "
         "preamble — for every transport behaviour", "handler_sees_request", "C07_handler_sees_exactly_the_request", ["handler_sees_request_stmt"]),
        ("'exactly one handler invocation': one iteration of Token::run — while no shutdown was requested it parses ONE request, runs the "
         "handler ONCE on it, closes it ONCE when the handler returned a status (a handler Err ends the connection without close unless "
         "it is the client's abort), and continues only with the parser a successful close handed back", "run_loop_iteration", "C07_one_handler_call_per_request"),
        ("the trace of Token::run: `run_loop_tr` is run_loop with a ghost trace of the requests handed to the handler; erasing the "
         "trace gives run_loop, same outcome, same world", "run_loop_tr_erase", "C07_trace_is_ghost", ["run_loop_tr_erase_stmt"]),
        ("MAIN, whole connection: for the one-outstanding client whose requests respect the buffer bound, the requests handed to the "
         "handler are exactly the requests sent, in order, each once (the trace of Token::run with a ghost trace, `run_loop_tr`, which "
         "erases to run_loop: C07_trace_is_ghost; a prefix of the sent requests if the connection ends early) — on a fault-free "
         "transport, for every handler script (abandoned reads included), readiness pattern and buffer size",
         "requests_in_order", "C07_requests_in_order", ["requests_in_order_stmt"]),
        ("the log-keeping loop `run_loop_log` (Async/LogTargets.v) is run_loop with a ghost record per handler invocation; erasing it "
         "gives run_loop", "run_loop_log_erase", "C07_log_is_ghost", ["run_loop_log_erase_stmt"]),
        ("MAIN, the transport log of a whole connection, for EVERY client, transport (faults included), handler scripts and buffer "
         "size: the handler invocations, in order, each satisfy entry_ok - the log only grows while the handler runs, and when close "
         "completed what it appended is some parser replies, then (if the request had become writeable) the empty Stdout and Stderr "
         "records, then ONE EndRequest with the invocation's status (the handler's own, or ABORT for the client's abort) and the id "
         "of the request the handler was started with, nothing else -, they are chained (an invocation starts after the previous one "
         "was closed) and the final log extends the last entry", "connection_log", "C07_connection_log", ["connection_log_stmt"]),
        ("connection REUSE is invisible to the handler (the 'same as on fresh connections' clause, at the async layer): what handler invocation "
         "i of a connection carrying k requests of the one-outstanding client is started with - request, selected stream, nothing delivered - "
         "and the content still to come of every input stream equal what the single invocation of a FRESH connection carrying only request i "
         "is started with and can read, whatever the transports, scripts and readiness patterns of the two connections", "reuse_is_invisible",
         "C07_reuse_is_invisible", ["reuse_is_invisible_stmt"]),
        ("the central clause read off the DECODED transport log: on a transport without write faults, never shut down, for every client, buffer "
         "size, fuel and handler scripts that await their reads and write to Stdout / Stderr, every handler invocation whose close completed "
         "owns a stretch of the log that decodes completely into records (the log at handler start, what the handler phase appended, what close "
         "appended: each whole), in which EXACTLY ONE record is an EndRequest with the request's id - the LAST one, carrying the invocation's "
         "status (the handler's own, or ABORT for the client's abort), directly preceded (when the request had become writeable) by the empty "
         "Stdout and Stderr records of that id; everything before it is handler output and management replies", "epilogue_records",
         "C07_epilogue_records", ["epilogue_records_stmt", "answered_once"]),
        ("non-vacuity: the run of Async/PeerProofs2.ex2 - one closed invocation whose handler phase decodes into a GetValuesResult and a Stdout "
         "record and whose close decodes into empty Stdout, empty Stderr, EndRequest", "epilogue_records_ex", "C07_epilogue_records_example"),
    ], tail='''(* non-vacuity of C07_handler_sees_exactly_the_request: a concrete connection (B = 160, a GetValues junk record inside
   the preamble, leftover = 5 bytes, two client segments, Pending reads and writes) satisfies every hypothesis *)
Example C07_handler_sees_example : forall s0 w', lp_run = Ok (inl s0) w' ->
  sreq s0 = mkReq 9 ROLE_Responder 1 lp_pairs /\\ wlog w' = preamble_replies 5 lp_pw /\\ raw_bytes s0 ++ remaining w' = lp_trailing.
Proof. exact handler_sees_request_instance. Qed.
''')

if "C12" in which:
    put("C12", "Codec.Varint Codec.NV Codec.Vars Parser.ReqWire Parser.ReqTargets Parser.AbsStream Parser.StreamSpec Parser.StreamRefine Parser.StreamInv Async.ConnReads Async.LoopTargets Async.LoopProofs Async.LoopTargets2 Async.LoopProofs2 Async.ConnTotal Async.ReadsWTargets Async.FrameTargets Async.FrameFaultTargets Async.FrameFaultProofs", [
        ("'no handler is invoked for a request whose preamble did not arrive completely': if everything the client will ever deliver "
         "(leftover included) is a PROPER prefix of a well-formed preamble — EOF, a transport error or a block anywhere inside it — "
         "parse_request never hands over to a handler, whatever the read and write patterns", "no_handler_for_partial", "C12_no_handler_for_partial_preamble", ["no_handler_for_partial_stmt"]),
        ("between requests a transport EOF ends the connection quietly (ConnectionReset), a read error is returned as it is, and the "
         "read happens only after the replies were written", "parse_request_read_after_flush", "C12_parse_request_eof"),
        ("'an unexpected-EOF error rather than a successful short or empty read': a successful empty read into a non-empty buffer "
         "happens only at the stream's end (terminator seen), never because the transport ran dry", "poll_input_zero_is_eof", "C12_empty_read_means_end_of_stream"),
        ("the full account of one poll (error cases: UnexpectedEof only with no client byte left or a full buffer; the transport's "
         "own error; a sticky parser error)", "poll_input_reads", "C12_poll_input_cases"),
        ("'for a handler that propagates I/O errors, nothing is written after a failed write': for EVERY connection (any client "
         "bytes, read script, buffer, number of requests) whose handlers propagate errors (every read is `read(..).await?`, writes "
         "return their error), if the first fault of the write script (a zero-length write or a write error) is entry number |pre|, "
         "then either that entry is never reached or it is the LAST write call the task ever makes: the rest of the script is "
         "untouched, so no byte is accepted after the failed call", "nothing_after_failed_write", "C12_nothing_after_failed_write",
         ["nothing_after_failed_write_stmt"]),
        ("'... and what was written before is a prefix of a well-formed record sequence': whatever the transport's write script - accept sizes, "
         "Pending, and a first fault (zero-length write or write error) at ANY write call -, for every client, buffer size, fuel and handler "
         "scripts that propagate I/O errors, the transport log of Token::run is at every end of the run a prefix of a byte string that decodes "
         "completely into records (framed, Async/FrameTargets.v; the fault-free case is C10_connection_framing)", "connection_framing_faults",
         "C12_connection_framing_under_faults", ["connection_framing_faults_stmt"]),
    ])

if "C14" in which:
    put("C14", "Async.LogTargets Async.ShutdownTargets Async.ShutdownProofs Codec.Bodies Parser.ReqWire Parser.ReqTargets Async.ReadsWTargets Async.FrameTargets Async.EpilogueTargets Async.ShutdownAnswerTargets Async.ShutdownAnswerProofs", [
        ("'in-flight requests complete': nothing inside a request looks at the stop listener - a handler run that completes without a "
         "shutdown request completes in exactly the same way (same result, same request state, same bytes read and written, same "
         "observations) whenever and however often shutdown is requested meanwhile", "handler_ignores_stop", "C14_inflight_handler_completes",
         ["handler_ignores_stop_stmt"]),
        ("... and Request::close writes the same complete epilogue and takes the same reuse decision", "close_ignores_stop", "C14_inflight_close_completes",
         ["close_ignores_stop_stmt"]),
        ("a request blocked on its client is not aborted by the shutdown either: it keeps waiting", "handler_block", "C14_blocked_request_keeps_waiting",
         ["handler_block_stmt"]),
        ("THE WHOLE CONNECTION: run it twice, once with no shutdown ever (w1), once with a shutdown requested at ANY moment (w2: any stop_at, "
         "possibly already stopped; same client, transport scripts and log).  If the undisturbed run returns or ends up waiting for its client, "
         "then either the shutdown made no difference (same outcome, same handler invocations, same transport state), or the second run RETURNED "
         "and did so at a request boundary: its handler invocations are an initial segment of the undisturbed run's - each with the same request, "
         "handler result and transport log before, after and at the end of its close() -, every one of them was closed (answered by its complete "
         "epilogue: C07_connection_log), its transport log is a prefix of the undisturbed run's and it consumed no more input: no request is "
         "started after the shutdown, none in flight is cut short or answered differently, nothing is written that would not have been written anyway",
         "shutdown_cut", "C14_shutdown_cut", ["shutdown_cut_stmt"]),
        ("non-vacuity: two keep-alive requests and an idle client; with the stop requested before scheduling step 2 the second run returns after "
         "the FIRST request (1 of 2 invocations, 48 of 96 log bytes), the undisturbed run serves both and then waits", "shutdown_cut_ex", "C14_shutdown_cut_example"),
        ("'in-flight requests finish', on the DECODED transport log (corollary of C14_shutdown_cut and C07_epilogue_records): on a transport "
         "without write faults, with handlers that await their reads and write to Stdout / Stderr, in the run with a shutdown requested at any "
         "moment every handler invocation that was closed owns a stretch of the log that decodes completely and contains exactly one EndRequest "
         "of its id (last, after the empty stream records); and either the invocations are the undisturbed run's, or the task returned with "
         "EVERY invocation it started closed - none cut short - and these are an initial segment of the undisturbed run's", "shutdown_answers_inflight",
         "C14_shutdown_answers_inflight", ["shutdown_answers_inflight_stmt"]),
    ])
