#!/usr/bin/env python3
"""tools/mk_mutation_prompt.py <round> <ID>...  — writes /tmp/mut<round>_prompt_<id>.txt for a fresh adversary sub-agent working in the
scratch worktree /tmp/mut<round>-<id> (git -C /repo worktree add --detach /tmp/mut<round>-<id> HEAD).  The prompt contains ONLY the
property's text, the task, and one-paragraph descriptions of the changes earlier adversaries delivered (so that the new one differs);
nothing about /verif's machinery.  Outcome handling: tools/try_mutant.sh, tools/seeded_table.py (DESIGN.md 13.5)."""
import json, sys, glob
HEAD = 'You are helping to validate a verification effort by playing the adversary. Your working directory @DIR@ is a scratch git worktree of the Rust crate TheJokr/fastcgi-server (a server-side FastCGI protocol library: record-stream parsers, name-value/varint codecs, async connection layer). Work ONLY inside @DIR@; do not read or touch /verif or /repo (you must stay independent of any existing verification machinery). The sandbox is offline: use `cargo test --offline` (the dependency crates are cached; features `async` and `http` exist; `cargo test --workspace --no-fail-fast --offline` runs the 68 baseline tests, `cargo test --offline --features async,http` runs 82).\n\n'
TAIL = 'Your task: devise ONE realistic change to the crate\'s source (the kind of slip a maintainer could make in a refactoring or "optimisation": an off-by-one in a comparison, a dropped or misplaced statement, a swapped pair of cursors, a wrong constant in one arm, a state not reset, a length computed from the wrong slice, ...) that\n  1. BREAKS the property above,\n  2. still COMPILES, and still PASSES the existing tests unedited (`cargo test --workspace --no-fail-fast --offline` AND `cargo test --offline --features async,http`),\n  3. needs something SPECIFIC to manifest — a particular cut position or record segmentation, a particular interleaving/poll order, a fault at a particular point, a multi-step sequence of operations, an unusual but legal input, or two cooperating sites that each look fine alone — NOT something that ordinary use would expose at once.\nThen write a DEMONSTRATION: a small Rust integration test (file `tests/demo_mutation.rs`, using only the crate\'s public API; for async code you may write a tiny hand-rolled executor/mock transport inside the test) that FAILS with your change applied and PASSES on the unchanged tree. Verify both facts yourself by running it with and without the change (`git stash` / `git stash pop` or `git diff > patch.diff; git checkout -- src; ...`).\n\nDeliverables, all inside @DIR@/deliver/ :\n  - `patch.diff`   : `git diff -- src` of your change only (must apply with `git apply` on the unchanged tree; do not include the test file in it),\n  - `demo_mutation.rs` : the demonstration test,\n  - `meta.json`    : {"property": "ID", "what": one-paragraph description of the change, "needs": what it needs in order to manifest, "ran": the exact commands you ran and their outcomes (baseline tests with the change: pass; demo with the change: FAIL; demo without: pass)}.\nLeave the worktree\'s `src/` UNCHANGED at the end (the change lives only in deliver/patch.diff) and remove `tests/demo_mutation.rs` from the tree after copying it to deliver/. Be precise and honest in meta.json; if you cannot find a change satisfying all three conditions after a serious attempt, say so in meta.json and deliver the closest candidate with an explanation of which condition fails. Final answer: a short summary of the change and how it manifests.\n'
rnd = sys.argv[1]; ids = sys.argv[2:]
props = {json.loads(l)['id']: json.loads(l) for l in open('/verif/properties.jsonl')}
for pid in ids:
    p = props[pid]; lc = pid.lower(); d = '/tmp/mut%s-%s' % (rnd, lc)
    earlier = []
    for m in sorted(glob.glob('/verif/seeded/%s-*/meta.json' % pid)):
        earlier.append(json.load(open(m)).get('what', '')[:420].replace('\n', ' '))
    q = p['quantifier']
    body = ("Here is a semantic property of the crate that is supposed to hold for every input / schedule:\n\nProperty %s - %s\n\n"
            "Statement: %s\n\nQuantifier (%s): %s\n\nWhy the existing tests cannot settle it: %s\n\nAnchored in: %s\n\n\n" %
            (pid, p['title'], p['statement'], ', '.join(q['over']), q['text'], p['why_tests_cant'], ', '.join(p['anchors']['files'])))
    if earlier:
        body += ("IMPORTANT: earlier adversaries already delivered the following changes for this property; yours must be DIFFERENT from all of them "
                 "— in a different function or mechanism, attacking a different clause of the property if it has several. Prefer a change whose trigger is rare in "
                 "ordinary and in randomly generated traffic (large sizes, exact alignments, a particular byte value, a particular combination of two features, a rarely "
                 "used public entry point or trait impl, an unusual but legal order of API calls):\n  EARLIER CHANGES: " + ' || '.join(earlier) + "\n\n")
    open('/tmp/mut%s_prompt_%s.txt' % (rnd, lc), 'w').write((HEAD + body + TAIL).replace('@DIR@', d))
    print(pid, len(earlier), 'earlier changes')
