"""Shared helpers for the per-property case generators (tools/props/*.py)."""


def fmt_arg(xs):
    xs = list(xs)
    return ",".join(str(int(x)) for x in xs) if xs else "-"


def case(mode, *args):
    return mode + " " + " ".join(fmt_arg(a) for a in args) if args else mode


def parse_out(line):
    """Observation line -> list of lists of ints (or None for CRASH)."""
    if line is None or line == "CRASH":
        return None
    return [[] if t == "-" else [int(x) for x in t.split(",")] for t in line.split()]


def parse_case(line):
    toks = line.split()
    return toks[0], [[] if t == "-" else [int(x) for x in t.split(",")] for t in toks[1:]]


PANIC = 18446744073710440504


def is_panic(out):
    return out is not None and out == [[PANIC]]


def rand_bytes(rng, n, alphabet=None):
    if alphabet:
        return [rng.choice(alphabet) for _ in range(n)]
    return [rng.randrange(256) for _ in range(n)]
