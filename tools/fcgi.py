"""FastCGI wire construction and an independent reference interpretation (used by generators and
property oracles; written from the FastCGI specification, not from the model)."""

BEGIN, ABORT, END, PARAMS, STDIN, STDOUT, STDERR, DATA, GETVALUES, GETVALUESRESULT, UNKNOWN = range(1, 12)
RESPONDER, AUTHORIZER, FILTER = 1, 2, 3
VAR_NAMES = [b"FCGI_MAX_CONNS", b"FCGI_MAX_REQS", b"FCGI_MPXS_CONNS"]


def header(t, rid, clen, plen, version=1, reserved=0):
    return [version, t, (rid >> 8) & 255, rid & 255, (clen >> 8) & 255, clen & 255, plen, reserved]


def record(t, rid, body=(), pad=0, version=1, padbyte=0):
    body = list(body)
    assert len(body) < 65536 and pad < 256
    return header(t, rid, len(body), pad, version) + body + [padbyte] * pad


def begin(rid, role, flags=0, pad=0):
    return record(BEGIN, rid, [(role >> 8) & 255, role & 255, flags, 0, 0, 0, 0, 0], pad)


def enc_len(n):
    return [n] if n < 128 else [((n >> 24) & 127) | 0x80, (n >> 16) & 255, (n >> 8) & 255, n & 255]


def nv(name, value):
    return enc_len(len(name)) + enc_len(len(value)) + list(name) + list(value)


def nv_all(pairs):
    out = []
    for n, v in pairs:
        out += nv(n, v)
    return out


def nv_decode(d):
    """(pairs, rest): complete pairs only"""
    d = list(d)
    pairs, pos = [], 0
    while True:
        p, lens, ok = pos, [], True
        for _ in range(2):
            if p >= len(d):
                ok = False
                break
            if d[p] < 128:
                lens.append(d[p])
                p += 1
            else:
                if p + 4 > len(d):
                    ok = False
                    break
                lens.append(((d[p] & 127) << 24) | (d[p + 1] << 16) | (d[p + 2] << 8) | d[p + 3])
                p += 4
        if not ok or p + lens[0] + lens[1] > len(d):
            return pairs, d[pos:]
        pairs.append((d[p:p + lens[0]], d[p + lens[0]:p + lens[0] + lens[1]]))
        pos = p + lens[0] + lens[1]


def stream_records(t, rid, payload, cuts, rng=None, pads=None, terminate=True):
    """cut `payload` at the given offsets into records of type t (empty pieces are dropped so that
    no premature terminator appears), then the empty terminating record."""
    payload = list(payload)
    pts = sorted(set(c for c in cuts if 0 < c < len(payload)))
    pieces, prev = [], 0
    for c in pts + [len(payload)]:
        while c - prev > 65535:
            pieces.append(payload[prev:prev + 65535])
            prev += 65535
        if c > prev:
            pieces.append(payload[prev:c])
        prev = c
    recs = []
    for i, pc in enumerate(pieces):
        pad = pads[i % len(pads)] if pads else (rng.choice([0, 0, 1, 7, 8, 255, rng.randrange(256)]) if rng else 0)
        recs.append(record(t, rid, pc, pad))
    if terminate:
        pad = pads[len(pieces) % len(pads)] if pads else (rng.choice([0, 0, 3, 255]) if rng else 0)
        recs.append(record(t, rid, [], pad))
    return recs


def lossy(b):
    return list(bytes(b).decode("utf-8", errors="replace").encode("utf-8"))


def upper(b):
    return [x - 32 if 97 <= x <= 122 else x for x in b]


def norm(name):
    return upper(lossy(name))


def expected_env(pairs):
    """last-value-wins map keyed by the normalised name; returned as sorted [(key, value)]"""
    m = {}
    for n, v in pairs:
        m[bytes(norm(n))] = list(v)
    return [(list(k), m[k]) for k in sorted(m)]


def gvr(names, maxc):
    """GetValuesResult record for the set of known names among `names` (any order/dups)"""
    body = []
    for i, nm in enumerate(VAR_NAMES):
        if any(bytes(x) == nm for x in names):
            val = list(str(maxc).encode()) if i < 2 else [48]
            body += [len(nm), len(val)] + list(nm) + val
    pad = (8 - len(body) % 8) % 8
    return header(GETVALUESRESULT, 0, len(body), pad) + body + [0] * pad


def unknown_rec(rid, t):
    return header(UNKNOWN, rid, 8, 0) + [t] + [0] * 7


def end_request(rid, app, pstatus):
    return header(END, rid, 8, 0) + [(app >> 24) & 255, (app >> 16) & 255, (app >> 8) & 255, app & 255, pstatus, 0, 0, 0]


def parse_records(wire):
    """split a well-formed wire into (type, id, body, pad) records; stops at a cut or bad version.
    returns (records, tail_kind) with tail_kind in {"clean", "cut", ("badversion", v)}"""
    wire = list(wire)
    recs, pos = [], 0
    while pos < len(wire):
        if len(wire) - pos < 8:
            return recs, "cut"
        h = wire[pos:pos + 8]
        if h[0] != 1:
            return recs, ("badversion", h[0])
        cl, pl = h[4] * 256 + h[5], h[6]
        if pos + 8 + cl + pl > len(wire):
            return recs, "cut"
        recs.append((h[1], h[2] * 256 + h[3], wire[pos + 8:pos + 8 + cl], pl))
        pos += 8 + cl + pl
    return recs, "clean"


def replies_for(recs, maxc, phase=("idle",)):
    """C04 spec: reply bytes owed for a sequence of complete records, as a list of (index, bytes).
    phase: ("idle",) | ("params", id) | ("stream", id).  Returns (replies, final phase)."""
    out = []
    for i, (t, rid, body, pad) in enumerate(recs):
        if not 1 <= t <= 11:
            out.append((i, unknown_rec(rid, t)))
            continue
        if t == GETVALUES and rid == 0:
            if body:
                pairs, _ = nv_decode(body)
                out.append((i, gvr([n for n, _ in pairs], maxc)))
            continue
        if phase[0] == "idle":
            if t == BEGIN:
                if len(body) != 8:
                    return out, ("fatal", "len")
                role = body[0] * 256 + body[1]
                if not 1 <= role <= 3:
                    out.append((i, end_request(rid, 0, 3)))
                elif rid == 0:
                    return out, ("fatal", "null")
                else:
                    phase = ("params", rid)
            continue
        cur = phase[1]
        if t == BEGIN and rid != cur:
            out.append((i, end_request(rid, 0, 1)))
        elif phase[0] == "params":
            if t == ABORT and rid == cur:
                out.append((i, end_request(cur, 0, 0)))
                phase = ("idle",)
            elif t == PARAMS and rid == cur and not body:
                phase = ("stream", cur)
    return out, phase
