"""Structured reading of a str_run observation (see coq/Extract/RunsStr.v for the layout)."""


def walk(ops, o):
    """yields (op, event) where event is a dict; stops at the end marker.  o = parsed observation.
    First three entries of o are the preamble block and are not consumed here (start at index 3)."""
    i = 3
    for op in ops:
        if i >= len(o):
            return
        tag = o[i][0]
        if tag == 18446744073710440504:
            yield op, {"kind": "panic"}
            return
        if tag == 10:
            yield op, {"kind": "skipped"}
            i += 1
        elif tag in (1, 2):
            h = o[i]
            if tag == 1:
                ev = {"kind": "parse", "ok": True, "stream": h[1], "end": h[2], "output": h[3], "active": h[4] or None,
                      "boundary": h[5], "space": h[6]}
            else:
                ne = 2 if h[1] in (4, 5) else 1
                ev = {"kind": "parse", "ok": False, "err": h[1:1 + ne], "active": h[1 + ne + 3] or None,
                      "boundary": h[1 + ne + 4], "space": h[1 + ne + 5], "stream": 0, "end": 0, "output": 0}
            ev.update({"dest": o[i + 1], "sbuf": o[i + 2], "obuf": o[i + 3]})
            yield op, ev
            i += 4
        elif tag == 3:
            yield op, {"kind": "consume_stream", "sbuf": o[i + 1]}
            i += 2
        elif tag == 4:
            yield op, {"kind": "compress", "space": o[i][1], "sbuf": o[i + 1]}
            i += 2
        elif tag == 5:
            yield op, {"kind": "consume_output", "obuf": o[i + 1]}
            i += 2
        elif tag == 6:
            yield op, {"kind": "set_stream", "accepted": o[i][1], "active": o[i][2] or None, "sbuf": o[i + 1]}
            i += 2
        elif tag == 7:
            h = o[i]
            if len(h) >= 3 and h[1] == 0:
                hdr = o[i + 3]
                n = hdr[3]
                env = [(o[i + 4 + 2 * q], o[i + 5 + 2 * q]) for q in range(n)]
                yield op, {"kind": "next", "ok": True, "done": h[2], "out_skip": o[i + 1], "out_req": o[i + 2],
                           "req": [hdr[0], hdr[1], hdr[2], env], "raw": o[i + 4 + 2 * n]}
                i += 5 + 2 * n
            else:
                yield op, {"kind": "next", "ok": False, "code": h[1:], "out_skip": o[i + 1] if i + 1 < len(o) else []}
                return
        elif tag == 8:
            yield op, {"kind": "into_input", "ok": h_ok(o[i]), "left": o[i + 1] if h_ok(o[i]) else None}
            return
        else:
            return
    if i < len(o) and o[i][0] == 9:
        yield None, {"kind": "end", "unfed": o[i][1]}


def h_ok(h):
    return len(h) > 1 and h[1] == 1
