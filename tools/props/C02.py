"""C02 - input stream extraction delivers exactly the stream's bytes, once, in order."""
import fcgen
from fcgen import *  # noqa
from fvgen import case, parse_case, parse_out, fmt_arg

RULE = ("str_run: a minimal preamble, then the role's input streams (all 3 roles; contents of 0..400 bytes, plus 65535-byte records in "
        "thorough) cut by styles none/few/many/every, paddings {0,1,7,8,255}, interleaved GetValues / unknown-type / stale Params / duplicate "
        "and foreign BeginRequest / foreign-id stream records; caller schedules drawn from a Markov generator over feed+parse(None), "
        "feed+parse(Some(cap 0..n)), consume_stream(k), compress, consume_output(k), set_stream(next), followed by a drain phase; buffer sizes "
        "24, 32, 40, 64, 256, 8192; directed: records that must be ignored with content + padding > 65535, and buffers of 65536 / 65544 / 131072 "
        "bytes filled to the brim in one call while a 65535-byte record is pending. directed: leftover-then-large (the caller leaves part of the stream buffer, then a payload piece of a page and more arrives), contents up to 12000 bytes on 8/16 KiB buffers. Non-trivial: schedule contains at least one parse into dest and one into the buffer, or junk records, "
        "or B <= 40; distinct = distinct case lines.")
ASSUMPTIONS = ["GetValues name-value pairs fit the buffer (the stream parser has no stuck detection; documented bound)",
               "dest is only passed when stream_buffer is empty (documented precondition; the interpreter skips such ops)"]
BOTH_PROFILES = True


def release_view(line, out):
    return out


def gen_ops(rng, nbytes, role, B, style=None):
    ops = []
    steps = rng.randrange(3, 60)
    streams = ROLE_STREAMS[role]
    cur = 0
    for _ in range(steps):
        r = rng.random()
        if r < 0.3:
            ops.append([0, rng.choice([0, 1, 5, 8, B, 10 ** 6, rng.randrange(1, 2 * B)])])
        elif r < 0.55:
            ops.append([1, rng.choice([0, 1, 5, 8, B, 10 ** 6, rng.randrange(1, 2 * B)]), rng.choice([0, 1, 2, 7, 100, 1000, rng.randrange(0, 50)])])
        elif r < 0.75:
            ops.append([2, rng.choice([1, 3, 10, 10 ** 6, 2 ** 64 - 1, rng.randrange(0, 40)])])        # (usize::MAX: 'everything')
        elif r < 0.85:
            ops.append([3])
        elif r < 0.93:
            ops.append([4, rng.choice([1, 8, 16, 10 ** 6, 2 ** 64 - 1, rng.randrange(0, 120)])])
        else:
            if cur + 1 < len(streams) and rng.random() < 0.7:
                cur += 1
                ops.append([5, streams[cur]])
            elif rng.random() < 0.3:
                ops.append([5, streams[cur] if streams else 0])       # re-select current
            elif rng.random() < 0.3:
                ops.append([5, 0])
    # drain: feed everything, deliver into the buffer, consume it all
    for _ in range(nbytes // max(8, B // 2) + 6):
        ops += [[0, 10 ** 6], [2, 10 ** 6], [4, 10 ** 6], [3]]
    return ops


def one(rng, role=None, B=None, junk=0.25, maxlen=400, big=False):
    rid = rng.choice([1, 7, 65535])
    role = role or rng.choice([RESPONDER, AUTHORIZER, FILTER])
    B = B or rng.choice([24, 24, 32, 40, 64, 256, 8192])
    contents = {}
    for t in ROLE_STREAMS[role]:
        n = rng.choice([0, 1, 7, 8, 9, 50, rng.randrange(0, maxlen)])
        if big and rng.random() < 0.5:
            n = rng.choice([65535, 65536, 70000])
        contents[t] = [rng.randrange(256) for _ in range(n)]
    recs = minimal_preamble(rid, role) + streams_part(rng, rid, role, contents, junk_rate=junk)
    wire = flat(recs)
    ops = gen_ops(rng, len(wire), role, B)
    tags = ["stream", "role%d" % role]
    if junk > 0:
        tags.append("junk")
    if any(o[0] == 1 for o in ops) and any(o[0] == 0 for o in ops):
        tags.append("mixed-dest")
    if B <= 40:
        tags.append("small-buffer")
    if any(o[0] == 1 and o[2] == 0 for o in ops):
        tags.append("zero-dest")
    if any(o[0] == 5 for o in ops):
        tags.append("set-stream")
    return "str_run " + " ".join(fmt_arg(x) for x in [[B], [rng.choice([1, 77])], wire] + ops), tags


def gen_cases(rng, tier):
    quick = tier == "quick"
    for _ in range(700 if quick else 40000):
        yield one(rng)
    for _ in range(100 if quick else 3000):
        yield one(rng, B=24, junk=0.4)
    for _ in range(2 if quick else 60):
        c, t = one(rng, role=rng.choice([RESPONDER, FILTER]), B=rng.choice([24, 8192, 70000]), big=True)
        yield c, t + ["big"]


def huge_ignored_case(rng, kind, sized=False):
    """a record the stream parser must IGNORE (foreign request id, stale Params, earlier stream) whose content + padding exceeds
    65535 bytes, in the middle of the active stream; the padding bytes look like a record of the active stream"""
    rid = 1
    role = FILTER if kind == "earlier-stream" else RESPONDER
    fake = flat([record(STDIN, rid, list(b"SMUGGLED"), 0)])          # 16 bytes that must stay padding
    P, pad = rng.choice([(65535, 1), (65535, 17), (65400, 200), (65281, 255)])
    if sized:
        # round content lengths (multiples of 256 and their neighbours) with little or no padding
        P, pad = rng.choice([255, 256, 256, 257, 512, 768, 1024, 4096, 65280]), rng.choice([0, 0, 0, 1, 8, 16])
    padding = (fake + [0] * pad)[:pad] if pad >= 16 else [0] * pad
    if kind == "foreign-id":
        huge = header(STDIN, 2, P, pad) + [rng.randrange(256) for _ in range(P)] + padding
        recs = minimal_preamble(rid, role) + [record(STDIN, rid, list(b"first-part;"), 0)]
        tail = [record(STDIN, rid, list(b"second-part"), 3), record(STDIN, rid, [], 0)]
    elif kind == "stale-params":
        huge = header(PARAMS, rid, P, pad) + [rng.randrange(256) for _ in range(P)] + padding
        recs = minimal_preamble(rid, role) + [record(STDIN, rid, list(b"first-part;"), 0)]
        tail = [record(STDIN, rid, list(b"second-part"), 3), record(STDIN, rid, [], 0)]
    else:
        # Filter, Data selected: a late Stdin record is ignored
        huge = header(STDIN, rid, P, pad) + [rng.randrange(256) for _ in range(P)] + padding
        recs = minimal_preamble(rid, role) + [record(STDIN, rid, [], 0), record(DATA, rid, list(b"first-part;"), 0)]
        tail = [record(DATA, rid, list(b"second-part"), 3), record(DATA, rid, [], 0)]
    wire = flat(recs) + huge + flat(tail)
    B = rng.choice([64, 8192, 70000])
    ops = ([[5, DATA]] if kind == "earlier-stream" else [])
    for _ in range(len(wire) // max(8, B // 2) + 8):
        ops += [[0, 10 ** 6], [2, 10 ** 6], [4, 10 ** 6], [3]]
    if sized:
        B = rng.choice([64, 256, 8192])
        body = (fake * (P // len(fake) + 1))[:P]
        wire = flat(recs) + huge[:8] + body + padding + flat(tail)
        style = rng.choice(["drain", "small"])
        if style == "small":
            ops = ([[5, DATA]] if kind == "earlier-stream" else []) + [[rng.choice([0, 1]), rng.randrange(1, 40), 30][:rng.choice([2, 3])] for _ in range(40)]
            ops = [o if len(o) == 3 or o[0] == 0 else [0, o[1]] for o in ops]
            for _ in range(len(wire) // max(8, B // 2) + 8):
                ops += [[0, 10 ** 6], [2, 10 ** 6], [4, 10 ** 6], [3]]
    return "str_run " + " ".join(fmt_arg(x) for x in [[B], [1], wire] + ops), ["stream", "role%d" % role, "sized-ignored" if sized else "huge-ignored"]


_gen_cases_base = gen_cases


def full_64k_case(rng, variant):
    """buffers of 64 KiB and more, filled completely in ONE call while a maximum-size record is pending: the number of unparsed
    buffered bytes is exactly 65536 (or a little more) when the payload piece is sized - lengths that do not fit 16 bits"""
    rid, role = 1, RESPONDER
    P = 65535
    body = [rng.randrange(256) for _ in range(P)]
    body2 = [rng.randrange(256) for _ in range(rng.choice([P, 300]))]
    recs = minimal_preamble(rid, role) + [record(STDIN, rid, body, 1), record(STDIN, rid, body2, rng.choice([0, 7])), record(STDIN, rid, [], 0)]
    wire = flat(recs)
    cap = rng.choice([0, 1, 1000, 10 ** 6])
    if variant == 0:
        # B = 65544: the header is consumed from a completely full buffer, 65536 raw bytes remain behind it
        B, ops = 65544, [rng.choice([[0, 10 ** 6], [1, 10 ** 6, cap]])]
    elif variant == 1:
        # B = 65536: a few payload bytes are taken first, the buffer is compacted, then filled to the brim mid-record
        k = rng.choice([9, 20, 100])
        B, ops = 65536, [[1, k, 1000], [2, 10 ** 6], [3], rng.choice([[0, 10 ** 6], [1, 10 ** 6, cap]])]
    else:
        B, ops = rng.choice([65536, 65544, 131072]), [[rng.choice([0, 1]), rng.choice([65536, 65544, 10 ** 6]), cap][:rng.choice([2, 3])] for _ in range(3)]
        ops = [o if len(o) == 3 or o[0] == 0 else [0, o[1]] for o in ops]
    for _ in range(len(wire) // (B // 2) + 8):
        ops += [[0, 10 ** 6], [2, 10 ** 6], [4, 10 ** 6], [3]]
    return "str_run " + " ".join(fmt_arg(x) for x in [[B], [1], wire] + ops), ["stream", "role%d" % role, "full-64k", "mixed-dest"]


def leftover_then_large_case(rng):
    """internal-buffer delivery with a caller that takes only PART of what is buffered (documented: further stream data is appended),
    followed by a payload piece of a page and more in one call, the large piece in one record or split over records, buffers of
    8 KiB and more.  The preamble and a first Stdin record fill the buffer exactly (the request parser reads greedily), so that the
    second record arrives in a later call"""
    rid = rng.choice([1, 7])
    role = rng.choice([RESPONDER, FILTER])
    B = rng.choice([8192, 8192, 16384])
    pre = flat(minimal_preamble(rid, role))
    first = [rng.randrange(256) for _ in range(B - len(pre) - 8)]
    large = [rng.randrange(256) for _ in range(rng.choice([4095, 4096, 4097, 5000, B - 600]))]
    rest = record(STDIN, rid, large, rng.choice([0, 3])) + record(STDIN, rid, [9, 9, 9], 0) + record(STDIN, rid, [], 0)
    if role == FILTER:
        rest += record(DATA, rid, [1, 2, 3], 0) + record(DATA, rid, [], 0)
    keep = rng.choice([1, 60, 100, 3000])                  # bytes of the first record the caller leaves in the stream buffer
    ops = [[0, 0], [2, len(first) - keep], [3]] + rng.choice([[[0, 10 ** 6]], [[0, 8], [0, 10 ** 6]], [[0, 10 ** 6], [0, 0]]])
    for _ in range(6):
        ops += [[0, 10 ** 6], [2, 10 ** 6], [4, 10 ** 6], [3]]
    return "str_run " + " ".join(fmt_arg(x) for x in [[B], [1], pre + record(STDIN, rid, first, 0) + rest] + ops), ["stream", "role%d" % role, "leftover-then-large", "junk"]


def gen_cases(rng, tier):
    yield from _gen_cases_base(rng, tier)
    for _ in range(16 if tier == "quick" else 600):
        yield leftover_then_large_case(rng)
    # medium-size contents (pieces of several KiB) under the random operation mix
    for _ in range(20 if tier == "quick" else 2500):
        yield one(rng, B=rng.choice([8192, 16384]), maxlen=12000)
    for variant in (0, 1, 2):
        for _ in range(1 if tier == "quick" else 6):
            yield full_64k_case(rng, variant)
    for kind in ("foreign-id", "stale-params", "earlier-stream"):
        for _ in range(1 if tier == "quick" else 8):
            yield huge_ignored_case(rng, kind)
        for _ in range(12 if tier == "quick" else 500):
            yield huge_ignored_case(rng, kind, sized=True)


def nontrivial(line, tags):
    return any(t in tags for t in ("mixed-dest", "junk", "small-buffer", "huge-ignored", "sized-ignored"))


def min_classes(tier):
    return {"leftover-then-large": 16, "sized-ignored": 36, "mixed-dest": 300, "small-buffer": 200, "zero-dest": 100, "set-stream": 100, "big": 2, "huge-ignored": 3, "full-64k": 3, "role1": 100, "role2": 100, "role3": 100}


def oracle(line, impl_line):
    """delivered bytes are a prefix of the active stream's content, complete once stream_end is reported"""
    mode, a = parse_case(line)
    o = parse_out(impl_line)
    if o is None:
        return "implementation crashed"
    if mode != "str_run":
        return None
    if [18446744073710440504] in o:
        return "implementation panicked on a legal schedule"
    wire, ops = a[2], a[3:]
    recs, _ = parse_records(wire)
    # request
    rid, role = recs[0][1], recs[0][2][0] * 256 + recs[0][2][1]
    k = 1
    while not (recs[k][0] == PARAMS and recs[k][1] == rid and not recs[k][2]):
        k += 1
    srecs = recs[k + 1:]
    if o[0][0] != 1:
        return "preamble did not parse"
    active = o[0][1] or None
    exp_first = ROLE_STREAMS[role][0] if ROLE_STREAMS[role] else None
    if active != exp_first:
        return "initial active stream %s, role order says %s" % (active, exp_first)
    i = 3
    consumed, sb = [], []
    for op in ops:
        if i >= len(o):
            return "observation shorter than the schedule"
        tag = o[i][0]
        if tag == 10:
            i += 1
            continue
        if tag in (1, 2):
            if tag == 2:
                return True if o[i][1] == 7 else "unexpected parser error %s on compliant traffic" % o[i][1:]
            st_stream, st_end = o[i][1], o[i][2]
            dest, nsb = o[i + 1], o[i + 2]
            content, how = stream_content(srecs, rid, role, active)
            if op[0] == 0:
                if nsb[:len(sb)] != sb or len(nsb) - len(sb) != st_stream:
                    return "stream_buffer did not grow by Status.stream"
                sb = nsb
            else:
                if len(dest) != st_stream or len(dest) > op[2]:
                    return "Status.stream does not match the bytes written to dest"
                consumed = consumed + dest
                if nsb != sb:
                    return "stream_buffer changed by a parse into dest"
            got = consumed + sb
            if active is not None and content[:len(got)] != got:
                return "delivered bytes are not a prefix of the stream content"
            if active is not None and st_end and got != content:
                return "stream_end reported before the whole stream was delivered (%d of %d bytes)" % (len(got), len(content))
            if active is None and (st_stream or not st_end):
                return "data delivered / no end reported although no stream is active"
            i += 4
        elif tag == 3:
            nsb = o[i + 1]
            kk = min(op[1], len(sb))
            if nsb != sb[kk:]:
                return "consume_stream removed the wrong bytes"
            consumed = consumed + sb[:kk]
            sb = nsb
            i += 2
        elif tag == 4:
            if o[i + 1] != sb:
                return "compress changed stream_buffer"
            i += 2
        elif tag == 5:
            i += 2
        elif tag == 6:
            ok, now = o[i][1], o[i][2] or None
            req = op[1] or None
            order = ROLE_STREAMS[role]
            if req is None:
                allowed = True
            elif active is None or req not in order:
                allowed = False
            else:
                allowed = order.index(req) >= order.index(active)
            if bool(ok) != allowed:
                return "set_stream(%s) from %s: accepted=%s, role order says %s" % (req, active, ok, allowed)
            if ok and req != active:
                active, consumed, sb = req, [], []
                if o[i + 1]:
                    return "stream_buffer not emptied by set_stream"
            elif o[i + 1] != sb:
                return "rejected / same-stream set_stream changed stream_buffer"
            if now != active:
                return "active stream after set_stream is %s, expected %s" % (now, active)
            i += 2
        else:
            return None
    # completeness: after the drain everything was fed; the stream must have ended
    if o[-1][0] == 9 and o[-1][1] == 0 and active is not None:
        content, how = stream_content(srecs, rid, role, active)
        if how == "ended" and consumed + sb != content:
            return "wire fully fed and parsed but only %d of %d stream bytes delivered" % (len(consumed + sb), len(content))
    return True
