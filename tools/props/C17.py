"""C17 - record headers, fixed bodies, generated replies: case generator and oracle."""
from fvgen import case, parse_case, parse_out
import importlib.util, os
_spec7 = importlib.util.spec_from_file_location("c07", os.path.join(os.path.dirname(__file__), "C07.py"))
C07 = importlib.util.module_from_spec(_spec7)
_spec7.loader.exec_module(C07)

RULE = ("hdr_decode over all 2^16 (version,type) pairs (other fields sampled) + every field exhaustively one at a time in thorough; "
        "hdr_encode over all 11 types x boundary ids/lengths; pad over all 65536 content lengths; begin_decode over all 2^16 roles "
        "(flags sampled) and all 256 flag bytes; end_decode over all 256 status bytes x sampled app statuses; unk_decode over all 256 "
        "types; exit_map for every variant; parse_name on known/unknown/case-variant/non-UTF-8 names; gvr over all 8 variable subsets x "
        "connection limits at every decimal-length boundary (1, 9, 10, 99, ..., 2^64-1) x pre-filled buffers; consts compares the "
        "regenerated tables with the compiled crate. Non-trivial: anything but a plain accepted header; distinct = distinct case lines.")
ASSUMPTIONS = ["bitflags 2.0.0 iter_names yields contained flags in declaration order (modelled, tested by consts/gvr)",
               "make_request_epilogue is pub(crate): its shape theorem is tied to the code through the connection-level checks (C07)",
               "usize is 64 bits"]
NAMES = [b"FCGI_MAX_CONNS", b"FCGI_MAX_REQS", b"FCGI_MPXS_CONNS"]


def hdr(t, rid, cl, pl, v=1, rsv=0):
    return [v, t, rid >> 8, rid & 255, cl >> 8, cl & 255, pl, rsv]


def _gen_cases_codec(rng, tier):
    quick = tier == "quick"
    yield case("consts"), ["consts"]
    for v in range(256):
        for t in range(256):
            if quick and not (v in (0, 1, 2, 255) or t < 14 or t == 255 or rng.random() < 0.02):
                continue
            yield case("hdr_decode", hdr(t, rng.randrange(65536), rng.randrange(65536), rng.randrange(256), v, rng.randrange(256))), ["hdr", "vt-sweep"]
    bnd16 = [0, 1, 255, 256, 257, 32767, 32768, 65534, 65535]
    for t in range(1, 12):
        for rid in bnd16:
            for cl in (bnd16 if not quick else [0, 8, 65535]):
                yield case("hdr_encode", [t], [rid], [cl], [rng.choice([0, 1, 7, 255, rng.randrange(256)])]), ["hdr", "encode"]
    if not quick:
        for x in range(65536):
            yield case("hdr_decode", hdr(5, x, rng.randrange(65536), 0)), ["hdr", "id-sweep"]
            yield case("hdr_decode", hdr(5, 1, x, 0)), ["hdr", "len-sweep"]
    for n in range(65536):
        if quick and not (n < 300 or n > 65200 or n % 97 == 0):
            continue
        yield case("pad", [n]), ["pad"]
    for role in range(65536):
        if quick and not (role < 300 or role > 65400 or role % 251 == 0):
            continue
        yield case("begin_decode", [role >> 8, role & 255, rng.randrange(256)] + [rng.randrange(256) for _ in range(5)], [rng.randrange(65536)]), ["begin", "role-sweep"]
    for fl in range(256):
        yield case("begin_decode", [0, rng.choice([1, 2, 3]), fl, 0, 0, 0, 0, 0], [rng.randrange(65536)]), ["begin", "flag-sweep"]
    for st in range(256):
        for app in [0, 1, 0x41425254, 2 ** 32 - 1, rng.randrange(2 ** 32)]:
            yield case("end_decode", [app >> 24, (app >> 16) & 255, (app >> 8) & 255, app & 255, st] + [rng.randrange(256) for _ in range(3)], [rng.randrange(65536)]), ["end", "status-sweep"]
    for t in range(256):
        yield case("unk_decode", [t] + [rng.randrange(256) for _ in range(7)], [rng.choice([0, 1, 65535, rng.randrange(65536)])]), ["unk"]
    for disc in (0, 2, 3):
        for code in [0, 1, 0x41425254, 2 ** 32 - 1, rng.randrange(2 ** 32)]:
            yield case("exit_map", [disc], [code]), ["exit"]
    for nm in NAMES:
        yield case("parse_name", nm), ["name", "known"]
        yield case("parse_name", nm.lower()), ["name", "unknown"]
        yield case("parse_name", nm[:-1]), ["name", "unknown"]
        yield case("parse_name", nm + b"X"), ["name", "unknown"]
        yield case("parse_name", nm[:4] + b"\xff" + nm[5:]), ["name", "unknown"]
    yield case("parse_name", b""), ["name", "unknown"]
    yield case("parse_name", b"FCGI_MAX_CONNS|FCGI_MAX_REQS"), ["name", "unknown"]
    limits = [1, 2]
    for k in range(1, 20):
        limits += [10 ** k - 1, 10 ** k, 10 ** k + 1]
    limits += [2 ** 32 - 1, 2 ** 32, 2 ** 63, 2 ** 64 - 2, 2 ** 64 - 1]
    for vs in range(8):
        for m in limits:
            if m >= 2 ** 64:
                continue
            for pre in [[], [7], [rng.randrange(256) for _ in range(rng.choice([3, 8, 100]))]]:
                yield case("gvr", [vs], [m], pre), ["gvr"]
    for vs in range(8, 256, 37):
        yield case("gvr", [vs], [5], []), ["gvr", "extra-bits"]


def epilogue_cases(rng, tier):
    """the end-of-request sequence - one empty record per output stream, then the EndRequest for the status - through the only public
    path to it (Request::close at the end of Token::run): every kind of exit status (Complete with several codes, Overloaded,
    UnknownRole, ...), roles with one and two input streams, with and without stderr output before the return"""
    import conngen
    from conngen import conn_case, minimal_preamble, record, flat, STDIN, DATA, STDOUT, STDERR
    for d in (0, 0, 2, 3):
        for role in (1, 2, 3):
            for wrote in (0, 1, 2):
                rid = rng.choice([1, 7, 65535])
                recs = minimal_preamble(rid, role, flags=rng.choice([0, 1]))
                if role in (1, 3):
                    recs += [record(STDIN, rid, [1, 2, 3], 0), record(STDIN, rid, [], 0)]
                if role == 3:
                    recs += [record(DATA, rid, [4], 0), record(DATA, rid, [], 0)]
                h = [("readall",)] + ([("set", DATA), ("readall",)] if role == 3 else []) + [("writeable",)]
                if wrote >= 1:
                    h.append(("write", STDERR, [33] * 5))
                if wrote == 2:
                    h.append(("write", STDOUT, [34] * 9))
                h.append(("ret", d, rng.choice([0, 7, 2 ** 32 - 1])))
                yield conn_case(rng.choice([64, 8192]), 1, [(0, 0, flat(recs))], [h], [], [], rng.choice([0, 1])), ["epilogue-status"]


def gen_cases(rng, tier):
    yield from _gen_cases_codec(rng, tier)
    yield from epilogue_cases(rng, tier)


def nontrivial(line, tags):
    if line.startswith("conn_run"):
        return True
    mode, a = parse_case(line)
    if mode == "hdr_decode":
        return not (a[0][0] == 1 and 1 <= a[0][1] <= 11)
    return True


def min_classes(tier):
    return {"vt-sweep": 4000 if tier == "quick" else 65536, "pad": 1000, "role-sweep": 600, "flag-sweep": 256,
            "status-sweep": 1280, "unk": 256, "gvr": 8 * 60, "consts": 1, "epilogue-status": 36}


def dec(n):
    return list(str(n).encode())


def gvr_expected(vs, m):
    body = []
    for i, nm in enumerate(NAMES):
        if vs & (1 << i):
            val = dec(m) if i < 2 else [48]
            body += [len(nm), len(val)] + list(nm) + val
    pad = (8 - len(body) % 8) % 8
    return hdr(10, 0, len(body), pad) + body + [0] * pad


def oracle(line, impl_line):
    if line.startswith("conn_run"):
        return C07.oracle(line, impl_line)          # class epilogue-status: the request must be answered by the exact end-of-request sequence
    mode, a = parse_case(line)
    o = parse_out(impl_line)
    if o is None or o == [[18446744073710440504]]:
        return "implementation crashed or panicked"
    if mode == "hdr_decode":
        d = a[0]
        if d[0] != 1:
            exp = [[1, d[0]]]
        elif not 1 <= d[1] <= 11:
            exp = [[2, d[1]]]
        else:
            exp = [[0, d[1], d[2] * 256 + d[3], d[4] * 256 + d[5], d[6]]]
        return True if o == exp else "hdr_decode %s gave %s, spec %s" % (d, o, exp)
    if mode == "hdr_encode":
        t, rid, cl, pl = (x[0] for x in a)
        exp = [hdr(t, rid, cl, pl)]
        return True if o == exp else "hdr_encode gave %s, spec %s" % (o, exp)
    if mode == "pad":
        n = a[0][0]
        exp = [[(8 - n % 8) % 8]]
        return True if o == exp else "padding for %d is %s, spec %s" % (n, o, exp)
    if mode == "begin_decode":
        d, rid = a[0], a[1][0]
        role = d[0] * 256 + d[1]
        if 1 <= role <= 3:
            body = [d[0], d[1], d[2], 0, 0, 0, 0, 0]
            exp = [[1, role, d[2]], body, hdr(1, rid, 8, 0) + body]
        else:
            exp = [[0, role]]
        return True if o == exp else "begin_decode gave %s, spec %s" % (o, exp)
    if mode == "end_decode":
        d, rid = a[0], a[1][0]
        if d[4] <= 3:
            body = d[:5] + [0, 0, 0]
            exp = [[1, (d[0] << 24) | (d[1] << 16) | (d[2] << 8) | d[3], d[4]], body, hdr(3, rid, 8, 0) + body]
        else:
            exp = [[0, d[4]]]
        return True if o == exp else "end_decode gave %s, spec %s" % (o, exp)
    if mode == "unk_decode":
        d, rid = a[0], a[1][0]
        body = [d[0]] + [0] * 7
        exp = [[d[0]], body, hdr(11, rid, 8, 0) + body]
        return True if o == exp else "unk_decode gave %s, spec %s" % (o, exp)
    if mode == "exit_map":
        disc, code = a[0][0], a[1][0]
        exp = {0: [[1, code, 0]], 2: [[1, 0, 2]], 3: [[1, 0, 3]]}[disc]
        return True if o == exp else "exit status maps to %s, documented %s" % (o, exp)
    if mode == "parse_name":
        nm = bytes(a[0]) if a else b""
        exp = [[1, 1 << NAMES.index(nm)]] if nm in NAMES else [[0]]
        return True if o == exp else "parse_name gave %s, spec %s" % (o, exp)
    if mode == "gvr":
        a = a + [[]] * (3 - len(a))
        w = gvr_expected(a[0][0] & 7, a[1][0])
        exp = [[len(w)], a[2] + w]
        if len(w) > 104:
            return "GetValuesResult longer than RESPONSE_LEN"
        return True if o == exp else "gvr gave %s, spec %s" % (o, exp)
    return None
