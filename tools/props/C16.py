"""C16 - name-value codec: round trip, totality, prefix monotonicity, zero-copy (harness-side assertion)."""
import itertools
from fvgen import case, parse_case, parse_out

RULE = ("nv_write on pairs with name/value lengths drawn from {0,1,2,126,127,128,129,300,65535,65536,70000}; nv_run on concatenated "
        "encodings (+ every prefix of a sample), on all strings up to length 5 (quick) / 6 (thorough) over the boundary alphabet "
        "{0,1,2,0x7f,0x80,0x81,0xff}, on mutated encodings and random bytes, on headers announcing lengths near 2^31 (sums that do not fit 32 bits); nv_write_big for components >= 2^31 (lengths only). "
        "Non-trivial: a 4-byte length prefix, an incomplete trailing pair, or >= 2 pairs; distinct = distinct case lines. "
        "The harness additionally asserts, per case, that &[u8] and &mut [u8] iterators agree, that names/values are consecutive "
        "sub-slices (pointer arithmetic), fusedness and that into_inner is the undecoded suffix.")
ASSUMPTIONS = ["usize is 64 bits (checked_add overflow arm unreachable for real slices)",
               "zero-copy and shared/mutable agreement are tested clauses: a list model cannot express address identity"]
ALPHA = [0, 1, 2, 0x7f, 0x80, 0x81, 0xff]
MAXV = 2 ** 31 - 1


def enc_len(n):
    return [n] if n < 128 else [(n >> 24) | 0x80, (n >> 16) & 255, (n >> 8) & 255, n & 255]


def enc(n, v):
    return enc_len(len(n)) + enc_len(len(v)) + list(n) + list(v)


def dec(d):
    """reference decoder: (pairs, rest)"""
    pairs = []
    pos = 0
    while True:
        p = pos
        lens = []
        ok = True
        for _ in range(2):
            if p >= len(d):
                ok = False
                break
            if d[p] < 128:
                lens.append(d[p])
                p += 1
            else:
                if p + 4 > len(d):
                    ok = False
                    break
                lens.append(((d[p] & 127) << 24) | (d[p + 1] << 16) | (d[p + 2] << 8) | d[p + 3])
                p += 4
        if not ok or p + lens[0] + lens[1] > len(d):
            return pairs, d[pos:]
        pairs.append((d[p:p + lens[0]], d[p + lens[0]:p + lens[0] + lens[1]]))
        pos = p + lens[0] + lens[1]


def gen_cases(rng, tier):
    quick = tier == "quick"
    lens = [0, 1, 2, 126, 127, 128, 129, 300]
    big = [65535, 65536, 70000]
    for nl in lens + (big if not quick else [65536]):
        for vl in lens + (big[:1] if not quick else []):
            n = [rng.randrange(256) for _ in range(nl)]
            v = [rng.randrange(256) for _ in range(vl)]
            yield case("nv_write", n, v), ["write"]
            yield case("nv_run", enc(n, v)), ["run", "roundtrip"]
    # every total size 0..300 of a pair (mid-sized pairs included: staging buffers and fast paths have their own boundaries), the name
    # empty, one byte, half and all of it
    for total in range(0, 301 if not quick else 141):
        for nl in sorted(set([0, 1, total // 2, total])):
            if nl <= total:
                n = [rng.randrange(256) for _ in range(nl)]
                v = [rng.randrange(256) for _ in range(total - nl)]
                yield case("nv_write", n, v), ["write", "size-sweep"]
    for (a, b) in [(MAXV + 1, 0), (0, MAXV + 1), (2 ** 32, 1), (5, 2 ** 32 + 7), (MAXV, 0), (0, MAXV), (MAXV - 1, 1)] + ([] if quick else [(3, MAXV), (MAXV, MAXV)]):
        yield case("nv_write_big", [a], [b]), ["write", "big"]
    # exhaustive short strings over the boundary alphabet
    for L in range(0, 6 if quick else 7):
        for t in itertools.product(ALPHA, repeat=L):
            yield case("nv_run", list(t)), ["run", "exhaustive-short"]
    # lists of pairs, every prefix
    for _ in range(40 if quick else 2000):
        k = rng.randrange(1, 6)
        d = []
        for _ in range(k):
            nl = rng.choice([0, 1, 5, 17, 127, 128, 129, 200])
            vl = rng.choice([0, 1, 7, 127, 128, 150])
            d += enc([rng.randrange(256) for _ in range(nl)], [rng.randrange(256) for _ in range(vl)])
        yield case("nv_run", d), ["run", "roundtrip", "multi"]
        cuts = range(len(d)) if len(d) < 60 or not quick else sorted(rng.sample(range(len(d)), 25))
        for c in cuts:
            yield case("nv_run", d[:c]), ["run", "prefix"]
        for _ in range(5):
            m = list(d)
            i = rng.randrange(len(m))
            m[i] = rng.choice([0, 1, 0x7f, 0x80, 0xff, rng.randrange(256)])
            yield case("nv_run", m), ["run", "mutated"]
    # announced lengths near the top of the 31-bit range, alone and together (their sum with the header does not fit 32 bits):
    # headers FF FF FF xx FF FF FF yy and mixes with small lengths, followed by nothing / a few bytes / complete pairs in front
    tops = [0xFF, 0xFE, 0xFD, 0xFC, 0xFB, 0xFA, 0xF9, 0xF8, 0xF0, 0x80, 0x00]
    def top(b):
        return [0xFF, 0xFF, 0xFF, b]
    for x in tops:
        for y in tops if not quick else tops[:8]:
            yield case("nv_run", top(x) + top(y) + [rng.randrange(256) for _ in range(rng.choice([0, 0, 1, 9]))]), ["run", "huge-lengths"]
    for x in tops[:8]:
        yield case("nv_run", top(x) + [rng.choice([0, 5, 127])] + [1, 2, 3]), ["run", "huge-lengths"]
        yield case("nv_run", [rng.choice([0, 5, 127])] + top(x) + [1, 2, 3]), ["run", "huge-lengths"]
        yield case("nv_run", enc([1, 2], [3]) + top(x) + top(0xFF) + [7] * 6), ["run", "huge-lengths"]
        yield case("nv_run", [0xC0, 0, 0, 0] + top(x)), ["run", "huge-lengths"]
        yield case("nv_run", [0x80 | rng.randrange(0x70, 0x80), 0xFF, 0xFF, rng.randrange(256)] * 2), ["run", "huge-lengths"]
    # announced lengths of 2^16 .. 2^31 with 64 KiB AND MORE of input behind the prefix: still incomplete (every bit of the 31-bit length
    # counts), nothing is yielded, the whole input is handed back
    for (b3, b2, b1, b0) in ([(0x81, 0, 0, 5), (0x80, 0x02, 0, 0)] if quick else [(0x81, 0, 0, 5), (0x80, 0x02, 0, 0), (0xC0, 0, 0, 1), (0x80, 0x01, 0x12, 0x34), (0x90, 0, 0, 0)]):
        body = [rng.randrange(256) for _ in range(70000 if b3 != 0x80 or b2 != 0x01 else 66000)]
        yield case("nv_run", [1, b3, b2, b1, b0, 78] + body), ["run", "huge-lengths", "long-input"]
        yield case("nv_run", enc([1, 2], [3]) + [b3, b2, b1, b0, 0] + body), ["run", "huge-lengths", "long-input"]
    for _ in range(300 if quick else 20000):
        L = rng.randrange(0, 40)
        yield case("nv_run", [rng.choice(ALPHA + [rng.randrange(256)]) for _ in range(L)]), ["run", "random"]


def nontrivial(line, tags):
    mode, a = parse_case(line)
    if mode != "nv_run":
        return True
    d = a[0] if a else []
    ps, rest = dec(d)
    return len(ps) >= 2 or bool(rest) or any(b >= 128 for b in d[:1])


def min_classes(tier):
    return {"exhaustive-short": 19000, "prefix": 500, "mutated": 150, "big": 7, "huge-lengths": 100, "long-input": 4, "size-sweep": 400}


def oracle(line, impl_line):
    mode, a = parse_case(line)
    o = parse_out(impl_line)
    if o is None or o == [[18446744073710440504]]:
        return "implementation crashed or panicked (or an in-harness zero-copy/fusedness assertion failed)"
    a = a + [[]] * (2 - len(a))
    if mode == "nv_run":
        d = a[0]
        ps, rest = dec(d)
        exp = [[len(ps)], [len(d) // 2]]
        for n, v in ps:
            exp += [n, v]
        exp.append(rest)
        return True if o == exp else "nv_run gave %s, C16 prescribes %s" % (o[:8], exp[:8])
    if mode == "nv_write":
        e = enc(a[0], a[1])
        exp = [[1], [len(e)], e]
        return True if o == exp else "nv_write gave a different encoding or count"
    if mode == "nv_write_big":
        nl, vl = a[0][0], a[1][0]
        exp = [[1], [len(enc_len(nl)) + len(enc_len(vl)) + nl + vl]] if nl <= MAXV and vl <= MAXV else [[0]]
        return True if o == exp else "nv_write_big gave %s, expected %s" % (o, exp)
    return None
