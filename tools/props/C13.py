"""C13 - never more live connection tokens than max_conns; freed slots wake waiters."""
from fvgen import case, parse_case, parse_out

RULE = ("tok_run: limits 1..4, random histories (length 4..60) of get_token on the runner or a clone, poll, drop-token, drop-pending-request, hand-token-to-Token::run-on-an-idle-connection, hand-token-to-Token::run-on-a-connection-whose-request-is-in-flight-with-its-epilogue-stuck, the-client-of-such-a-connection-drains-its-socket, release-of-a-token-by-unwinding (a panicking handler inside Token::run / an unrelated panic in the frame holding it), Runner::shutdown of a clone whose connections are idle (their slots must return to the shared limit), "
        "single-threaded at the granularity of those operations, one counting waker per request; directed histories: k releases in a row with "
        ">= k waiters queued, cancellation of a notified waiter, barging by a fresh request. Oracle: live tokens <= limit at every step, a first "
        "poll with a free slot is Ready, and whenever a slot is free while registered requests are pending at least one pending request has been "
        "woken since it last registered. Non-trivial: histories in which some request had to wait; distinct = distinct case lines.")
ASSUMPTIONS = ["async-lock 3.4.0 Semaphore and event-listener 5.3.1 Event are modelled from their source (third-party code, not verified)",
               "thread interleavings inside those crates' atomics are below the model's granularity"]


def gen_ops(rng, maxc, n):
    ops, nf = [], 0
    state = {}       # fut index -> "new" | "pending" | "live" | "gone"
    for _ in range(n):
        r = rng.random()
        pend = [i for i, s in state.items() if s in ("new", "pending")]
        livel = [i for i, s in state.items() if s == "live"]
        if r < 0.3 or not state:
            ops += [1, rng.choice([0, 0, 1, 2])]
            state[nf] = "new"
            nf += 1
        elif r < 0.65 and pend:
            i = rng.choice(pend)
            ops += [2, i]
            state[i] = "pending"     # may have become live; the oracle tracks the truth from the observation
        elif r < 0.80 and state:
            i = rng.choice(list(state))
            ops += [rng.choice([3, 3, 3, 11, 12]), i]       # released: dropped, or by unwinding (panicking handler / unrelated panic)
        elif r < 0.90 and state:
            # hand the token (if request i has one) to Token::run: on an idle connection (5), or on a connection with a request in
            # flight whose epilogue cannot be written (8 without / 9 with KeepConn): it stays in use
            ops += [rng.choice([5, 5, 8, 9]), rng.choice(list(state))]
            if rng.random() < 0.3:
                ops += [10, rng.choice(list(state))]     # the client of a stalled connection drains its socket
        elif r < 0.94:
            # shut down a clone (only effective when no unfinished request of it is outstanding)
            ops += [7, rng.choice([1, 1, 2])]
        elif pend:
            i = rng.choice(pend)
            ops += [4, i]
            state[i] = "gone"
    return ops


def gen_cases(rng, tier):
    quick = tier == "quick"
    # directed: k releases in a row with waiters queued
    for maxc in (1, 2, 3, 4):
        for waiters in (1, 2, 3, 5):
            ops = []
            for i in range(maxc):
                ops += [1, 0, 2, i]
            for j in range(waiters):
                ops += [1, rng.choice([0, 1]), 2, maxc + j]
            for i in range(maxc):
                ops += [3, i]
            for j in range(waiters):
                ops += [2, maxc + j]
            yield case("tok_run", [maxc], ops), ["tokens", "directed", "waited"]
            # cancellation of the notified waiter
            ops2 = list(ops[:2 * 2 * (maxc + waiters)]) + [3, 0, 4, maxc] + [2, maxc + 1] * (1 if waiters > 1 else 0)
            yield case("tok_run", [maxc], ops2), ["tokens", "directed", "cancel", "waited"]
    # directed: every slot is taken by a connection that is being served (token inside Token::run, transport idle); a further request
    # must wait until one of those connections ends
    for maxc in (1, 2, 3, 4):
        ops = []
        for i in range(maxc):
            ops += [1, rng.choice([0, 1]), 2, i, 5, i]
        ops += [1, 0, 2, maxc, 2, maxc, 1, 1, 2, maxc + 1]
        ops += [3, 0, 2, maxc, 2, maxc + 1]
        yield case("tok_run", [maxc], ops), ["tokens", "directed", "served", "waited"]
    # directed: a clone is shut down while its connections are idle: their slots return to the shared limit, requests queued on
    # the other clones are woken and complete
    for maxc in (1, 2, 3):
        for other in (0, 2):
            ops = []
            for i in range(maxc):
                ops += [1, 1, 2, i, 5, i]
            ops += [1, other, 2, maxc, 2, maxc]          # queued on another clone
            ops += [7, 1]
            ops += [2, maxc, 3, maxc, 1, other, 2, maxc + 1]
            yield case("tok_run", [maxc], ops), ["tokens", "directed", "shutdown", "waited"]
            # ... with one token of the clone still in the caller's hands (not yet a connection): it stays live
            ops = [1, 1, 2, 0] + sum(([1, 1, 2, i, 5, i] for i in range(1, maxc)), [])
            ops += [1, other, 2, maxc, 7, 1, 2, maxc, 3, 0, 2, maxc]
            yield case("tok_run", [maxc], ops), ["tokens", "directed", "shutdown", "waited"]
    # directed: every slot is held by a connection whose request is in flight (handler returned, epilogue stuck on a client that does not
    # drain): a further request must wait, whether or not the requests asked for KeepConn, until such a connection is dropped
    for maxc in (1, 2, 3):
        for op in (8, 9):
            ops = []
            for i in range(maxc):
                ops += [1, rng.choice([0, 1]), 2, i, op if i == 0 else rng.choice([8, 9]), i]
            ops += [1, rng.choice([0, 1, 2]), 2, maxc, 2, maxc, 3, 0, 2, maxc]
            yield case("tok_run", [maxc], ops), ["tokens", "directed", "in-flight", "waited"]
    # directed: the client of a stalled connection drains its socket: the request is completed; without KeepConn the connection ends and
    # its slot is free for a waiter, with KeepConn it stays (idle) until it is dropped or its runner is shut down
    for maxc in (1, 2, 3):
        for op in (8, 9):
            for cl in (0, 1):
                ops = []
                for i in range(maxc):
                    ops += [1, cl, 2, i, op if i == 0 else rng.choice([8, 9]), i]
                ops += [1, rng.choice([0, 1, 2]), 2, maxc, 2, maxc, 10, 0, 2, maxc]
                if cl == 1:
                    ops += [7, 1] + sum(([10, i] for i in range(1, maxc)), []) + [2, maxc]
                ops += [3, 0, 2, maxc]
                yield case("tok_run", [maxc], ops), ["tokens", "directed", "unstall", "waited"]
    # directed: every slot is released by UNWINDING (a panicking handler inside Token::run, or an unrelated panic in the frame that holds an
    # unused token) while requests are queued: the waiters must be woken and get the slots
    for maxc in (1, 2, 3):
        for how in (11, 12):
            for cl in (0, 1):
                ops = []
                for i in range(maxc):
                    ops += [1, rng.choice([0, cl]), 2, i]
                ops += [1, cl, 2, maxc, 2, maxc]
                for i in range(maxc):
                    ops += [how if i == 0 else rng.choice([11, 12]), i]
                ops += [2, maxc] + sum(([1, 0, 2, maxc + 1 + j] for j in range(maxc)), [])
                yield case("tok_run", [maxc], ops), ["tokens", "directed", "unwinding", "waited"]
    # the configured limit is the limit: exactly max_conns requests complete at once, the next one waits — small limits and limits
    # around 2^16 (async servers are told to configure "a much higher number")
    for m in [1, 2, 3, 7, 64, 255, 256, 257, 1000, 65535, 65536, 65537, 70000] + ([2 ** 17 + 1] if not quick else []):
        yield case("tok_fill", [m]), ["tokens", "fill"]
    for _ in range(1500 if quick else 100000):
        maxc = rng.choice([1, 1, 2, 3, 4])
        ops = gen_ops(rng, maxc, rng.randrange(4, 60))
        yield case("tok_run", [maxc], ops), ["tokens", "random"]


def nontrivial(line, tags):
    return "waited" in tags or line.count(",") > 20


def min_classes(tier):
    return {"directed": 30, "cancel": 16, "random": 1000, "served": 4, "fill": 13, "shutdown": 12, "in-flight": 6, "unstall": 12, "unwinding": 12}


def oracle(line, impl_line):
    mode, a = parse_case(line)
    o = parse_out(impl_line)
    if o is None or o == [[18446744073710440504]]:
        return "crashed or panicked (the harness asserts live tokens <= max_conns)"
    maxc = max(1, a[0][0])
    if mode == "tok_fill":
        if o[0][0] > maxc or o[0][1] == 2:
            return "more than max_conns (%d) tokens were handed out" % maxc
        if o[0][0] < maxc:
            return "request %d waits although only %d of %d slots are in use and nothing is queued" % (o[0][0] + 1, o[0][0], maxc)
        return True
    ops = a[1] if len(a) > 1 else []
    # replay the observation: which futures are pending/registered, which tokens are live
    state = {}
    wakes_at_reg = {}
    nf = 0
    own, served, stalled, dead, nclones = {}, set(), set(), set(), 1
    keepc = set()
    for k in range(0, len(ops) - 1, 2):
        op, x = ops[k], ops[k + 1]
        row = o[k // 2]
        live, ready, wk = row[0], row[1], row[2:]
        if live > maxc:
            return "more live tokens (%d) than max_conns (%d)" % (live, maxc)
        if op == 1:
            state[nf] = "new"
            own[nf] = 0 if (x == 0 or x in dead) else x
            nclones = max(nclones, x + 1)
            nf += 1
        elif op == 2 and state.get(x) in ("new", "pending"):
            free_before = maxc - sum(1 for s in state.values() if s == "live")
            if ready == 1:
                state[x] = "live"
            else:
                if free_before > 0:
                    return "a request polled while a slot was free did not complete"
                state[x] = "pending"
                wakes_at_reg[x] = wk[x]
        elif op in (3, 6) and state.get(x) == "live":
            state[x] = "dropped"
            served.discard(x)
            stalled.discard(x)
        elif op in (11, 12) and state.get(x) == "live" and x not in served and x not in stalled:
            state[x] = "dropped"          # the token left by unwinding: its slot is free like after any other drop
        elif op in (8, 9) and state.get(x) == "live" and x not in served and x not in stalled:
            if own[x] in dead:
                state[x] = "dropped"
            else:
                if op == 9:
                    keepc.add(x)
                stalled.add(x)          # a request in flight: in use until the task is dropped, also across a shutdown
        elif op == 10 and x in stalled:
            # the epilogue goes out: the request is completed; the connection ends unless it had KeepConn and its runner still runs
            stalled.discard(x)
            if x in keepc and own[x] not in dead:
                served.add(x)
            else:
                state[x] = "dropped"
        elif op == 5 and state.get(x) == "live" and x not in served and x not in stalled:
            if own[x] in dead:
                state[x] = "dropped"      # a connection of a runner that was shut down ends at once
            else:
                served.add(x)
        elif op == 7 and 1 <= x < nclones and x not in dead and not any(s in ("new", "pending") and own[i] == x for i, s in state.items()):
            # the clone is shut down: its idle connections end, their tokens are gone; tokens not yet handed to a connection stay
            dead.add(x)
            for i in sorted(served):
                if own[i] == x:
                    state[i] = "dropped"
            served = {i for i in served if own[i] != x}
        elif op == 4 and state.get(x) in ("new", "pending"):
            state[x] = "gone"
        free = maxc - sum(1 for s in state.values() if s == "live")
        if live != sum(1 for s in state.values() if s == "live"):
            return "live token count %d does not match the history" % live
        pending = [i for i, s in state.items() if s == "pending"]
        if free > 0 and pending and not any(wk[i] > wakes_at_reg[i] for i in pending):
            return "a slot is free and %d registered requests are pending but none of them has been woken" % len(pending)
    return True
