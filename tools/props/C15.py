"""C15 - VarInt codec is a bijection on 0..2^31-1: case generator and oracle."""
from fvgen import case, parse_case, parse_out

RULE = ("modes vi_write / vi_read / vi_try on boundary values (0,1,127,128,129,255,256,2^14,2^16,2^24,2^31-1,2^31,"
        "2^32-1,2^32,2^64-1), all 256 one-byte encodings, every truncation of 4-byte encodings, random values; "
        "a case is non-trivial when it involves the 4-byte form, a truncation or a rejected conversion; distinct = distinct case lines")
ASSUMPTIONS = ["usize is 64 bits", "the slice reader's read_exact semantics (UnexpectedEof when fewer bytes remain) are modelled, not verified"]
MAXV = 2 ** 31 - 1


def enc(v):
    if v < 128:
        return [v]
    return [(v >> 24) | 0x80, (v >> 16) & 255, (v >> 8) & 255, v & 255]


def gen_cases(rng, tier):
    n_rand = 300 if tier == "quick" else 20000
    bnd = [0, 1, 2, 62, 126, 127, 128, 129, 178, 255, 256, 6819, 2 ** 14, 2 ** 16 - 1, 2 ** 16, 2 ** 24 - 1, 2 ** 24,
           2 ** 31 - 2, MAXV, MAXV + 1, 2 ** 32 - 1, 2 ** 32, 2 ** 32 + 5, 2 ** 63, 2 ** 64 - 1]
    for v in bnd:
        yield case("vi_write", [v]), ["write", "boundary"]
        yield case("vi_try", [v]), ["try", "boundary"]
    # the empty input: the truncation of every encoding to zero bytes must fail with unexpected-EOF like the longer truncations
    yield case("vi_read", []), ["read", "truncation", "empty-input"]
    for b in range(256):
        yield case("vi_read", [b]), ["read", "one-byte"]
        yield case("vi_read", [b, rng.randrange(256)]), ["read", "one-byte"]
    # four-byte encodings of SMALL values (legal: the decoder accepts every one of the 2^31 four-byte encodings, whether or not the
    # encoder would have produced it): all 128 values below 128, and the byte boundaries above
    for v in list(range(128)) + [128, 255, 256, 65535, 65536, 2 ** 24 - 1, 2 ** 24]:
        e4 = [(v >> 24) | 0x80, (v >> 16) & 255, (v >> 8) & 255, v & 255]
        yield case("vi_read", e4 + [rng.randrange(256) for _ in range(rng.randrange(3))]), ["read", "four-byte", "overlong" if v < 128 else "four-byte-boundary"]
    for _ in range(n_rand):
        v = rng.choice([rng.randrange(128), rng.randrange(MAXV + 1), rng.randrange(2 ** 32), 1 << rng.randrange(33)])
        yield case("vi_write", [v]), ["write", "random"]
        yield case("vi_try", [v]), ["try", "random"]
        v = rng.randrange(MAXV + 1)
        e = enc(v) + [rng.randrange(256) for _ in range(rng.randrange(4))]
        yield case("vi_read", e), ["read", "roundtrip"]
        raw = [rng.randrange(128, 256)] + [rng.randrange(256) for _ in range(3)]
        for k in range(1, 5):
            yield case("vi_read", raw[:k]), ["read", "truncation" if k < 4 else "four-byte"]


def nontrivial(line, tags):
    mode, a = parse_case(line)
    if mode == "vi_read":
        return bool(a and a[0] and a[0][0] >= 128)
    return bool(a and a[0] and a[0][0] >= 128)


def min_classes(tier):
    return {"truncation": 100, "one-byte": 256, "boundary": 20, "overlong": 128, "empty-input": 1}


def oracle(line, impl_line):
    """Closed-form statement of C15 applied to the implementation's observation."""
    mode, a = parse_case(line)
    o = parse_out(impl_line)
    if o is None or o == [[18446744073710440504]]:
        return "implementation crashed or panicked"
    if mode == "vi_write":
        v = a[0][0]
        exp = [[1], enc(v)] if v <= MAXV else [[0]]
        return True if o == exp else "vi_write %d gave %s, C15 prescribes %s" % (v, o, exp)
    if mode == "vi_try":
        v = a[0][0]
        e = [1, v] if v <= MAXV else [0]
        return True if o == [e, e] else "conversion of %d gave %s, C15 prescribes %s twice" % (v, o, e)
    if mode == "vi_read":
        d = a[0] if a else []
        if not d:
            exp = [[0]]
        elif d[0] < 128:
            exp = [[1], [d[0]], d[1:]]
        elif len(d) < 4:
            exp = [[0]]
        else:
            exp = [[1], [((d[0] & 127) << 24) | (d[1] << 16) | (d[2] << 8) | d[3]], d[4:]]
        return True if o == exp else "vi_read %s gave %s, C15 prescribes %s" % (d, o, exp)
    return None
