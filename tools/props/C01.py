"""C01 - request preamble decoding is exact under any record segmentation and chunking."""
import fcgen
from fcgen import *  # noqa
from fvgen import case, parse_case, parse_out, fmt_arg
import importlib.util, os
_spec5 = importlib.util.spec_from_file_location("c05", os.path.join(os.path.dirname(__file__), "C05.py"))
C05 = importlib.util.module_from_spec(_spec5)
_spec5.loader.exec_module(C05)

RULE = ("req_run on well-formed preambles: ids incl. 1/65535, all roles, random flag bytes, pair lists with lengths from "
        "{0,1,2,5,17,126,127,128,129,200,300} (+65535/65536/70000-byte values in thorough), duplicate/case-variant/non-UTF-8 names; Params payload "
        "cut by styles none/few/many/every-offset/inside-length-prefix; paddings {0,1,7,8,255,random}; junk records (GetValues id 0, unknown "
        "types, foreign-id records, duplicate and foreign BeginRequest) before and between records; trailing stream bytes; read schedules "
        "greedy / 1-byte / small / random / with 0-byte calls; buffer sizes longest pair + 13 ... (+0..40) and 8192. Targeted stream: one pair "
        "with lengths around 127/128 cut at EVERY offset x paddings {0,1,7,255}. Directed: ignored records between Params records with content lengths 255..65280 around the multiples of 256 (bodies that look like Params records of the request) and with content + padding > 65535. Non-trivial: some pair crosses a record boundary or junk present "
        "or non-greedy schedule; distinct = distinct (wire, schedule, buffer) triples.")
ASSUMPTIONS = ["HashMap is modelled as an insertion log with last-value-wins lookup",
               "CompactString::from_utf8_lossy is modelled by a transcription (Cgi/Lossy.v), itself tied by the `lossy` mode",
               "preconditions: every pair's name+value <= buffer - 13 (the documented bound)"]
BOTH_PROFILES = True


def release_view(line, out):
    return out


def one_case(rng, pairs, cuts=None, junk_rate=0.3, sched_style=None, bufslack=None, idle=None, trailing=None):
    rid = rng.choice([1, 2, 255, 256, 65535, rng.randrange(1, 65536)])
    role = rng.choice([1, 2, 3])
    flags = rng.choice([0, 1, rng.randrange(256)])
    recs, junk = preamble(rng, rid, role, flags, pairs, cuts=cuts, junk_rate=junk_rate,
                          idle=rng.choice([0, 0, 1, 2]) if idle is None else idle)
    wire = flat(recs)
    if trailing is None:
        trailing = rng.choice([[], [], record(STDIN, rid, [1, 2, 3]), record(STDIN, rid, [9] * 5)[:rng.randrange(1, 12)],
                               flat([record(STDIN, rid, [7] * 30, 2), record(STDIN, rid, [])])])
    wire = wire + trailing
    need = max(longest_pair(pairs) + 13, 24)
    B = rng.choice([need, need, need + rng.randrange(0, 40), 8192]) if bufslack is None else need + bufslack
    sched = schedule(rng, len(wire), sched_style)
    maxc = rng.choice([1, 10, 999, 2 ** 64 - 1])
    tags = ["preamble"]
    if junk:
        tags.append("junk")
    if len(recs) - len(junk) > 3:
        tags.append("multi-record")
    if sched:
        tags.append("chunked")
    if any(len(n) >= 128 or len(v) >= 128 for n, v in pairs):
        tags.append("long-prefix")
    return case("req_run", [B], [maxc], wire, sched), tags


def gen_cases(rng, tier):
    quick = tier == "quick"
    # lossy normalisation instance
    for _ in range(150 if quick else 3000):
        yield case("lossy", rand_name(rng, rng.randrange(0, 12))), ["lossy"]
    for b in ([0xc3, 0xa9], [0xe2, 0x82], [0xe2, 0x82, 0x41], [0xf0, 0x9f, 0x98, 0x80], [0xf0, 0x9f, 0x98], [0xed, 0xa0, 0x80],
              [0xc0, 0x80], [0xf4, 0x90, 0x80, 0x80], [0xe0, 0x9f, 0x80], [0xff], [0x80], [0x61, 0xe2, 0x82, 0xac, 0x7a], [0xf8, 0x88, 0x80, 0x80, 0x80]):
        yield case("lossy", b), ["lossy", "lossy-boundary"]
    # targeted: one pair around the 127/128 boundary, every cut offset, paddings
    for nl, vl in ([(127, 1), (128, 0), (1, 128), (128, 128), (129, 127)] if quick else
                   [(a, b) for a in (0, 1, 127, 128, 129) for b in (0, 1, 127, 128, 129)]):
        pairs = [([65 + (i % 26) for i in range(nl)], [i % 251 for i in range(vl)])]
        payload = nv_all(pairs)
        offs = range(1, len(payload)) if not quick else list(range(1, 12)) + [nl, nl + 1, nl + 4, nl + 8, len(payload) - 1]
        for off in offs:
            if not 0 < off < len(payload):
                continue
            for pad in ([0, 255] if quick else [0, 1, 7, 255]):
                rid = 1
                recs = [begin(rid, 1, 1)] + stream_records(PARAMS, rid, payload, [off], pads=[pad])
                wire = flat(recs)
                B = max(nl + vl + 13, 24)
                for sched in ([], [1] * len(wire)):
                    yield case("req_run", [B], [5], wire, sched), ["preamble", "every-cut", "multi-record"] + (["chunked"] if sched else [])
    # pairs spread over 3+ records, cut inside the length prefix
    for _ in range(60 if quick else 2000):
        nl, vl = rng.choice([128, 129, 200, 300]), rng.choice([0, 128, 300])
        pairs = rand_pairs(rng, rng.randrange(0, 3), 50) + [(rand_name(rng, nl), [rng.randrange(256) for _ in range(vl)])] + rand_pairs(rng, rng.randrange(0, 2), 50)
        payload = nv_all(pairs)
        start = len(nv_all(pairs[:-1 - 0])) if False else 0
        cuts = sorted(set([rng.randrange(1, len(payload)) for _ in range(rng.randrange(2, 9))] + [1, 2, 3]))
        yield one_case(rng, pairs, cuts=cuts)
    for _ in range(500 if quick else 30000):
        pairs = rand_pairs(rng, rng.randrange(0, 7), rng.choice([20, 130, 300]))
        yield one_case(rng, pairs)
    # empty parameter list, big values over several records
    yield one_case(rng, [], junk_rate=0.0)
    yield one_case(rng, [], junk_rate=0.9)
    for _ in range(3 if quick else 60):
        pairs = rand_pairs(rng, 2, 40) + [(list(b"BIG_VALUE"), [rng.randrange(256) for _ in range(rng.choice([65535, 65536, 70000, 140000]))])]
        yield one_case(rng, pairs, sched_style=rng.choice(["greedy", "random"]), bufslack=rng.choice([0, 3, 900]))[0], ["preamble", "big", "multi-record", "long-prefix"]


def huge_junk_case(rng, P, pad, sched):
    """an ignored record (unknown type, or a stream record of a foreign request id) whose content + padding exceeds 65535 bytes BETWEEN
    two Params records, on a buffer above 64 KiB, delivered in one read (or in two): the environment must not depend on it"""
    rid = rng.choice([1, 300])
    pairs = rand_pairs(rng, 3, 30) + [(list(b"http_x"), list(b"1")), (list(b"HTTP_X"), list(b"2")), ([], list(b"empty-name"))]
    payload = nv_all(pairs)
    cut = rng.randrange(1, len(payload))
    t, jid = rng.choice([(0x63, rng.choice([0, rid])), (STDIN, rid + 1), (DATA, rid + 7)])
    junk = header(t, jid, P, pad) + [rng.randrange(256) for _ in range(P)] + [rng.choice([0, 1]) for _ in range(pad)]
    w = (record(BEGIN, rid, [0, rng.choice([1, 3]), 0x41, 0, 0, 0, 0, 0], 0) + record(PARAMS, rid, payload[:cut], rng.choice([0, 5])) + junk
         + record(PARAMS, rid, payload[cut:], 0) + record(PARAMS, rid, [], rng.choice([0, 7])) + record(STDIN, rid, [], 0))
    return case("req_run", [rng.choice([70000, 131072])], [5], w, sched), ["preamble", "junk", "huge-junk", "multi-record"]


def sized_junk_case(rng):
    """ignored records (unknown type, stream / Params records of a foreign id, a duplicate BeginRequest with an oversized body) whose
    content length is a round number - multiples of 256, with and without padding - between two Params records; the body looks
    like Params records of the request itself: the environment must not depend on it, under any read schedule"""
    rid = rng.choice([1, 300])
    pairs = rand_pairs(rng, 3, 30) + [(list(b"HTTP_X"), list(b"2"))]
    payload = nv_all(pairs)
    cut = rng.randrange(1, len(payload))
    P = rng.choice([255, 256, 256, 257, 512, 768, 1024, 4096, 65280])
    pad = rng.choice([0, 0, 0, 1, 8])
    fake = record(PARAMS, rid, nv_all([(list(b"INJECTED"), list(b"x"))]), 0)
    body = (fake * (P // len(fake) + 1))[:P]
    t, jid = rng.choice([(0x63, rng.choice([0, rid])), (STDIN, rid + 1), (DATA, rid + 7), (PARAMS, rid + 1), (BEGIN, rid), (STDOUT, rid)])
    junk = header(t, jid, P, pad) + body + [0] * pad
    w = (record(BEGIN, rid, [0, rng.choice([1, 3]), 0x41, 0, 0, 0, 0, 0], 0) + record(PARAMS, rid, payload[:cut], rng.choice([0, 5])) + junk
         + record(PARAMS, rid, payload[cut:], 0) + record(PARAMS, rid, [], rng.choice([0, 7])) + record(STDIN, rid, [], 0))
    sched = rng.choice([[], [1] * len(w), schedule(rng, len(w), "random"), schedule(rng, len(w), "small")])
    if P > 1024 and len(sched) > 1000:
        sched = schedule(rng, len(w), "random")          # (byte-wise schedules over records of tens of KiB make the model run for minutes)
    return case("req_run", [rng.choice([256, 8192])], [5], w, sched), ["preamble", "junk", "sized-junk", "multi-record"] + (["chunked"] if sched else [])


def huge_params_case(rng, sched):
    """a Params stream of about 80 KB (one large value among small pairs, as an upload form or a huge cookie produces) in records of up to
    65535 bytes, on a 128 KiB buffer (the documentation suggests tens to hundreds of KiB): a single parse call sees 65536 and more
    unparsed bytes in front of a Params record body; the environment must not depend on how the bytes were cut into reads"""
    rid = 1
    big = [rng.randrange(256) for _ in range(rng.choice([66000, 70000, 80000]))]
    pairs = rand_pairs(rng, 2, 20) + [(list(b"HTTP_COOKIE"), big)] + rand_pairs(rng, 2, 20) + [(list(b"http_x"), list(b"1"))]
    payload = nv_all(pairs)
    first = rng.choice([65535, 65535, 65528, 40000])
    recs = record(BEGIN, rid, [0, 1, 1, 0, 0, 0, 0, 0], 0)
    i = 0
    for n in (first, 65535, 65535):
        if i < len(payload):
            recs += record(PARAMS, rid, payload[i:i + n], rng.choice([0, 0, 1, 5]))
            i += n
    recs += record(PARAMS, rid, [], 0) + record(STDIN, rid, [], 0)
    return case("req_run", [131072], [5], recs, sched), ["preamble", "huge-params", "multi-record", "big"] + (["chunked"] if sched else [])


def pipelined_handoff_case(rng):
    """the partition of the wire in which the request parser gets its WHOLE preamble without a single read of its own: request 2 was
    pipelined behind request 1 (KeepConn) and arrived in the same read, so the parser that into_request_parser() builds finds the
    complete preamble - junk, cuts, padding and all - as inherited leftover and must finish on a call without new input"""
    B = rng.choice([1024, 8192])
    p1 = rand_pairs(rng, rng.randrange(0, 2), 10)
    w1 = flat(minimal_preamble(1, 1, flags=1, pairs=p1) + [record(STDIN, 1, [104, 105], rng.choice([0, 3])), record(STDIN, 1, [], rng.choice([0, 0, 5]))])
    pairs2 = rand_pairs(rng, rng.randrange(1, 6), 30) + [(list(b"http_x"), list(b"1")), (list(b"HTTP_X"), list(b"2"))]
    recs2, _ = preamble(rng, 2, rng.choice([1, 2, 3]), rng.choice([0, 1]), pairs2, junk_rate=0.3, idle=rng.choice([0, 1]))
    w2 = flat(recs2)
    # (hand-off variants 1 and 2 only: they do not parse at a record boundary; a parser told to skip - set_stream(None) + parse - would
    # discard the pipelined request as well, by design: DESIGN.md 13.3 O4)
    ops = [[0, 10 ** 6], [2, 10 ** 6], [4, 10 ** 6]] + rng.choice([[], [[3]]]) + [[6, 0, rng.choice([1, 2])]]
    return "str_run " + " ".join(fmt_arg(x) for x in [[B], [3], w1 + w2] + ops), ["preamble", "junk", "pipelined-handoff", "multi-record"]


_gen_cases_c01 = gen_cases


def gen_cases(rng, tier):
    yield from _gen_cases_c01(rng, tier)
    for (P, pad) in ((65535, 255), (65300, 250), (65281, 255), (65535, 1)) if tier != "quick" else ((65535, 255), (65300, 250)):
        for sched in ([], [10 ** 6], [rng.randrange(65000, 66000), 10 ** 6]):
            yield huge_junk_case(rng, P, pad, sched)
    for _ in range(60 if tier == "quick" else 3000):
        yield sized_junk_case(rng)
    for _ in range(60 if tier == "quick" else 3000):
        yield pipelined_handoff_case(rng)
    for sched in ([[], [10 ** 6]] if tier == "quick" else [[], [10 ** 6], [66000, 10 ** 6], [30000, 10 ** 6, 10 ** 6], [4096] * 40, [65536, 65536], [100, 10 ** 6]]):
        yield huge_params_case(rng, sched)


def nontrivial(line, tags):
    return any(t in tags for t in ("junk", "multi-record", "chunked", "lossy-boundary"))


def min_classes(tier):
    q = tier == "quick"
    return {"every-cut": 200 if q else 5000, "junk": 100, "chunked": 200, "long-prefix": 100, "big": 3, "lossy": 100, "huge-junk": 6, "sized-junk": 60, "huge-params": 2, "pipelined-handoff": 60}


def oracle(line, impl_line):
    if line.startswith("str_run "):
        return C05.oracle(line, impl_line)        # class pipelined-handoff: request 2 must come out identical to what was sent
    mode, a = parse_case(line)
    o = parse_out(impl_line)
    if o is None or o == [[18446744073710440504]]:
        return "implementation crashed or panicked"
    if mode == "lossy":
        exp = [norm(a[0] if a else [])]
        return True if o == exp else "key normalisation gave %s, expected %s" % (o, exp)
    if mode != "req_run":
        return None
    a = a + [[]] * (4 - len(a))
    B, maxc, wire = a[0][0], a[1][0], a[2]
    recs, tail = parse_records(wire)
    # reconstruct what was sent
    i = 0
    while i < len(recs) and not (recs[i][0] == BEGIN and len(recs[i][2]) == 8 and 1 <= recs[i][2][0] * 256 + recs[i][2][1] <= 3 and recs[i][1] != 0):
        i += 1
    if i == len(recs):
        return None
    rid = recs[i][1]
    role, flags = recs[i][2][0] * 256 + recs[i][2][1], recs[i][2][2]
    payload, j, consumed = [], i + 1, None
    pos = sum(8 + len(r[2]) + r[3] for r in recs[:i + 1])
    while j < len(recs):
        t, r, body, pad = recs[j]
        pos += 8 + len(body) + pad
        j += 1
        if t == PARAMS and r == rid:
            if not body:
                consumed = pos
                break
            payload += body
    if consumed is None:
        return None
    pairs, rest = nv_decode(payload)
    env = expected_env(pairs)
    replies, _ = replies_for(recs[:j], maxc)
    exp_out = [b for _, rb in replies for b in rb]
    if o[0][0] != 1:
        return "parser did not finish on a complete well-formed preamble (done=%s)" % o[0]
    if o[1] != [1]:
        return "parser failed with %s on a well-formed preamble" % o[1]
    hdr = o[2]
    if hdr[:3] != [rid, role, flags]:
        return "request id/role/flags %s, sent %s" % (hdr[:3], [rid, role, flags])
    n = hdr[3]
    got = [(o[3 + 2 * k], o[4 + 2 * k]) for k in range(n)]
    if got != env:
        return "environment differs from the last-value-wins map of the transmitted pairs"
    left = o[3 + 2 * n]
    out = o[4 + 2 * n]
    unfed = o[0][1]
    if len(left) + unfed != len(wire) - consumed or left != wire[consumed:consumed + len(left)]:
        return "leftover is not the unread suffix: consumed %d expected %d" % (len(wire) - unfed - len(left), consumed)
    if out != exp_out:
        return "bytes emitted toward the client differ from the replies owed"
    return True
