"""C18 - input stream sequencing follows the role's order exactly."""
import itertools
import fcgen
from fcgen import *  # noqa
from fvgen import case, parse_case, parse_out, fmt_arg
import importlib.util, os

_spec = importlib.util.spec_from_file_location("c02", os.path.join(os.path.dirname(__file__), "C02.py"))
C02 = importlib.util.module_from_spec(_spec)
_spec.loader.exec_module(C02)

_spec9 = importlib.util.spec_from_file_location("c09", os.path.join(os.path.dirname(__file__), "C09.py"))
C09 = importlib.util.module_from_spec(_spec9)
_spec9.loader.exec_module(C09)


def async_select_case(rng):
    """the async layer's selections (Request::set_stream and Request::writeable, which selects the role's FINAL stream) on a Filter
    request, in every order: selecting Data by hand and then awaiting writeable() re-selects the current stream and must keep it and
    its data; writeable() from Stdin advances; reads in between"""
    cg = C09.conngen if hasattr(C09, "conngen") else None
    rid = rng.choice([1, 9])
    recs = C09.minimal_preamble(rid, 3, flags=0, pairs=[])
    contents = {C09.STDIN: [rng.randrange(256) for _ in range(rng.choice([0, 5, 40]))], C09.DATA: [rng.randrange(256) for _ in range(rng.choice([1, 35, 90]))]}
    recs += C09.streams_part(rng, rid, 3, contents, junk_rate=0.2, no_begin=True)
    pre = rng.choice([[], [("read", 4)], [("readall",)], [("fill", 3)]])
    sel = rng.choice([[("set", C09.DATA), ("writeable",)], [("set", C09.DATA), ("writeable",), ("writeable",)], [("writeable",), ("set", C09.DATA)],
                      [("writeable",)], [("set", C09.DATA), ("set", C09.DATA), ("writeable",)], [("set", C09.DATA), ("poll1", 8), ("writeable",)]])
    post = rng.choice([[("readall",)], [("read", 1000), ("read", 1000)], [("fill", 10 ** 6), ("readall",)]])
    h = pre + sel + post + [("ret", 0, 0)]
    rs = C09.C07.io_script(rng, 200, "r")
    ws = C09.C07.io_script(rng, 60, "w")
    return C09.conn_case(rng.choice([64, 256, 8192]), 1, [(0, 0, C09.flat(recs))], [h], rs, ws, rng.choice([0, 1])), ["async-select"]


RULE = ("cmp_streams: the full table 3 roles x requested {Stdin, Data} x current {none, Stdin, Data} observed through set_stream; str_run: "
        "histories of set_stream (forward, backward, outside the role, none, re-select) interleaved with parsing of record sequences that "
        "contain every stream type in every order (compliant and not), with matching and foreign request ids, for all roles. Oracle: acceptance "
        "follows the role's order (also for the async layer's Request::set_stream / Request::writeable on Filter requests, class async-select), rejected calls change nothing, delivered bytes always belong to the then-active stream. Non-trivial: a "
        "non-compliant order or a rejected selection; distinct = distinct case lines.")
ASSUMPTIONS = ["requested selections are None, Stdin, Data: for the other nine record types release builds reject while debug builds hit a private "
               "debug_assert (recorded as an observation outside the property's table, not claimed either way)"]


def gen_cases(rng, tier):
    quick = tier == "quick"
    for _ in range(60 if quick else 3000):
        yield async_select_case(rng)
    # records that must be skipped (foreign id, stale Params, an earlier stream) whose content + padding exceeds 65535 bytes
    for kind in ("foreign-id", "stale-params", "earlier-stream"):
        for _ in range(2 if quick else 12):
            c, t = C02.huge_ignored_case(rng, kind)
            yield c, ["huge-ignored"]
    for role in (1, 2, 3):
        for recv in (STDIN, DATA):
            for exp in (0, STDIN, DATA):
                yield case("cmp_streams", [role], [recv], [exp]), ["table"]
    for _ in range(600 if quick else 40000):
        rid = rng.choice([1, 9])
        role = rng.choice([1, 2, 3])
        recs = minimal_preamble(rid, role)
        # every stream type in random order, matching and foreign ids
        body = []
        for _ in range(rng.randrange(2, 10)):
            t = rng.choice([STDIN, DATA])
            r = rid if rng.random() < 0.8 else rid + 1
            n = rng.choice([0, 0, 1, 5, 20])
            body.append(record(t, r, [rng.randrange(256) for _ in range(n)], rng.choice([0, 1, 7])))
        if rng.random() < 0.5:
            body = streams_part(rng, rid, role, {t: [rng.randrange(256) for _ in range(rng.randrange(0, 30))] for t in ROLE_STREAMS[role]}, junk_rate=0.1) + body[:2]
            order_tag = "compliant"
        else:
            order_tag = "scrambled"
        w = flat(recs + body)
        B = rng.choice([32, 64, 256])
        ops = []
        for _ in range(rng.randrange(4, 30)):
            r = rng.random()
            if r < 0.35:
                ops.append([5, rng.choice([0, STDIN, DATA, STDIN, DATA])])
            elif r < 0.6:
                ops.append([0, rng.choice([1, 8, 10 ** 6])])
            elif r < 0.8:
                ops.append([1, rng.choice([1, 8, 10 ** 6]), rng.choice([0, 3, 100])])
            elif r < 0.9:
                ops.append([2, rng.choice([1, 10 ** 6])])
            else:
                ops.append([3])
        for _ in range(6):
            ops += [[0, 10 ** 6], [2, 10 ** 6], [4, 10 ** 6], [3]]
        yield "str_run " + " ".join(fmt_arg(x) for x in [[B], [3], w] + ops), ["history", order_tag, "role%d" % role]


def nontrivial(line, tags):
    return "scrambled" in tags or "table" in tags or "async-select" in tags or "huge-ignored" in tags


def min_classes(tier):
    return {"table": 18, "scrambled": 200, "compliant": 200, "async-select": 50, "huge-ignored": 6}


TABLE = {}
for role in (1, 2, 3):
    order = ROLE_STREAMS[role]
    for recv in (STDIN, DATA):
        for exp in (0, STDIN, DATA):
            if exp and exp not in order:
                TABLE[(role, recv, exp)] = 777777
            elif exp == 0:
                TABLE[(role, recv, exp)] = 0
            elif recv == exp:
                TABLE[(role, recv, exp)] = 1
            elif recv in order and order.index(recv) > order.index(exp):
                TABLE[(role, recv, exp)] = 2
            else:
                TABLE[(role, recv, exp)] = 0


def oracle(line, impl_line):
    if line.startswith("conn_run "):
        return C09.oracle(line, impl_line)       # class async-select: the read law + gate law of the async layer (selection via writeable())
    mode, a = parse_case(line)
    o = parse_out(impl_line)
    if o is None:
        return "implementation crashed"
    if mode == "cmp_streams":
        key = (a[0][0], a[1][0], a[2][0])
        return True if o == [[TABLE[key]]] else "selection %s gave %s, the role order says %s" % (key, o, TABLE[key])
    return C02.oracle(line, impl_line)
