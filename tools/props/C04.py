"""C04 - each management or rejectable record gets exactly one correct reply, in order."""
import fcgen
from fcgen import *  # noqa
from fvgen import case, parse_case, parse_out, fmt_arg
import importlib.util, os

_spec = importlib.util.spec_from_file_location("c02", os.path.join(os.path.dirname(__file__), "C02.py"))
C02 = importlib.util.module_from_spec(_spec)
_spec.loader.exec_module(C02)

RULE = ("request parser: preambles with dense junk before BeginRequest and between Params records (GetValues bodies mixing known/unknown/"
        "repeated/non-UTF-8/value-carrying names and incomplete trailing pairs; all 245 unknown type values; foreign ids incl. 0; BeginRequest "
        "with unknown role; foreign BeginRequest; AbortRequest mid-Params followed by a fresh request), paddings {0,1,7,8,255}, read schedules "
        "greedy/1-byte/random so that bodies are split at every offset; stream parser: the same junk during the input streams with random "
        "consume_output(k) interleavings. The oracle recomputes the owed replies from the FastCGI specification and compares byte for byte. "
        "Non-trivial: at least one reply owed; distinct = distinct case lines.")
ASSUMPTIONS = ["GetValues pairs fit the buffer", "unknown-type replies echo the received request id (the reading the crate's own tests pin)"]
BOTH_PROFILES = True


def release_view(line, out):
    return out


def gen_cases(rng, tier):
    quick = tier == "quick"
    n = 400 if quick else 30000
    for _ in range(n):
        rid = rng.choice([1, 2, 65535, rng.randrange(1, 65536)])
        role = rng.choice([1, 2, 3])
        pairs = rand_pairs(rng, rng.randrange(0, 4), 60)
        recs, junk = preamble(rng, rid, role, rng.randrange(256), pairs, junk_rate=0.6, idle=rng.randrange(0, 4))
        tags = ["req", "junk"]
        if rng.random() < 0.3:
            # abort in the middle of Params, then a fresh request
            nb = max(k for k, r in enumerate(recs) if r[1] == BEGIN and r[2] * 256 + r[3] == rid) + 1
            cut = rng.randrange(nb, len(recs)) if nb < len(recs) else nb
            recs2, _ = preamble(rng, rng.choice([rid, 9]), rng.choice([1, 2, 3]), 1, rand_pairs(rng, 2, 30), junk_rate=0.4)
            recs = recs[:cut] + [record(ABORT, rid, [rng.randrange(256) for _ in range(rng.choice([0, 0, 8]))], rng.choice([0, 7]))] + recs2
            tags.append("abort")
        w = flat(recs)
        yield case("req_run", [rng.choice([64, 128, 8192])], [rng.choice([1, 10, 2 ** 64 - 1])], w, schedule(rng, len(w))), tags
    # all 245 unknown types x position x padding
    for t in list(range(12, 256)) + [0]:
        for pos in (0, 1, 2):
            for pad in ([0, 255] if quick else [0, 1, 7, 255]):
                recs = minimal_preamble(5, 1, pairs=[(b"A", b"b"), (b"CC", b"dd")])
                recs = [recs[0]] + stream_records(PARAMS, 5, nv_all([(b"A", b"b"), (b"CC", b"dd")]), [3])
                u = record(t, rng.choice([0, 5, 77]), [rng.randrange(256) for _ in range(rng.choice([0, 8, 11]))], pad)
                recs.insert(pos, u)
                w = flat(recs)
                yield case("req_run", [64], [7], w, rng.choice([[], [1] * len(w)])), ["req", "unknown-type"]
    # the reserved request id 0 combined with an unknown role on a BeginRequest: rejected with EndRequest(UnknownRole) like any other
    # unknown role (the body is looked at first), and the connection goes on
    for role in (0, 4, 9, 65535):
        for pad in (0, 3, 255):
            for sched in ([], "ones"):
                recs = [begin(0, role, 1, pad), record(GETVALUES, 0, gv_body(rng), 0)] + minimal_preamble(5, 1, pairs=[(b"A", b"b")])
                w = flat(recs)
                yield case("req_run", [64], [3], w, [1] * len(w) if sched == "ones" else []), ["req", "null-id-unknown-role"]
    # GetValues body split at every offset (1-byte schedule does that); also placed in the stream phase
    for _ in range(60 if quick else 3000):
        body = gv_body(rng)
        recs = [record(GETVALUES, 0, body, rng.choice([0, 3]))] + minimal_preamble(1, 1)
        recs.insert(2, record(GETVALUES, 0, body, rng.choice([0, 255])))
        w = flat(recs)
        yield case("req_run", [64], [42], w, [1] * len(w)), ["req", "gv-split"]
        yield case("req_run", [64], [42], w, []), ["req", "gv-split"]
    # a GetValues body whose LAST pair is cut short, with the missing bytes of a known variable name sitting in the record's
    # padding (padding content is arbitrary by the specification): nothing outside the body may be interpreted
    for name in (b"FCGI_MAX_CONNS", b"FCGI_MAX_REQS", b"FCGI_MPXS_CONNS"):
        for k in range(1, len(name)):
            for where in ("idle", "params"):
                body = nv(list(b"FCGI_MAX_REQS"), []) * rng.choice([0, 1]) + [len(name), 0] + list(name[:k])
                tail = list(name[k:]) + [0] * rng.choice([0, 3])
                gv = header(GETVALUES, 0, len(body), len(tail)) + body + tail
                pre = minimal_preamble(1, 1, pairs=[(b"A", b"b")])
                w = (gv + flat(pre)) if where == "idle" else (flat(pre[:1]) + gv + flat(pre[1:]))
                for sched in ([], [1] * len(w), [len(gv)] if where == "idle" else [len(flat(pre[:1])) + len(gv)]):
                    yield case("req_run", [64], [9], w, sched), ["req", "gv-tail-spill"]
    for _ in range(300 if quick else 20000):
        rid = rng.choice([1, 65535])
        role = rng.choice([1, 2, 3])
        contents = {t: [rng.randrange(256) for _ in range(rng.randrange(0, 80))] for t in ROLE_STREAMS[role]}
        if rng.random() < 0.5:
            # reply-owing records INSIDE the preamble: the request parser's last parse call then produces output right before the
            # hand-off to the stream parser (whose output buffer must start empty: nothing may be emitted twice)
            pre, _ = preamble(rng, rid, role, 1, rand_pairs(rng, rng.randrange(0, 3), 20), junk_rate=0.7, idle=0)
        else:
            pre = minimal_preamble(rid, role)
        recs = pre + streams_part(rng, rid, role, contents, junk_rate=0.6)
        w = flat(recs)
        B = rng.choice([64, 128, 8192])
        ops = C02.gen_ops(rng, len(w), role, B) + [[5, 0]]
        for _ in range(len(w) // max(8, B // 2) + 6):
            ops += [[0, 10 ** 6], [4, rng.choice([1, 7, 16, 10 ** 6])], [3]]
        ops += [[4, 10 ** 6]]
        yield "str_run " + " ".join(fmt_arg(x) for x in [[B], [rng.choice([1, 999])], w] + ops), ["str", "junk"]


def nontrivial(line, tags):
    return True


def min_classes(tier):
    return {"unknown-type": 1000, "gv-split": 100, "abort": 80, "str": 250, "gv-tail-spill": 200, "null-id-unknown-role": 24, "reply-then-empty-call": 60, "gv-tail": 40}


def expected_req_output(wire, maxc):
    recs, _ = parse_records(wire)
    out, phase = [], ("idle",)
    for i, r in enumerate(recs):
        rep, phase = replies_for([r], maxc, phase)
        for _, b in rep:
            out += b
        if phase[0] in ("stream", "fatal"):
            break
    return out, phase


def handoff_replies_case(rng, variant):
    """replies across the keep-alive hand-off stream parser -> request parser through the plain parser API (no compress(), no
    set_stream(None) before into_request_parser): reply-owing records in the stream phase of request 1, delivered into caller
    buffers (variant 0) or into the stream buffer (variant 1), their replies taken; then the conversion and request 2, whose preamble
    carries further reply-owing records: over the whole chain every such record is answered exactly once"""
    rid, maxc = 1, rng.choice([1, 999])
    gv = record(GETVALUES, 0, gv_body(rng), rng.choice([0, 5]))
    unk = record(rng.choice([12, 99, 200]), rng.choice([0, 1, 7]), [rng.randrange(256) for _ in range(rng.choice([0, 8, 13]))], rng.choice([0, 3]))
    fb = record(BEGIN, 9, [0, 1, 0, 0, 0, 0, 0, 0], 0)
    mid = [gv, unk, fb]
    rng.shuffle(mid)
    s1 = [record(STDIN, rid, list(b"abc"), 1)] + mid[:2] + [record(STDIN, rid, list(b"de"), 0)] + mid[2:] + [record(STDIN, rid, [], 0)]
    pre2, _ = preamble(rng, 2, 1, 1, rand_pairs(rng, 1, 10), junk_rate=0.6, idle=1)
    w = flat(minimal_preamble(rid, 1) + s1 + pre2)
    if variant == 0:
        ops = [[1, 10 ** 6, 1000], [1, 0, 1000], [4, 10 ** 6]]
    else:
        ops = [[0, 10 ** 6], [4, 10 ** 6]] + rng.choice([[], [[2, 2]]])
    ops += [[6, 0, 2]]
    return "str_run " + " ".join(fmt_arg(x) for x in [[rng.choice([1024, 8192])], [maxc], w] + ops), ["str", "handoff-replies"]


_gen_cases_c04 = gen_cases


def huge_skip_replies_case(rng, P, pad, sched):
    """reply-owing records around an ignored/answered record whose content + padding exceeds 65535 bytes, on a buffer above 64 KiB,
    delivered in one read (or cut near the end of its body): exactly the owed replies, nothing invented out of the padding"""
    t = rng.choice([0x50, 0x63, 200])
    fake = flat([record(rng.choice([0x63, 0x21]), 0, [], 0)])          # 8 padding bytes that look like an unknown-type record header
    padding = (fake * 40)[:pad]
    huge = header(t, rng.choice([0, 1]), P, pad) + [rng.randrange(256) for _ in range(P)] + padding
    gv = record(GETVALUES, 0, gv_body(rng), rng.choice([0, 3]))
    where = rng.choice(["idle", "params"])
    pre = minimal_preamble(1, 1, pairs=[(b"A", b"b")])
    w = (huge + gv + flat(pre)) if where == "idle" else (flat(pre[:1]) + huge + gv + flat(pre[1:]))
    return case("req_run", [rng.choice([70000, 131072])], [rng.choice([1, 77])], w, sched), ["req", "huge-skip"]


def reply_then_empty_call_case(rng):
    """every read ends exactly at a record boundary and is followed by a parse call WITHOUT new input (a zero-length read, a spurious
    wake-up): a reply produced by one call must not be handed out again by the next"""
    rid = rng.choice([1, 9])
    junk = [record(GETVALUES, 0, gv_body(rng), rng.choice([0, 3])), record(rng.choice([12, 99, 200]), rng.choice([0, rid]), [1, 2, 3], rng.choice([0, 5])),
            record(BEGIN, rid + 1, [0, 1, 0, 0, 0, 0, 0, 0], 0), record(BEGIN, rid + 2, [0, 9, 0, 0, 0, 0, 0, 0], rng.choice([0, 2]))]
    rng.shuffle(junk)
    pre = minimal_preamble(rid, 1, pairs=[(b"A", b"b")])
    k = rng.randrange(0, len(junk) + 1)
    recs = junk[:k] + pre[:1] + junk[k:] + pre[1:]
    sched = []
    for r in recs:
        sched += [len(r)] + [0] * rng.choice([1, 1, 2])
    return case("req_run", [rng.choice([64, 256])], [rng.choice([1, 77])], flat(recs), sched), ["req", "reply-then-empty-call"]


def gv_tail_case(rng):
    """a GetValues record in the stream phase whose body ends in an INCOMPLETE pair, with the bytes that follow the body - its padding,
    or the next record - chosen so that they would complete the pair into a well-known variable name (or leak the next record's query
    into this reply) if the decoder did not stop at the end of the body; delivered in one read and in pieces"""
    rid, maxc = 1, rng.choice([1, 999])
    names = [b"FCGI_MAX_CONNS", b"FCGI_MAX_REQS", b"FCGI_MPXS_CONNS"]
    first, hidden = rng.sample(names, 2)
    cutn = rng.randrange(0, len(hidden))
    if rng.random() < 0.5:
        # the padding completes the truncated name
        body = nv(list(first), []) + [len(hidden), 0] + list(hidden[:cutn])
        padding = list(hidden[cutn:]) + [0] * rng.choice([0, 3])
        if len(padding) > 255:
            padding = padding[:255]
        gv = header(GETVALUES, 0, len(body), len(padding)) + body + padding
        nxt = []
    else:
        # a dangling length header swallows the next record's header as a name; that record's own query follows
        body = nv(list(first), []) + [8, 0]
        gv = header(GETVALUES, 0, len(body), 0) + body
        nxt = record(GETVALUES, 0, nv(list(hidden), []), rng.choice([0, 5]))
    s1 = record(STDIN, rid, list(b"abc"), 1) + gv + nxt + record(STDIN, rid, list(b"de"), 0) + record(STDIN, rid, [], 0)
    w = flat(minimal_preamble(rid, 1)) + s1
    ops = rng.choice([[[0, 10 ** 6]], [[1, 10 ** 6, 1000]], [[0, rng.randrange(1, 40)] for _ in range(12)] + [[0, 10 ** 6]]]) + [[4, 10 ** 6], [0, 0]]
    return "str_run " + " ".join(fmt_arg(x) for x in [[rng.choice([256, 8192])], [maxc], w] + ops), ["str", "gv-tail"]


def gen_cases(rng, tier):
    yield from _gen_cases_c04(rng, tier)
    for _ in range(40 if tier == "quick" else 2000):
        yield gv_tail_case(rng)
    for _ in range(60 if tier == "quick" else 3000):
        yield reply_then_empty_call_case(rng)
    for (P, pad) in ((65535, 255), (65281, 255), (65400, 200)):
        for sched in ([], [10 ** 6], [8 + P, 10 ** 6], [8 + P + pad // 2, 10 ** 6]):
            yield huge_skip_replies_case(rng, P, pad, sched)
    for variant in (0, 1):
        for _ in range(6 if tier == "quick" else 300):
            yield handoff_replies_case(rng, variant)


def oracle(line, impl_line):
    mode, a = parse_case(line)
    o = parse_out(impl_line)
    if o is None or any(x == [18446744073710440504] for x in o):
        return "implementation crashed or panicked"
    if mode == "req_run":
        wire, maxc = a[2], a[1][0]
        exp, phase = expected_req_output(wire, maxc)
        if o[1] == [1]:
            n = o[2][3]
            outb = o[4 + 2 * n]
        else:
            outb = o[2]
        if phase[0] == "stream":
            if o[1] != [1]:
                return "complete preamble not parsed"
            return True if outb == exp else "request parser emitted %d bytes, the specification owes %d (%s ...)" % (len(outb), len(exp), exp[:24])
        return True if exp[:len(outb)] == outb else "emitted bytes are not a prefix of the owed replies"
    if mode == "str_run":
        wire, maxc, ops = a[2], a[1][0], a[3:]
        recs, _ = parse_records(wire)
        rid = recs[0][1]
        k = 0
        while not (recs[k][0] == PARAMS and recs[k][1] == rid and not recs[k][2]):
            k += 1
        rep, _ = replies_for(recs[k + 1:], maxc, ("stream", rid))
        exp = [b for _, rb in rep for b in rb]
        # reconstruct everything the parser appended to its output buffer
        i, ob, total = 3, [], []
        if o[0][0] != 1:
            return "preamble did not parse"
        for op in ops:
            if i >= len(o):
                break
            tag = o[i][0]
            if tag == 10:
                i += 1
            elif tag in (1, 2):
                nob = o[i + 3]
                added = o[i][3] if tag == 1 else len(nob) - len(ob)
                if nob[:len(ob)] != ob or (tag == 1 and len(nob) - len(ob) != added):
                    return "Status.output does not equal the bytes appended to output_buffer"
                total += nob[len(ob):]
                ob = nob
                i += 4
            elif tag == 5:
                kk = op[1]
                exp_ob = [] if kk >= len(ob) else ob[kk:]
                if o[i + 1] != exp_ob:
                    return "consume_output(%d) dropped or repeated bytes" % kk
                ob = exp_ob
                i += 2
            elif tag in (3, 4, 6):
                i += 2
            elif tag == 7:
                # the hand-off to the next request parser (class handoff-replies): what the request parser emits for the rest of
                # the wire must be exactly what is owed for the records from the Stdin terminator on, up to the end of preamble 2
                if o[i][1] != 0 or o[i][2] != 1:
                    return "the hand-off to the next request failed on compliant traffic (%s)" % o[i][1:]
                term = next(j for j in range(k + 1, len(recs)) if recs[j][0] == STDIN and recs[j][1] == rid and not recs[j][2])
                rep1, _ = replies_for(recs[k + 1:term], maxc, ("stream", rid))
                end2 = next(j for j in range(term, len(recs)) if recs[j][0] == PARAMS and recs[j][1] == 2 and not recs[j][2])
                rep2, _ = replies_for(recs[term:end2 + 1], maxc, ("idle",))
                exp1 = [b for _, rb in rep1 for b in rb]
                exp2 = [b for _, rb in rep2 for b in rb]
                if total != exp1:
                    return "stream phase emitted %d reply bytes, owed %d" % (len(total), len(exp1))
                if o[i + 2] != exp2:
                    return ("after the hand-off the request parser emitted %d reply bytes, owed %d: a record was answered twice or not at all"
                            % (len(o[i + 2]), len(exp2)))
                return True
            else:
                break
        if exp[:len(total)] != total:
            return "stream parser emitted bytes that are not a prefix of the owed replies"
        if o[-1][0] == 9 and o[-1][1] == 0 and total != exp and not any(x[0] == 2 for x in o if x):
            return "wire fully parsed: emitted %d reply bytes, owed %d" % (len(total), len(exp))
        return True
    return None
