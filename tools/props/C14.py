"""C14 - graceful shutdown: in-flight requests finish, nothing new starts, waiter woken."""
import conngen
from conngen import *  # noqa
from fvgen import parse_case, parse_out
import importlib.util, os

_spec = importlib.util.spec_from_file_location("c07", os.path.join(os.path.dirname(__file__), "C07.py"))
C07 = importlib.util.module_from_spec(_spec)
_spec.loader.exec_module(C07)

RULE = ("(a) connection part: scripted connections of 1..3 requests with Pending-heavy transports (many scheduling steps) and shutdown requested "
        "before scheduling step k for every k = 1..K+2 (before the first read, between requests, during the preamble, during the handler, during "
        "close), plus idle connections (the client sends nothing more) that must be woken by the shutdown; (b) wait-group part: wg_run histories with "
        "0..4 tokens and the last token drop forced into every window of WaitGroupFuture::poll (before the upgrade, between upgrade and waker "
        "registration, between registration and the drop of the temporary reference, after the poll) through the cfg(fastcgi_server_verif) hook; (c) wg_race: real two-thread races of one poll against the last drop, "
        "10^5 trials each with the timing steered towards coincidence (a supporting search with a sound oracle: it can miss, it cannot raise a false alarm). "
        "(d) tok_run histories with several clones shut down separately, idle and in-flight connections, and clients of stalled connections draining their sockets after the shutdown (every request in flight completes, then the connection ends; each clone's shutdown future completes exactly when its last token is gone). "
        "Oracle: every started request is completed with its EndRequest, no handler starts in a scheduling step >= k, the task returns, the shutdown "
        "future is not ready while a token lives and ready (with a wake) afterwards. Non-trivial: every case; distinct = distinct case lines.")
ASSUMPTIONS = C07.ASSUMPTIONS + ["Arc/Weak/AtomicWaker are modelled by their documented atomic behaviour; the hook only adds scheduling points"]


def gen_cases(rng, tier):
    quick = tier == "quick"
    for _ in range(40 if quick else 1500):
        B = rng.choice([32, 64, 256])
        k = rng.randrange(1, 4)
        segs, scripts = [], []
        for j in range(k):
            w, m = C07.gen_request(rng, j + 1, True, B)
            segs.append((j, 0, w))
            scripts.append([("readall",), ("writeable",), ("write", STDOUT, [7] * rng.choice([1, 30])), ("ret", 0, j)])
        idle = rng.random() < 0.6
        if idle:
            segs.append((99, 0, [1, 1, 0, 9, 0, 8, 0, 0]))       # never released: the client stays idle
        rs = [rng.choice([0, 0, 1, 16, 10 ** 6]) for _ in range(60)]
        ws = [rng.choice([0, 0, 8, 10 ** 6]) for _ in range(40)]
        K = 45
        for stop in range(1, K + 3):
            yield conn_case(B, 3, segs, scripts, rs, ws, rng.choice([0, 1]), stop_at=stop), ["shutdown", "idle" if idle else "eof"]
        yield conn_case(B, 3, segs, scripts, rs, ws, 1, stop_at=0), ["shutdown", "never"]
    yield from wg_cases(rng, tier)
    yield from clone_shutdown_cases(rng, tier)


_spec13 = importlib.util.spec_from_file_location("c13", os.path.join(os.path.dirname(__file__), "C13.py"))
C13 = importlib.util.module_from_spec(_spec13)
_spec13.loader.exec_module(C13)


def clone_shutdown_cases(rng, tier):
    """several clones of one runner, shut down separately: a clone's shutdown future completes exactly when none of ITS tokens is alive
    (idle connections end at once, a token still in the caller's hands or a request in flight keeps it pending), whatever the other
    clones do; the harness polls every such future after every step and requires the wake-up when its last token goes"""
    from fvgen import case
    for _ in range(60 if tier == "quick" else 3000):
        maxc = rng.choice([2, 3, 4])
        ops, n = [], 0
        for _ in range(rng.randrange(2, maxc + 1)):
            ops += [1, rng.choice([0, 1, 2]), 2, n]
            ops += rng.choice([[], [5, n], [8, n], [9, n]])
            n += 1
        for cl in rng.sample([1, 2], rng.choice([1, 2])):
            ops += [7, cl]
            for i in rng.sample(range(n), rng.randrange(0, n + 1)):
                ops += [rng.choice([3, 10, 10, 11, 12]), i]      # dropped (normally, or by unwinding: a panicking handler / an unrelated panic), or (a stalled one) its client drains the socket
        for i in range(n):
            ops += [3, i]
        yield case("tok_run", [maxc], ops), ["clone-shutdown"]
    # several requests of ONE clone are in flight (epilogues stuck) when the clone is shut down; then the clients drain their sockets one
    # after the other: every connection completes its request and ends (KeepConn or not), the shutdown future completes after the last
    for _ in range(30 if tier == "quick" else 1500):
        maxc = rng.choice([2, 3, 4])
        n = rng.randrange(2, maxc + 1)
        ops = []
        for i in range(n):
            ops += [1, 1, 2, i, rng.choice([9, 9, 8]), i]
        ops += [7, 1]
        order = list(range(n))
        rng.shuffle(order)
        for i in order:
            ops += [10, i]
        yield case("tok_run", [maxc], ops), ["clone-shutdown", "in-flight-at-shutdown"]


def wg_cases(rng, tier):
    from fvgen import case
    n = 200 if tier == "quick" else 20000
    for _ in range(n):
        tokens = rng.randrange(0, 5)
        ops = []
        live = tokens
        polled = False
        for _ in range(rng.randrange(1, 12)):
            r = rng.random()
            if r < 0.4 and live:
                ops.append(1)                      # drop a token (outside a poll)
                live -= 1
            elif r < 0.8:
                # poll, with a token drop forced into window w (0 = none)
                w = rng.choice([0, 0, 1, 2, 3]) if live else 0
                ops.append(10 + w)
                if w:
                    live -= 1
            else:
                ops.append(2)                      # clone a token
                live += 1 if live else 0
        ops.append(10)
        yield case("wg_run", [tokens], ops), ["wg", "wg-last-in-window" if any(o > 10 for o in ops) else "wg-plain"]
    # real two-thread races of the poll against the last drop: a supporting search for windows inside WaitGroupFuture::poll that the
    # deterministic hook points do not cover (it can miss; its oracle is sound)
    # very many live tokens on one runner at the moment of shutdown (the stop notification must reach ALL of them)
    for n in ([5, 65540, 70000] if tier == "quick" else [4, 5, 100, 65535, 65536, 65539, 65540, 70000, 131075]):
        yield case("tok_many", [n]), ["tok-many"]
    for i in range(3 if tier == "quick" else 12):
        yield case("wg_race", [100000 + i if tier == "quick" else 600000 + i]), ["wg-race"]


def nontrivial(line, tags):
    return True


def min_classes(tier):
    return {"shutdown": 1000, "idle": 300, "wg": 150, "wg-last-in-window": 60, "wg-race": 3, "clone-shutdown": 60, "tok-many": 3, "in-flight-at-shutdown": 30}


def oracle(line, impl_line):
    mode, a = parse_case(line)
    o = parse_out(impl_line)
    if o is None or o[0] == [18446744073710440504]:
        return "crashed or panicked"
    if mode == "tok_run":
        v = C13.oracle(line, impl_line)
        return ("a clone's shutdown future was ready while one of its tokens lived, pending (or not woken) after its last token had gone, or the "
                "token history itself is wrong") if v is not True and "crashed" in str(v) else v
    if mode == "tok_many":
        return True if o == [[1]] else "with %s live tokens a connection was not told about the shutdown, or the shutdown future misbehaved" % a[0]
    if mode == "wg_race":
        return True if o == [[0]] else ("a wake-up was lost in a real two-thread race: the shutdown future returned Pending, the last token was "
                                         "dropped, and the waker it registered was never woken")
    if mode == "wg_run":
        # one row [ready, total wakes, live tokens after] per poll, until the first Ready
        live = a[0][0] if a and a[0] else 0
        ops = a[1] if len(a) > 1 else []
        i = 0
        last_pending_wakes = None
        prev_wakes = 0
        for op in ops:
            if op == 1:
                if live:
                    live -= 1
            elif op >= 10:
                if i >= len(o):
                    return "observation shorter than the history"
                ready, wakes, after = o[i]
                i += 1
                w = op - 10
                before = live
                if w in (1, 2, 3, 4) and live:
                    live -= 1
                if after != live:
                    return "token count %d does not match the history (%d)" % (after, live)
                alive_at_upgrade = before - (1 if (w == 1 and before) else 0)
                if ready and alive_at_upgrade > 0:
                    return "the shutdown future completed while %d token(s) were alive" % alive_at_upgrade
                if not ready and alive_at_upgrade == 0:
                    return "the shutdown future is pending although no token is alive"
                if ready:
                    if last_pending_wakes is not None and wakes <= last_pending_wakes:
                        return "the shutdown future became ready but the task registered by the last pending poll was never woken"
                    break
                if live == 0 and wakes < 1:
                    return "all tokens dropped and the last poll returned Pending, but the waker was never invoked (lost wake-up)"
                if live == 0 and last_pending_wakes is not None and wakes <= last_pending_wakes and before > 0:
                    return "the final token drop did not wake the task registered by the latest poll"
                last_pending_wakes = prev_wakes      # wakes before this pending poll registered its waker
                prev_wakes = wakes
        return True
    cfg, rscript, wscript, segs, scripts = C07.decode_case(line)
    head, cons, wlog, inv, shut = C07.parse_events(o)
    stop = cfg[3]
    if stop == 0 and head[0] == 1 and any(s[0] >= 99 for s in segs):
        return True          # baseline without shutdown: an idle client keeps the connection waiting, as it should
    if head[0] != 0:
        return "the connection task did not stop after shutdown was requested (outcome %s)" % head
    for iv in inv:
        if stop and iv["epoch"] >= stop:
            return "a handler invocation began in scheduling step %d although shutdown was requested before step %d" % (iv["epoch"], stop)
    recs, tail = parse_records(wlog)
    recs2 = C07.strip_replies(cfg, segs, recs)
    if recs2 is None:
        return None
    ends = [r for r in recs2 if r[0] == END]
    if len(ends) != len(inv):
        return "%d handler invocations but %d EndRequest records: an in-flight request was not completed" % (len(inv), len(ends))
    if shut is None or shut[1] != 1:
        return "the shutdown future did not complete after the last token was dropped"
    if shut[0] == 1:
        return "the shutdown future completed while the connection's token was still alive"
    return True
