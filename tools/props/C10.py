"""C10 - output records are complete, never interleaved, carry exactly the written bytes."""
import conngen
from conngen import *  # noqa
from fvgen import parse_case, parse_out, fmt_arg
import importlib.util, os

_spec = importlib.util.spec_from_file_location("c07", os.path.join(os.path.dirname(__file__), "C07.py"))
C07 = importlib.util.module_from_spec(_spec)
_spec.loader.exec_module(C07)

RULE = ("writers: 1..3 StreamWriters (stdout, stderr, clones) whose write_all futures are polled one at a time in a scripted order (every "
        "interleaving the order script expresses, then round-robin) inside one handler, together with the request's own reply flushing (a "
        "GetValues query pending in the parser) polled through the same lock; write sizes 0, 1, 7, 8, 9, 100, 65535, 65536+; transports with "
        "native vectored writes and with the first-slice fallback, accepting any 1..n bytes per call (cuts inside the header, at the "
        "header/payload seam, inside the padding) or returning Pending at any call; plus the single-writer connections of C07. Oracle: the "
        "transport log decodes into complete records, each data record belongs to exactly one writer (type, request id), per-writer payloads "
        "concatenate to exactly the bytes written, padding < 8 with body+padding a multiple of 8, at most 65535 payload bytes per record, the "
        "parser's reply is contiguous. Non-trivial: >= 2 participants and a scripted (non-greedy) transport; distinct = distinct case lines.")
ASSUMPTIONS = C07.ASSUMPTIONS + ["futures-util Mutex modelled as an owner field (taken by whoever polls first while free); fairness / wake-up order not claimed",
                                 "preconditions: same buffer on re-poll, flush driven to completion (write_all futures)"]
SIZES = [0, 1, 7, 8, 9, 100]


def one(rng, big=False):
    B = rng.choice([64, 256, 8192])
    rid = rng.choice([1, 300, 65535])
    nw = rng.randrange(1, 4)
    specs = []
    for i in range(nw):
        st = rng.choice([STDOUT, STDERR])
        clone = 999
        if i and rng.random() < 0.4:
            clone = rng.randrange(i)
        n = rng.choice(SIZES + [rng.randrange(0, 400)])
        if big and i == 0:
            n = rng.choice([65535, 65536, 70000])
        specs.append([st, clone] + [rng.randrange(256) for _ in range(n)])
    query = rng.random() < 0.6
    wire = flat(minimal_preamble(rid, 1, flags=0)) + (record(GETVALUES, 0, nv_all([(b"FCGI_MPXS_CONNS", b"")]), rng.choice([0, 3])) if query else [])
    steps = rng.randrange(0, 40)
    order = [rng.choice(list(range(nw)) + ([99] if query else [])) for _ in range(steps)]
    style = rng.choice(["none", "ones", "small", "mixed", "seams"])
    if style == "none":
        ws = []
    elif style == "ones":
        ws = [1] * 400
    elif style == "small":
        ws = [rng.randrange(1, 9) for _ in range(200)]
    elif style == "seams":
        ws = [rng.choice([0, 3, 5, 8, 8, 9, 1]) for _ in range(200)]
    else:
        ws = [rng.choice([0, 0, 1, 4, 8, 20, 10 ** 6]) for _ in range(200)]
    vect = rng.choice([0, 1])
    tags = ["writers", "w%d" % nw, "vectored" if vect else "first-slice"] + (["query"] if query else []) + (["scripted"] if ws else [])
    return "writers " + " ".join(fmt_arg(x) for x in [[B, 1, vect], ws, order, wire] + specs), tags


def big_greedy_case(rng, n, ws):
    """a record whose body (payload + padding) is 65536 bytes or close to it, on a vectored transport that accepts everything it is
    offered in one call (or the 8 header bytes first, then everything): counts that do not fit 16 bits"""
    rid = rng.choice([1, 300])
    wire = flat(minimal_preamble(rid, 1, flags=0))
    specs = [[rng.choice([STDOUT, STDERR]), 999] + [rng.randrange(256) for _ in range(n)]]
    if rng.random() < 0.5:
        specs.append([STDERR, 999] + [rng.randrange(256) for _ in range(rng.choice([0, 3, 9]))])
    order = [rng.randrange(len(specs)) for _ in range(rng.randrange(0, 6))]
    return ("writers " + " ".join(fmt_arg(x) for x in [[rng.choice([64, 8192]), 1, 1], ws, order, wire] + specs),
            ["writers", "w%d" % len(specs), "vectored", "big", "big-greedy"] + (["scripted"] if ws else []))


def close_after_half_flush_case(rng):
    c, t = C07.close_after_half_flush_case(rng)
    return c, ["conn", "close-after-half-flush"]


def gen_cases(rng, tier):
    quick = tier == "quick"
    for _ in range(1200 if quick else 60000):
        yield one(rng)
    for _ in range(40 if quick else 2000):
        yield close_after_half_flush_case(rng)
    for n in ([65528, 65529, 65535, 65536, 131070] if quick else [65527, 65528, 65529, 65530, 65534, 65535, 65536, 65537, 70000, 131070, 131071]):
        for ws in ([], [8, 10 ** 6, 10 ** 6, 10 ** 6], [3, 5, 10 ** 6, 10 ** 6, 10 ** 6], [10 ** 6] * 6):
            yield big_greedy_case(rng, n, ws)
    for _ in range(4 if quick else 100):
        c, t = one(rng, big=True)
        yield c, t + ["big"]
    # the single-task connections of C07 as well (writers used sequentially)
    for _ in range(200 if quick else 10000):
        c, t = C07.one(rng)
        yield c, ["conn"] + t
    for _ in range(24 if quick else 1000):
        yield late_writer_case(rng)


def late_writer_case(rng):
    """the FIRST StreamWriter of a request is created while a management reply is only partly on the wire: the handler polls a read once
    (the reply flush starts, the transport takes a few bytes and says not-ready), drops that read, and only then obtains a writer and
    writes or flushes through it.  Whatever becomes of the task (on the unchanged crate it waits for the output lock: known finding F6 of
    C08), the transport log must stay a prefix of a sequence of complete records: nothing may be written INTO the unfinished reply"""
    rid = 1
    q = rng.choice([record(GETVALUES, 0, nv(list(rng.choice([b"FCGI_MAX_CONNS", b"FCGI_MPXS_CONNS"])), []), rng.choice([0, 3])),
                    record(rng.choice([12, 99]), rng.choice([0, rid]), [1, 2, 3], 0)])
    recs = minimal_preamble(rid, rng.choice([1, 1, 3]), flags=rng.choice([0, 1])) + [q, record(STDIN, rid, [97, 98, 99], 0), record(STDIN, rid, [], 0)]
    segs = [(0, 0, flat(recs))]
    then = rng.choice([[("write", STDOUT, [104, 105])], [("write", STDERR, [33] * 20)], [("flush", STDERR)], [("write", STDOUT, [104, 105]), ("read", 16)], [], []])          # ([]: no writer at all - the handler just returns and close finishes the reply)
    scripts = [rng.choice([[], [("read", 16)]]) + [("poll1", rng.choice([1, 5, 64]))] + then + [("ret", 0, 0)]]
    ws = [rng.choice([1, 3, 5, 8, 20]), 0] + [10 ** 6] * 10
    return conn_case(rng.choice([64, 8192]), 1, segs, scripts, [], ws, rng.choice([0, 1])), ["late-writer", "query"]


def framing_rule(line, impl_line):
    o = parse_out(impl_line)
    if o is None or o[0] == [18446744073710440504]:
        return "connection task crashed or panicked"
    cfg, rs, ws, segs, scripts = C07.decode_case(line)
    head, cons, wlog, inv, shut = C07.parse_events(o)
    recs, tail = parse_records(wlog)
    if tail not in ("clean", "cut"):
        return "the transport log is not a prefix of a record sequence (%s): something was written into an unfinished record" % (tail,)
    rr, _ = parse_records(segs[0][2])
    rid = [r for r in rr if r[0] == BEGIN][0][1]
    for t, i, body, pad in recs:
        if t not in (STDOUT, STDERR, END, GETVALUESRESULT, UNKNOWN) or i not in (0, rid) or pad >= 8 or (t in (STDOUT, STDERR) and (len(body) + pad) % 8):
            return "the transport log contains a malformed record (type %d, id %d, %d + %d bytes): records were interleaved" % (t, i, len(body), pad)
    if tail == "cut" and head[0] == 0:
        return "the connection task returned leaving an unfinished record on the wire although the transport never failed"
    if tail == "cut":
        # the unfinished record at the end must itself start like a record the server sends
        done = sum(8 + len(b) + p for _, _, b, p in recs)
        rest = wlog[done:]
        if rest[:1] != [1] or (len(rest) > 1 and rest[1] not in (STDOUT, STDERR, END, GETVALUESRESULT, UNKNOWN)):
            return "the transport log ends in bytes that are not the beginning of a record"
    return True


def nontrivial(line, tags):
    return ("w2" in tags or "w3" in tags or "query" in tags) and "scripted" in tags or "conn" in tags


def min_classes(tier):
    return {"w2": 250, "w3": 250, "query": 400, "vectored": 300, "first-slice": 300, "big": 4, "conn": 150, "close-after-half-flush": 40, "late-writer": 24}


def oracle(line, impl_line):
    if line.startswith("conn_run"):
        if any(op and op[0] == "poll1" for sc in C07.decode_case(line)[4] for op in C07.handler_ops(sc)):
            return framing_rule(line, impl_line)          # class late-writer (C07's oracle expects a completed connection)
        return C07.oracle(line, impl_line)
    mode, a = parse_case(line)
    o = parse_out(impl_line)
    if o is None or o[0] == [18446744073710440504]:
        return "crashed or panicked"
    a = a + [[]] * (4 - len(a))
    cfg, wscript, order, wire, specs = a[0], a[1], a[2], a[3], a[4:]
    wlog = o[1]
    recs, tail = parse_records(wlog)
    if tail != "clean":
        return "the transport log is not a sequence of complete records (%s)" % (tail,)
    rr, _ = parse_records(wire)
    rid = rr[0][1]
    # per stream type: everything the writers of that type wrote, in some interleaving of whole write_all payloads per writer
    by_type = {STDOUT: [], STDERR: []}
    for s in specs:
        st = s[0] if s[1] == 999 else None
    types = []
    for s in specs:
        types.append(s[0] if s[1] == 999 else types[s[1]])
    data = [s[2:] for s in specs]
    steps = o[2:]
    finished = [any(st[0] == i and st[1] == 1 for st in steps) for i in range(len(specs))]
    for t in (STDOUT, STDERR):
        payload_recs = [r for r in recs if r[0] == t and r[1] == rid and r[2]]
        for r in payload_recs:
            if len(r[2]) > 65535 or r[3] >= 8 or (len(r[2]) + r[3]) % 8:
                return "record of stream %d has payload %d / padding %d violating the framing rules" % (t, len(r[2]), r[3])
        got = [x for r in payload_recs for x in r[2]]
        mine = [i for i in range(len(specs)) if types[i] == t]
        want_len = sum(len(data[i]) for i in mine if finished[i])
        # each record must be a chunk of exactly one writer, chunks of one writer in order: check by greedy matching
        ptr = {i: 0 for i in mine}
        for r in payload_recs:
            ok = False
            for i in mine:
                d = data[i]
                if d[ptr[i]:ptr[i] + len(r[2])] == r[2] and (len(r[2]) == min(65535, len(d) - ptr[i])):
                    ptr[i] += len(r[2])
                    ok = True
                    break
            if not ok:
                return "a record of stream %d is not the next chunk of any writer of that stream (interleaved or corrupted payload)" % t
        for i in mine:
            if finished[i] and ptr[i] != len(data[i]):
                return "writer %d completed %d bytes but only %d of them reached the client" % (i, len(data[i]), ptr[i])
    # everything else must be the parser's reply and the epilogue, each a complete contiguous record
    others = [r for r in recs if not (r[0] in (STDOUT, STDERR) and r[1] == rid and r[2])]
    for r in others:
        if r[0] not in (GETVALUESRESULT, STDOUT, STDERR, END, UNKNOWN):
            return "unexpected record type %d in the transport log" % r[0]
    return True
