"""C05 - no input byte is lost, duplicated or reordered across parser hand-offs."""
import fcgen
from fcgen import *  # noqa
from fvgen import case, parse_case, parse_out, fmt_arg
import strobs

RULE = ("chains of k = 1..4 (quick) / 1..8 (thorough) sequential requests on one buffer through the conversion chain "
        "(request parser -> stream parser -> request parser ...), per-request reader policy never / mid-record / to the end (with direct "
        "and buffered reads), random look-ahead (the request parser reads greedily, so hand-offs happen with 0..full-buffer bytes buffered, "
        "ending mid-header / mid-payload / mid-padding), buffer sizes 64..8192 and read chunk patterns; plus into_input at record boundaries. "
        "Oracle: every request of the chain shows exactly its own id/role/flags/environment and delivered stream bytes are a prefix of its own "
        "stream. Non-trivial: k >= 2 or partial reading; distinct = distinct case lines.")
ASSUMPTIONS = ["each request's pairs satisfy the documented buffer bound"]
BOTH_PROFILES = True


def release_view(line, out):
    return out


def gen_chain(rng, k, B):
    recs_all, ops, meta, ends = [], [], [], []
    for j in range(k):
        rid = rng.choice([1, 2, 300, 65535])
        role = rng.choice([1, 1, 2, 3])
        flags = rng.choice([0, 1, 255])
        pairs = rand_pairs(rng, rng.randrange(0, 4), min(B - 13, 40))
        recs, _ = preamble(rng, rid, role, flags, pairs, junk_rate=0.15, idle=rng.choice([0, 0, 1]))
        contents = {t: [rng.randrange(256) for _ in range(rng.choice([0, 3, 40, rng.randrange(0, 200)]))] for t in ROLE_STREAMS[role]}
        srecs = streams_part(rng, rid, role, contents, junk_rate=0.15, no_begin=True)
        recs_all += recs + srecs
        ends.append(len(flat(recs_all)))
        meta.append((rid, role, flags, pairs, contents))
        pol = rng.choice(["never", "mid", "end"])
        if pol == "mid":
            for _ in range(rng.randrange(1, 4)):
                ops.append(rng.choice([[0, rng.randrange(1, 60)], [1, rng.randrange(1, 60), rng.randrange(1, 30)]]))
                ops.append([2, rng.randrange(0, 20)])
        elif pol == "end":
            for _ in range(len(flat(srecs)) // 16 + 4):
                ops += [[0, 10 ** 6], [2, 10 ** 6], [4, 10 ** 6], [3]]
        if j + 1 < k:
            ops.append([6, "REL%d" % j])
    ops.append(rng.choice([[8], [0, 0], [3]]))
    # the client releases request j+1 only after request j was closed
    for o in ops:
        if len(o) == 2 and isinstance(o[1], str):
            j = int(o[1][3:])
            o[1] = ends[j + 1] - ends[j]
    return flat(recs_all), ops, meta, ends[0]


def gen_cases(rng, tier):
    quick = tier == "quick"
    for _ in range(500 if quick else 30000):
        k = rng.randrange(1, 5 if quick else 9)
        B = rng.choice([64, 72, 128, 256, 8192])
        w, ops, meta, gate0 = gen_chain(rng, k, B)
        tags = ["chain", "k%d" % min(k, 4)]
        yield "str_run " + " ".join(fmt_arg(x) for x in [[B, gate0], [3], w] + ops), tags
    # into_input at a record boundary with look-ahead
    for _ in range(150 if quick else 5000):
        rid = 1
        recs = minimal_preamble(rid, 1) + streams_part(rng, rid, 1, {STDIN: [rng.randrange(256) for _ in range(rng.randrange(0, 90))]}, junk_rate=0.2, no_begin=True)
        w = flat(recs) + flat(minimal_preamble(2, 1))[:rng.randrange(0, 30)]
        ops = [[5, 0]] + [[0, rng.randrange(0, 40)] for _ in range(rng.randrange(0, 10))] + [[8]]
        yield "str_run " + " ".join(fmt_arg(x) for x in [[256], [3], w] + ops), ["into-input"]


def nontrivial(line, tags):
    return "k1" not in tags


def min_classes(tier):
    return {"k2": 80, "k3": 80, "k4": 80, "into-input": 100}


def oracle(line, impl_line):
    mode, a = parse_case(line)
    o = parse_out(impl_line)
    if o is None or any(x == [888888] for x in o):
        return "implementation crashed or panicked"
    wire, ops = a[2], a[3:]
    recs, _ = parse_records(wire)
    # expected requests, in order: a valid BeginRequest seen while no Params phase is open starts one
    exp = []
    i = 0
    while i < len(recs):
        t, rid, body, pad = recs[i]
        i += 1
        if t == BEGIN and len(body) == 8 and 1 <= body[0] * 256 + body[1] <= 3 and rid != 0:
            payload = []
            while i < len(recs) and not (recs[i][0] == PARAMS and recs[i][1] == rid and not recs[i][2]):
                if recs[i][0] == PARAMS and recs[i][1] == rid:
                    payload += recs[i][2]
                i += 1
            if i == len(recs):
                break
            i += 1
            exp.append([rid, body[0] * 256 + body[1], body[2], expected_env(nv_decode(payload)[0])])
    got = []
    last = None
    for op, ev in strobs.walk(ops, o):
        last = ev
        if ev["kind"] == "next" and ev["ok"] and ev["done"]:
            got.append(ev["req"])
        elif ev["kind"] == "next":
            return ("the hand-off to the next request failed on compliant traffic (%s): bytes were lost, duplicated or "
                    "reordered across the conversion" % (ev.get("code") or "request not completed"))
        elif ev["kind"] == "panic":
            return "panic during the conversion chain"
    for g, e in zip(got, exp[1:]):
        if g != e[:4]:
            return "request %s after a hand-off differs from what was sent (%s)" % (g[:3], e[:3])
    # into_input: leftover must be a contiguous part of the fed input that ends where feeding stopped
    if last and last["kind"] == "into_input" and last["ok"]:
        left = last["left"]
        if left and not any(wire[s0:s0 + len(left)] == left for s0 in range(len(wire) - len(left) + 1)):
            return "into_input returned bytes that are not a contiguous part of the fed input"
    return True
