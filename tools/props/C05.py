"""C05 - no input byte is lost, duplicated or reordered across parser hand-offs."""
import fcgen
from fcgen import *  # noqa
from fvgen import case, parse_case, parse_out, fmt_arg
import strobs

RULE = ("chains of k = 1..4 (quick) / 1..8 (thorough) sequential requests on one buffer through the conversion chain "
        "(request parser -> stream parser -> request parser ...), per-request reader policy never / mid-record / to the end (with direct "
        "and buffered reads), random look-ahead (the request parser reads greedily, so hand-offs happen with 0..full-buffer bytes buffered, "
        "ending mid-header / mid-payload / mid-padding), buffer sizes 64..8192 and read chunk patterns; plus into_input at record boundaries; plus long (256..1025-byte) records skipped byte by byte with is_record_boundary / into_input / conversion asked at every amount of outstanding payload. "
        "Oracle: every request of the chain shows exactly its own id/role/flags/environment and delivered stream bytes are a prefix of its own "
        "stream. Class aborted-in-chain: requests begun and aborted during Params (AbortRequest with body and padding) in front of requests of the chain. Non-trivial: k >= 2 or partial reading; distinct = distinct case lines.")
ASSUMPTIONS = ["each request's pairs satisfy the documented buffer bound"]
BOTH_PROFILES = True


def release_view(line, out):
    return out


def gen_chain(rng, k, B, aborted_rate=0):
    recs_all, ops, meta, ends = [], [], [], []
    for j in range(k):
        rid = rng.choice([1, 2, 300, 65535])
        role = rng.choice([1, 1, 2, 3])
        flags = rng.choice([0, 1, 255])
        pairs = rand_pairs(rng, rng.randrange(0, 4), min(B - 13, 40))
        recs, _ = preamble(rng, rid, role, flags, pairs, junk_rate=0.15, idle=rng.choice([0, 0, 1]))
        if aborted_rate and rng.random() < aborted_rate:
            # in front of it the client starts another request and aborts it during Params - the AbortRequest record may carry a body
            # and padding, like any record -: nothing is handed out for it, the request behind it is the next one
            rid0 = rng.choice([1, 9, 300])
            part = nv_all(rand_pairs(rng, 1, 12))
            ab = record(ABORT, rid0, [rng.randrange(256) for _ in range(rng.choice([0, 1, 8, 8, 13]))], rng.choice([0, 0, 3]))
            recs = [begin(rid0, rng.choice([1, 2, 3]), rng.choice([0, 1]), 0), record(PARAMS, rid0, part[:rng.randrange(1, len(part) + 1)], rng.choice([0, 2]))] + [ab] + recs
        contents = {t: [rng.randrange(256) for _ in range(rng.choice([0, 3, 40, rng.randrange(0, 200)]))] for t in ROLE_STREAMS[role]}
        srecs = streams_part(rng, rid, role, contents, junk_rate=0.15, no_begin=True)
        recs_all += recs + srecs
        ends.append(len(flat(recs_all)))
        meta.append((rid, role, flags, pairs, contents))
        pol = rng.choice(["never", "mid", "end"])
        if pol == "mid":
            for _ in range(rng.randrange(1, 4)):
                ops.append(rng.choice([[0, rng.randrange(1, 60)], [1, rng.randrange(1, 60), rng.randrange(1, 30)]]))
                ops.append([2, rng.randrange(0, 20)])
                if rng.random() < 0.4:
                    ops.append([3])          # compaction with a partly consumed stream buffer
            if role == 3 and rng.random() < 0.6:
                # the Filter stops reading Stdin where it is (possibly in the middle of a record) and goes on with Data
                ops.append([5, DATA])
                for _ in range(rng.randrange(1, 4)):
                    ops.append(rng.choice([[0, rng.randrange(1, 80)], [1, rng.randrange(1, 80), rng.randrange(1, 40)]]))
                    ops.append([2, rng.randrange(0, 30)])
        elif pol == "end":
            for _ in range(len(flat(srecs)) // 16 + 4):
                ops += [[0, 10 ** 6], [2, 10 ** 6], [4, 10 ** 6], [3]]
        if j + 1 < k:
            ops.append([6, "REL%d" % j] + rng.choice([[], [], [1], [1], [2]]))
    ops.append(rng.choice([[8], [0, 0], [3]]))
    # the client releases request j+1 only after request j was closed
    for o in ops:
        if len(o) >= 2 and isinstance(o[1], str):
            j = int(o[1][3:])
            o[1] = ends[j + 1] - ends[j]
    return flat(recs_all), ops, meta, ends[0]


def gen_cases(rng, tier):
    quick = tier == "quick"
    for _ in range(500 if quick else 30000):
        k = rng.randrange(1, 5 if quick else 9)
        B = rng.choice([64, 72, 128, 256, 8192])
        w, ops, meta, gate0 = gen_chain(rng, k, B)
        tags = ["chain", "k%d" % min(k, 4)]
        yield "str_run " + " ".join(fmt_arg(x) for x in [[B, gate0], [3], w] + ops), tags
    for _ in range(80 if quick else 4000):
        k = rng.randrange(2, 5)
        B = rng.choice([64, 128, 256, 8192])
        w, ops, meta, gate0 = gen_chain(rng, k, B, aborted_rate=0.6)
        yield "str_run " + " ".join(fmt_arg(x) for x in [[B, gate0], [3], w] + ops), ["chain", "k%d" % min(k, 4), "aborted-in-chain"]
    # into_input at a record boundary with look-ahead
    for _ in range(150 if quick else 5000):
        rid = 1
        recs = minimal_preamble(rid, 1) + streams_part(rng, rid, 1, {STDIN: [rng.randrange(256) for _ in range(rng.randrange(0, 90))]}, junk_rate=0.2, no_begin=True)
        w = flat(recs) + flat(minimal_preamble(2, 1))[:rng.randrange(0, 30)]
        ops = [[5, 0]] + [[0, rng.randrange(0, 40)] for _ in range(rng.randrange(0, 10))] + [[8]]
        yield "str_run " + " ".join(fmt_arg(x) for x in [[256], [3], w] + ops), ["into-input"]


def gen_boundary_cases(rng, tier):
    """a caller that stops reading INSIDE a long record: the parser is told to skip (set_stream(None)) and fed byte by byte, so
    that every amount of outstanding payload (in particular 256, 512, ...) occurs at a point where the caller asks
    is_record_boundary / into_input / converts back"""
    quick = tier == "quick"
    for _ in range(6 if quick else 120):
        P = rng.choice([256, 257, 300, 511, 512, 513, 600, 777, 1025])
        pad = rng.choice([0, 0, 0, 3])
        recs = minimal_preamble(1, 1) + [record(STDIN, 1, [rng.randrange(256) for _ in range(P)], pad), record(STDIN, 1, [], 0)]
        nxt = flat(minimal_preamble(2, 1))
        w = flat(recs) + nxt
        stop = rng.randrange(8, P + 8 + pad + 8)
        tail = rng.choice([[8], [6, len(nxt)], [0, 0]])
        ops = [[5, 0]] + [[0, 1], [3]] * stop + [tail]
        yield "str_run " + " ".join(fmt_arg(x) for x in [[64, len(flat(recs))], [3], w] + ops), ["boundary-flag"]


def gen_maxrecord_cases(rng, tier):
    """request 1's Stdin is ONE maximum-size record (65535 bytes + 1 padding byte) left wholly unread, on a buffer large enough
    to hold it at once: the next request parser skips it in a single step"""
    for B in ([131072] if tier == "quick" else [65792, 131072, 200000]):
        for (P, pad) in ((65535, 1), (65535, 0), (65534, 2), (65530, 255)):
            recs = minimal_preamble(1, 1) + [record(STDIN, 1, [rng.randrange(256) for _ in range(P)], pad), record(STDIN, 1, [], 0)]
            nxt = flat(minimal_preamble(2, 1, pairs=[(b"K", b"v")]))
            w = flat(recs) + nxt
            first = len(flat(minimal_preamble(1, 1)))
            # the client sends the whole of request 1 at once; the stream parser is converted back without reading anything
            ops = [[6, len(nxt), 1], [8]]      # close-like hand-off: no parse when already at a record boundary
            yield "str_run " + " ".join(fmt_arg(x) for x in [[B, len(flat(recs))], [3], w] + ops), ["chain", "k2", "max-record"]


def gen_leftover_cases(rng, tier):
    """request parser alone: a preamble followed by look-ahead bytes under every kind of schedule; the harness additionally feeds
    bytes AFTER the parser reported done (a driver that drains its socket first) and requires them at the tail of the leftover"""
    for _ in range(120 if tier == "quick" else 6000):
        B = rng.choice([64, 128, 8192])
        pairs = rand_pairs(rng, rng.randrange(0, 3), 20)
        recs, _ = preamble(rng, rng.choice([1, 9]), rng.choice([1, 2, 3]), 1, pairs, junk_rate=0.2, idle=rng.choice([0, 1]))
        ahead = flat(streams_part(rng, 1, 1, {STDIN: [rng.randrange(256) for _ in range(rng.randrange(0, 60))]}, junk_rate=0.2, no_begin=True))
        w = flat(recs) + ahead[:rng.randrange(0, len(ahead) + 1)]
        yield case("req_run", [B], [3], w, schedule(rng, len(w))), ["leftover-after-done"]


def gen_compress_partial_cases(rng, tier):
    """the caller takes PART of the buffered stream data, compacts the buffer (public compress()) while more look-ahead than it has
    consumed is still unparsed behind the stream data (a Filter's Data records behind the end of Stdin), and stops reading: the
    hand-off must still return exactly the unread suffix"""
    for _ in range(12 if tier == "quick" else 400):
        rid = rng.choice([1, 300])
        n1 = rng.randrange(20, 120)
        n2 = rng.randrange(n1 + 1, 400)
        recs = minimal_preamble(rid, FILTER) + [record(STDIN, rid, [rng.randrange(256) for _ in range(n1)], rng.choice([0, 5])), record(STDIN, rid, [], 0)]
        recs += [record(DATA, rid, [rng.randrange(256) for _ in range(n2)], rng.choice([0, 3])), record(DATA, rid, [], 0)]
        nxt = flat(minimal_preamble(2, 1, pairs=[(b"K", b"v")]))
        w = flat(recs) + nxt
        k = rng.choice([1, 10, n1 // 2, n1 - 1])
        tail = rng.choice([[[8]], [[6, len(nxt)], [8]], [[6, len(nxt), 1], [8]]])
        ops = [[0, 10 ** 6], [2, k], [3]] + rng.choice([[], [[0, 0]], [[2, 1], [3]]]) + ([[5, 0], [0, 0]] if tail[0][0] == 6 else []) + tail
        yield "str_run " + " ".join(fmt_arg(x) for x in [[rng.choice([1024, 8192]), len(flat(recs))], [3], w] + ops), ["chain", "k2", "compress-partial"]


_gen_cases_chain = gen_cases


def gen_cases(rng, tier):
    yield from _gen_cases_chain(rng, tier)
    yield from gen_boundary_cases(rng, tier)
    yield from gen_maxrecord_cases(rng, tier)
    yield from gen_leftover_cases(rng, tier)
    yield from gen_compress_partial_cases(rng, tier)


def a_gate(ops, o, wire):
    return BOUNDARY_GATE.get("gate", len(wire))


BOUNDARY_GATE = {}


def boundary_rule(wire, ops, o):
    """is_record_boundary may be reported only when the bytes given to the stream parser end inside a record header (or
    exactly between records): never inside a payload or padding"""
    recs, _ = parse_records(wire)
    # the stream section starts after the empty Params record of the first request
    off, start = 0, None
    layout = []
    for t, rid, body, pad in recs:
        ln = 8 + len(body) + pad
        if start is not None:
            layout.append((off - start, ln))
        if start is None and t == PARAMS and not body:
            start = off + ln
        off += ln
    if start is None or len(o) < 3:
        return True
    fed = len(o[2])                      # look-ahead handed over by the request parser
    gate = a_gate(ops, o, wire)
    avail = gate - start - fed           # client bytes of the stream section not yet given to the parser
    space = o[0][2] if len(o[0]) > 2 else 0
    skipping = False
    for op, ev in strobs.walk(ops, o):
        if ev["kind"] == "set_stream" and op[1] == 0 and ev["accepted"]:
            skipping = True
        elif ev["kind"] == "compress":
            space = ev["space"]
        elif ev["kind"] == "parse":
            if not skipping or op[0] != 0 or not ev["ok"]:
                return True
            n = max(0, min(op[1], space, avail))
            fed += n
            avail -= n
            space = ev["space"]
            if ev["boundary"] == 1:
                inside = [s for s, ln in layout if s + 8 <= fed < s + ln]
                if inside:
                    return ("is_record_boundary reported inside a record: %d bytes of the record at stream offset %d are still "
                            "outstanding" % (inside[0] + [ln for s, ln in layout if s == inside[0]][0] - fed, inside[0]))
        else:
            return True
    return True


def nontrivial(line, tags):
    return "k1" not in tags


def min_classes(tier):
    return {"k2": 80, "k3": 80, "k4": 80, "into-input": 100, "boundary-flag": 6, "max-record": 4, "leftover-after-done": 120, "compress-partial": 10, "aborted-in-chain": 80}


def oracle(line, impl_line):
    mode, a = parse_case(line)
    o = parse_out(impl_line)
    if o is None or any(x == [18446744073710440504] for x in o):
        return "implementation crashed or panicked"
    if mode == "req_run":
        return True            # judged by the model comparison and by the in-harness leftover assertions (a panic is caught above)
    wire, ops = a[2], a[3:]
    if ops and ops[0] == [5, 0] and len(ops) > 2 and ops[1] == [0, 1]:
        BOUNDARY_GATE["gate"] = a[0][1] if len(a[0]) > 1 and a[0][1] else len(wire)
        v = boundary_rule(wire, ops, o)
        if v is not True:
            return v
    recs, _ = parse_records(wire)
    # expected requests, in order: a valid BeginRequest seen while no Params phase is open starts one
    exp = []
    i = 0
    while i < len(recs):
        t, rid, body, pad = recs[i]
        i += 1
        if t == BEGIN and len(body) == 8 and 1 <= body[0] * 256 + body[1] <= 3 and rid != 0:
            payload = []
            aborted = False
            while i < len(recs) and not (recs[i][0] == PARAMS and recs[i][1] == rid and not recs[i][2]):
                if recs[i][0] == PARAMS and recs[i][1] == rid:
                    payload += recs[i][2]
                if recs[i][0] == ABORT and recs[i][1] == rid:
                    aborted = True          # aborted during Params: no request is handed out, the next BeginRequest starts afresh
                    i += 1
                    break
                i += 1
            if aborted:
                continue
            if i == len(recs):
                break
            i += 1
            exp.append([rid, body[0] * 256 + body[1], body[2], expected_env(nv_decode(payload)[0])])
    got = []
    last = None
    for op, ev in strobs.walk(ops, o):
        last = ev
        if ev["kind"] == "next" and ev["ok"] and ev["done"]:
            got.append(ev["req"])
        elif ev["kind"] == "next" and op is not None and op[2:3] == [2] and ev.get("code") == [5]:
            break              # the plain hand-off was asked off a record boundary: refused, as documented
        elif ev["kind"] == "next":
            return ("the hand-off to the next request failed on compliant traffic (%s): bytes were lost, duplicated or "
                    "reordered across the conversion" % (ev.get("code") or "request not completed"))
        elif ev["kind"] == "panic":
            return "panic during the conversion chain"
    for g, e in zip(got, exp[1:]):
        if g != e[:4]:
            return "request %s after a hand-off differs from what was sent (%s)" % (g[:3], e[:3])
    # into_input: leftover must be a contiguous part of the fed input that ends where feeding stopped
    if last and last["kind"] == "into_input" and last["ok"]:
        left = last["left"]
        if left and not any(wire[s0:s0 + len(left)] == left for s0 in range(len(wire) - len(left) + 1)):
            return "into_input returned bytes that are not a contiguous part of the fed input"
    return True
