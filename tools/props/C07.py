"""C07 - per request: one handler call, one correct EndRequest, correct connection reuse."""
import conngen
from conngen import *  # noqa
from fvgen import parse_case, parse_out
from fcgi import header, replies_for

RULE = ("conn_run: connections of 1..4 requests (all roles, flag bytes with/without KeepConn, params, input streams from empty to multi-record, "
        "interleaved management / unknown-type records), client releases request i+1 only after EndRequest i was written; handler scripts "
        "from the family {read everything | part | nothing} x {read | fill_buf+consume} x {0..3 writes to stdout/stderr of 0..70000 bytes} x "
        "{every ExitStatus variant}; transport scripts: reads of 1..n bytes or Pending, writes accepting 1..n bytes or Pending at any call, "
        "vectored and first-slice transports; buffer sizes 24..8192. Oracle decodes the transport log record by record. Non-trivial: >= 2 "
        "requests, or partial reads, or scripted short writes; distinct = distinct case lines.")
ASSUMPTIONS = ["single connection task on a deterministic executor; the executor/waker protocol, rustc's async lowering and futures-util's select/"
               "Mutex are modelled by their contract", "handlers await each I/O operation to completion and drop their writers before returning"]
BOTH_PROFILES = False


def gen_request(rng, rid, keep, B):
    role = rng.choice([1, 1, 2, 3])
    flags = (rng.choice([0, 2, 0x80, 0xfe]) | (1 if keep else 0)) & (0xff if keep else 0xfe)
    pairs = rand_pairs(rng, rng.randrange(0, 4), min(40, (B - 13) // 2))
    recs, _ = preamble(rng, rid, role, flags, pairs, junk_rate=0.1, idle=rng.choice([0, 0, 1]))
    contents = {t: [rng.randrange(256) for _ in range(rng.choice([0, 5, 40, rng.randrange(0, 300)]))] for t in ROLE_STREAMS[role]}
    recs += streams_part(rng, rid, role, contents, junk_rate=0.1, no_begin=True)
    return flat(recs), (rid, role, flags, pairs, contents)


def gen_handler(rng, role, contents):
    ops = []
    how = rng.choice(["all", "part", "none", "fill", "mix"])
    if how == "all":
        ops.append(("readall",))
    elif how == "mix":
        # buffered and direct reads on the same stream: look at what is there, take a little, go on with small reads, then the rest
        ops.append(("fill", rng.choice([0, 1, 10])))
        for _ in range(rng.randrange(1, 3)):
            ops.append(("read", rng.choice([1, 7, 16])))
        ops.append(("readall",))
    elif how == "part":
        for _ in range(rng.randrange(1, 4)):
            ops.append(("read", rng.choice([0, 1, 7, 30, 100])))
    elif how == "fill":
        for _ in range(rng.randrange(1, 4)):
            ops.append(("fill", rng.choice([0, 1, 10, 10 ** 6])))
    if role == 3 and rng.random() < 0.5:
        ops.append(("set", DATA))
        ops.append(rng.choice([("readall",), ("read", 20), ("fill", 5)]))
    if rng.random() < 0.85:
        ops.append(("writeable",))
        for _ in range(rng.randrange(0, 4)):
            n = rng.choice([0, 1, 7, 8, 9, 100, rng.randrange(0, 600)])
            ops.append(("write", rng.choice([STDOUT, STDERR]), [rng.randrange(256) for _ in range(n)]))
            if rng.random() < 0.2:
                ops.append(("flush", rng.choice([STDOUT, STDERR])))
    if rng.random() < 0.2 and how != "all":
        ops.append(("read", 16))
    ops.append(rng.choice([("ret", 0, 0), ("ret", 0, rng.randrange(2 ** 32)), ("ret", 2, 0), ("ret", 3, 0), ()]))
    return [o for o in ops if o]


def io_script(rng, n, kind):
    style = rng.choice(["none", "none", "ones", "small", "mixed", "pending"])
    if style == "none":
        return []
    out = []
    for _ in range(n):
        if style == "ones":
            out.append(1)
        elif style == "small":
            out.append(rng.randrange(1, 9))
        elif style == "mixed":
            out.append(rng.choice([0, 1, 3, 8, 50, 10 ** 6]))
        else:
            out.append(rng.choice([0, 0, 1, 10 ** 6]))
    return out


def one(rng, k=None, B=None, big=False):
    k = k or rng.randrange(1, 5)
    B = B or rng.choice([24, 32, 64, 128, 8192])
    segs, scripts, meta = [], [], []
    for j in range(k):
        keep = (j + 1 < k) or rng.random() < 0.3
        w, m = gen_request(rng, rng.choice([1, 2, 77, 65535]), keep, B)
        segs.append((j, 0, w))
        h = gen_handler(rng, m[1], m[4])
        if big and j == 0:
            h = [("readall",), ("writeable",), ("write", STDOUT, [rng.randrange(256) for _ in range(rng.choice([65535, 65536, 70000]))]), ("ret", 0, 0)]
        scripts.append(h)
        meta.append(m)
    total = sum(len(s[2]) for s in segs)
    rs = io_script(rng, min(total, 600), "r")
    ws = io_script(rng, 300, "w")
    tags = ["conn", "k%d" % k]
    if rs:
        tags.append("rscript")
    if ws:
        tags.append("wscript")
    vect = rng.choice([0, 1])
    tags.append("vectored" if vect else "first-slice")
    return conn_case(B, rng.choice([1, 50]), segs, scripts, rs, ws, vect), tags


def long_record_case(rng):
    """request 1 carries ONE long unpadded Stdin record; its handler reads a little and returns, so Request::close skips the rest
    with 1-byte transport reads (every amount of outstanding payload occurs when it asks for the record boundary); request 2
    must then be served"""
    B = rng.choice([64, 128])
    P = rng.choice([300, 520, 600, 777])
    w1 = flat(minimal_preamble(1, 1, flags=1) + [record(STDIN, 1, [rng.randrange(256) for _ in range(P)], 0), record(STDIN, 1, [], 0)])
    w2, m2 = gen_request(rng, 2, False, B)
    segs = [(0, 0, w1), (1, 0, w2)]
    scripts = [[("read", rng.choice([1, 7, 30])), ("ret", 0, 0)], [("readall",), ("ret", 0, 1)]]
    rs = [10 ** 6] * rng.randrange(0, 3) + [1] * (P + 40)
    return conn_case(B, 1, segs, scripts, rs, [], rng.choice([0, 1])), ["conn", "k2", "rscript", "long-record-early-return"]


def max_record_case(rng, P, pad):
    """request 1's Stdin is ONE maximum-size record left wholly unread by a handler that returns at once, on a buffer large
    enough to hold the whole request: Request::close is already at a record boundary, so the NEXT request parser has to skip
    the record (content + padding > 65535 possible) in one step; request 2 must then be served"""
    w1 = flat(minimal_preamble(1, 1, flags=1) + [record(STDIN, 1, [rng.randrange(256) for _ in range(P)], pad), record(STDIN, 1, [], 0)])
    w2, m2 = gen_request(rng, 2, False, 64)
    segs = [(0, 0, w1), (1, 0, w2)]
    scripts = [[("ret", 0, 0)], [("readall",), ("ret", 0, 1)]]
    return conn_case(rng.choice([70000, 131072]), 1, segs, scripts, [], [], rng.choice([0, 1])), ["conn", "k2", "max-record-unread"]


def close_after_half_flush_case(rng):
    """the request's own reply flushing meets close(): a management reply is only PARTLY accepted by the transport (k of its bytes,
    then Pending), the handler abandons that read and returns; Request::close must complete the half-sent record before it writes
    anything else - at every cut position k"""
    rid = rng.choice([1, 300])
    q = record(GETVALUES, 0, nv_all([(b"FCGI_MPXS_CONNS", b""), (b"FCGI_MAX_REQS", b"")][:rng.choice([1, 2])]), rng.choice([0, 3]))
    unk = record(rng.choice([12, 99]), 0, [1, 2, 3], 0)
    w = flat(minimal_preamble(rid, 1, flags=rng.choice([0, 1]))) + rng.choice([q, unk, q + unk]) + record(STDIN, rid, [5, 6, 7], 0) + record(STDIN, rid, [], 0)
    k = rng.randrange(1, 16)
    ws = [k, 0] + rng.choice([[10 ** 6] * 20, [1, 0, 3, 10 ** 6, 10 ** 6, 10 ** 6, 10 ** 6, 10 ** 6], [0, 0, 10 ** 6] * 6])
    h = [("poll1", rng.choice([1, 8, 64]))] + rng.choice([[], [("poll1", 8)]]) + [("ret", 0, rng.choice([0, 3]))]
    return conn_case(rng.choice([64, 256, 8192]), 1, [(0, 0, w)], [h], [10 ** 6] * 5, ws, rng.choice([0, 1])), ["conn", "k1", "wscript", "close-after-half-flush"]



def gen_cases(rng, tier):
    quick = tier == "quick"
    for _ in range(900 if quick else 60000):
        yield one(rng)
    for _ in range(40 if quick else 2000):
        yield close_after_half_flush_case(rng)
    for (P, pad) in ((65535, 1), (65535, 0), (65534, 2), (65530, 255), (65281, 255)):
        yield max_record_case(rng, P, pad)
    for _ in range(8 if quick else 300):
        yield long_record_case(rng)
    for _ in range(3 if quick else 100):
        c, t = one(rng, k=1, B=rng.choice([64, 8192]), big=True)
        yield c, t + ["big-write"]


def nontrivial(line, tags):
    return "k1" not in tags or "rscript" in tags or "wscript" in tags


def min_classes(tier):
    return {"k2": 100, "k3": 100, "k4": 100, "rscript": 300, "wscript": 300, "vectored": 200, "first-slice": 200, "big-write": 3, "long-record-early-return": 8, "max-record-unread": 5, "close-after-half-flush": 40}


# ---------------------------------------------------------------------------------------------
def decode_case(line):
    mode, a = parse_case(line)
    a = a + [[]] * (5 - len(a))
    cfg, table, wire = a[0], a[3], a[4]
    segs, pos = [], 0
    for i in range(0, len(table), 3):
        segs.append((table[i], table[i + 1], wire[pos:pos + table[i + 2]]))
        pos += table[i + 2]
    return cfg, a[1], a[2], segs, a[5:]


def parse_events(o):
    """-> (head, consumed, wlog, invocations, shutdown_obs); invocation = dict(hdr, env, ops)"""
    head, consumed, wlog = o[0], o[1][0], o[2]
    i, inv = 3, []
    while i < len(o) and o[i] != [200]:
        if o[i][:1] == [100]:
            hdr = o[i + 1]
            n = hdr[2]
            env = [(o[i + 2 + 2 * q], o[i + 3 + 2 * q]) for q in range(n)]
            inv.append({"hdr": hdr, "env": env, "ops": [], "epoch": o[i][1] if len(o[i]) > 1 else 0})
            i += 2 + 2 * n
        else:
            ev = o[i]
            if ev[0] in (1, 2, 3, 11):
                inv[-1]["ops"].append((ev, o[i + 1]))
                i += 2
            else:
                inv[-1]["ops"].append((ev, None))
                i += 1
    return head, consumed, wlog, inv, (o[i + 1] if i + 1 < len(o) else None)


def handler_ops(script):
    ops, i = [], 0
    while i < len(script):
        c = script[i]
        if c == 1:
            ops.append(("read", script[i + 1])); i += 2
        elif c == 2:
            ops.append(("readall",)); i += 1
        elif c == 3:
            ops.append(("fill", script[i + 1])); i += 2
        elif c == 4:
            ops.append(("set", script[i + 1])); i += 2
        elif c == 5:
            ops.append(("writeable",)); i += 1
        elif c == 6:
            n = script[i + 2]
            ops.append(("write", script[i + 1], script[i + 3:i + 3 + n])); i += 3 + n
        elif c == 7:
            ops.append(("flush", script[i + 1])); i += 2
        elif c == 8:
            ops.append(("ret", script[i + 1], script[i + 2])); i += 3
            break
        elif c == 9:
            ops.append(("fail", script[i + 1])); i += 2
            break
        elif c == 10:
            ops.append(("read?", script[i + 1])); i += 2
        elif c == 11:
            ops.append(("poll1", script[i + 1])); i += 2
        else:
            break
    return ops


def expected_status(ops):
    for o in ops:
        if o[0] == "ret":
            d, c = o[1], o[2]
            return {0: (c, 0), 2: (0, 2), 3: (0, 3)}[d]
        if o[0] == "fail":
            return (0x41425254, 0) if o[1] == 2 else None
    return (0, 0)


def strip_replies(cfg, segs, recs):
    """remove the parsers' own replies (management results, UnknownType, CantMpxConn/UnknownRole rejections, EndRequest for
    an abort during Params) from the decoded transport log: they are known byte for byte from the specification; what remains
    is handler output + epilogues.  Returns None when replies and epilogues cannot be told apart."""
    owed = []
    for ge, gm, sb in segs:
        rr, _ = parse_records(sb)
        phase = ("idle",)
        for r in rr:
            rep, phase = replies_for([r], cfg[1] or 1, phase)
            owed += [b for _, b in rep]
        if any(r[0] == BEGIN and len(r[2]) == 8 and not 1 <= r[2][0] * 256 + r[2][1] <= 3 and r[1] in (1, 2, 3, 4, 77, 78, 79, 65535) for r in rr):
            return None
    rest, oi = [], 0
    for r in recs:
        enc = header(r[0], r[1], len(r[2]), r[3]) + r[2] + [0] * r[3]
        if oi < len(owed) and enc == owed[oi]:
            oi += 1
        else:
            rest.append(r)
    return rest


def oracle(line, impl_line):
    o = parse_out(impl_line)
    if o is None or o[0] == [18446744073710440504]:
        return "connection task crashed or panicked"
    cfg, rscript, wscript, segs, scripts = decode_case(line)
    head, consumed, wlog, inv, shut = parse_events(o)
    if any(x >= 4000000001 for x in rscript + wscript):
        return None          # fault injection is C12's business
    if head[0] == 1:
        return "deadlock: the task waits for the client while the client waits for the server"
    recs, tail = parse_records(wlog)
    if tail != "clean":
        return "transport log is not a sequence of complete records"
    recs = strip_replies(cfg, segs, recs)
    if recs is None:
        return None
    # expected requests, one per segment (C07's generator puts exactly one request per segment)
    pos = 0
    served = 0
    for j, (ge, gm, sb) in enumerate(segs):
        rr, _ = parse_records(sb)
        b = [r for r in rr if r[0] == BEGIN and len(r[2]) == 8 and 1 <= r[2][0] * 256 + r[2][1] <= 3 and r[1] != 0]
        if not b:
            break
        rid, role, flags = b[0][1], b[0][2][0] * 256 + b[0][2][1], b[0][2][2]
        k0 = rr.index(b[0])
        payload, kk = [], k0 + 1
        while not (rr[kk][0] == PARAMS and rr[kk][1] == rid and not rr[kk][2]):
            if rr[kk][0] == PARAMS and rr[kk][1] == rid:
                payload += rr[kk][2]
            kk += 1
        env = expected_env(nv_decode(payload)[0])
        if served >= len(inv):
            return "request %d (id %d) arrived completely but the handler was not invoked" % (j + 1, rid)
        iv = inv[served]
        if iv["hdr"][:3] != [role, flags, len(env)] or iv["env"] != env:
            return "handler %d saw role/flags/env %s, sent %s" % (j + 1, iv["hdr"][:3], [role, flags, len(env)])
        hops = handler_ops(scripts[min(served, len(scripts) - 1)]) if scripts else []
        # reads deliver prefixes of the request's streams
        active = ROLE_STREAMS[role][0] if ROLE_STREAMS[role] else None
        got = {STDIN: [], DATA: []}
        for (ev, data) in iv["ops"]:
            if ev[0] == 4:
                active = ev[1] or None
            elif ev[0] == 5 and ev[3]:
                active = ev[3]
            elif ev[0] in (1, 2) and data is not None and active:
                got[active] += data
            elif ev[0] == 3 and data is not None and active and ev[1] == 1:
                got[active] += data[:ev[2]]
        for t in (STDIN, DATA):
            content, how = stream_content(rr[kk + 1:], rid, role, t)
            if content[:len(got[t])] != got[t]:
                return "handler %d read bytes that are not a prefix of its %s stream" % (j + 1, "Stdin" if t == STDIN else "Data")
        served += 1
        st = expected_status(hops)
        # records written for this request
        ends = [q for q, r in enumerate(recs) if r[0] == END]
        if st is None:
            break
        if len(ends) < served:
            return "request %d: no EndRequest written" % (j + 1)
        e = ends[served - 1]
        body = recs[e][2]
        app = (body[0] << 24) | (body[1] << 16) | (body[2] << 8) | body[3]
        if recs[e][1] != rid or (app, body[4]) != st:
            return "EndRequest of request %d carries id %d status %s, expected id %d status %s" % (j + 1, recs[e][1], (app, body[4]), rid, st)
        writeable = any(ev[0] == 5 and ev[2] == 1 for ev, _ in iv["ops"]) or len(ROLE_STREAMS[role]) <= 1 or True
        prev = recs[max(0, e - 2):e]
        if [(r[0], r[1], r[2]) for r in prev] != [(STDOUT, rid, []), (STDERR, rid, [])]:
            # Request::close makes every request writeable first (it waits for the final input stream), so on compliant,
            # abort-free traffic the two stream terminators are always owed
            return "EndRequest of request %d is not preceded by the empty Stdout and Stderr records" % (j + 1)
        # handler output bytes, in order, as records of the right stream and id
        lo = ends[served - 2] + 1 if served >= 2 else 0
        for t in (STDOUT, STDERR):
            want = [x for op, (ev, _) in zip([h for h in hops if h[0] in ("write",)], [p for p in iv["ops"] if p[0][0] == 6])
                    if op[1] == t and ev[1] == 0 for x in op[2]]
            have = [x for r in recs[lo:e] if r[0] == t and r[1] == rid for x in r[2]]
            if want != have:
                return "request %d: bytes written to stream %d do not appear exactly once, in order, in records of that stream" % (j + 1, t)
        for r in recs[lo:e]:
            if r[0] in (STDOUT, STDERR) and (len(r[2]) + r[3]) % 8:
                return "stream record body + padding is not a multiple of 8"
        if not flags & 1:
            if len(inv) > served:
                return "a request was served after a request without the keep-connection flag"
            break
    if len(inv) > served:
        return "handler invoked %d times for %d complete requests" % (len(inv), served)
    if len([r for r in recs if r[0] == END]) != len([1 for q in range(served)]) and served == len(segs):
        pass
    return True
