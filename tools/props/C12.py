"""C12 - transport EOF or error at any point ends the connection cleanly."""
import conngen
from conngen import *  # noqa
from fvgen import parse_case, parse_out
import importlib.util, os

_spec = importlib.util.spec_from_file_location("c07", os.path.join(os.path.dirname(__file__), "C07.py"))
C07 = importlib.util.module_from_spec(_spec)
_spec.loader.exec_module(C07)

RULE = ("for each scripted connection (1..3 requests, handler family of C07): EOF injected at EVERY byte offset of the input (quick: every offset of "
        "short connections, sampled offsets of longer ones), a read error injected at every read call index, a write error or a zero-length write "
        "injected at every write call index, each combined with the read/write chunking patterns of C07. Oracle: the task returns (no panic, no "
        "spin, no deadlock), no handler runs for an incomplete preamble, a handler read that cannot be satisfied fails (UnexpectedEof / transport "
        "error) instead of returning a short or empty success, nothing is written after a failed write and the log is a prefix of a well-formed "
        "record sequence. Non-trivial: every case (each has a fault); distinct = distinct case lines.")
ASSUMPTIONS = C07.ASSUMPTIONS + ["handlers propagate write errors (the scripted family returns Err on a failed write); reads propagate when scripted as `read?` (op 10); the nothing-written-after-a-failed-write clause is judged only on runs in which no error was swallowed by the handler"]


def base(rng, short=False):
    B = rng.choice([32, 64, 256])
    k = rng.randrange(1, 3 if short else 4)
    segs, scripts = [], []
    for j in range(k):
        keep = j + 1 < k
        rid = j + 1
        role = rng.choice([1, 1, 2, 3])
        pairs = rand_pairs(rng, rng.randrange(0, 3), min(10 if short else 30, (B - 13) // 2))
        recs, _ = preamble(rng, rid, role, 1 if keep else 0, pairs, junk_rate=0.05 if short else 0.15, idle=0)
        contents = {t: [rng.randrange(256) for _ in range(rng.choice([0, 4, 20] if short else [0, 10, 100]))] for t in ROLE_STREAMS[role]}
        recs += streams_part(rng, rid, role, contents, junk_rate=0.05 if short else 0.15, no_begin=True)
        segs.append((j, 0, flat(recs)))
        # handlers: writes first, reads last, so that every failing read is propagated by construction
        h = []
        if rng.random() < 0.7:
            h.append(("writeable",))
            for _ in range(rng.randrange(0, 3)):
                h.append(("write", rng.choice([STDOUT, STDERR]), [rng.randrange(256) for _ in range(rng.choice([1, 9, 60]))]))
        rd = rng.choice([("readall",), ("read", 16), ("fill", 10 ** 6), (), "prop", "prop"])
        if rd == "prop":
            # `req.read(..).await?` a few times: a handler that propagates read errors (incl. the error of a reply flush)
            for _ in range(rng.randrange(1, 6)):
                h.append(("read?", rng.choice([1, 7, 16, 64])))
        else:
            h.append(rd)
        h.append(rng.choice([("ret", 0, 0), ("ret", 0, 3), ()]))
        scripts.append([o for o in h if o])
    return B, segs, scripts


def truncate(segs, off):
    out, left = [], off
    for ge, gm, b in segs:
        if left <= 0:
            break
        out.append((ge, gm, b[:left]))
        left -= len(b)
    return out


def gen_cases(rng, tier):
    quick = tier == "quick"
    for _ in range(25 if quick else 600):
        B, segs, scripts = base(rng, short=True)
        total = sum(len(s[2]) for s in segs)
        offs = range(0, total + 1) if total < 260 or not quick else sorted(rng.sample(range(total + 1), 200))
        rs = C07.io_script(rng, 80, "r")
        ws = C07.io_script(rng, 40, "w")
        for off in offs:
            yield conn_case(B, 1, truncate(segs, off), scripts, rs, ws, rng.choice([0, 1])), ["eof"]
    for _ in range(60 if quick else 3000):
        B, segs, scripts = base(rng)
        nreads = rng.randrange(1, 40)
        for i in (range(nreads) if not quick else sorted(rng.sample(range(nreads), min(nreads, 8)))):
            rs = [rng.choice([1, 8, 30, 10 ** 6, 0]) for _ in range(i)] + [R_ERR]
            yield conn_case(B, 1, segs, scripts, rs, [], rng.choice([0, 1])), ["read-error"]
        nw = rng.randrange(1, 30)
        for j in (range(nw) if not quick else sorted(rng.sample(range(nw), min(nw, 8)))):
            # the fault is followed by explicit 'accept everything' entries, so that write calls made AFTER the failed one
            # are counted in the observation (the transport-call counter only counts scripted calls)
            fault = rng.choice([W_ERR, W_ZERO, W_ERR_AB])
            ws = [rng.choice([1, 7, 8, 16, 10 ** 6, 0]) for _ in range(j)] + [fault] + [10 ** 6] * 40
            yield conn_case(B, 1, segs, scripts, C07.io_script(rng, 60, "r"), ws, rng.choice([0, 1])), \
                ["write-fault", "write-fault-aborted-kind" if fault == W_ERR_AB else "write-fault-plain"]


def close_readahead_fault_cases(rng, tier):
    """a Filter request whose handler returns Ok before reaching the Data stream: Request::close itself reads ahead (writeable()),
    and the reply to a management record sitting in the unread Stdin part is flushed from INSIDE close; that write fails with an
    error of kind ConnectionAborted (or a plain error / a zero write): close must end the connection without writing anything more"""
    for fault in (W_ERR_AB, W_ERR_AB, W_ERR, W_ZERO):
        for keep in (0, 1):
            for B in (64, 256):
                rid = 1
                recs = minimal_preamble(rid, 3, flags=keep) + [record(STDIN, rid, [1, 2, 3], 0), record(GETVALUES, 0, gv_body(rng), 0),
                                                               record(STDIN, rid, [4, 5], 5), record(STDIN, rid, [], 0),
                                                               record(DATA, rid, [9, 9], 0), record(DATA, rid, [], 0)]
                segs = [(0, 0, flat(recs))]
                w2, _ = C07.gen_request(rng, 2, False, B)
                segs.append((0, 0, w2))
                scripts = [[("ret", 0, 7)], [("readall",), ("ret", 0, 0)]]
                ws = [fault] + [10 ** 6] * 40
                yield conn_case(B, 1, segs, scripts, rng.choice([[], [10 ** 6] * 5, [30] * 20]), ws, rng.choice([0, 1])), \
                    ["write-fault", "write-fault-aborted-kind" if fault == W_ERR_AB else "write-fault-plain", "close-readahead-fault"]


def swallowed_flush_error_cases(rng, tier):
    """a read fails because the flush of a management reply failed (write error or zero-length write, possibly after part of the
    reply went out); the handler does NOT propagate it and then writes through a StreamWriter (known finding F5)"""
    for fault in (W_ERR, W_ZERO):
        for pre in ([], [3], [1, 0]):
            for then in (("write", STDOUT, [104, 105]), ("flush", STDOUT)):
                rid = 1
                recs = minimal_preamble(rid, 1, flags=rng.choice([0, 1])) + [record(GETVALUES, 0, nv(list(b"FCGI_MAX_CONNS"), []), 0),
                                                                            record(STDIN, rid, [97, 98, 99], 0), record(STDIN, rid, [], 0)]
                scripts = [[("read", 16), ("read", 16), then, ("ret", 0, 0)]]
                ws = pre + [fault] + [10 ** 6] * 10
                yield conn_case(rng.choice([64, 8192]), 1, [(0, 0, flat(recs))], scripts, [], ws, rng.choice([0, 1])), \
                    ["write-fault", "write-fault-plain", "swallowed-flush-error-then-write"]


def mixed_order_cases(rng, tier):
    """handlers of the whole family in ANY order (reads that go on after an error, propagating reads, buffered reads, writes, flushes,
    writeable(), stream switches) under a write fault at a random call: model and crate must agree; the oracle's clauses apply as far
    as their premises hold (a run that hangs on the request's own lock after a swallowed flush error is the known finding F5)"""
    for _ in range(400 if tier == "quick" else 20000):
        B = rng.choice([24, 64, 256, 8192])
        k = rng.randrange(1, 3)
        segs, scripts = [], []
        for j in range(k):
            keep = (j + 1 < k) or rng.random() < 0.3
            w, m = C07.gen_request(rng, rng.choice([1, 2]), keep, B)
            role = m[1]
            segs.append((j, 0, w))
            ops = []
            for _ in range(rng.randrange(2, 9)):
                r = rng.random()
                if r < 0.3:
                    ops.append(("read", rng.choice([1, 7, 64])))
                elif r < 0.4:
                    ops.append(("fill", rng.choice([0, 5, 10 ** 6])))
                elif r < 0.48:
                    ops.append(("writeable",))
                elif r < 0.52 and role == 3:
                    ops.append(("set", DATA))
                elif r < 0.75:
                    ops.append(("write", rng.choice([STDOUT, STDERR]), [rng.randrange(256) for _ in range(rng.choice([0, 1, 9, 40]))]))
                elif r < 0.82:
                    ops.append(("flush", STDOUT))
                elif r < 0.92:
                    ops.append(("read?", rng.choice([1, 16])))
                else:
                    ops.append(("readall",))
            ops.append(rng.choice([("ret", 0, 0), ("ret", 0, 5), (), ("fail", 7)]))
            scripts.append([o for o in ops if o])
        ws = [rng.choice([0, 1, 3, 8, 30, 10 ** 6, 10 ** 6]) for _ in range(rng.randrange(0, 25))]
        fault = rng.choice([W_ERR, W_ZERO, W_ERR_AB])
        ws = ws + [fault] + [10 ** 6] * 30
        yield conn_case(B, 1, segs, scripts, C07.io_script(rng, 200, "r"), ws, rng.choice([0, 1])), \
            ["write-fault", "write-fault-aborted-kind" if fault == W_ERR_AB else "write-fault-plain", "mixed-order"]


_gen_cases_c12 = gen_cases


def hostile_bytes_cases(rng, tier):
    """not a transport fault but its protocol-level sibling: the CLIENT's bytes turn into garbage (a record header with an unknown
    version) in the middle of a stream - while the handler reads (errors swallowed or propagated), or behind the point where the handler
    stopped reading, so that Request::close meets it while skipping to the record boundary.  The task must end the connection without
    panicking or spinning; everything else is decided by the correspondence with the model (error kind InvalidData at the handler)"""
    for _ in range(40 if tier == "quick" else 2000):
        rid = rng.choice([1, 9])
        B = rng.choice([64, 256, 8192])
        role = rng.choice([1, 1, 3])
        body = [rng.randrange(256) for _ in range(rng.choice([5, 40, 100]))]
        bad = [rng.choice([0, 2, 7, 255]), STDIN, rid >> 8, rid & 255, 0, 3, 0, 0, 1, 2, 3]
        w = flat(minimal_preamble(rid, role, flags=rng.choice([0, 1]), pairs=rand_pairs(rng, 1, 8))) + record(STDIN, rid, body, rng.choice([0, 3])) + bad + record(STDIN, rid, [], 0)
        how = rng.choice(["read", "read?", "readall", "none", "part", "fill"])
        if how == "read":
            h = [("read", 16)] * rng.randrange(3, 12) + [("ret", 0, 0)]
        elif how == "read?":
            h = [("read?", rng.choice([8, 64]))] * rng.randrange(3, 12) + [("ret", 0, 0)]
        elif how == "readall":
            h = [("readall",), ("ret", 0, 1)]
        elif how == "none":
            h = [("ret", 0, 2)]
        elif how == "part":
            h = [("read", rng.choice([1, 3]))] + [("ret", 0, 3)]          # stops inside the record: close skips ahead into the garbage
        else:
            h = [("fill", 10 ** 6)] * 3 + [("ret", 0, 4)]
        if role == 3 and rng.random() < 0.5:
            h = [("writeable",)] + h
        rs = rng.choice([[], [10 ** 6] * 20, C07.io_script(rng, 80, "r")])
        yield conn_case(B, 1, [(0, 0, w)], [h], rs, C07.io_script(rng, 40, "w"), rng.choice([0, 1])), ["hostile-bytes"]
    # a preamble the configured buffer cannot hold (a pair beyond the documented bound), a BeginRequest with the reserved id 0 or a wrong
    # body length: parse_request ends the connection with the parser's error, no handler runs
    for _ in range(20 if tier == "quick" else 600):
        B = rng.choice([24, 32, 64])
        kind = rng.choice(["stuck", "null-id", "bad-len"])
        if kind == "stuck":
            pairs = [([65] * rng.randrange(B, B + 30), [66] * rng.randrange(0, 30))]
            w = flat(minimal_preamble(1, 1, pairs=pairs))
        elif kind == "null-id":
            w = flat([begin(0, 1, 1)]) + flat(minimal_preamble(1, 1)[1:])
        else:
            w = record(BEGIN, 1, [0, 1, 1, 0, 0, 0, 0, 0, 0][:rng.choice([7, 9])], 0) + flat(minimal_preamble(1, 1)[1:])
        w = [2, 9, 9, 9, 9, 9, 9, 9][:0] + w      # (the marker the oracle looks for is a foreign version byte; add one behind the preamble)
        w = w + [rng.choice([0, 2, 255]), STDIN, 0, 1, 0, 0, 0, 0]
        yield conn_case(B, 1, [(0, 0, w)], [[("readall",), ("ret", 0, 0)]], rng.choice([[], C07.io_script(rng, 60, "r")]), [], rng.choice([0, 1])), ["hostile-bytes", "hostile-preamble"]


def gen_cases(rng, tier):
    yield from _gen_cases_c12(rng, tier)
    yield from hostile_bytes_cases(rng, tier)
    # the transport reports a failed write at poll_flush (buffering transports do): the handler goes on in four ways; the task must end
    from fvgen import case
    for variant in (0, 1, 2, 3, 4):
        for fail_at in (1, 2, 3):
            yield case("flush_fault", [variant, fail_at]), ["flush-fault"]
    # a TRANSIENT write error (Interrupted) at every write call of a small response, under a handler that retries on the same writer:
    # no panic, the task ends, and the bytes on the wire are those of the undisturbed run
    for fail_at in range(1, 60):
        yield case("flush_fault", [5, fail_at]), ["flush-fault", "write-retry"]
    yield from close_readahead_fault_cases(rng, tier)
    yield from swallowed_flush_error_cases(rng, tier)
    yield from mixed_order_cases(rng, tier)


def nontrivial(line, tags):
    return True


def min_classes(tier):
    return {"eof": 2000, "read-error": 300, "write-fault": 300, "write-fault-aborted-kind": 60, "close-readahead-fault": 16, "swallowed-flush-error-then-write": 12, "mixed-order": 400, "hostile-bytes": 40, "flush-fault": 12, "write-retry": 50}


def outcome(line, out):
    if line.startswith("flush_fault "):
        return "returned" if out.strip() == "1" else "panic"
    o = parse_out(out)
    if o is None:
        return "crash"
    return {0: "returned", 1: "deadlock", 18446744073710440504: "panic"}.get(o[0][0], "other")


def signature(line, impl_line):
    """classifies a non-terminating run for known-finding matching"""
    if line.startswith("flush_fault "):
        return ""
    o = parse_out(impl_line)
    if o is None or not o or o[0][:1] != [1]:
        return ""
    cfg, rscript, wscript, segs, scripts = C07.decode_case(line)
    head, cons, wlog, inv, shut = C07.parse_events(o)
    if inv and scripts:
        hops = C07.handler_ops(scripts[min(len(inv) - 1, len(scripts) - 1)])
        evs = inv[-1]["ops"]
        if evs and len(evs) < len(hops) and hops[len(evs)][0] in ("write", "flush"):
            kinds = (6, 7, 2) if 4000000003 in wscript else (6, 7)     # WriteZero, BrokenPipe; ConnectionAborted-kind transport error
            # the run hangs AT a StreamWriter operation, and an earlier read of this invocation had failed with a write-fault kind
            # (the reply flush inside it failed and left Request.lock held) and was not propagated
            failed = any((ev[0] in (1, 3) and ev[1] == 0 and ev[2] in kinds) or (ev[0] == 2 and ev[1] in kinds) or
                         (ev[0] == 5 and ev[1] in kinds) for ev, _ in evs)
            if failed:
                return "hang:handler-writes-after-failed-reply-flush"
    return ""


def _header_offsets(w):
    """offsets of the record headers of a wire image, as far as it can be walked with the length fields (stops at garbage)"""
    k, out = 0, []
    while k + 8 <= len(w):
        out.append(k)
        if w[k] != 1:
            break
        k += 8 + w[k + 4] * 256 + w[k + 5] + w[k + 6]
    return out


def oracle(line, impl_line):
    if line.startswith("flush_fault "):
        return True if impl_line.strip() == "1" else ("after a failed flush of the transport the connection task did not end: it hangs on the "
                                                      "output lock, panics or spins")
    o = parse_out(impl_line)
    if o is None or o[0] == [18446744073710440504]:
        return "connection task crashed or panicked"
    cfg, rscript, wscript, segs, scripts = C07.decode_case(line)
    head, cons, wlog, inv, shut = C07.parse_events(o)
    cnt = o[1]
    if head[0] != 0:
        return "the connection task did not terminate after the transport fault (outcome %s)" % head
    if len(segs) == 1 and any(segs[0][2][k] != 1 and segs[0][2][k + 1] == STDIN for k in _header_offsets(segs[0][2])):
        return True        # class hostile-bytes: terminated without panicking; the rest is the correspondence with the model
    # complete preambles among the bytes the client sent
    wire = [b for s in segs for b in s[2]]
    recs, tail = parse_records(wire)
    if tail == "cut":
        # a record whose header arrived completely and announces an empty body counts (its padding may be cut)
        used = sum(8 + len(r[2]) + r[3] for r in recs)
        h = wire[used:used + 8]
        if len(h) == 8 and h[0] == 1 and h[4] == 0 and h[5] == 0:
            recs = recs + [(h[1], h[2] * 256 + h[3], [], h[6])]
    complete = 0
    cur = None
    for r in recs:
        if cur is None and r[0] == BEGIN and len(r[2]) == 8 and 1 <= r[2][0] * 256 + r[2][1] <= 3 and r[1] != 0:
            cur = r[1]
        elif cur is not None and r[0] == PARAMS and r[1] == cur and not r[2]:
            complete += 1
            cur = None
        elif cur is not None and r[0] == ABORT and r[1] == cur:
            cur = None
    if len(inv) > complete:
        return "handler invoked %d times but only %d preambles arrived completely" % (len(inv), complete)
    # reads that report end-of-stream must be backed by a terminator that really arrived
    pos, k = 0, 0
    for iv in inv:
        for ev, d in iv["ops"]:
            bad = (ev[0] == 2 and ev[1] == 0) or (ev[0] == 1 and ev[1] == 1 and ev[2] == 0) or (ev[0] == 3 and ev[1] == 1 and not d)
            if bad:
                # locate this request's records and check that its first stream has a terminator in the wire
                begins = [q for q, r in enumerate(recs) if r[0] == BEGIN and len(r[2]) == 8 and 1 <= r[2][0] * 256 + r[2][1] <= 3]
                ok = False
                for q in begins:
                    rid, role = recs[q][1], recs[q][2][0] * 256 + recs[q][2][1]
                    if role != iv["hdr"][0]:
                        continue
                    streams = ROLE_STREAMS[role]
                    if not streams:
                        ok = True
                    for t in streams:
                        c, how = stream_content(recs[q + 1:], rid, role, t)
                        if how in ("ended",):
                            ok = True
                if not ok and (ev[0] == 2 or True):
                    if ev[0] == 1 and ev[1] == 1 and ev[2] == 0:
                        # a zero-length success is legitimate only for a 0-byte buffer or after the stream's end
                        continue
                    return "a handler read reported end-of-stream although no terminating record ever arrived"
    # writes
    faults = [i for i, x in enumerate(wscript) if x >= 4000000001]
    if faults and cnt[2] > faults[0] + 1:
        # judged for handlers that propagate I/O errors: every error a handler saw ended that handler with this error
        # (write ops and `read?` ops return it; plain read / read_to_end / fill_buf / writeable ops of the script family go on)
        swallowed = False
        for q, iv in enumerate(inv):
            hops = C07.handler_ops(scripts[min(q, len(scripts) - 1)]) if scripts else []
            for (ev, _), op in zip(iv["ops"], hops):
                failed = (ev[0] in (1, 3) and ev[1] == 0) or (ev[0] == 2 and ev[1] != 0) or (ev[0] == 5 and ev[1] != 0)
                if failed and op[0] != "read?":
                    swallowed = True
        if not swallowed:
            return ("the transport was written to again after a failed write (scripted call %d failed, %d calls made) although every "
                    "error was propagated" % (faults[0], cnt[2]))
    lrecs, ltail = parse_records(wlog)
    if isinstance(ltail, tuple) or any(not 1 <= r[0] <= 11 for r in lrecs):
        return "the bytes written before the fault are not a prefix of a well-formed record sequence"
    return True
