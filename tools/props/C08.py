"""C08 - the server never waits for client input while it owes a reply."""
import conngen
from conngen import *  # noqa
from fvgen import parse_case, parse_out
import importlib.util, os

_spec = importlib.util.spec_from_file_location("c07", os.path.join(os.path.dirname(__file__), "C07.py"))
C07 = importlib.util.module_from_spec(_spec)
_spec.loader.exec_module(C07)

RULE = ("conn_run with a closed-loop peer: management queries (GetValues with a non-empty body, unknown-type records) placed before the first "
        "request, in the same segment as the end of a request, between requests, right after Params, and mid-stream while the handler is "
        "blocked reading; the peer sends whole records and withholds every further byte until it has observed the reply (gate on the number of "
        "management replies in the transport log) and the next request until the EndRequest; neighbouring records are grouped into transport "
        "reads in every way the read script allows (one read per record, records glued together, 1-byte reads, spurious Pending); handlers read "
        "everything / part / nothing; write side accepts 1..n bytes or Pending. Violation state: no runnable task, task unfinished, peer waiting. "
        "Class flush-fault-then-read: the transport flush fails, the handler swallows the error and reads on with its writers alive (harness-side assertions: the management reply reaches the transport, the task ends). Non-trivial: at least one gated query; distinct = distinct case lines.")
ASSUMPTIONS = C07.ASSUMPTIONS + ["peer discipline as in the property's quantifier: bytes after a query are released only after its whole reply reached the transport"]


def query(rng):
    if rng.random() < 0.6:
        names = [(list(rng.choice(VAR_NAMES)), []) for _ in range(rng.randrange(1, 4))]
        body = nv_all(names)
        if rng.random() < 0.3:
            # a sloppy client: the body does not end on a pair boundary (a truncated pair, stray alignment bytes counted as content);
            # the query is still answered (for the pairs that are complete) - the peer waits for that reply like for any other
            extra = nv(list(rng.choice(VAR_NAMES)), [])
            body += rng.choice([extra[:rng.randrange(1, len(extra))], [0], [5], [0, 0, 0]])
        return record(GETVALUES, 0, body, rng.choice([0, 0, 3, 8]))
    return record(rng.choice([0, 12, 100, 255]), rng.choice([0, 1, 9]), [rng.randrange(256) for _ in range(rng.choice([0, 5, 8]))], rng.choice([0, 7]))


def one(rng):
    B = rng.choice([24, 32, 64, 256, 8192])
    k = rng.randrange(1, 4)
    segs, scripts = [], []
    ends, mg = 0, 0
    place_tags = set()
    cur = []          # bytes of the segment under construction
    cur_gate = (0, 0)

    def flush_seg():
        nonlocal cur
        if cur:
            segs.append((cur_gate[0], cur_gate[1], cur))
            cur = []

    def put_query(tag):
        nonlocal cur, cur_gate, mg
        cur += query(rng)
        mg += 1
        place_tags.add(tag)
        flush_seg()
        cur_gate = (ends, mg)     # everything after the query waits for its reply

    if rng.random() < 0.3:
        put_query("before-first")
    for j in range(k):
        rid = rng.choice([1, 2, 77])
        role = rng.choice([1, 1, 2, 3])
        keep = j + 1 < k or rng.random() < 0.5
        pairs = rand_pairs(rng, rng.randrange(0, 3), min(30, (B - 13) // 2))
        pre_recs = [begin(rid, role, 1 if keep else 0)] + stream_records(PARAMS, rid, nv_all(pairs), cut_list(rng, len(nv_all(pairs)), "few"), rng)
        if rng.random() < 0.2:
            # a query INSIDE the Params phase, glued to the record that completes the preamble (same segment, hence possibly the same
            # read and the same parse call); the client waits for the reply before it sends anything of the streams
            cur += flat(pre_recs[:-1]) + query(rng) + pre_recs[-1]
            mg += 1
            place_tags.add("inside-params-glued")
            flush_seg()
            cur_gate = (ends, mg)
        else:
            cur += flat(pre_recs)
        if rng.random() < 0.3:
            put_query("after-params")
        for t in ROLE_STREAMS[role]:
            content = [rng.randrange(256) for _ in range(rng.choice([0, 5, 40]))]
            srecs = stream_records(t, rid, content, cut_list(rng, len(content), "few"), rng)
            for r in srecs:
                if rng.random() < 0.25:
                    put_query("mid-stream")
                cur += r
        h = C07.gen_handler(rng, role, {})
        scripts.append(h)
        if rng.random() < 0.4:
            put_query("same-segment-as-end")     # glued to the end of the request
        flush_seg()
        ends += 1
        cur_gate = (ends, mg)
        if j + 1 < k and rng.random() < 0.4:
            put_query("between")
        if not keep:
            break
    flush_seg()
    total = sum(len(s[2]) for s in segs)
    style = rng.choice(["none", "per-seg", "ones", "mixed"])
    if style == "none":
        rs = []
    elif style == "per-seg":
        rs = [10 ** 6] * 50
    elif style == "ones":
        rs = [1] * min(total, 800)
    else:
        rs = [rng.choice([0, 1, 8, 16, 40, 10 ** 6]) for _ in range(200)]
    ws = C07.io_script(rng, 200, "w")
    tags = ["peer"] + sorted(place_tags) + (["query"] if place_tags else [])
    return conn_case(B, rng.choice([1, 9]), segs, scripts, rs, ws, rng.choice([0, 1])), tags


def abandoned_read_case(rng):
    """a handler that polls a read ONCE while a management reply is only partly flushed (the transport accepts a few bytes, then
    says not-ready), drops that read future — a timeout, a select! — and then writes through a StreamWriter (known finding F6)"""
    rid = 1
    recs = minimal_preamble(rid, 1, flags=0) + [record(GETVALUES, 0, nv(list(b"FCGI_MAX_CONNS"), []), 0),
                                               record(STDIN, rid, [97, 98, 99], 0), record(STDIN, rid, [], 0)]
    segs = [(0, 0, flat(recs))]
    then = rng.choice([("write", STDOUT, [104, 105]), ("flush", STDERR)])
    scripts = [[("read", 16), ("poll1", rng.choice([1, 5, 64])), then, ("ret", 0, 0)]]
    ws = [rng.choice([1, 3, 8, 20]), 0] + [10 ** 6] * 10
    return conn_case(rng.choice([64, 8192]), 1, segs, scripts, [], ws, rng.choice([0, 1])), ["peer", "query", "abandoned-read-then-write"]


def mixed_poll_case(rng):
    """handlers that mix awaited reads, reads polled once and dropped, writes and flushes in any order, no transport faults, ungated
    client: model and crate must agree; a self-deadlock after (abandoned read; write) is the known finding F6"""
    B = rng.choice([24, 64, 256, 8192])
    w, m = C07.gen_request(rng, 1, False, B)
    role = m[1]
    ops = []
    for _ in range(rng.randrange(2, 9)):
        r = rng.random()
        if r < 0.25:
            ops.append(("read", rng.choice([1, 7, 64])))
        elif r < 0.45:
            ops.append(("poll1", rng.choice([0, 1, 16])))
        elif r < 0.55:
            ops.append(("fill", rng.choice([0, 5, 10 ** 6])))
        elif r < 0.62:
            ops.append(("writeable",))
        elif r < 0.85:
            ops.append(("write", rng.choice([STDOUT, STDERR]), [rng.randrange(256) for _ in range(rng.choice([0, 1, 9, 40]))]))
        elif r < 0.92:
            ops.append(("flush", STDOUT))
        else:
            ops.append(("readall",))
    ops.append(("ret", 0, 0))
    ws = [rng.choice([0, 1, 3, 8, 30, 10 ** 6, 10 ** 6]) for _ in range(rng.randrange(0, 25))]
    return conn_case(B, 1, [(0, 0, w)], [ops], C07.io_script(rng, 200, "r"), ws, rng.choice([0, 1])), ["peer", "mixed-poll"]


_spec10 = importlib.util.spec_from_file_location("c10", os.path.join(os.path.dirname(__file__), "C10.py"))
C10 = importlib.util.module_from_spec(_spec10)
_spec10.loader.exec_module(C10)


def concurrent_writers_case(rng):
    """a handler that reads and writes CONCURRENTLY (several StreamWriters and the request's read side polled in one task, any order)
    while a management query is pending: the reply owed must be flushed although the output lock is contended - the harness repeats the
    case under a wake-driven schedule, where a participant is polled again only after its own waker fired (lost wake-ups show as a
    suspended participant nobody will wake)"""
    while True:
        c, t = C10.one(rng)
        if "query" in t and ("w2" in t or "w3" in t):
            return c, ["peer", "query", "concurrent-writers"]


def gen_cases(rng, tier):
    for _ in range(1500 if tier == "quick" else 80000):
        yield one(rng)
    for _ in range(150 if tier == "quick" else 6000):
        yield concurrent_writers_case(rng)
    for _ in range(400 if tier == "quick" else 20000):
        yield mixed_poll_case(rng)
    for _ in range(6 if tier == "quick" else 60):
        yield abandoned_read_case(rng)
    # the transport's poll_flush fails under a handler that carries on reading with its writers alive: the management query behind the
    # first stdin record must still be answered and the task must end (harness-side assertions of the flush_fault mode)
    from fvgen import case
    for variant in (2, 4):
        for fail_at in (1, 2, 3):
            yield case("flush_fault", [variant, fail_at]), ["flush-fault-then-read", "query"]


def nontrivial(line, tags):
    return "query" in tags


def min_classes(tier):
    return {"before-first": 150, "after-params": 150, "mid-stream": 150, "same-segment-as-end": 150, "between": 100, "inside-params-glued": 100, "concurrent-writers": 150, "abandoned-read-then-write": 6, "mixed-poll": 400, "flush-fault-then-read": 6}


def signature(line, impl_line):
    """classifies a deadlock by where the task waits: used for known-finding matching"""
    if line.startswith("flush_fault "):
        return ""
    o = parse_out(impl_line)
    if o is None or o[0][0] != 1:
        return ""
    cfg, rs, ws, segs, scripts = C07.decode_case(line)
    head, consumed, wlog, inv, shut = C07.parse_events(o)
    if inv and scripts:
        hops = C07.handler_ops(scripts[min(len(inv) - 1, len(scripts) - 1)])
        evs = inv[-1]["ops"]
        if evs and len(evs) < len(hops) and hops[len(evs)][0] in ("write", "flush") and any(e[0][0] == 11 and e[0][1] == 2 for e in evs):
            # the handler hangs AT a StreamWriter operation and had dropped a pending read earlier in this invocation
            return "self-deadlock:handler-writes-after-abandoned-read"
    n_end = sum(1 for r in parse_records(wlog)[0] if r[0] == END and r[2][4:5] in ([0], [2], [3]))
    return "deadlock:after-%d-end-requests:handler-%s" % (min(n_end, 1), "active" if len(inv) > n_end else "idle")


def oracle(line, impl_line):
    if line.startswith("flush_fault "):
        return True if impl_line.strip() == "1" else ("after a failed transport flush the handler went on reading, but the management reply was never "
                                                      "sent or the connection task hangs on the output lock")
    if line.startswith("writers "):
        v = C10.oracle(line, impl_line)
        return ("a participant of the handler (a writer, or the request's read side owing a management reply) stayed suspended with nobody "
                "left to wake it, or the run panicked") if v == "crashed or panicked" else v
    o = parse_out(impl_line)
    if o is None or o[0] == [18446744073710440504]:
        return "connection task crashed or panicked"
    if o[0][0] == 1:
        cfg, rs, ws, segs, scripts = C07.decode_case(line)
        head, consumed, wlog, inv, shut = C07.parse_events(o)
        recs, _ = parse_records(wlog)
        m = sum(1 for r in recs if r[0] in (GETVALUESRESULT, UNKNOWN))
        return ("the task is suspended waiting for client input after %d bytes while the peer waits for a reply "
                "(%d management replies written so far): neither side can make progress" % (consumed, m))
    return True
