"""C19 - CGI variable names: equality, order, hash, interning agree and ignore ASCII case.
Case generator and oracle.  All strings handed to the harness are valid UTF-8 (built as Python str)."""
import os, re
from fvgen import case, parse_case, parse_out

ROOT = os.path.dirname(os.path.dirname(os.path.dirname(os.path.abspath(__file__))))

RULE = ("names_pair <ctor> <s1> <ctor> <s2> over all 9 constructors (From<&str>, String, Box<str>, Cow::Borrowed, "
        "Cow::Owned, from_mut_str, From<&VarName>, to_owned, From<StaticVarName>): every interned name in "
        "upper/lower/mixed case against itself and against other names; pairs differing only in ASCII case, only "
        "in length (prefixes of lengths 0,1,15,16,17,31,32,33,47,48,49 across the 16-byte hash chunk boundary), only "
        "in one non-ASCII character (e-acute/E-acute, sharp s, Kelvin sign vs K, dotless i vs i), only in bit 5 of a "
        "non-letter (@/`, [/{), empty strings, random printable and multi-byte strings; names_sort: 2-14 keys with "
        "case-variant duplicates into BTreeMap/HashSet; names_header: standard, interned, random-token and "
        "invalid header names; consts_names: the regenerated table and near misses against the compiled enum. "
        "non-trivial = pair with different strings or constructors / >=2 keys / valid header; distinct = distinct case lines")
ASSUMPTIONS = [
    "core::str::eq_ignore_ascii_case, u8::to_ascii_uppercase, Iterator::cmp, chunks_exact and strum's EnumString/IntoStaticStr "
    "(exact phf lookup of the SCREAMING_SNAKE_CASE names) are modelled by documented behaviour and tied by differential runs",
    "the model of HashMap lookup is 'write sequences equal and ==' (collisions of the real SipHash are not modelled)",
    "the representation (Static vs Custom) of an OwnedVarName is not observable through the public API; it is tied only "
    "through ==/Ord fast paths and as_ref",
    "completeness of STATIC_VAR_NAMES (no further variants in the enum) rests on tools/extract_consts.py reading the "
    "enum body; the compiled crate confirms each extracted name parses and reads back (consts_names), not the converse",
    "http::HeaderName::from_bytes (http 1.0.0) accepts exactly non-empty strings of RFC 7230 token characters or '\"' and lower-cases them (glue in RunsC19.v)",
]

NORMALISING = {1, 2, 4, 5}
STR_CTORS = [0, 1, 2, 3, 4, 5, 6, 7]
BOUNDARY_LENS = [0, 1, 15, 16, 17, 31, 32, 33, 47, 48, 49]
# bytes accepted by http 1.0.0's HeaderName::from_bytes: RFC 7230 token characters, plus '"' (its HEADER_CHARS table)
TCHARS = set(b"!\"#$%&'*+-.^_`|~0123456789abcdefghijklmnopqrstuvwxyzABCDEFGHIJKLMNOPQRSTUVWXYZ")

_TABLE = None


def table():
    """The regenerated StaticVarName strings (coq/Gen/Generated.v is rewritten at the start of every run)."""
    global _TABLE
    if _TABLE is None:
        txt = open(os.path.join(ROOT, "coq", "Gen", "Generated.v")).read()
        m = re.search(r"Definition STATIC_VAR_NAMES : list bytes := \[(.*?)\n\]\.", txt, re.S)
        _TABLE = [bytes(int(x) for x in re.findall(r"\d+", row)) for row in re.findall(r"\[([^\[\]]*)\]", m.group(1))]
    return _TABLE


def up(bs):
    return [b - 32 if 97 <= b <= 122 else b for b in bs]


def lo(bs):
    return [b + 32 if 65 <= b <= 90 else b for b in bs]


def mixed(rng, bs):
    out = []
    for b in bs:
        if 65 <= b <= 90 or 97 <= b <= 122:
            out.append(b ^ 32 if rng.random() < 0.5 else b)
        else:
            out.append(b)
    return out


ASCII_POOL = [c for c in range(32, 127)]
EDGE_POOL = [64, 65, 90, 91, 96, 97, 122, 123, 95, 45, 48, 57, 32, 126]
MULTI = ["\u00e9", "\u00c9", "\u00df", "\u212a", "\u0131", "\u0130", "\u017f", "\u00e0", "\u00c0", "\u4e2d", "\U0001f600"]


def rand_str(rng, n, multi=0.0):
    """n bytes (exactly, when multi == 0) of printable ASCII from all case classes."""
    out = []
    while len(out) < n:
        r = rng.random()
        if r < multi:
            out += list(rng.choice(MULTI).encode())
        elif r < 0.45:
            out.append(rng.randrange(97, 123))
        elif r < 0.8:
            out.append(rng.randrange(65, 91))
        elif r < 0.9:
            out.append(rng.choice(EDGE_POOL))
        else:
            out.append(rng.choice(ASCII_POOL))
    return out


def pair(c1, s1, c2, s2):
    return case("names_pair", [c1], s1, [c2], s2)


def gen_cases(rng, tier):
    T = [list(t) for t in table()]
    thorough = tier != "quick"
    reps = 6 if thorough else 1
    rc = lambda: rng.choice(STR_CTORS)

    # -- the table against the compiled enum
    yield case("consts_names", *T), ["consts"]
    yield case("consts_names", *[lo(t) for t in T]), ["consts"]
    yield case("consts_names", *[mixed(rng, t) for t in T]), ["consts"]
    yield case("consts_names", *[t[:-1] for t in T]), ["consts"]
    yield case("consts_names", *[t + [95] for t in T]), ["consts"]
    yield case("consts_names", *[t[:1] + [95] + t[1:] for t in T]), ["consts"]
    yield case("consts_names", [], [72, 84, 84, 80], [72, 84, 84, 80, 95], [72, 84, 84, 80, 50], [104, 116, 116, 112, 50],
               list("HTTP_\u00e9".encode()), [73, 80, 86, 54], [105, 112, 118, 54], [32], [72, 84, 84, 80, 83, 32]), ["consts"]

    # -- every interned name in every case class, against itself and others, all constructors
    for _ in range(reps):
        for i, t in enumerate(T):
            for cls, v in (("interned-upper", t), ("interned-lower", lo(t)), ("interned-mixed", mixed(rng, t))):
                # static constant vs a spelling through every string constructor class
                yield pair(8, t, rc(), v), [cls, "static-ctor"]
                yield pair(rng.choice([1, 2, 4, 5]), v, rng.choice([0, 3, 6, 7]), mixed(rng, t)), [cls, "norm-vs-keep"]
                yield pair(rc(), v, rc(), v), [cls]
                other = T[rng.randrange(len(T))]
                yield pair(rng.choice([8, rc()]), other, rc(), v), [cls, "distinct-names"]
                # 8 on a non-exact spelling is not applicable (parse is case-sensitive)
                yield pair(8, v, 0, t), [cls, "static-parse"]
            # static/static fast path: equality and order of two constants
            j = rng.randrange(len(T))
            yield pair(8, t, 8, T[j]), ["static-static"]
            yield pair(8, t, 8, t), ["static-static"]
            # near misses of an interned name
            yield pair(rc(), t, rc(), t[:-1]), ["length-only", "interned-near"]
            yield pair(rc(), lo(t), rc(), t + [rng.choice([95, 49, 120])]), ["length-only", "interned-near"]
            k = rng.randrange(len(t))
            t2 = t[:k] + [rng.choice([c for c in range(48, 123) if up([c]) != up([t[k]])])] + t[k + 1:]
            yield pair(rc(), mixed(rng, t), rc(), t2), ["one-byte", "interned-near"]
    # -- the longest interned names, extended (one byte, a suffix, a long suffix; any case), through EVERY string constructor against
    # every other: a name that merely begins with an interned name is a different name whatever builds it
    longest = sorted(T, key=len, reverse=True)[:3] + sorted(T, key=len)[:2]
    for t in longest:
        for ext in ([95], [83], list(b"_hint"), list(b"S_AND_MORE_TEXT_BEHIND_IT")):
            for v in (t + ext, lo(t + ext), mixed(rng, t + ext)):
                for c1 in STR_CTORS:
                    yield pair(c1, v, rng.choice(STR_CTORS), t), ["interned-near", "interned-extended"]
                    yield pair(c1, v, rng.choice(STR_CTORS), v), ["interned-near", "interned-extended"]
    # all ordered pairs of constants once (order of the enum vs order of the names)
    if thorough:
        for a in T:
            for b in T:
                yield pair(8, a, 8, b), ["static-static"]
    else:
        for i in range(len(T) - 1):
            yield pair(8, T[i], 8, T[i + 1]), ["static-static"]

    # -- chunk boundaries of the hasher
    for _ in range(4 * reps):
        for n in BOUNDARY_LENS:
            s = rand_str(rng, n)
            yield pair(rc(), s, rc(), mixed(rng, s)), ["chunk-boundary", "case-only"] + (["empty"] if n == 0 else [])
            yield pair(rc(), s, rc(), up(s)), ["chunk-boundary", "case-only"] + (["empty"] if n == 0 else [])
            ext = s + rand_str(rng, rng.choice([1, 1, 2, 15, 16, 17]))
            yield pair(rc(), mixed(rng, s), rc(), ext), ["chunk-boundary", "length-only"] + (["empty"] if n == 0 else [])
            yield pair(rc(), ext, rc(), lo(s)), ["chunk-boundary", "length-only"] + (["empty"] if n == 0 else [])
            if n:
                # a name ending in the terminator-like / zero-like characters
                yield pair(rc(), s, rc(), s[:-1]), ["chunk-boundary", "length-only"]
                k = rng.randrange(n)
                d = s[:k] + [rng.choice([c for c in ASCII_POOL if up([c]) != up([s[k]])])] + s[k + 1:]
                yield pair(rc(), s, rc(), mixed(rng, d)), ["chunk-boundary", "one-byte"]
    yield pair(0, [], 0, []), ["empty"]
    for c1 in STR_CTORS:
        yield pair(c1, [], rc(), []), ["empty"]
        yield pair(c1, [], rc(), [rng.choice(ASCII_POOL)]), ["empty", "length-only"]

    # -- bit 5 of non-letters must not be ignored
    for _ in range(30 * reps):
        pre, post = rand_str(rng, rng.randrange(20)), rand_str(rng, rng.randrange(20))
        x = rng.choice([64, 91, 92, 93, 94, 95, 48, 57, 33, 63])
        yield pair(rc(), pre + [x] + post, rc(), mixed(rng, pre) + [x ^ 32] + mixed(rng, post)), ["bit5-nonletter"]

    # -- non-ASCII: only ASCII letters fold
    # e-acute/E-acute, sharp s/SS/capital sharp s, Kelvin sign/K/k, dotless i/i/I, dotted I/i, long s/s/S, ...
    NA = [("\u00e9", "\u00c9"), ("\u00df", "SS"), ("\u00df", "\u1e9e"), ("\u212a", "K"), ("\u212a", "k"), ("\u0131", "i"),
          ("\u0131", "I"), ("\u0130", "i"), ("\u017f", "s"), ("\u017f", "S"), ("\u00e0", "\u00c0"), ("e\u0301", "\u00e9"),
          ("\u00e9", "\u00e8"), ("\u4e2d", "\u4e2e"), ("\U0001f600", "\U0001f601")]
    for _ in range(4 * reps):
        for x, y in NA:
            pre = rand_str(rng, rng.choice([0, 3, 14, 15, 16, 30]))
            post = rand_str(rng, rng.choice([0, 1, 5, 16]))
            a = pre + list(x.encode()) + post
            b = mixed(rng, pre) + list(y.encode()) + mixed(rng, post)
            yield pair(rc(), a, rc(), b), ["nonascii-only"]
            yield pair(rc(), a, rc(), mixed(rng, a)), ["nonascii-same", "case-only"]
    # -- random
    for _ in range(300 * reps * (6 if thorough else 1)):
        n = rng.choice([rng.randrange(0, 12), rng.randrange(0, 40), rng.randrange(0, 70)])
        s = rand_str(rng, n, multi=rng.choice([0.0, 0.0, 0.1]))
        r = rng.random()
        if r < 0.4:
            yield pair(rc(), s, rc(), mixed(rng, s)), ["random", "case-only"]
        elif r < 0.6:
            yield pair(rc(), s, rc(), rand_str(rng, rng.randrange(0, 40), multi=0.05)), ["random"]
        else:
            k = rng.randrange(len(s) + 1)
            # cut only at a character boundary
            while k < len(s) and 128 <= s[k] < 192:
                k += 1
            yield pair(rc(), s, rc(), mixed(rng, s[:k])), ["random", "length-only"]

    # -- maps with several keys
    for _ in range(250 * reps):
        base = []
        for _ in range(rng.randrange(1, 6)):
            r = rng.random()
            if r < 0.4:
                base.append(list(rng.choice(T)))
            elif r < 0.7:
                base.append(rand_str(rng, rng.choice([1, 2, 3, 16, 17, 20])))
            else:
                b0 = rng.choice(base) if base else rand_str(rng, 5)
                base.append(b0 + rand_str(rng, rng.randrange(1, 3)))
        keys = []
        for _ in range(rng.randrange(2, 15)):
            b = rng.choice(base)
            v = rng.choice([b, lo(b), up(b), mixed(rng, b)])
            c = rc()
            if v in T and rng.random() < 0.3:
                c = 8
            keys.append([c] + v)
        yield case("names_sort", *keys), ["sort"]

    # -- header names
    std = ["accept", "accept-encoding", "content-type", "content-length", "user-agent", "x-forwarded-for", "x-request-id",
           "if-none-match", "cache-control", "dnt", "te", "upgrade-insecure-requests", "access-control-request-headers",
           "x-real-ip", "cookie", "host", "traceparent", "sec-fetch-dest"]
    for h in std:
        yield case("names_header", list(h.encode())), ["header", "header-std"]
        yield case("names_header", mixed(rng, list(h.encode()))), ["header", "header-std"]
    for t in T:
        if t[:5] == list(b"HTTP_") and len(t) > 5:
            h = [45 if b == 95 else b for b in lo(t[5:])]
            yield case("names_header", rng.choice([h, mixed(rng, h)])), ["header", "header-interned"]
            yield case("names_header", h + [45]), ["header", "header-near"]
    tok = sorted(TCHARS)
    for _ in range(150 * reps):
        n = rng.choice([1, 2, 5, 10, 11, 12, 26, 27, 28, 40])
        h = [rng.choice(tok) if rng.random() < 0.5 else rng.choice([45, 45, 95, 97, 122, 65, 90]) for _ in range(n)]
        yield case("names_header", h), ["header", "header-random"]
    for bad in ([], [32], list(b"a b"), list(b"a:b"), list("\u00e9".encode()), list(b"x\x7f"), list(b"a(b"), list(b"a)b"),
                list(b"a/b"), list(b"[a]"), list(b"a@b"), list(b"a,b"), list(b"a=b"), list(b"{a}")):
        yield case("names_header", bad), ["header-invalid"]


def nontrivial(line, tags):
    mode, a = parse_case(line)
    if mode == "names_pair":
        return a[0] != a[2] or a[1] != a[3]
    if mode == "names_sort":
        return len(a) >= 2
    if mode == "names_header":
        return "header-invalid" not in tags
    return True


def min_classes(tier):
    n = len(table())
    return {"consts": 7, "interned-upper": 4 * n, "interned-lower": 4 * n, "interned-mixed": 4 * n, "static-ctor": 3 * n,
            "static-static": 3 * n - 3, "case-only": 250, "length-only": 300, "one-byte": 100, "chunk-boundary": 200,
            "nonascii-only": 60, "bit5-nonletter": 30, "empty": 20, "sort": 250, "header": 200, "header-interned": 40,
            "header-invalid": 10, "random": 300}


def _cmp(x, y):
    return 0 if x < y else (1 if x == y else 2)


def _decode_writes(enc):
    out, i = [], 0
    while i < len(enc):
        n = enc[i]
        out.append(enc[i + 1:i + 1 + n])
        if len(out[-1]) != n:
            return None
        i += 1 + n
    return out


def _name(c, s, T):
    """(as_ref, caller's string afterwards) prescribed by C19, or None when the constructor does not apply."""
    if c == 8:
        return (s, s) if bytes(s) in T else None
    if c in NORMALISING:
        return up(s), (up(s) if c == 5 else s)
    return s, s


def oracle(line, impl_line):
    """Closed-form statement of C19 applied to the implementation's observation."""
    mode, a = parse_case(line)
    o = parse_out(impl_line)
    if o is None or o == [[18446744073710440504]]:
        return "implementation crashed or panicked"
    T = set(table())
    if mode == "consts_names":
        exp = [[1] + s if bytes(s) in T else [0] for s in a]
        return True if o == exp else "StaticVarName parse/read-back differs from the extracted table: %s vs %s" % (o, exp)
    if mode == "names_pair":
        (c1,), s1, (c2,), s2 = a[0], a[1], a[2], a[3]
        n1, n2 = _name(c1, s1, T), _name(c2, s2, T)
        if n1 is None or n2 is None:
            return True if o == [[777]] else "From<StaticVarName> reached with a string that is not an exact table name: %s" % o
        if len(o) != 11 or o[0] != [1]:
            return "malformed observation %s" % o
        (r1, p1), (r2, p2) = n1, n2
        if [o[1], o[2]] != [r1, r2]:
            return "as_ref gave %s / %s, C19 prescribes %s / %s" % (o[1], o[2], r1, r2)
        if [o[3], o[4]] != [p1, p2]:
            return "caller's string after construction %s / %s, expected %s / %s" % (o[3], o[4], p1, p2)
        eq = 1 if up(s1) == up(s2) else 0
        if o[5] != [eq] * 4:
            return "== gave %s (borrowed, borrowed view of owned, owned, owned reversed), equal-ignoring-ASCII-case is %d" % (o[5], eq)
        c = _cmp(up(s1), up(s2))
        if o[6] != [c, c, c, 2 - c]:
            return "cmp gave %s, order of the upper-cased strings is %d (0 <, 1 =, 2 >)" % (o[6], c)
        if o[7] != [eq, 1, 1]:
            return "Hasher::write sequences: equal(o1,o2), equal(borrowed s1,o1), equal(borrowed s2,o2) = %s, expected %s" % (o[7], [eq, 1, 1])
        w1, w2 = _decode_writes(o[8]), _decode_writes(o[9])
        if w1 is None or w2 is None:
            return "malformed write sequence"
        if (w1 == w2) != bool(eq):
            return "write sequences %s and %s are %s but the names are %s" % (w1, w2, "equal" if w1 == w2 else "different", "equal" if eq else "different")
        f1, f2 = sum(w1, []), sum(w2, [])
        if (f1 == f2) != bool(eq):
            return "flattened hash streams collide/differ against equality: %s %s" % (f1, f2)
        if not eq and (f1[:len(f2)] == f2 or f2[:len(f1)] == f1):
            return "hash stream of one name is a prefix of the other's: %s %s" % (f1, f2)
        if o[10] != [eq] * 4:
            return "map lookups (HashMap by owned, by borrowed; BTreeMap by owned, by borrowed) gave %s, expected %s" % (o[10], [eq] * 4)
        return True
    if mode == "names_sort":
        ents = {}
        for i, x in enumerate(a):
            n = _name(x[0], x[1:], T)
            if n is None:
                return True if o == [[777]] else "constructor not applicable but got %s" % o
            k = tuple(up(n[0]))
            ents[k] = (ents[k][0] if k in ents else n[0], i)
        exp = [[len(ents), len(ents)]] + [[v] + nm for _, (nm, v) in sorted(ents.items())]
        return True if o == exp else "BTreeMap/HashSet of the keys gave %s, C19 prescribes %s" % (o, exp)
    if mode == "names_header":
        h = a[0] if a else []
        if not h or any(b not in TCHARS for b in h):
            return True if o == [[0]] else "invalid header name accepted: %s" % o
        hl = lo(h)
        cgi = list(b"HTTP_") + [95 if b == 45 else b for b in up(h)]
        kept = list(b"HTTP_") + [95 if b == 45 else b for b in hl]
        if len(o) != 6 or o[:4] != [[1], hl, cgi, kept]:
            return "header %s mapped to %s, C19 prescribes %s" % (h, o[:4], [[1], hl, cgi, kept])
        if o[4] != [1, 1, 1]:
            return "header-derived name is not ==/Equal/hash-equal to its spelled-out form: %s" % o[4]
        return True
    return None
