"""C09 - async reads deliver exactly the active stream; output gated on the final stream."""
import conngen
from conngen import *  # noqa
from fvgen import parse_case, parse_out
import importlib.util, os

_spec = importlib.util.spec_from_file_location("c07", os.path.join(os.path.dirname(__file__), "C07.py"))
C07 = importlib.util.module_from_spec(_spec)
_spec.loader.exec_module(C07)

RULE = ("conn_run with one or two requests of every role; stream contents 0..400 bytes in 1..many records with management / unknown-type records "
        "mid-stream; handler scripts mixing read(buf of 0,1,7,64,1000 bytes), fill_buf+consume(k), set_stream(next), writeable(), a read polled ONCE and abandoned followed by is_writeable() in random order, "
        "reads continued past end-of-stream; transport reads of 1..n bytes or Pending at any call, writes accepting 1..n bytes or Pending (so "
        "that reply flushing is interrupted). Oracle: per stream the delivered bytes are a prefix of that stream's content, end-of-file persists, "
        "a zero-length read returns 0, after set_stream only bytes of the new stream appear, writeable only at creation for roles with <= 1 input "
        "stream or once the final stream is active. Class huge-buffer: buffer_size 64/128 KiB, maximum-size records, single transport reads leaving 2^16 and more unparsed bytes mid-payload; a read never fails on these fault-free, abort-free cases. Non-trivial: scripts with >= 2 kinds of read operations or a stream switch; distinct = distinct case lines.")
ASSUMPTIONS = C07.ASSUMPTIONS


def gen_handler(rng, role):
    ops = []
    streams = ROLE_STREAMS[role]
    cur = 0
    for _ in range(rng.randrange(2, 14)):
        r = rng.random()
        if r < 0.4:
            ops.append(("read", rng.choice([0, 1, 7, 64, 1000])))
        elif r < 0.7:
            ops.append(("fill", rng.choice([0, 1, 5, 10 ** 6])))
        elif r < 0.8 and cur + 1 < len(streams):
            cur += 1
            ops.append(("set", streams[cur]))
        elif r < 0.9:
            ops.append(("writeable",))
            cur = max(cur, len(streams) - 1)
        elif r < 0.95:
            # poll a read once without awaiting it; a pending read is abandoned; is_writeable() is observed
            ops.append(("poll1", rng.choice([0, 1, 7, 64])))
        else:
            ops.append(("readall",))
    ops.append(("ret", 0, 0))
    return ops


def gate_probe_case(rng):
    """Filter request whose Stdin is still open (its terminator sits in a segment the client never releases): the handler selects
    Data (set_stream or a started, abandoned read) and probes: the request must NOT report itself writeable"""
    B = rng.choice([64, 256])
    rid = 1
    first = minimal_preamble(rid, 3, flags=0) + [record(STDIN, rid, [rng.randrange(256) for _ in range(rng.choice([1, 10, 40]))], rng.choice([0, 3]))]
    if rng.random() < 0.5:
        first.append(record(GETVALUES, 0, gv_body(rng), 0))
    later = [record(STDIN, rid, [], 0), record(DATA, rid, [7, 7], 0), record(DATA, rid, [], 0)]
    segs = [(0, 0, flat(first)), (0, 99, flat(later))]          # gate never met: the rest is never delivered
    h = [("set", DATA)] + [("poll1", rng.choice([1, 8, 64]))] * rng.randrange(1, 4) + [("ret", 0, 0)]
    rs = rng.choice([[], [1] * 200, [0, 5, 0, 10 ** 6] * 30])
    ws = rng.choice([[], [0, 3, 0, 10 ** 6] * 10])
    return conn_case(B, 1, segs, [h], rs, ws, rng.choice([0, 1])), ["reads", "switch", "gate-probe"]


def one(rng):
    B = rng.choice([24, 32, 64, 256, 8192])
    k = rng.choice([1, 1, 2])
    segs, scripts = [], []
    for j in range(k):
        keep = j + 1 < k
        rid = rng.choice([1, 9, 65535])
        role = rng.choice([1, 2, 3, 3])
        recs = minimal_preamble(rid, role, flags=1 if keep else 0, pairs=rand_pairs(rng, 1, 8))
        contents = {t: [rng.randrange(256) for _ in range(rng.choice([0, 1, 30, rng.randrange(0, 400)]))] for t in ROLE_STREAMS[role]}
        recs += streams_part(rng, rid, role, contents, junk_rate=0.3, no_begin=True)
        segs.append((j, 0, flat(recs)))
        scripts.append(gen_handler(rng, role))
    rs = C07.io_script(rng, 300, "r")
    ws = C07.io_script(rng, 100, "w")
    kinds = set(o[0] for s in scripts for o in s)
    tags = ["reads"] + (["mixed"] if len(kinds & {"read", "fill", "readall"}) >= 2 else []) + (["switch"] if "set" in kinds or "writeable" in kinds else [])
    if any(o == ("read", 0) for s in scripts for o in s):
        tags.append("zero-read")
    return conn_case(B, 1, segs, scripts, rs, ws, rng.choice([0, 1])), tags


def huge_buffer_case(rng):
    """Config::buffer_size of 64 KiB and more (the documentation recommends 10s to 100s of KiB for uploads), maximum-size Stdin records and
    a transport that hands over as much as the buffer takes: single reads leave 2^16 and more unparsed bytes in the buffer, in the
    middle of a record payload (the first transport read ends inside the first record, so the next one starts with an empty buffer)"""
    B = rng.choice([65536, 65536, 131072])
    rid = rng.choice([1, 9])
    role = rng.choice([1, 1, 3])
    n = rng.choice([2, 3])
    data = [rng.randrange(256) for _ in range(65535 * n - rng.choice([0, 1, 500]))]
    recs = flat(minimal_preamble(rid, role, flags=0, pairs=rand_pairs(rng, 1, 3)))
    body = []
    for i in range(0, len(data), 65535):
        body += record(STDIN, rid, data[i:i + 65535], rng.choice([0, 0, 1]))
    body += record(STDIN, rid, [], 0)
    if role == 3:
        body += record(DATA, rid, [5, 6, 7], 0) + record(DATA, rid, [], 0)
    cut = 8 + rng.choice([0, 1, 100, 1000])            # the first transport read: preamble, the first Stdin header and a few payload bytes
    first = rng.choice([1000, 70000])
    # (bounded reads, no read_to_end: the model's read_to_end is quadratic in the stream length)
    h = [("read", first)] + [("read", rng.choice([70000, 200000])) for _ in range(n + 4)] + [("read", 1000)]
    if role == 3:
        h += [("set", DATA), ("read", 1000), ("read", 1000)]
    h.append(("ret", 0, 0))
    return conn_case(B, 1, [(0, 0, recs + body)], [h], [len(recs) + cut], [], rng.choice([0, 1])), ["reads", "mixed", "huge-buffer"]


def direct_request_case(rng):
    """the async Request built BY HAND through the public constructors (the embedding application parses the preamble itself), for a
    Filter optionally with the Data stream selected on the stream parser before wrapping: the request is writeable at construction
    exactly for roles with at most one input stream - never because of what was selected -, reads deliver the selected stream, and
    Request::close called by the application itself ends the request"""
    role = rng.choice([1, 2, 3, 3, 3])
    rid = rng.choice([1, 9])
    recs = minimal_preamble(rid, role, flags=rng.choice([0, 1]), pairs=rand_pairs(rng, 1, 8))
    contents = {t: [rng.randrange(256) for _ in range(rng.choice([0, 1, 30, 90]))] for t in ROLE_STREAMS[role]}
    recs += streams_part(rng, rid, role, contents, junk_rate=0.2, no_begin=True)
    pre = DATA if role == 3 and rng.random() < 0.6 else 0
    h = gen_handler(rng, role)
    if pre:
        h = [op for op in h if op[0] != "set"]
    B = rng.choice([64, 256, 8192])
    leak = 1 if rng.random() < 0.2 else 0          # the application keeps a StreamWriter alive across close(): close must refuse
    return conngen.req_new_case(B, 1, flat(recs), h, C07.io_script(rng, 200, "r"), C07.io_script(rng, 60, "w"), rng.choice([0, 1]), pre, leak), \
        ["reads", "direct-request"] + (["preselected"] if pre else []) + (["leaked-writer"] if leak else [])


def gen_cases(rng, tier):
    for _ in range(1200 if tier == "quick" else 60000):
        yield one(rng)
    for _ in range(200 if tier == "quick" else 8000):
        yield direct_request_case(rng)
    for _ in range(30 if tier == "quick" else 1000):
        yield gate_probe_case(rng)
    for _ in range(6 if tier == "quick" else 40):
        yield huge_buffer_case(rng)


def nontrivial(line, tags):
    return "mixed" in tags or "switch" in tags


def min_classes(tier):
    return {"mixed": 400, "switch": 400, "zero-read": 200, "gate-probe": 30, "direct-request": 200, "preselected": 40, "leaked-writer": 20, "huge-buffer": 6}


def oracle_direct(line, impl_line):
    """req_new lines: the gate at construction depends on the role alone; the rest is the correspondence with the model"""
    mode, a = parse_case(line)
    o = parse_out(impl_line)
    if o is None or o[0] == [18446744073710440504]:
        return "crashed or panicked"
    if o[0] == [3]:
        return True
    wire = a[3]
    rr, _ = parse_records(wire)
    b = [r for r in rr if r[0] == BEGIN][0]
    role = b[2][0] * 256 + b[2][1]
    first = [r for r in o[3:] if r and r[0] == 300]
    if not first:
        return "no construction event"
    wr = first[0][1]
    if wr != (1 if len(ROLE_STREAMS[role]) <= 1 else 0):
        return ("Request::new reports is_writeable() = %d for role %d: a request is writeable at construction exactly when its role has at most "
                "one input stream, whatever stream was selected on the parser before" % (wr, role))
    return True


def oracle(line, impl_line):
    if line.startswith("req_new "):
        return oracle_direct(line, impl_line)
    o = parse_out(impl_line)
    if o is None or o[0] == [18446744073710440504]:
        return "connection task crashed or panicked"
    cfg, rscript, wscript, segs, scripts = C07.decode_case(line)
    head, cons, wlog, inv, shut = C07.parse_events(o)
    if head[0] == 1 and not any(s[1] >= 90 for s in segs):
        return "deadlock"          # (the gate-probe client never releases its last segment: the task legitimately ends up waiting)
    for j, iv in enumerate(inv):
        rr, _ = parse_records(segs[j][2])
        b = [r for r in rr if r[0] == BEGIN][0]
        rid, role = b[1], b[2][0] * 256 + b[2][1]
        pe = [q for q, r in enumerate(rr) if r[0] == PARAMS and r[1] == rid and not r[2]][0]
        streams = ROLE_STREAMS[role]
        if iv["hdr"][4] != (1 if len(streams) <= 1 else 0):
            return "request reports writeable=%d at creation for a role with %d input streams" % (iv["hdr"][4], len(streams))
        if iv["hdr"][3] != (streams[0] if streams else 0):
            return "initial active stream is %d" % iv["hdr"][3]
        active = streams[0] if streams else None
        got = {STDIN: [], DATA: []}
        eof = {STDIN: False, DATA: False}
        writeable = len(streams) <= 1
        hops = C07.handler_ops(scripts[min(j, len(scripts) - 1)])
        for (ev, d), op in zip(iv["ops"], hops):
            if ev[0] == 4:
                active = ev[1] or None
            elif ev[0] == 5:
                if ev[1] == 0:
                    if ev[2] != 1:
                        return "writeable() returned Ok but is_writeable() is false"
                    if streams and ev[3] != streams[-1]:
                        return "after writeable() the active stream is %d, not the role's final stream" % ev[3]
                    active = ev[3] or None
            elif ev[0] == 11:
                # one poll of a read, then is_writeable(): the gate may be open only if it was open at creation, or the final stream
                # is active and every earlier stream of this request has ended IN THE BYTES THE CLIENT EVER RELEASES
                if ev[3] == 1 and len(streams) > 1:
                    released = [r for s in segs if s[1] < 90 for r in parse_records(s[2])[0]]
                    for t in streams[:-1]:
                        if not any(r[0] == t and r[1] == rid and not r[2] for r in released) and \
                           not any(r[0] == streams[-1] and r[1] == rid for r in released):
                            return "the request reports itself writeable although stream %d has neither ended nor been passed" % t
                if ev[1] == 1 and ev[2]:
                    if active is None:
                        return "bytes delivered although no stream is active"
                    if eof[active]:
                        return "bytes delivered after end-of-file was reported for the stream"
                    got[active] += d
                elif ev[1] == 1 and ev[2] == 0 and op[1] > 0 and active:
                    eof[active] = True
            elif ev[0] == 1:
                if ev[1] == 0:
                    return ("a read failed (error kind %d) although the request is well-formed and complete, nothing was aborted and the "
                            "transport never reported an error" % ev[2])
                if ev[1] == 1:
                    n = ev[2]
                    if op[1] == 0 and n != 0:
                        return "a zero-length read returned %d bytes" % n
                    if n > op[1]:
                        return "read returned more bytes than the buffer holds"
                    if active is None and n:
                        return "bytes delivered although no stream is active"
                    if active and n:
                        if eof[active]:
                            return "bytes delivered after end-of-file was reported for the stream"
                        got[active] += d
                    if active and n == 0 and op[1] > 0:
                        eof[active] = True
            elif ev[0] == 2:
                if active and d:
                    if eof[active]:
                        return "bytes delivered after end-of-file was reported for the stream"
                    got[active] += d
                if active and ev[1] == 0:
                    eof[active] = True
            elif ev[0] == 3 and ev[1] == 1:
                if active and d:
                    if eof[active] and d:
                        return "fill_buf exposed bytes after end-of-file was reported"
                    got[active] += d[:ev[2]]
                    # bytes seen but not consumed stay buffered and are seen again: only count consumed ones
                if active and not d:
                    eof[active] = True
        for t in (STDIN, DATA):
            content, how = stream_content(rr[pe + 1:], rid, role, t)
            if content[:len(got[t])] != got[t]:
                return "bytes read from stream %d are not a prefix of its content (got %d bytes)" % (t, len(got[t]))
            if eof[t] and how == "ended" and got[t] != content and False:
                return "end-of-file reported before the whole stream was delivered"
    return True
