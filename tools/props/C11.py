"""C11 - a client abort ends exactly the aborted request; the connection stays usable."""
import conngen
from conngen import *  # noqa
from fvgen import parse_case, parse_out
from fcgi import header, replies_for
import importlib.util, os

_spec = importlib.util.spec_from_file_location("c07", os.path.join(os.path.dirname(__file__), "C07.py"))
C07 = importlib.util.module_from_spec(_spec)
_spec.loader.exec_module(C07)

RULE = ("conn_run: an AbortRequest (for the request in progress, or for a foreign id) placed after every record of the preamble and of each "
        "input stream, with empty / 8-byte / odd bodies and paddings on the abort record itself; handlers that are reading, buffered-reading, "
        "not reading, or already past end-of-stream, with and without an own exit status; followed by 0..2 further requests released after the "
        "EndRequest; chunked / Pending-heavy transports. Oracle: exactly one EndRequest(RequestComplete) for the aborted id (application status "
        "0 without handler call when aborted during Params; 'ABRT' or the handler's own status otherwise), input delivered before the error is a "
        "prefix of what was sent, foreign aborts change nothing, later requests are served. Non-trivial: every case; distinct = distinct case lines.")
ASSUMPTIONS = C07.ASSUMPTIONS
ABRT = 0x41425254


def one(rng):
    B = rng.choice([32, 64, 256, 8192])
    rid = rng.choice([1, 2, 77])
    role = rng.choice([1, 1, 3])
    follow = rng.randrange(0, 3)
    keep = True if follow else rng.random() < 0.5
    pairs = rand_pairs(rng, rng.randrange(0, 3), min(20, (B - 13) // 2))
    pre = [begin(rid, role, 1 if keep else 0)] + stream_records(PARAMS, rid, nv_all(pairs), cut_list(rng, len(nv_all(pairs)), "few"), rng)
    srecs = []
    for t in ROLE_STREAMS[role]:
        content = [rng.randrange(256) for _ in range(rng.choice([0, 6, 40]))]
        srecs += stream_records(t, rid, content, cut_list(rng, len(content), "few"), rng)
    allrecs = pre + srecs
    foreign = rng.random() < 0.25
    aid = rid + 5 if foreign else rid
    pos = rng.randrange(1, len(allrecs) + (0 if not foreign else 1))
    ab = record(ABORT, aid, [rng.randrange(256) for _ in range(rng.choice([0, 0, 8, 3]))], rng.choice([0, 0, 5, 255]))
    where = "params" if pos < len(pre) else "stream"
    glue = []
    if rng.random() < 0.3:
        # a management query directly in front of the abort (same segment, possibly the same parse call): its reply and the abort
        # must both come through
        glue = [rng.choice([record(GETVALUES, 0, nv_all([(b"FCGI_MAX_CONNS", b"")]), rng.choice([0, 3])), record(rng.choice([12, 99]), 0, [1, 2], 0)])]
    recs = allrecs[:pos] + glue + [ab] + (allrecs[pos:] if foreign or rng.random() < 0.3 else [])
    segs = [(0, 0, flat(recs))]
    how = rng.choice(["all", "fill", "none", "past-eof", "own-status", "own-success", "propagate", "propagate"])
    if how == "all":
        h = [("readall",), ("ret", 0, 5)]
        h = [("readall",), ("fail", 2)] if rng.random() < 0.6 else h
    elif how == "fill":
        h = [("fill", 10 ** 6), ("fill", 10 ** 6), ("fill", 10 ** 6), ("fail", 2)]
    elif how == "own-success":
        # the handler sees the abort (the error is swallowed) and deliberately reports SUCCESS: its status is its own choice
        h = rng.choice([[("readall",)], [("read", 64)] * 4, [("fill", 10 ** 6)] * 3]) + [("ret", 0, 0)]
    elif how == "none":
        h = [("ret", 0, rng.choice([0, 9]))]
    elif how == "past-eof":
        h = [("readall",), ("read", 8), ("read", 8), ("fail", 2)]
    elif how == "propagate":
        # `req.read(&mut buf).await?` until the stream is exhausted, then a regular exit: the abort reaches Token::run as the Err
        # of the handler (the way real handlers see it)
        h = [("read?", rng.choice([1, 16, 64]))] * rng.randrange(3, 9) + [("ret", 0, 5)]
    else:
        h = [("readall",), ("writeable",), ("write", STDOUT, [1, 2, 3]), ("ret", 0, 77)]
    scripts = [h]
    for j in range(follow):
        w, m = C07.gen_request(rng, rid + 1 + j, j + 1 < follow, B)
        segs.append((1 + j, 0, w))
        scripts.append([("readall",), ("ret", 0, j)])
    rs = C07.io_script(rng, 200, "r")
    ws = C07.io_script(rng, 100, "w")
    tags = ["abort", where, "foreign" if foreign else "own", how, "follow%d" % follow] + (["query-before-abort"] if glue else [])
    return conn_case(B, 1, segs, scripts, rs, ws, rng.choice([0, 1])), tags


def huge_abort_case(rng, P, pad, where):
    """the AbortRequest record itself carries a maximum-size body and padding (content + padding > 65535), the buffer is larger than
    64 KiB and the transport delivers everything in one read: the record is skipped in one step - by the request parser during Params,
    or by the NEXT request parser (retained abort header) after the handler saw the abort; the following request must be served"""
    B = rng.choice([70000, 131072])
    rid = 1
    ab = header(ABORT, rid, P, pad) + [rng.randrange(256) for _ in range(P)] + (flat([record(BEGIN, 5, [0, 1, 0, 0, 0, 0, 0, 0], 0)]) + [0] * pad)[:pad]
    pre = minimal_preamble(rid, 1, flags=1)
    if where == "params":
        w = flat(pre[:-1]) + ab
        scripts = [[("ret", 0, 0)]]
    else:
        w = flat(pre) + record(STDIN, rid, [1, 2, 3, 4, 5], 0) + ab
        scripts = [[("read?", 64)] * 4 + [("ret", 0, 5)]]
    w2, m2 = C07.gen_request(rng, 2, False, 64)
    segs = [(0, 0, w), (0 if where == "params" else 1, 0, w2)]
    scripts.append([("readall",), ("ret", 0, 7)])
    if where == "params":
        scripts = scripts[1:]
    return conn_case(B, 1, segs, scripts, [], [], rng.choice([0, 1])), ["abort", where, "own", "propagate" if where != "params" else "none", "follow1", "huge-abort"]


def sync_abort_handoff_case(rng):
    """parser API only: the AbortRequest arrives in the same chunk as Stdin data that is delivered into the stream buffer (so the
    data is still buffered when parse() returns the abort error), the caller hands the parser over with into_request_parser() as it
    stands (no set_stream(None), no compress()): the next request parser must skip the retained abort record and parse request 2"""
    from fvgen import fmt_arg
    rid = rng.choice([1, 7])
    data = [rng.randrange(256) for _ in range(rng.choice([1, 5, 40]))]
    ab = record(ABORT, rid, [rng.randrange(256) for _ in range(rng.choice([0, 8]))], rng.choice([0, 3]))
    tail = [record(STDIN, rid, [1, 2], 0)] * rng.choice([0, 1])
    w1 = flat(minimal_preamble(rid, 1, flags=1)) + record(STDIN, rid, data, rng.choice([0, 2])) + ab + flat(tail)
    w2 = flat(minimal_preamble(2, 1, pairs=[(b"K", b"v")]))
    ops = [[0, 10 ** 6]] + rng.choice([[], [[0, 0]], [[2, 1]]]) + [[6, 0, 2]]
    return "str_run " + " ".join(fmt_arg(x) for x in [[rng.choice([256, 8192])], [3], w1 + w2] + ops), ["abort", "stream", "own", "sync-handoff", "follow1"]


def params_abort_pipelined_case(rng):
    """request A (id 1) is aborted during Params and the client sends the whole next request B (id 2) right behind the abort, in the same
    segment (hence possibly in the same transport read and the same parse call): A still gets its one EndRequest(RequestComplete, 0),
    no handler runs for A, B is served"""
    B = rng.choice([256, 8192])
    pairs = rand_pairs(rng, 2, 20)
    preA = [begin(1, 1, 1)] + stream_records(PARAMS, 1, nv_all(pairs), cut_list(rng, len(nv_all(pairs)), "few"), rng)
    ab = record(ABORT, 1, [rng.randrange(256) for _ in range(rng.choice([0, 8]))], rng.choice([0, 5]))
    w2 = flat(minimal_preamble(2, 1, flags=0, pairs=[(b"K", b"v")])) + record(STDIN, 2, [1, 2, 3], 0) + record(STDIN, 2, [], 0)
    segs = [(0, 0, flat(preA[:rng.randrange(1, len(preA))]) + ab + w2)]      # never the terminating empty Params record
    rs = rng.choice([[], [10 ** 6] * 10, C07.io_script(rng, 60, "r")])
    ws = rng.choice([[], C07.io_script(rng, 40, "w")])
    return conn_case(B, 1, segs, [[("readall",), ("ret", 0, 7)]], rs, ws, rng.choice([0, 1])), ["abort", "params", "own", "none", "follow1", "params-pipelined"]


def gen_cases(rng, tier):
    for _ in range(1200 if tier == "quick" else 60000):
        yield one(rng)
    for _ in range(30 if tier == "quick" else 1500):
        yield params_abort_pipelined_case(rng)
    for _ in range(12 if tier == "quick" else 400):
        yield sync_abort_handoff_case(rng)
    for (P, pad) in ((65535, 255), (65281, 255), (65535, 1)):
        for where in ("params", "stream"):
            yield huge_abort_case(rng, P, pad, where)


def nontrivial(line, tags):
    return True


def min_classes(tier):
    return {"params": 150, "stream": 300, "foreign": 150, "follow1": 150, "follow2": 150, "past-eof": 100, "own-status": 100, "propagate": 150, "huge-abort": 6, "sync-handoff": 10, "params-pipelined": 30, "query-before-abort": 200, "own-success": 100}


def oracle(line, impl_line):
    o = parse_out(impl_line)
    if o is None or o[0] == [18446744073710440504]:
        return "connection task crashed or panicked"
    if line.startswith("str_run "):
        # class sync-handoff: after the abort error the plain hand-off must succeed and the next request parser must deliver request 2
        import strobs
        mode, a = parse_case(line)
        saw_abort, nxt = False, None
        for op, ev in strobs.walk(a[3:], o):
            if ev["kind"] == "parse" and not ev["ok"]:
                saw_abort = True
            elif ev["kind"] == "next":
                nxt = ev
            elif ev["kind"] == "panic":
                return "panic in the parser chain after a client abort"
        if not saw_abort:
            return "the stream parser did not report the AbortRequest"
        if nxt is None or not nxt["ok"] or not nxt["done"]:
            return "after a client abort the hand-off to the next request parser failed (%s): the connection is not usable" % (nxt.get("code") if nxt else "no hand-off")
        if nxt["req"][0] != 2:
            return "the request parsed after the abort is not request 2"
        return True
    cfg, rscript, wscript, segs, scripts = C07.decode_case(line)
    head, cons, wlog, inv, shut = C07.parse_events(o)
    if head[0] == 1:
        return "deadlock after a client abort"
    rr, _ = parse_records(segs[0][2])
    if len(segs) == 1 and len(set(r[1] for r in rr if r[0] == BEGIN)) == 2:
        # class params-pipelined: A = id 1 aborted during Params, B = id 2 complete behind it in the same segment
        recs, tail = parse_records(wlog)
        if tail != "clean":
            return "transport log is not a sequence of complete records"
        endA = [r for r in recs if r[0] == END and r[1] == 1]
        endB = [r for r in recs if r[0] == END and r[1] == 2]
        if len(endA) != 1 or endA[0][2][:5] != [0, 0, 0, 0, 0]:
            return "the request aborted during Params was answered by %d EndRequest records, expected exactly one EndRequest(RequestComplete, 0)" % len(endA)
        if len(inv) != 1:
            return "%d handler invocations, expected one (for the request behind the aborted one)" % len(inv)
        if len(endB) != 1:
            return "the request behind the aborted one was not served (%d EndRequest records for it)" % len(endB)
        if recs.index(endA[0]) > recs.index(endB[0]):
            return "the EndRequest for the aborted request was written after the next request's"
        return True
    b = [r for r in rr if r[0] == BEGIN][0]
    rid, role = b[1], b[2][0] * 256 + b[2][1]
    keep = b[2][2] & 1
    ai = [k for k, r in enumerate(rr) if r[0] == ABORT][0]
    aid = rr[ai][1]
    pe = [k for k, r in enumerate(rr) if r[0] == PARAMS and r[1] == rid and not r[2]]
    in_params = not pe or ai < pe[0]
    recs, tail = parse_records(wlog)
    if tail != "clean":
        return "transport log is not a sequence of complete records"
    all_end = [r for r in recs if r[0] == END and r[1] == rid]
    stripped = C07.strip_replies(cfg, segs, recs)
    if stripped is None:
        return None
    ends = [r for r in stripped if r[0] == END and r[1] == rid]
    if aid == rid and in_params:
        ends = all_end[:1] if all_end and all_end[0][2][:5] == [0, 0, 0, 0, 0] else []
        if len([r for r in stripped if r[0] == END and r[1] == rid and (len(segs) == 1)]) > 0:
            return "an epilogue was written for a request aborted during Params"
    if aid != rid:
        # foreign abort: ignored; the request completes normally if it is complete
        return True if (not pe or len(ends) <= 1) else "more than one EndRequest for the request"
    if in_params:
        if inv and inv[0]["hdr"][0] == role and len(segs) == 1:
            return "handler invoked although the request was aborted during Params"
        if len(ends) != 1:
            return "no EndRequest(RequestComplete, 0) for the request aborted during Params"
        body = ends[0][2]
        if body[:5] != [0, 0, 0, 0, 0]:
            return "EndRequest for an abort during Params must be RequestComplete with application status 0"
        return True
    # aborted after the preamble: the handler runs; its next read fails with ConnectionAborted
    if not inv:
        return "handler not invoked for a complete preamble"
    got = [x for ev, d in inv[0]["ops"] if ev[0] in (1, 2) and d for x in d]
    first = ROLE_STREAMS[role][0]
    content, how = stream_content(rr[pe[0] + 1:], rid, role, first)
    if content[:len(got)] != got and role != 3:
        return "input delivered before the abort is not a prefix of what the client sent"
    if role == 3:
        # a Filter may have switched to Data: what it read from EACH stream must be a prefix of that stream's content in the records sent
        active, per = first, {STDIN: [], DATA: []}
        for ev, d in inv[0]["ops"]:
            if ev[0] == 4:
                active = ev[1] or None
            elif ev[0] == 5 and ev[1] == 0:
                active = ev[3] or None
            elif ev[0] in (1, 2) and d and active in per:
                per[active] += d
            elif ev[0] == 3 and ev[1] == 1 and d and active in per:
                per[active] += d[:ev[2]]
        for t in (STDIN, DATA):
            c, _ = stream_content(rr[pe[0] + 1:], rid, role, t)
            if c[:len(per[t])] != per[t]:
                return "input delivered from stream %d before the abort is not a prefix of what the client sent on that stream (%d bytes read)" % (t, len(per[t]))
    hops = C07.handler_ops(scripts[0])
    st = C07.expected_status(hops)
    # what the handler observed: a read that failed with ConnectionAborted = the client's abort as the handler sees it
    seen_abort = any((ev[0] in (1, 3) and ev[1] == 0 and ev[2] == 2) or (ev[0] == 2 and ev[1] == 2) or (ev[0] == 5 and ev[1] == 2)
                     for ev, d in inv[0]["ops"])
    for (ev, d), op in zip(inv[0]["ops"], hops):
        if op[0] == "read?" and ev[0] == 1 and ev[1] == 0:
            # the handler returned this error: the abort status for a client abort, otherwise the connection is torn down
            st = (ABRT, 0) if ev[2] == 2 else None
            break
    if any(op[0] == "fail" and op[1] == 2 for op in hops) and not seen_abort and st == (ABRT, 0):
        # the handler fabricated a ConnectionAborted error without having seen the abort: an Err tears the connection down
        # (documented for Token::run); nothing is claimed about it here
        return True
    if st is None:
        return True
    if len(ends) != 1:
        return "%d EndRequest records for the aborted request, expected exactly 1" % len(ends)
    body = ends[0][2]
    app = (body[0] << 24) | (body[1] << 16) | (body[2] << 8) | body[3]
    if body[4] != st[1] and st is not None:
        return "protocol status %d, expected %d" % (body[4], st[1])
    if st is not None and app != st[0]:
        return "application status %#x, expected %#x" % (app, st[0])
    # handlers that read after the abort must have seen ConnectionAborted (kind 2) at that read, never a short/empty success
    errs = [ev for ev, d in inv[0]["ops"] if ev[0] in (1, 3) and ev[1] == 0] + [ev for ev, d in inv[0]["ops"] if ev[0] == 2 and ev[1] != 0]
    if any((ev[2] if ev[0] in (1, 3) else ev[1]) not in (2,) for ev in errs) and not any(x >= 4000000001 for x in rscript + wscript):
        return "a read after the abort failed with an error other than ConnectionAborted"
    if keep and len(segs) > 1 and len(inv) < 2:
        return "the connection did not serve the next request after an abort although KeepConn was set"
    return True
