"""C06 - documented buffer bound suffices; lack of space is reported, never waited on."""
import fcgen
from fcgen import *  # noqa
from fvgen import case, parse_case, parse_out

RULE = ("bufsize: every b in 0..4096 (quick) / 0..2^20+16 (thorough) plus values around 8192, 2^20, 2^32, 2^63 and the overflow arm; req_run: "
        "one critical pair of total size B-13-d (d in 0..3: inside the bound, must parse) and B-12..B-4 (outside: explored for information, "
        "verdict must merely agree with the model), placed at the start / middle / end of a Params record or across two/three records, "
        "schedules greedy (reads that exactly fill the buffer), 1-byte and random, buffers 24..512 and 8192, the critical pair also with both lengths in the 4-byte form, schedules that deliver all but the last 1..3 bytes at once; plus GetValues management records whose BODY exceeds the buffer while every pair is tiny, before BeginRequest and between Params records. Non-trivial: pair at or beyond "
        "B-13-3; distinct = distinct case lines.")
ASSUMPTIONS = ["usize is 64 bits"]
BOTH_PROFILES = True


def release_view(line, out):
    return out


def eff(b):
    if b <= 24:
        return 24
    if b + 7 > 2 ** 64 - 1:
        return 2 ** 64 - 1
    return (b + 7) & ~7


def gen_cases(rng, tier):
    quick = tier == "quick"
    top = 4096 if quick else 2 ** 20 + 16
    for b in range(0, top + 1):
        yield case("bufsize", [b]), ["bufsize"]
    for b in [8191, 8192, 8193, 2 ** 20 - 1, 2 ** 20, 2 ** 20 + 1, 2 ** 20 + 7, 2 ** 20 + 9, 2 ** 24 + 3]:
        yield case("bufsize", [b]), ["bufsize"]
    for _ in range(250 if quick else 20000):
        B = rng.choice([24, 25, 31, 32, 33, 40, 64, 100, 200, 512, 8192])
        Be = eff(B)
        d = rng.choice([0, 0, 1, 2, 3, -1, -2, -3, -4, -5, -6, -7, -8, -9])
        # the lengths of the critical pair in the 4-byte form (mandatory from 128 bytes on, legal below): the pair then occupies
        # name + value + 8 bytes, which the documented "+ 13" covers
        long_form = rng.random() < 0.4
        size = Be - 13 - d
        if size < 0:
            continue
        nl = rng.randrange(0, size + 1)
        crit = (rand_name(rng, nl), [rng.randrange(256) for _ in range(size - nl)])
        before = rand_pairs(rng, rng.randrange(0, 3), max(0, min(10, Be - 14)))
        after = rand_pairs(rng, rng.randrange(0, 3), max(0, min(10, Be - 14)))
        before = [(n[:max(0, (Be - 13) // 2)], v[:max(0, (Be - 13) // 2)]) for n, v in before]
        after = [(n[:max(0, (Be - 13) // 2)], v[:max(0, (Be - 13) // 2)]) for n, v in after]
        pairs = before + [crit] + after
        enc4 = lambda n: [0x80 | (n >> 24), (n >> 16) & 255, (n >> 8) & 255, n & 255]
        crit_enc = (enc4(len(crit[0])) + enc4(len(crit[1])) + list(crit[0]) + list(crit[1])) if long_form else nv(*crit)
        payload = nv_all(before) + crit_enc + nv_all(after)
        s = len(nv_all(before))
        e = s + len(crit_enc)
        place = rng.choice(["start", "middle", "end", "across2", "across3", "own", "split-long"])
        if place == "split-long":
            # the critical pair is cut by a record boundary and the SECOND record goes on with many more small pairs: that record
            # is longer than the buffer although every pair is within the bound
            after = after + rand_pairs(rng, rng.randrange(4, 10), max(1, min(10, (Be - 14) // 2)))
            after = [(n[:max(0, (Be - 13) // 2)], v[:max(0, (Be - 13) // 2)]) for n, v in after]
            pairs = before + [crit] + after
            payload = nv_all(before) + crit_enc + nv_all(after)
        cuts = {"start": [s] if s else [], "middle": [], "end": [e], "own": [s, e],
                "across2": [s, rng.randrange(s + 1, e) if e - s > 1 else s, e],
                "across3": sorted(set([s, e] + [rng.randrange(s + 1, e) for _ in range(2)] if e - s > 1 else [s, e])),
                "split-long": [rng.randrange(s + 1, e)] if e - s > 1 else []}[place]
        recs = [begin(1, 1, 1)] + stream_records(PARAMS, 1, payload, cuts, pads=[rng.choice([0, 7, 255])])
        w = flat(recs) + rng.choice([[], record(STDIN, 1, [1, 2])])
        sched = schedule(rng, len(w), rng.choice(["greedy", "one", "random"]))
        if rng.random() < 0.2:
            sched = [len(w) - rng.choice([1, 2, 3])] + [1] * 4          # everything but the last bytes in one go (as far as it fits)
        yield case("req_run", [B], [1], w, sched), ["bound", "inside" if d >= 0 else "outside", place] + (["long-form"] if long_form else [])


def gv_long(rng, Be):
    """a GetValues record (management, id 0) whose BODY is longer than the effective buffer although every pair is tiny"""
    names = [b"FCGI_MAX_CONNS", b"FCGI_MAX_REQS", b"FCGI_MPXS_CONNS", b"FCGI_MAX_THREADS", b"X", b"SOME_UNKNOWN_NAME"]
    body = []
    while len(body) <= Be + rng.randrange(0, 40):
        n = list(rng.choice(names))[:max(1, min(20, Be - 14))]
        v = [rng.randrange(256) for _ in range(rng.choice([0, 0, 1, 3]))] if len(n) + 3 + 13 <= Be else []
        body += nv(n, v)
    return record(GETVALUES, 0, body, rng.choice([0, 5, 255]))


def gen_mgmt_cases(rng, tier):
    quick = tier == "quick"
    for _ in range(120 if quick else 6000):
        B = rng.choice([24, 28, 32, 33, 40, 64, 100])
        Be = eff(B)
        pairs = rand_pairs(rng, rng.randrange(0, 3), max(0, min(8, (Be - 14) // 2)))
        payload = nv_all(pairs)
        cuts = cut_list(rng, len(payload), "few")
        precs = stream_records(PARAMS, 1, payload, cuts, pads=[rng.choice([0, 7])])
        where = rng.choice(["before-begin", "between-params", "both"])
        recs = []
        if where in ("before-begin", "both"):
            recs.append(gv_long(rng, Be))
        recs.append(begin(1, 1, 1))
        if where in ("between-params", "both"):
            k = rng.randrange(0, len(precs))
            precs = precs[:k] + [gv_long(rng, Be)] + precs[k:]
        w = flat(recs + precs)
        sched = schedule(rng, len(w), rng.choice(["greedy", "one", "random"]))
        yield case("req_run", [B], [3], w, sched), ["bound", "mgmt-long-body", where]


_gen_cases_pairs = gen_cases


import importlib.util, os
_spec5 = importlib.util.spec_from_file_location("c05", os.path.join(os.path.dirname(__file__), "C05.py"))
C05 = importlib.util.module_from_spec(_spec5)
_spec5.loader.exec_module(C05)


def full_buffer_handoff_case(rng):
    """a request parser that is NOT fresh: it was converted from a stream parser (connection reuse) whose buffer is 100% full of
    look-ahead - the empty-Stdin terminator of request 1 followed by the pipelined start of request 2 - and is first called with no new
    input, as documented.  It must make progress (skip the terminator, parse on) or report StuckOnInput from that very call; here every
    pair is within the bound, so request 2 must be parsed"""
    from fvgen import fmt_arg
    B = rng.choice([64, 72, 128, 256])
    p1 = rand_pairs(rng, rng.randrange(0, 2), 10)
    w1 = flat(minimal_preamble(1, 1, flags=1, pairs=p1) + [record(STDIN, 1, [], rng.choice([0, 0, 3]))])
    pairs2 = rand_pairs(rng, rng.randrange(2, 6), max(8, (B - 13) // 2 - 4))
    w2 = flat(preamble(rng, 2, 1, 0, pairs2, junk_rate=0.1, idle=0)[0]) + record(STDIN, 2, [1, 2, 3], 0) + record(STDIN, 2, [], 0)
    while len(w1) + len(w2) < 2 * B + 16:
        w2 = record(rng.choice([12, 99]), 0, [rng.randrange(256) for _ in range(rng.randrange(0, 20))], 0) + w2     # idle junk in front
    ops = [[0, 10 ** 6], [6, 0, rng.choice([1, 2])]]
    return "str_run " + " ".join(fmt_arg(x) for x in [[B], [3], w1 + w2] + ops), ["bound", "full-buffer-handoff"]


def gen_cases(rng, tier):
    yield from _gen_cases_pairs(rng, tier)
    yield from gen_mgmt_cases(rng, tier)
    for _ in range(40 if tier == "quick" else 2000):
        yield full_buffer_handoff_case(rng)


def nontrivial(line, tags):
    return "bound" in tags or True


def min_classes(tier):
    return {"bufsize": 4000, "inside": 60, "outside": 100, "mgmt-long-body": 100, "full-buffer-handoff": 40, "long-form": 50}


def oracle(line, impl_line):
    if line.startswith("str_run "):
        return C05.oracle(line, impl_line)        # class full-buffer-handoff: the next request must be parsed, identical to what was sent
    mode, a = parse_case(line)
    o = parse_out(impl_line)
    if o is None or (o == [[18446744073710440504]] and not (mode == "bufsize" and eff(a[0][0]) == 18446744073710440504)):
        return "implementation crashed or panicked"          # 18446744073710440504 is the harness' panic marker - and a legitimate buffer size
    if mode == "bufsize":
        b = a[0][0]
        e = o[0][0]
        if e != eff(b):
            return "effective buffer for %d is %d, expected %d" % (b, e, eff(b))
        if b < 2 ** 64 - 7 and (e < b or e < 24 or e % 8):
            return "effective buffer %d violates the documented guarantees for %d" % (e, b)
        return True
    if mode == "req_run":
        B, wire = a[0][0], a[2]
        Be = eff(B)
        recs, _ = parse_records(wire)
        payload = []
        for t, rid, body, pad in recs:
            if t == PARAMS:
                payload += body
        pairs, _ = nv_decode(payload)
        for t, rid, body, pad in recs:
            if t == GETVALUES and rid == 0:
                pairs = pairs + nv_decode(body)[0]          # the pairs of management records count as well
        if all(len(n) + len(v) + 13 <= Be for n, v in pairs):
            if o[1] == [2, 2]:
                return "StuckOnInput although every pair respects the documented bound (B - 13)"
            if o[1] != [1]:
                return "well-formed preamble within the bound not parsed: %s" % o[1]
        if o[0][0] == 0 and o[0][2] == 0:
            return "unfinished parser with an empty input buffer"
        return True
    return None
