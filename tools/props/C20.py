"""C20 - CGI response header writers emit exactly the documented grammar and byte count:
case generator and oracle.

Case lines (see coq/Extract/RunsC20.v, harness/src/response.rs):
  hdr_write <code> <cap> <reason> <pre> <n1> <v1> <n2> <v2> ...
  hdr_http  <code> <cap> <reason> <pre> <n1> <v1> ...
  redirect  <cap> <pre> <loc>
cap = 2^64-1 selects a Vec<u8> destination, otherwise a `&mut [u8]` of cap bytes; <pre> are bytes the
destination already holds; <reason> is http's canonical reason phrase for <code> (empty = none), read
once from the compiled http crate through the harness mode `http_reasons`.
"""
import os, subprocess
from fvgen import case, parse_case, parse_out

ROOT = os.path.dirname(os.path.dirname(os.path.dirname(os.path.abspath(__file__))))
VEC = 2 ** 64 - 1

RULE = ("modes hdr_write / hdr_http / redirect: every status code 100..999 at least once (canonical and custom reasons, "
        "reason bytes taken from the compiled http crate), non-constructible codes, header lists of 0..6 (a few up to 40) "
        "entries with empty names/values and arbitrary bytes (mostly without, some with newline), every destination capacity "
        "0..len+1 for a sample of header lists and redirects, random capacities, Vec destinations with and without existing "
        "contents (each unbounded case repeated in the harness on a destination that takes 3, 2, 5, 1 bytes per call, and on one that additionally reports the transient Interrupted: same bytes and count), http::Response with lower-case token names, several values under one name included (listed adjacently = HeaderMap iteration order); a case is non-trivial when it has at least one header / "
        "a non-empty location or a bounded destination not larger than the text; distinct = distinct case lines")
ASSUMPTIONS = [
    "precondition of write_headers (documented, debug_assert! at response.rs:81): no header name equals `status` "
    "ignoring ASCII case; such lists are outside the property and are not generated or modelled",
    "simple_redirect takes &str: locations are valid UTF-8 (the model and theorems cover arbitrary bytes)",
    "destinations are modelled by the documented behaviour of std: <&mut [u8] as Write>::write_all copies "
    "min(len, remaining) bytes and fails with WriteZero iff not everything fitted; <Vec<u8> as Write>::write_all appends",
    "http 1.0.0 is modelled, not verified: StatusCode::from_u16 accepts exactly 100..=999, as_str is the 3-digit decimal, "
    "canonical_reason is a parameter of the theorems (its real values are supplied per case and cross-checked by the "
    "correspondence); HeaderMap::iter yields distinct names in insertion order",
    "usize arithmetic of the byte counter is modelled unbounded: the counter only ever counts bytes that were actually "
    "written to memory, so it cannot exceed usize::MAX",
    "usize is 64 bits",
]

TOKEN = b"abcdefghijklmnopqrstuvwxyz0123456789-_!#$%&'*+.^`|~"
STD_NAMES = [b"status-detail", b"status-uri", b"statuscode", b"statuses", b"x-status", b"statu", b"content-type", b"date", b"vary", b"link", b"etag", b"server", b"location", b"cache-control",
             b"expires", b"content-length", b"set-cookie", b"x-powered-by", b"last-modified", b"content-encoding"]
VALUE_BYTES = [9] + list(range(32, 127)) + list(range(128, 256))
NO_NL = [b for b in range(256) if b != 10]

_reasons = None


def reasons():
    """code -> canonical reason bytes (list of ints) or [] ; from the compiled http crate."""
    global _reasons
    if _reasons is None:
        exe = os.path.join(ROOT, ".cache", "target", "debug", "fv-harness")
        if not os.path.exists(exe):
            raise RuntimeError("C20 generator needs the built harness (%s) for mode http_reasons" % exe)
        p = subprocess.run([exe], input="http_reasons\n", stdout=subprocess.PIPE, stderr=subprocess.DEVNULL,
                           text=True, timeout=60)
        tab = parse_out(p.stdout.strip())
        if tab is None or len(tab) != 900:
            raise RuntimeError("http_reasons gave %r" % (p.stdout[:200],))
        _reasons = {100 + i: r for i, r in enumerate(tab)}
    return _reasons


def text_headers(code, reason, hs):
    out = list(b"Status: ") + list(b"%03d" % code) + [32] + (list(reason) if reason else list(b"Custom"))
    for n, v in hs:
        out += [10] + list(n) + [58, 32] + list(v)
    return out + [10, 10]


def text_redirect(loc):
    return list(b"Location: ") + list(loc) + [10, 10]


def reserved(name):
    return bytes(name).lower() == b"status"


# ------------------------------------------------------------------------------------------------
# generator
# ------------------------------------------------------------------------------------------------

def rbytes(rng, n, alphabet):
    return [rng.choice(alphabet) for _ in range(n)]


def rand_field(rng, with_nl=False):
    k = rng.random()
    n = 0 if k < 0.15 else rng.randrange(1, 13)
    style = rng.randrange(4)
    if style == 0:
        alpha = list(b"abcdefghijklmnopqrstuvwxyzABCDEFGHIJKLMNOPQRSTUVWXYZ0123456789-")
    elif style == 1:
        alpha = [0, 13, 32, 58, 255, 9, 127, 128] + ([10] if with_nl else [])
    else:
        alpha = list(range(256)) if with_nl else NO_NL
    return rbytes(rng, n, alpha)


def rand_headers(rng, maxn=6, with_nl=False):
    hs = []
    for _ in range(rng.randrange(maxn + 1)):
        n = rand_field(rng, with_nl)
        if rng.random() < 0.08:
            # names that merely START with (or resemble) the reserved name `Status`, in any case, are ordinary headers
            n = list(rng.choice([b"Status-Detail", b"status-uri", b"STATUSCODE", b"status ", b"Statuses", b"X-Status", b"Statu", b"sTaTuS2"]))
        while reserved(n):
            n = rand_field(rng, with_nl)
        hs.append((n, rand_field(rng, with_nl)))
    return hs


def rand_http_headers(rng, maxn=6):
    names, hs = set(), []
    for _ in range(rng.randrange(maxn + 1)):
        if rng.random() < 0.4:
            n = list(rng.choice(STD_NAMES))
        else:
            n = rbytes(rng, rng.randrange(1, 11), TOKEN)
        if reserved(n) or bytes(n) in names:
            continue
        names.add(bytes(n))
        v = rbytes(rng, rng.choice([0, 0, 1, 3, 8, 20]), VALUE_BYTES)
        # HeaderValue keeps the bytes as they are (no trimming in from_bytes)
        hs.append((n, v))
        # several values under ONE name (Set-Cookie, Link, ...): HeaderMap::iter yields them right after the first value,
        # so the case lists them adjacently, in insertion order; each value is its own `name: value` line
        while rng.random() < 0.3 and len(hs) < maxn + 3:
            hs.append((n, rbytes(rng, rng.choice([0, 1, 5, 12]), VALUE_BYTES)))
    return hs


def rand_loc(rng):
    k = rng.randrange(5)
    if k == 0:
        return []
    chars = "abcxyz/?=&#%.:-_~019 " + "éß中\U0001F600\u0000\r"
    if k == 1:
        chars += "\n"
    s = "".join(rng.choice(chars) for _ in range(rng.randrange(1, 24)))
    return list(s.encode("utf-8"))


def hdr_case(mode, code, cap, pre, hs):
    rs = reasons().get(code, [])
    flat = []
    for n, v in hs:
        flat += [n, v]
    return case(mode, [code], [cap], rs, pre, *flat)


def hdr_tags(code, cap, pre, hs, base):
    rs = reasons().get(code, [])
    tags = list(base)
    if 100 <= code <= 999:
        tags.append("canonical" if rs else "custom")
        ln = len(text_headers(code, rs, hs))
        if cap == VEC:
            tags.append("vec")
            if pre:
                tags.append("vec-append")
        else:
            tags.append("bounded")
            tags.append("fail" if cap < ln else ("exact-fit" if cap == ln else "fits"))
    if not hs:
        tags.append("no-headers")
    if any(not n for n, _ in hs):
        tags.append("empty-name")
    if any(not v for _, v in hs):
        tags.append("empty-value")
    if any(10 in n or 10 in v for n, v in hs):
        tags.append("with-newline")
    return tags


def rand_cap(rng, ln):
    k = rng.randrange(6)
    if k == 0:
        return VEC
    if k == 1:
        return ln
    if k == 2:
        return rng.randrange(ln + 1)
    if k == 3:
        return ln + rng.randrange(1, 40)
    if k == 4:
        return rng.choice([0, 1, 7, 8, 11, 12, 13, max(0, ln - 1), max(0, ln - 2)])
    return rng.randrange(ln + 8)


def gen_cases(rng, tier):
    quick = tier == "quick"
    R = reasons()
    canon = [c for c in range(100, 1000) if R[c]]

    # 1. every status code, canonical and custom
    for rep in range(1 if quick else 12):
        for code in range(100, 1000):
            hs = rand_headers(rng, 3)
            ln = len(text_headers(code, R[code], hs))
            cap = rand_cap(rng, ln)
            pre = rbytes(rng, rng.choice([0, 0, 2]), list(range(256)))
            yield hdr_case("hdr_write", code, cap, pre, hs), hdr_tags(code, cap, pre, hs, ["write", "all-codes"])
    # 2. codes StatusCode::from_u16 rejects
    for code in [0, 1, 42, 99, 1000, 1001, 9999, 65535, 65536, 2 ** 32 + 200]:
        yield hdr_case("hdr_write", code, VEC, [], []), ["write", "invalid-code"]
        yield hdr_case("hdr_http", code, 30, [], [([120], [121])]), ["http", "invalid-code"]
    # 3. every capacity 0..len+1 for a sample of header lists
    for i in range(14 if quick else 400):
        code = rng.choice(canon) if i % 2 == 0 else rng.randrange(100, 1000)
        hs = rand_headers(rng, 6, with_nl=(i % 7 == 6))
        pre = rbytes(rng, rng.choice([0, 0, 3]), list(range(256)))
        ln = len(text_headers(code, R[code], hs))
        for cap in range(ln + 2):
            yield hdr_case("hdr_write", code, cap, pre, hs), hdr_tags(code, cap, pre, hs, ["write", "every-capacity"])
    # 4. random header lists and destinations
    for i in range(1200 if quick else 60000):
        code = rng.choice(canon) if rng.random() < 0.6 else rng.randrange(100, 1000)
        hs = rand_headers(rng, 6, with_nl=(rng.random() < 0.08))
        ln = len(text_headers(code, R[code], hs))
        cap = rand_cap(rng, ln)
        pre = rbytes(rng, rng.choice([0, 0, 1, 5]), list(range(256)))
        yield hdr_case("hdr_write", code, cap, pre, hs), hdr_tags(code, cap, pre, hs, ["write", "random"])
    # 5. long header lists / long values
    for i in range(6 if quick else 200):
        code = rng.randrange(100, 1000)
        hs = []
        for _ in range(rng.randrange(7, 41)):
            n = rbytes(rng, rng.randrange(0, 30), NO_NL)
            if reserved(n):
                continue
            hs.append((n, rbytes(rng, rng.choice([0, 5, 80, 300]), NO_NL)))
        ln = len(text_headers(code, R[code], hs))
        for cap in (VEC, ln, ln - 1, rng.randrange(ln)):
            yield hdr_case("hdr_write", code, cap, [], hs), hdr_tags(code, cap, [], hs, ["write", "long"])
    # 6. through http::Response / http_headers
    for i in range(400 if quick else 15000):
        code = rng.choice(canon) if rng.random() < 0.6 else rng.randrange(100, 1000)
        hs = rand_http_headers(rng, 6 if i % 25 else 40)
        ln = len(text_headers(code, R[code], hs))
        cap = rand_cap(rng, ln)
        pre = rbytes(rng, rng.choice([0, 0, 2]), list(range(256)))
        yield hdr_case("hdr_http", code, cap, pre, hs), hdr_tags(code, cap, pre, hs, ["http"])
    # 7. simple_redirect: every capacity for a sample, then random
    for i in range(8 if quick else 150):
        loc = rand_loc(rng)
        pre = rbytes(rng, rng.choice([0, 2]), list(range(256)))
        ln = len(text_redirect(loc))
        for cap in range(ln + 2):
            yield case("redirect", [cap], pre, loc), redirect_tags(cap, pre, loc, ["redirect", "redirect-every-capacity"])
    for i in range(300 if quick else 10000):
        loc = rand_loc(rng)
        pre = rbytes(rng, rng.choice([0, 0, 4]), list(range(256)))
        cap = rand_cap(rng, len(text_redirect(loc)))
        yield case("redirect", [cap], pre, loc), redirect_tags(cap, pre, loc, ["redirect"])


def redirect_tags(cap, pre, loc, base):
    tags = list(base)
    ln = len(text_redirect(loc))
    if cap == VEC:
        tags.append("vec")
        if pre:
            tags.append("vec-append")
    else:
        tags.append("bounded")
        tags.append("fail" if cap < ln else ("exact-fit" if cap == ln else "fits"))
    if not loc:
        tags.append("empty-location")
    return tags


# ------------------------------------------------------------------------------------------------
# judging
# ------------------------------------------------------------------------------------------------

def split_case(line):
    mode, a = parse_case(line)
    if mode == "redirect":
        cap, pre, loc = a[0][0], a[1], a[2]
        return mode, None, cap, pre, text_redirect(loc), loc
    code, cap, rs, pre = a[0][0], a[1][0], a[2], a[3]
    rest = a[4:]
    hs = [(rest[i], rest[i + 1]) for i in range(0, len(rest) - 1, 2)]
    return mode, code, cap, pre, (text_headers(code, rs, hs) if 100 <= code <= 999 else None), hs


def nontrivial(line, tags):
    mode, code, cap, pre, text, extra = split_case(line)
    if text is None:
        return False
    return bool(extra) or (cap != VEC and cap <= len(text))


def min_classes(tier):
    return {"all-codes": 900, "canonical": 60, "custom": 800, "invalid-code": 10, "every-capacity": 500,
            "fail": 700, "exact-fit": 30, "fits": 200, "vec": 300, "vec-append": 50, "http": 300,
            "redirect": 300, "redirect-every-capacity": 80, "empty-name": 100, "empty-value": 100,
            "no-headers": 100, "with-newline": 20, "long": 20}


def lines_of(text):
    out, cur = [], []
    for b in text:
        if b == 10:
            out.append(cur)
            cur = []
        else:
            cur.append(b)
    out.append(cur)
    return out


def oracle(line, impl_line):
    """Closed-form statement of C20 applied to the implementation's observation:
    Ok(n) only with exactly the documented text appended and n its length; success whenever the text
    fits; when it does not fit: an error, and only a proper prefix of the text (at most cap bytes) may
    have been appended.  For hdr_http the order of the header lines is the HeaderMap's, so the lines
    are compared as a multiset."""
    mode, code, cap, pre, text, extra = split_case(line)
    o = parse_out(impl_line)
    if o is None or o == [[18446744073710440504]]:
        return "implementation crashed or panicked"
    if text is None:
        return True if o == [[2]] else "status code %d is not constructible, got %s" % (code, o)
    if len(o) != 3 or o[0] not in ([0], [1]):
        return "malformed observation %s" % (o,)
    flag, cnt, got = o[0][0], o[1], o[2]
    if got[:len(pre)] != pre:
        return "existing destination contents were changed"
    added = got[len(pre):]
    fits = cap == VEC or len(text) <= cap
    if flag == 1:
        if not fits:
            return "reported success although %d bytes do not fit into %d" % (len(text), cap)
        if cnt != [len(added)]:
            return "returned count %s but %d bytes were written" % (cnt, len(added))
        if mode == "hdr_http":
            la, lt = lines_of(added), lines_of(text)
            if la[:1] != lt[:1] or la[-2:] != lt[-2:] or sorted(la[1:-2]) != sorted(lt[1:-2]):
                return "http_headers wrote %s, C20 prescribes the lines of %s" % (added, text)
        elif added != text:
            return "wrote %s, C20 prescribes %s" % (added, text)
        return True
    if fits:
        return "failed although the %d bytes fit into %s" % (len(text), "a Vec" if cap == VEC else cap)
    if len(added) > cap or len(added) >= len(text):
        return "wrote %d bytes into a destination of %d" % (len(added), cap)
    if mode != "hdr_http" and added != text[:len(added)]:
        return "the bytes written before the failure are not a prefix of the documented text"
    return True
