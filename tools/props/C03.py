"""C03 - parsers are total and chunking-invariant on arbitrary, hostile input."""
import fcgen
from fcgen import *  # noqa
from fvgen import case, parse_case, parse_out, fmt_arg
import importlib.util, os

_spec = importlib.util.spec_from_file_location("c02", os.path.join(os.path.dirname(__file__), "C02.py"))
C02 = importlib.util.module_from_spec(_spec)
_spec.loader.exec_module(C02)

RULE = ("hostile wires: structured mutations of valid traffic (flipped version/type/length/id bytes, truncation at random offsets, "
        "length prefixes announcing up to 2^31-1 bytes, BeginRequest with wrong length / id 0 / unknown role, records of all 256 type "
        "values) and uniformly random bytes; each wire runs through the request parser under >= 3 schedules (greedy, 1-byte, random/with "
        "0-byte calls) whose outcomes must agree (group oracle), with extra parse(0) calls after done; and through the stream parser "
        "under Markov caller schedules (legal ops only) + drain. Both build profiles. Non-trivial: the wire is not well-formed; distinct = distinct case lines.")
ASSUMPTIONS = ["memory growth of the cross-record Params buffer is proportional to bytes sent (allocation failure not modelled)",
               "preconditions respected: new_input <= input_buffer().len(), dest only with an empty stream_buffer"]
BOTH_PROFILES = True


def release_view(line, out):
    return out


def mutate(rng, wire):
    w = list(wire)
    if not w:
        return w
    k = rng.random()
    if k < 0.25:      # flip a header-ish byte
        i = rng.randrange(len(w))
        w[i] = rng.choice([0, 1, 2, 9, 11, 12, 0x7f, 0x80, 0xff, rng.randrange(256)])
    elif k < 0.4:     # truncate
        w = w[:rng.randrange(len(w))]
    elif k < 0.55:    # huge length prefix inside
        i = rng.randrange(len(w))
        w[i:i + 4] = [0x80 | rng.randrange(128), rng.randrange(256), rng.randrange(256), rng.randrange(256)]
    elif k < 0.7:     # insert a record of arbitrary type
        recs, _ = parse_records(w)
        pos = 0
        cut = rng.randrange(len(recs) + 1) if recs else 0
        for r in recs[:cut]:
            pos += 8 + len(r[2]) + r[3]
        ins = record(rng.randrange(256), rng.choice([0, 1, 65535, rng.randrange(65536)]), [rng.randrange(256) for _ in range(rng.choice([0, 1, 8, 9, 40]))], rng.choice([0, 3, 255]))
        w[pos:pos] = ins
    elif k < 0.8:     # bad BeginRequest
        w[0:0] = rng.choice([record(BEGIN, 1, [0, 1, 0, 0, 0, 0, 0]), record(BEGIN, 0, [0, 1, 1, 0, 0, 0, 0, 0]),
                             begin(3, 77), record(BEGIN, 2, [0, 1, 0, 0, 0, 0, 0, 0, 0]), record(BEGIN, 5, [])])
    elif k < 0.9:     # version byte of some record
        recs, _ = parse_records(w)
        pos = 0
        for r in recs[:rng.randrange(len(recs) + 1) if recs else 0]:
            pos += 8 + len(r[2]) + r[3]
        if pos < len(w):
            w[pos] = rng.choice([0, 2, 255])
    else:             # swap two bytes
        i, j = rng.randrange(len(w)), rng.randrange(len(w))
        w[i], w[j] = w[j], w[i]
    return w


def hostile_wire(rng):
    r = rng.random()
    if r < 0.15:
        return [rng.randrange(256) for _ in range(rng.randrange(0, 120))], "random"
    if r < 0.25:
        return [rng.choice([0, 1, 1, 1, 4, 5, 8, 9, 0, 0, 8, 0x80, 0xff]) for _ in range(rng.randrange(0, 200))], "random"
    rid = rng.choice([1, 2, 65535])
    role = rng.choice([1, 2, 3])
    pairs = rand_pairs(rng, rng.randrange(0, 5), rng.choice([20, 130, 300]))
    recs, _ = preamble(rng, rid, role, rng.randrange(256), pairs, junk_rate=0.3, idle=rng.choice([0, 1]))
    contents = {t: [rng.randrange(256) for _ in range(rng.randrange(0, 60))] for t in ROLE_STREAMS[role]}
    recs += streams_part(rng, rid, role, contents, junk_rate=0.3)
    w = flat(recs)
    for _ in range(rng.choice([1, 1, 2, 3])):
        w = mutate(rng, w)
    return w, "mutated"


def gen_cases(rng, tier):
    quick = tier == "quick"
    for _ in range(500 if quick else 40000):
        w, kind = hostile_wire(rng)
        B = rng.choice([24, 32, 48, 64, 200, 8192])
        maxc = rng.choice([1, 12345])
        scheds = [[], [1] * len(w), schedule(rng, len(w), rng.choice(["random", "small", "zeros"]))]
        if rng.random() < 0.3:
            scheds.append(schedule(rng, len(w), "zeros"))
        for si, s in enumerate(scheds):
            yield case("req_run", [B], [maxc], w, s), ["req", kind, "sched%d" % min(si, 2)]
        ops = C02.gen_ops(rng, len(w), rng.choice([1, 2, 3]), B)
        ops = [o for o in ops if o[0] != 5] if rng.random() < 0.5 else ops
        yield "str_run " + " ".join(fmt_arg(x) for x in [[B], [maxc], w] + ops), ["str", kind]
    # records the request parser must SKIP whose content + padding exceeds 65535 bytes, on buffers above 64 KiB, handed over in one
    # call (and in two): before BeginRequest, between Params records, with ids 0 / foreign / own
    for (P, pad) in ((65535, 255), (65535, 1), (65400, 200), (65281, 255)) if not quick else ((65535, 255), (65281, 255)):
        for where in ("idle", "params"):
            t = rng.choice([STDIN, DATA, ABORT, 11, 200]) if where == "idle" else rng.choice([STDIN, 11, 200])
            huge = header(t, rng.choice([0, 1, 9]) if where == "idle" else 9, P, pad) + [rng.randrange(256) for _ in range(P)] + (flat([record(BEGIN, 5, [0, 1, 0, 0, 0, 0, 0, 0], 0)]) + [0] * pad)[:pad]
            pre = minimal_preamble(1, 1)
            w = (huge + flat(pre)) if where == "idle" else (flat(pre[:1]) + huge + flat(pre[1:]))
            w += record(STDIN, 1, [1, 2, 3]) + record(STDIN, 1, [])
            B = rng.choice([70000, 131072])
            for s_ in ([], [10 ** 6], [65535, 10 ** 6], [rng.randrange(65000, 66000), 10 ** 6]):
                yield case("req_run", [B], [3], w, s_), ["req", "huge-skip"]
    # the plain hand-off stream parser -> request parser ([6, k, 2]: into_request_parser() as the parser stands) with stream data parsed
    # into the buffer and consumed in full / in part / not at all: the next request and the remainder depend on the bytes alone
    for _ in range(60 if quick else 3000):
        rid = 1
        body = [rng.randrange(256) for _ in range(rng.choice([1, 9, 57, 120]))]
        recs = minimal_preamble(rid, 1, flags=1) + streams_part(rng, rid, 1, {STDIN: body}, junk_rate=0.1, no_begin=True)
        nxt = flat(minimal_preamble(2, 1, pairs=[(b"K", b"v")])) + [rng.randrange(256) for _ in range(4)]
        w = flat(recs) + nxt
        ops = [[0, rng.choice([10 ** 6, len(w), rng.randrange(1, len(w))])] for _ in range(rng.randrange(1, 4))] + [[0, 10 ** 6]]
        ops += rng.choice([[], [[2, 10 ** 6]], [[2, max(1, len(body) // 2)]], [[2, 1], [3]]])
        ops += [[6, 0, 2], [8]]
        yield "str_run " + " ".join(fmt_arg(x) for x in [[rng.choice([256, 8192])], [3], w] + ops), ["str", "plain-handoff"]
    # all 256 type values right after a valid preamble and in idle state
    for t in range(256):
        rec = record(t, rng.choice([0, 1]), [rng.randrange(256) for _ in range(rng.choice([0, 8, 13]))], rng.choice([0, 5]))
        w = rec + flat(minimal_preamble(1, 1)) + rec + record(STDIN, 1, [1, 2, 3]) + record(STDIN, 1, [])
        yield case("req_run", [64], [3], w, rng.choice([[], [1] * len(w)])), ["req", "all-types"]
        yield "str_run " + " ".join(fmt_arg(x) for x in [[64], [3], w] + C02.gen_ops(rng, len(w), 1, 64)), ["str", "all-types"]
    # conversions attempted at non-final states: op 8 (into_input) / op 6 (into_request_parser) mid-record
    for _ in range(100 if quick else 2000):
        rid = 1
        recs = minimal_preamble(rid, 1) + streams_part(rng, rid, 1, {STDIN: [rng.randrange(256) for _ in range(40)]}, junk_rate=0.2)
        w = flat(recs)
        cut = rng.randrange(24, len(w))
        ops = [[0, cut - 24], rng.choice([[8], [6]])]
        yield "str_run " + " ".join(fmt_arg(x) for x in [[256], [3], w] + ops), ["str", "conversion"]


def nontrivial(line, tags):
    return "random" in tags or "mutated" in tags or "all-types" in tags


def min_classes(tier):
    return {"mutated": 1000, "random": 300, "all-types": 512, "conversion": 100, "sched1": 400, "plain-handoff": 60}


def oracle(line, impl_line):
    mode, a = parse_case(line)
    o = parse_out(impl_line)
    if o is None:
        return "implementation crashed"
    if any(x == [18446744073710440504] for x in o):
        return "panic on hostile input under a legal call history"
    if mode == "req_run":
        done = o[0][0]
        if done and len(o) >= 1:
            again = o[-1]
            if again[0] != 1 or again[1] != 0 or again[2] != 1 or again[3] != 0:
                return "a finished/failed parser did not stay finished or emitted output again: %s" % again
        if not done and o[0][2] == 0:
            return "unfinished parser offers an empty input buffer without reporting StuckOnInput"
        if not done and len(o) > 1 and o[1] == [1]:
            return "a conversion (into_request) was accepted although parse() had not reported the request as done: conversions at non-final states must be refused"
        return True
    if mode == "str_run":
        # after a fatal error every later parse reports it again with no further output
        wire, ops = a[2], a[3:]
        i, fatal = 3, None
        if o[0][0] != 1:
            return True
        for op in ops:
            if i >= len(o):
                break
            tag = o[i][0]
            if tag == 7 and op[2:3] == [2] and fatal is None:
                # class plain-handoff: well-formed keep-alive traffic, the parser stood at a record boundary or not: at a boundary the
                # conversion must succeed and the next request parser must deliver request 2, whatever part of the stream data the
                # caller had consumed; off a boundary it is refused ([7, 5])
                if o[i][1:2] == [5]:
                    break
                if o[i][1:3] != [0, 1] or o[i + 3][0] != 2:
                    return "after the plain hand-off the next request was not parsed (%s): the outcome depends on how much stream data the caller had consumed" % o[i][1:]
                break
            if tag in (7, 8, 9, 999996):
                break
            if tag == 10:
                i += 1
            elif tag == 1:
                if fatal is not None:
                    return "parse succeeded after a fatal error %s" % fatal
                i += 4
            elif tag == 2:
                err = o[i][1:3] if o[i][1] in (4, 5) else o[i][1:2]
                if fatal is not None and err != fatal:
                    return "fatal error changed from %s to %s" % (fatal, err)
                if err[0] != 7:
                    fatal = err
                i += 4
            else:
                i += 2
        return True
    return None


def group_oracle(items):
    """chunking invariance of the request parser: all schedules of one wire agree"""
    groups = {}
    for idx, (line, out) in enumerate(items):
        if not line.startswith("req_run "):
            continue
        toks = line.split()
        groups.setdefault((toks[1], toks[2], toks[3]), []).append((idx, line, out))
    bad = []
    for key, lst in groups.items():
        views = []
        for idx, line, out in lst:
            o = parse_out(out)
            if o is None or [18446744073710440504] in o:
                continue
            wire_len = 0 if key[2] == "-" else key[2].count(",") + 1
            done, unfed = o[0][0], o[0][1]
            if o[1] == [1]:
                n = o[2][3]
                left = o[3 + 2 * n]
                res = o[1:3 + 2 * n]
                outb = o[4 + 2 * n]
                consumed = wire_len - unfed - len(left)
            else:
                res = [o[1]]
                outb = o[2]
                consumed = None if done else wire_len - unfed
            views.append((idx, (done, res, outb, consumed)))
        for idx, v in views[1:]:
            if v != views[0][1]:
                what = [n for n, x, y in zip(("done", "result", "output", "consumed"), v, views[0][1]) if x != y]
                bad.append((idx, "chunking changed the outcome (%s) between two read schedules of the same bytes" % ",".join(what)))
    return bad


def outcome(line, out):
    o = parse_out(out)
    if o is None:
        return "crash"
    if line.startswith("req_run"):
        if o[0][0] == 0:
            return "req-unfinished"
        if o[1] == [1]:
            return "req-done"
        return "req-fatal-%s" % {1: "paniced", 2: "stuck", 3: "interrupted", 4: "version", 5: "reqlen", 6: "nullid", 7: "abort", 8: "protocol"}.get(o[1][1], "?")
    if o[0][0] != 1:
        return "str-preamble-failed"
    errs = set(x[1] for x in o if len(x) > 1 and x[0] == 2)
    return "str-" + ("+".join({4: "version", 7: "abort"}.get(e, str(e)) for e in sorted(errs)) if errs else "ok")
