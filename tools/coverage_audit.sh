#!/bin/bash
# tools/coverage_audit.sh — author-time audit, not part of any check: which lines of /repo/src do the quick-tier cases of ALL properties
# execute in the real crate?  Builds the harness with the nightly toolchain and -C instrument-coverage into a scratch target directory,
# runs corpus + generated quick cases of all 20 properties through it, prints llvm-cov's per-file summary and the uncovered lines.
# Needs: rustup toolchain `nightly` with llvm-tools (present in this sandbox).  Scratch: /tmp/cov, /tmp/covtarget (remove afterwards).
set -e
T=$(ls -d ~/.rustup/toolchains/nightly-x86_64-unknown-linux-gnu/lib/rustlib/x86_64-unknown-linux-gnu/bin)
mkdir -p /tmp/cov
cd /verif/harness
LLVM_PROFILE_FILE=/tmp/cov/build-%p.profraw CARGO_TARGET_DIR=/tmp/covtarget RUSTFLAGS="-C instrument-coverage --cfg fastcgi_server_verif" cargo +nightly build --offline --quiet   # (build scripts are instrumented too: keep their profiles out of /repo)
cd /verif
python3 - <<'PY'
import sys, random, glob
sys.path.insert(0,'/verif/tools'); sys.path.insert(0,'/verif/tools/props')
import importlib.util
with open('/tmp/cov/cases.txt','w') as f:
    for i in range(1,21):
        pid='C%02d'%i
        spec=importlib.util.spec_from_file_location(pid.lower(),'/verif/tools/props/%s.py'%pid); m=importlib.util.module_from_spec(spec); spec.loader.exec_module(m)
        for c in sorted(glob.glob('/verif/corpus/%s/*.case'%pid)):
            for l in open(c):
                if l.strip() and not l.startswith('#'): f.write(l.strip()+'\n')
        for c,t in m.gen_cases(random.Random(1),'quick'):
            f.write(c+'\n')
PY
cd /tmp/cov; rm -f *.profraw part_* build-*; split -n l/12 cases.txt part_
for p in part_??; do LLVM_PROFILE_FILE=/tmp/cov/$p.profraw /tmp/covtarget/debug/fv-harness < $p > $p.out 2>/dev/null & done; wait
$T/llvm-profdata merge -sparse *.profraw -o all.profdata
$T/llvm-cov report /tmp/covtarget/debug/fv-harness -instr-profile=all.profdata --ignore-filename-regex='(registry|rustc|harness|rustup)'
for f in $(cd /repo/src && find . -name '*.rs' | sort); do
  echo "=== $f"; $T/llvm-cov show /tmp/covtarget/debug/fv-harness -instr-profile=all.profdata /repo/src/$f 2>/dev/null | grep -E "^ +[0-9]+\| +0\|" | grep -v "^\s*[0-9]*|\s*0|\s*}\s*$" || true
done
