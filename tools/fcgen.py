"""Generators of FastCGI traffic shared by the parser / connection properties (C01-C12).
Every random choice comes from the rng passed in."""
import fcgi
from fcgi import *  # noqa

LEN_CLASSES = [0, 1, 2, 5, 17, 126, 127, 128, 129, 200, 300]


def rand_name(rng, n):
    kind = rng.random()
    if kind < 0.5:
        return [rng.choice(b"ABCDEFGHIJKLMNOPQRSTUVWXYZabcdefghijklmnopqrstuvwxyz_0123456789") for _ in range(n)]
    if kind < 0.8:
        return [rng.randrange(256) for _ in range(n)]
    return [rng.choice([0x41, 0x61, 0xc3, 0xa9, 0xff, 0x80, 0xe2, 0x82, 0xac, 0xf0, 0x9f]) for _ in range(n)]


def rand_pairs(rng, k, maxlen=300, big=False):
    pairs = []
    for _ in range(k):
        nl = rng.choice([c for c in LEN_CLASSES if c <= maxlen])
        vl = rng.choice([c for c in LEN_CLASSES if c <= maxlen])
        if big and rng.random() < 0.3:
            vl = rng.choice([65535, 65536, 70000])
        n = rand_name(rng, nl)
        v = [rng.randrange(256) for _ in range(vl)]
        pairs.append((n, v))
    # duplicates and case variants of earlier names
    for _ in range(rng.randrange(0, 3)):
        if pairs:
            n, _ = rng.choice(pairs)
            n2 = [x ^ 0x20 if (65 <= x <= 90 or 97 <= x <= 122) and rng.random() < 0.5 else x for x in n]
            pairs.insert(rng.randrange(len(pairs) + 1), (n2, [rng.randrange(256) for _ in range(rng.choice([0, 1, 9]))]))
    return pairs


def gv_body(rng):
    names = []
    for _ in range(rng.randrange(0, 5)):
        r = rng.random()
        if r < 0.55:
            names.append((list(rng.choice(VAR_NAMES)), [] if rng.random() < 0.7 else [rng.randrange(256) for _ in range(rng.randrange(1, 4))]))
        elif r < 0.7:
            names.append((list(rng.choice(VAR_NAMES).lower()), []))
        elif r < 0.78:
            # names that are NOT variable names although a lenient textual parser would read one (or several) into them
            # (all at most 19 bytes long, like the random names below: callers with 24-byte buffers rely on GetValues pairs that fit)
            names.append((list(rng.choice([b" FCGI_MAX_CONNS", b"FCGI_MAX_REQS\n", b"FCGI_MAX_REQS |", b"| FCGI_MAX_REQS",
                                           b"0x7", b"0xff", b"0x1", b"FCGI_MAX_CONNS ", b"\tFCGI_MPXS_CONNS", b"", b"|", b" 0x2 | 0x4 "])), []))
        elif r < 0.85:
            names.append(([rng.randrange(256) for _ in range(rng.randrange(0, 20))], []))
        else:
            names.append((list(b"FCGI_MAX_CONN"), [1, 2]))
    body = nv_all(names)
    if rng.random() < 0.25:
        # incomplete trailing pair
        extra = nv(list(rng.choice(VAR_NAMES)), [])
        body += extra[:rng.randrange(1, len(extra))]
    return body


def junk_record(rng, rid, in_request=True):
    """a record that must be skipped (possibly with a reply) without disturbing request `rid`"""
    r = rng.random()
    pad = rng.choice([0, 0, 1, 7, 8, 255])
    other = rng.choice([x for x in [0, 1, 2, 65535, rng.randrange(65536)] if x != rid])
    if r < 0.3:
        return record(GETVALUES, 0, gv_body(rng), pad)
    if r < 0.5:
        t = rng.choice([0, 12, 13, 100, 255, rng.randrange(12, 256)])
        return record(t, rng.choice([0, rid, other]), [rng.randrange(256) for _ in range(rng.choice([0, 3, 8, 20]))], pad)
    if r < 0.65:
        t = rng.choice([STDIN, DATA, PARAMS, ABORT, END, STDOUT, STDERR, GETVALUESRESULT, UNKNOWN])
        return record(t, other, [rng.randrange(256) for _ in range(rng.choice([0, 5, 16]))], pad)
    if r < 0.75 and in_request:
        # duplicate BeginRequest of the same id: silently skipped
        return begin(rid, rng.choice([1, 2, 3]), rng.randrange(256), pad)
    if r < 0.9 and in_request:
        # foreign BeginRequest: CantMpxConn
        return begin(other, rng.choice([1, 2, 3, 9]), rng.randrange(256), pad)
    if r < 0.95:
        return record(GETVALUES, other if other else 5, gv_body(rng), pad)     # GetValues with non-zero id: skipped
    return record(rng.choice([END, STDOUT, STDERR, GETVALUESRESULT, UNKNOWN]), rng.choice([0, rid]), [1, 2, 3], pad)


def idle_junk(rng):
    """junk allowed before a BeginRequest (no request active)"""
    r = rng.random()
    pad = rng.choice([0, 0, 1, 7, 255])
    if r < 0.35:
        return record(GETVALUES, 0, gv_body(rng), pad)
    if r < 0.6:
        return record(rng.choice([0, 12, 200, 255]), rng.randrange(65536), [rng.randrange(256) for _ in range(rng.choice([0, 8, 9]))], pad)
    if r < 0.8:
        return record(rng.choice([ABORT, END, PARAMS, STDIN, STDOUT, DATA, GETVALUESRESULT, UNKNOWN]), rng.randrange(65536),
                      [rng.randrange(256) for _ in range(rng.choice([0, 4, 16]))], pad)
    return begin(rng.randrange(65536), rng.choice([0, 4, 9, 65535]), rng.randrange(256), pad)   # unknown role: UnknownRole reply


def cut_list(rng, n, style=None):
    if n <= 1:
        return []
    style = style or rng.choice(["none", "few", "many", "every", "prefix"])
    if style == "none":
        return []
    if style == "few":
        return sorted(rng.sample(range(1, n), min(n - 1, rng.randrange(1, 4))))
    if style == "many":
        return sorted(rng.sample(range(1, n), min(n - 1, rng.randrange(3, 12))))
    if style == "every":
        return list(range(1, n)) if n <= 64 else sorted(rng.sample(range(1, n), 64))
    return [c for c in (1, 2, 3, 4, 5, 6, 7, 8) if c < n]


def schedule(rng, n, style=None):
    style = style or rng.choice(["greedy", "one", "random", "small", "zeros"])
    if style == "greedy":
        return []
    if style == "one":
        return [1] * n
    if style == "small":
        return [rng.randrange(1, 9) for _ in range(n)]
    if style == "zeros":
        s = []
        for _ in range(min(n, 200)):
            s.append(rng.choice([0, 0, 1, 3, 50]))
        return s
    return [rng.randrange(1, 300) for _ in range(min(n, 400))]


def preamble(rng, rid, role, flags, pairs, cuts=None, junk_rate=0.3, begin_pad=None, idle=0):
    """records of a well-formed request preamble for `pairs`, with junk interleaved.
    returns (list of records, list of junk records in order)"""
    recs, junk = [], []
    for _ in range(idle):
        j = idle_junk(rng)
        recs.append(j)
        junk.append(j)
    recs.append(begin(rid, role, flags, begin_pad if begin_pad is not None else rng.choice([0, 0, 5, 255])))
    payload = nv_all(pairs)
    cuts = cut_list(rng, len(payload)) if cuts is None else cuts
    for pr in stream_records(PARAMS, rid, payload, cuts, rng):
        while rng.random() < junk_rate:
            j = junk_record(rng, rid)
            recs.append(j)
            junk.append(j)
        recs.append(pr)
    return recs, junk


def flat(recs):
    out = []
    for r in recs:
        out += r
    return out


def longest_pair(pairs):
    return max([len(n) + len(v) for n, v in pairs] + [0])


# ---------------------------------------------------------------------------------------------
# input streams (C02, C05, C18)
# ---------------------------------------------------------------------------------------------
ROLE_STREAMS = {RESPONDER: [STDIN], AUTHORIZER: [], FILTER: [STDIN, DATA]}


def stream_junk(rng, rid, no_begin=False):
    """records that the stream parser must skip (possibly with a reply) while request rid is active"""
    r = rng.random()
    if no_begin and 0.6 <= r < 0.8:
        r = 0.55
    pad = rng.choice([0, 0, 1, 7, 8, 255])
    other = rng.choice([x for x in [0, 1, 2, 65535, rng.randrange(65536)] if x != rid])
    if r < 0.3:
        return record(GETVALUES, 0, gv_body(rng), pad)
    if r < 0.5:
        t = rng.choice([0, 12, 13, 100, 255, rng.randrange(12, 256)])
        return record(t, rng.choice([0, rid, other]), [rng.randrange(256) for _ in range(rng.choice([0, 3, 8, 20]))], pad)
    if r < 0.6:
        return record(PARAMS, rid, [rng.randrange(256) for _ in range(rng.choice([0, 5, 30]))], pad)     # stale Params
    if r < 0.7:
        return begin(rid, rng.choice([1, 2, 3]), rng.randrange(256), pad)                            # duplicate BeginRequest
    if r < 0.8:
        return begin(other, rng.choice([1, 2, 3, 9]), rng.randrange(256), pad)                       # foreign BeginRequest
    if r < 0.9:
        return record(rng.choice([STDIN, DATA, ABORT]), other, [rng.randrange(256) for _ in range(rng.choice([0, 4, 12]))], pad)
    return record(rng.choice([END, STDOUT, STDERR, GETVALUESRESULT, UNKNOWN]), rng.choice([0, rid, other]), [1, 2, 3], pad)


def streams_part(rng, rid, role, contents, junk_rate=0.25, cuts_style=None, order=None, no_begin=False):
    """records for the input streams of `role` in order; contents: {type: bytes}.
    returns list of records"""
    recs = []
    for t in (order or ROLE_STREAMS[role]):
        payload = contents.get(t, [])
        for r in stream_records(t, rid, payload, cut_list(rng, len(payload), cuts_style), rng):
            while rng.random() < junk_rate:
                recs.append(stream_junk(rng, rid, no_begin))
            recs.append(r)
    while rng.random() < junk_rate:
        recs.append(stream_junk(rng, rid, no_begin))
    return recs


def stream_content(recs, rid, role, sigma):
    """reference extraction of stream sigma's bytes from a record list for request (rid, role):
    returns (bytes, how) with how in {'ended', 'aborted', 'needmore'}; records of earlier streams or not in the role are skipped,
    the first record of a later stream ends it."""
    order = ROLE_STREAMS[role]
    out = []
    for (t, r, body, pad) in recs:
        if t in (STDIN, DATA) and r == rid:
            if sigma is None:
                continue
            if t == sigma:
                if not body:
                    return out, "ended"
                out += body
            elif t in order and sigma in order and order.index(t) > order.index(sigma):
                return out, "ended"
            # earlier / not in role: skipped
        elif t == ABORT and r == rid:
            return out, "aborted"
    return out, "needmore"


def minimal_preamble(rid, role, flags=1, pairs=()):
    recs = [begin(rid, role, flags)]
    recs += stream_records(PARAMS, rid, nv_all(pairs), [])
    return recs
