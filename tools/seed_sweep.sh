#!/bin/bash
# Robustness sweep: every claimed check under several seeds on the unchanged tree; any VIOLATION is a false alarm to fix.
cd /verif
ids=$(python3 -c "import json;print(' '.join(c['property_id'] for c in json.load(open('MANIFEST.json'))['checks']))" 2>/dev/null || echo "")
ids=${IDS:-$ids}
for s in ${SEEDS:-2 3 7 11}; do
  for id in $ids; do
    out=$(VERIF_SEED=$s ./check $id 2>&1 | tail -1)
    echo "seed=$s $out"
  done
done
