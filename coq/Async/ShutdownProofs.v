(* Async/ShutdownProofs.v — proof of Async/ShutdownTargets.v: what a graceful shutdown does to a WHOLE connection.
   Part 1: the simulation of Async/LoopProofs2.v Part A again, for worlds that agree on the transport only ([sio]: the harness
           events and the poll counter may differ; the first world never stops): nothing inside a request looks at the stop
           listener.
   Part 2: the transport log and the count of consumed client bytes only grow.
   Part 3: the select side (Token::parse_request): the second run does the same, or returns because of the shutdown at a point the
           first run passes through.
   Part 4: the induction over Token::run.
   Part 5: an instance. *)
From Coq Require Import ZArith.
From FV Require Import Base.Bytes Base.BytesLemmas Gen.Generated Codec.Varint Codec.NV Codec.Header Codec.Bodies Codec.Vars
  Codec.ProtoProofs Parser.ReqModel Parser.ReqTargets Parser.ReqRecords Parser.StreamModel Parser.StreamRefine Parser.EnvCanon
  Async.Conn Async.ConnWrites Async.ConnTotal Async.ConnReads Async.PeerProofs2 Async.LogTargets Async.LogProofs
  Async.LoopTargets2 Async.LoopProofs2 Async.ShutdownTargets.
From Coq Require Import ZifyBool ZifyNat ZifyN.
Ltac Zify.zify_post_hook ::= Z.div_mod_to_equations.

(* ================================================================================================ *)
(* Part 1: worlds with the same transport; the first one never stops                                *)
(* ================================================================================================ *)
Definition sio (w1 w2 : world) : Prop :=
  rscript w1 = rscript w2 /\ wscript w1 = wscript w2 /\ segs w1 = segs w2 /\ wlog w1 = wlog w2 /\
  consumed w1 = consumed w2 /\ vectored w1 = vectored w2 /\ stop_at w1 = 0 /\ stopped w1 = false.

Lemma sio_make w1 w2 : same_io w1 w2 -> stop_at w1 = 0 -> stopped w1 = false -> sio w1 w2.
Proof. intros (A1 & A2 & A3 & A4 & A5 & A6) A7 A8. repeat split; assumption. Qed.

Lemma sio_same_io w1 w2 : sio w1 w2 -> same_io w1 w2.
Proof. intros (A1 & A2 & A3 & A4 & A5 & A6 & A7 & A8). repeat split; assumption. Qed.

Lemma sio_wlog w1 w2 : sio w1 w2 -> wlog w1 = wlog w2.
Proof. intros (A1 & A2 & A3 & A4 & A5 & A6 & A7 & A8). exact A4. Qed.

Lemma bump_nostop w : stop_at w = 0 -> stopped w = false -> stopped (w_bump w) = false.
Proof.
  intros A7 A8. change (stopped (w_bump w)) with (stopped w || (epoch w + 1 =? stop_at w)).
  rewrite A7, A8. cbn [orb]. apply N.eqb_neq. lia.
Qed.

Lemma sio_bump w1 w2 : sio w1 w2 -> sio (w_bump w1) (w_bump w2).
Proof.
  intros (A1 & A2 & A3 & A4 & A5 & A6 & A7 & A8). repeat split; try assumption. apply bump_nostop; assumption.
Qed.

Lemma sio_stop_r w1 w2 : sio w1 w2 -> sio w1 (w_stop w2).
Proof. intros (A1 & A2 & A3 & A4 & A5 & A6 & A7 & A8). repeat split; assumption. Qed.

Lemma sio_ev w1 w2 e1 e2 : sio w1 w2 -> sio (w_ev w1 e1) (w_ev w2 e2).
Proof. intros (A1 & A2 & A3 & A4 & A5 & A6 & A7 & A8). repeat split; assumption. Qed.

Lemma sio_io_fuel w1 w2 x : sio w1 w2 -> io_fuel w1 x = io_fuel w2 x.
Proof. intros (A1 & A2 & A3 & _). unfold io_fuel. rewrite A1, A2, A3. reflexivity. Qed.

Lemma sio_tpr L w1 w2 : sio w1 w2 ->
  fst (t_poll_read L w1) = fst (t_poll_read L w2) /\ sio (snd (t_poll_read L w1)) (snd (t_poll_read L w2)).
Proof.
  intros S. pose proof S as (A1 & A2 & A3 & A4 & A5 & A6 & A7 & A8). unfold t_poll_read. rewrite A1, A3, A4, A5.
  assert (SR : forall rs sg c, sio (w_set_r w1 rs sg c) (w_set_r w2 rs sg c)) by (intros; repeat split; assumption).
  destruct (L =? 0); [split; [reflexivity|exact S]|].
  destruct (skip_empty_segs (segs w2)) as [|[[ge gm] b] rest]; [split; [reflexivity|apply SR]|].
  destruct (count_records _ _ 0 0) as [e m]. destruct ((e <? ge) || (m <? gm)); [split; [reflexivity|exact S]|].
  destruct (rscript w2) as [|r t]; cbv beta iota zeta.
  - destruct (L =? 0); [split; [reflexivity|apply SR]|]. destruct (L =? R_ERR); split; try reflexivity; apply SR.
  - destruct (r =? 0); [split; [reflexivity|apply SR]|]. destruct (r =? R_ERR); split; try reflexivity; apply SR.
Qed.

Lemma sio_tpw offer w1 w2 : sio w1 w2 ->
  fst (t_poll_write offer w1) = fst (t_poll_write offer w2) /\ sio (snd (t_poll_write offer w1)) (snd (t_poll_write offer w2)).
Proof.
  intros S. pose proof S as (A1 & A2 & A3 & A4 & A5 & A6 & A7 & A8). unfold t_poll_write. rewrite A2, A4.
  assert (SW : forall ws lg, sio (w_set_w w1 ws lg) (w_set_w w2 ws lg)) by (intros; repeat split; assumption).
  destruct (wscript w2) as [|k ws']; [split; [reflexivity|apply SW]|].
  destruct (k =? 0); [split; [reflexivity|apply SW]|].
  destruct (k =? W_ZERO); [split; [reflexivity|apply SW]|].
  destruct (k =? W_ERR); [split; [reflexivity|apply SW]|].
  destruct (k =? W_ERR_AB); split; try reflexivity; apply SW.
Qed.

Lemma gated_sio w1 w2 : gated w1 -> sio w1 w2 -> gated w2.
Proof.
  intros G S L HL. specialize (G L HL). destruct (sio_tpr L w1 w2 S) as [E1 _]. rewrite G in E1. cbn [fst] in E1.
  destruct (t_poll_read L w2) as [p w'] eqn:ET. cbn [fst] in E1. subst p.
  destruct (t_poll_read_rem _ _ _ _ ET) as (_ & _ & _ & (-> & _)). reflexivity.
Qed.

(* awaited computations: a run that completes, returns, or suspends for good, does the same in the other world *)
Definition rsim' {A} (x1 x2 : res A) : Prop :=
  match x1 with
  | Ok a w1' => exists w2', x2 = Ok a w2' /\ sio w1' w2'
  | Halt ODeadlock w1' => exists w2', x2 = Halt ODeadlock w2' /\ sio w1' w2'
  | Halt ORet w1' => exists w2', x2 = Halt ORet w2' /\ sio w1' w2'
  | Halt _ _ => True
  end.

Lemma rsim'_ok {A} (a : A) w1 w2 : sio w1 w2 -> rsim' (Ok a w1) (Ok a w2).
Proof. intros H. exists w2. split; [reflexivity|exact H]. Qed.
Lemma rsim'_dl {A} w1 w2 : sio w1 w2 -> @rsim' A (Halt ODeadlock w1) (Halt ODeadlock w2).
Proof. intros H. exists w2. split; [reflexivity|exact H]. Qed.
Lemma rsim'_ret {A} w1 w2 : sio w1 w2 -> @rsim' A (Halt ORet w1) (Halt ORet w2).
Proof. intros H. exists w2. split; [reflexivity|exact H]. Qed.

Ltac sim_destruct' H :=
  match type of H with
  | rsim' ?X1 ?X2 =>
    let a := fresh "a" in let w1' := fresh "w1'" in let o := fresh "o" in let w2' := fresh "w2'" in let HS' := fresh "HS'" in
    destruct X1 as [a w1'|o w1']; cbn [rsim'] in H;
    [ destruct H as (w2' & -> & HS')
    | destruct o; try exact I; destruct H as (w2' & -> & HS'); first [apply rsim'_dl|apply rsim'_ret]; exact HS' ]
  end.

Lemma on_block_sim' {A} (k : nat -> world -> res A) f w1 w2 :
  sio w1 w2 -> (1 <= f)%nat ->
  (forall w f', sio w1 w -> stopped w = true -> k (S f') w = Halt ODeadlock w) ->
  rsim' (on_block false w1 (k f)) (on_block false w2 (k f)).
Proof.
  intros HS Hf HK. destruct f as [|f']; [lia|]. unfold on_block.
  pose proof HS as (_ & _ & _ & _ & _ & _ & A7 & A8). rewrite A7, N.eqb_refl. cbn [negb andb].
  destruct (negb (stop_at w2 =? 0) && negb (stopped w2)).
  - rewrite HK; [apply rsim'_dl; apply sio_stop_r; exact HS|apply sio_stop_r; exact HS|reflexivity].
  - apply rsim'_dl. exact HS.
Qed.

Section SimS.
Variable maxc : N.

Ltac triv S := split; [reflexivity|exact S].

Lemma sio_poll_output fuel : forall r w1 w2, sio w1 w2 ->
  fst (poll_output fuel r w1) = fst (poll_output fuel r w2) /\ sio (snd (poll_output fuel r w1)) (snd (poll_output fuel r w2)).
Proof.
  induction fuel as [|f IH]; intros r w1 w2 HS; [triv HS|].
  cbn [poll_output]. destruct (output_buffer (rsp r)) as [|x o] eqn:Eo; [triv HS|].
  destruct (sio_tpw (x :: o) w1 w2 HS) as [E1 S1].
  destruct (t_poll_write (x :: o) w1) as [p1 w1']. destruct (t_poll_write (x :: o) w2) as [p2 w2']. cbn [fst snd] in E1, S1. subst p2.
  destruct p1 as [[n|k]| |]; try (triv S1).
  destruct (n =? 0); [triv S1|]. apply IH. exact S1.
Qed.

Lemma sio_input_loop fuel : forall dest new r w1 w2, sio w1 w2 ->
  fst (input_loop maxc fuel dest new r w1) = fst (input_loop maxc fuel dest new r w2) /\
  sio (snd (input_loop maxc fuel dest new r w1)) (snd (input_loop maxc fuel dest new r w2)).
Proof.
  induction fuel as [|f IH]; intros dest new r w1 w2 HS; [triv HS|].
  cbn [input_loop]. destruct (sparse maxc (rsp r) new dest) as [p1 s|p1 e s|n]; try (triv HS).
  destruct (s_end s || (0 <? s_stream s)); [triv HS|].
  set (r2 := mkR (compress p1) (rwriteable r) (rlock r) (raborted r)).
  destruct (sio_poll_output (S f) r2 w1 w2 HS) as [E1 S1].
  destruct (poll_output (S f) r2 w1) as [[po1 r31] w01]. destruct (poll_output (S f) r2 w2) as [[po2 r32] w02].
  cbn [fst snd] in E1, S1. injection E1 as -> ->.
  destruct po2 as [[u|k]| |]; try (triv S1).
  destruct (sio_tpr (sinput_space (rsp r32)) w01 w02 S1) as [E2 S2].
  destruct (t_poll_read (sinput_space (rsp r32)) w01) as [q1 w1']. destruct (t_poll_read (sinput_space (rsp r32)) w02) as [q2 w2'].
  cbn [fst snd] in E2, S2. subst q2.
  destruct q1 as [[b|k]| |]; try (triv S2).
  destruct b as [|x b']; [triv S2|]. apply IH. exact S2.
Qed.

Lemma sio_poll_input fuel dest r w1 w2 : sio w1 w2 ->
  fst (poll_input maxc fuel dest r w1) = fst (poll_input maxc fuel dest r w2) /\
  sio (snd (poll_input maxc fuel dest r w1)) (snd (poll_input maxc fuel dest r w2)).
Proof.
  intros HS. unfold poll_input. cbv zeta.
  assert (EMPTY :
    fst (match poll_output fuel r w1 with
     | (PReady (inl _), r', w') => input_loop maxc fuel dest [] r' w'
     | (PReady (inr k), r', w') => (PReady (inr k), r', w')
     | (PWake, r', w') => (PWake, r', w')
     | (PBlock, r', w') => (PBlock, r', w')
     end) =
    fst (match poll_output fuel r w2 with
     | (PReady (inl _), r', w') => input_loop maxc fuel dest [] r' w'
     | (PReady (inr k), r', w') => (PReady (inr k), r', w')
     | (PWake, r', w') => (PWake, r', w')
     | (PBlock, r', w') => (PBlock, r', w')
     end) /\
    sio (snd (match poll_output fuel r w1 with
     | (PReady (inl _), r', w') => input_loop maxc fuel dest [] r' w'
     | (PReady (inr k), r', w') => (PReady (inr k), r', w')
     | (PWake, r', w') => (PWake, r', w')
     | (PBlock, r', w') => (PBlock, r', w')
     end))
    (snd (match poll_output fuel r w2 with
     | (PReady (inl _), r', w') => input_loop maxc fuel dest [] r' w'
     | (PReady (inr k), r', w') => (PReady (inr k), r', w')
     | (PWake, r', w') => (PWake, r', w')
     | (PBlock, r', w') => (PBlock, r', w')
     end))).
  { destruct (sio_poll_output fuel r w1 w2 HS) as [E1 S1].
    destruct (poll_output fuel r w1) as [[po1 r11] w11]. destruct (poll_output fuel r w2) as [[po2 r12] w12].
    cbn [fst snd] in E1, S1. injection E1 as -> ->.
    destruct po2 as [[u|k]| |]; try (triv S1). apply sio_input_loop. exact S1. }
  destruct dest as [[|pc]|]; destruct (stream_buffer (rsp r)) as [|x sb]; try exact EMPTY; triv HS.
Qed.

Lemma Blocked_sio dest r w1 w2 : Blocked dest r w1 -> sio w1 w2 -> Blocked dest r w2.
Proof. intros (G & H) HS. split; [eapply gated_sio; eassumption|exact H]. Qed.

Lemma sim'_awa fuel : forall b w1 w2, sio w1 w2 -> rsim' (await_write_all fuel false b w1) (await_write_all fuel false b w2).
Proof.
  induction fuel as [|f IH]; intros b w1 w2 HS; [exact I|]. cbn [await_write_all].
  destruct b as [|x b']; [apply rsim'_ok; exact HS|].
  destruct (sio_tpw (x :: b') w1 w2 HS) as [E1 S1].
  destruct (t_poll_write (x :: b') w1) as [p1 w1']. destruct (t_poll_write (x :: b') w2) as [p2 w2']. cbn [fst snd] in E1, S1. subst p2.
  destruct p1 as [[n|k]| |].
  - destruct (n =? 0); [apply rsim'_ok; exact S1|apply IH; exact S1].
  - apply rsim'_ok; exact S1.
  - rewrite !on_wake_false. apply IH. apply sio_bump. exact S1.
  - exact I.
Qed.

Lemma sim'_await_read fuel : forall L w1 w2, sio w1 w2 -> (sl w1 + 2 <= fuel)%nat ->
  rsim' (await_read fuel false L w1) (await_read fuel false L w2).
Proof.
  induction fuel as [|f IH]; intros L w1 w2 HS Hf; [exact I|]. cbn [await_read].
  destruct (sio_tpr L w1 w2 HS) as [E1 S1].
  destruct (t_poll_read L w1) as [p1 w1'] eqn:ET1. destruct (t_poll_read L w2) as [p2 w2'] eqn:ET2. cbn [fst snd] in E1, S1. subst p2.
  destruct (tpr_sl _ _ _ _ ET1) as [L1 L2].
  destruct p1 as [[b|k]| |].
  - apply rsim'_ok; exact S1.
  - apply rsim'_ok; exact S1.
  - rewrite !on_wake_false. apply IH; [apply sio_bump; exact S1|]. specialize (L2 eq_refl). change (sl (w_bump w1')) with (sl w1'). lia.
  - destruct (t_poll_read_rem _ _ _ _ ET1) as (_ & _ & _ & (-> & G1)).
    assert (HL : L <> 0).
    { intros ->. unfold t_poll_read in ET1. change (0 =? 0) with true in ET1. discriminate ET1. }
    apply (on_block_sim' (fun f => await_read f false L)); [exact S1|lia|].
    intros w f' HSw Hst. apply await_read_gated; [eapply gated_sio; eassumption|exact HL|exact Hst].
Qed.

Lemma sim'_await_input fuel : forall dest r w1 w2, sio w1 w2 -> (sl w1 + 2 <= fuel)%nat ->
  rsim' (await_input maxc fuel dest r w1) (await_input maxc fuel dest r w2).
Proof.
  induction fuel as [|f IH]; intros dest r w1 w2 HS Hf; [exact I|]. cbn [await_input].
  rewrite <- (sio_io_fuel w1 w2 _ HS).
  destruct (sio_poll_input (io_fuel w1 (len (buffer (rsp r)))) dest r w1 w2 HS) as [E1 S1].
  destruct (poll_input maxc _ dest r w1) as [[p1 r1] w1'] eqn:EP1. destruct (poll_input maxc _ dest r w2) as [[p2 r2] w2'] eqn:EP2.
  cbn [fst snd] in E1, S1. injection E1 as <- <-.
  destruct (poll_input_sl _ _ _ _ _ _ _ _ EP1) as [L1 L2].
  destruct p1 as [x| |].
  - apply rsim'_ok; exact S1.
  - rewrite !on_wake_false. apply IH; [apply sio_bump; exact S1|]. specialize (L2 eq_refl). change (sl (w_bump w1')) with (sl w1'). lia.
  - pose proof (poll_input_blocked _ _ _ _ _ _ _ EP1) as B1.
    apply (on_block_sim' (fun f => await_input maxc f dest r1)); [exact S1|lia|].
    intros w f' HSw Hst. apply await_input_again; [eapply Blocked_sio; eassumption|exact Hst].
Qed.

Lemma sim'_do_writeable r w1 w2 : sio w1 w2 -> rsim' (do_writeable maxc r w1) (do_writeable maxc r w2).
Proof.
  intros HS. unfold do_writeable. destruct (rwriteable r); [apply rsim'_ok; exact HS|].
  destruct (set_stream (rsp r) _) as [p'| |]; try exact I.
  rewrite <- (sio_io_fuel w1 w2 _ HS).
  pose proof (sim'_await_input (io_fuel w1 0) None (mkR p' false (rlock r) (raborted r)) w1 w2 HS (io_fuel_sl _ _)) as H.
  sim_destruct' H. destruct a as [[x|k] r']; apply rsim'_ok; exact HS'.
Qed.

Lemma sim'_boundary_loop fuel : forall new r w1 w2, sio w1 w2 -> rsim' (boundary_loop maxc fuel new r w1) (boundary_loop maxc fuel new r w2).
Proof.
  induction fuel as [|f IH]; intros new r w1 w2 HS; [exact I|].
  rewrite !ConnWrites.boundary_loop_S.
  assert (AFTER : forall p', rsim' (ConnWrites.bl_after maxc f r w1 p') (ConnWrites.bl_after maxc f r w2 p')).
  { intros p'. unfold ConnWrites.bl_after. cbv zeta. destruct (is_record_boundary p'); [apply rsim'_ok; exact HS|].
    rewrite <- (sio_io_fuel w1 w2 _ HS).
    pose proof (sim'_await_read (io_fuel w1 0) (sinput_space (compress p')) w1 w2 HS (io_fuel_sl _ _)) as H.
    sim_destruct' H. destruct a as [[|x b]|k]; [apply rsim'_ok; exact HS'|apply IH; exact HS'|apply rsim'_ok; exact HS']. }
  destruct (sparse maxc (rsp r) new None) as [p' s|p' e s|n]; [apply AFTER| |exact I].
  destruct e; try (apply rsim'_ok; exact HS). apply AFTER.
Qed.

Lemma sim'_record_boundary r w1 w2 : sio w1 w2 -> rsim' (record_boundary maxc r w1) (record_boundary maxc r w2).
Proof.
  intros HS. unfold record_boundary. destruct (is_record_boundary (rsp r)); [apply rsim'_ok; exact HS|].
  pose proof HS as (_ & _ & A3 & _). rewrite A3. apply sim'_boundary_loop. exact HS.
Qed.

Lemma sim'_close_finish r3 d c w1 w2 : sio w1 w2 -> rsim' (close_finish r3 d c w1) (close_finish r3 d c w2).
Proof.
  intros HS. unfold close_finish. destruct (epilogue _ d c _) as [ep|]; [|exact I]. cbv zeta.
  rewrite <- (sio_io_fuel w1 w2 _ HS).
  pose proof (sim'_awa (io_fuel w1 (len (output_buffer (rsp r3)))) (output_buffer (rsp r3)) w1 w2 HS) as H.
  sim_destruct' H. destruct a as [k3|]; [apply rsim'_ok; exact HS'|].
  rewrite <- (sio_io_fuel w1' w2' _ HS').
  pose proof (sim'_awa (io_fuel w1' (len ep)) ep w1' w2' HS') as H2.
  sim_destruct' H2. destruct a as [k4|]; [apply rsim'_ok; exact HS'0|].
  destruct (N.land _ FLAG_KeepConn =? FLAG_KeepConn); [|apply rsim'_ok; exact HS'0].
  destruct (into_request_parser _) as [rp| |]; [apply rsim'_ok; exact HS'0|apply rsim'_ok; exact HS'0|exact I].
Qed.

Lemma sim'_close_tail r1 d c w1 w2 : sio w1 w2 -> rsim' (close_tail maxc r1 d c w1) (close_tail maxc r1 d c w2).
Proof.
  intros HS. rewrite !close_tail_unfold. destruct (set_stream (rsp r1) None) as [p2| |]; try exact I.
  pose proof (sim'_record_boundary (mkR p2 (rwriteable r1) (rlock r1) (raborted r1)) w1 w2 HS) as H.
  sim_destruct' H. destruct a as [[k2|] r3]; [apply rsim'_ok; exact HS'|apply sim'_close_finish; exact HS'].
Qed.

Lemma sim'_do_close r d c w1 w2 : sio w1 w2 -> rsim' (do_close maxc r d c w1) (do_close maxc r d c w2).
Proof.
  intros HS. unfold do_close. pose proof (sim'_do_writeable r w1 w2 HS) as H.
  sim_destruct' H. destruct a as [[k|] r1]; [|apply sim'_close_tail; exact HS'].
  destruct ((k =? EK_Aborted) && raborted r1); [apply sim'_close_tail; exact HS'|apply rsim'_ok; exact HS'].
Qed.

Lemma sim'_write_slices fuel : forall slices w1 w2, sio w1 w2 -> rsim' (write_slices fuel slices w1) (write_slices fuel slices w2).
Proof.
  induction fuel as [|f IH]; intros slices w1 w2 HS; [exact I|]. rewrite !ConnTotal.write_slices_S.
  destruct (filter (fun s => negb (len s =? 0)) slices) as [|s1 more]; [apply rsim'_ok; exact HS|].
  pose proof HS as (_ & _ & _ & _ & _ & A6 & _). rewrite A6.
  match goal with |- context [t_poll_write ?o w1] => generalize o end. intros offer.
  destruct (sio_tpw offer w1 w2 HS) as [E1 S1].
  destruct (t_poll_write offer w1) as [p1 w1']. destruct (t_poll_write offer w2) as [p2 w2']. cbn [fst snd] in E1, S1. subst p2.
  destruct p1 as [[n|k]| |].
  - destruct (n =? 0); [apply rsim'_ok; exact S1|apply IH; exact S1].
  - apply rsim'_ok; exact S1.
  - rewrite !on_wake_false. apply IH. apply sio_bump. exact S1.
  - exact I.
Qed.

Lemma sim'_writer_write_all fuel : forall stype id data w1 w2, sio w1 w2 ->
  rsim' (writer_write_all fuel stype id data w1) (writer_write_all fuel stype id data w2).
Proof.
  induction fuel as [|f IH]; intros stype id data w1 w2 HS; [exact I|]. rewrite !writer_write_all_S.
  destruct data as [|x data']; [apply rsim'_ok; exact HS|]. cbv zeta.
  rewrite <- (sio_io_fuel w1 w2 _ HS).
  set (n := N.min (len (x :: data')) 65535).
  pose proof (sim'_write_slices (io_fuel w1 (n + 300)) [hdr_encode stype id n (auto_padding n); take n (x :: data'); zeros (auto_padding n)] w1 w2 HS) as H.
  sim_destruct' H. destruct a as [k|]; [apply rsim'_ok; exact HS'|apply IH; exact HS'].
Qed.

Lemma sim'_read_all fuel : forall acc r w1 w2, sio w1 w2 -> rsim' (read_all maxc fuel acc r w1) (read_all maxc fuel acc r w2).
Proof.
  induction fuel as [|f IH]; intros acc r w1 w2 HS; [exact I|]. cbn [read_all].
  rewrite <- (sio_io_fuel w1 w2 _ HS).
  pose proof (sim'_await_input (io_fuel w1 0) (Some 64) r w1 w2 HS (io_fuel_sl _ _)) as H.
  sim_destruct' H. destruct a as [[[n b]|k] r']; [|apply rsim'_ok; exact HS'].
  destruct (n =? 0); [apply rsim'_ok; exact HS'|apply IH; exact HS'].
Qed.

Lemma sim'_run_handler fuel : forall script r w1 w2, sio w1 w2 ->
  rsim' (run_handler maxc fuel script r w1) (run_handler maxc fuel script r w2).
Proof.
  induction fuel as [|f IH]; intros script r w1 w2 HS; [exact I|].
  destruct (sc_all maxc script) as [|n rest|rest|k rest|s rest|rest|s n rest|s rest|d c rest|k rest|n rest|n rest|script BAD].
  - cbn [run_handler]. apply rsim'_ok. apply sio_ev. exact HS.
  - cbn [run_handler]. rewrite <- (sio_io_fuel w1 w2 _ HS).
    pose proof (sim'_await_input (io_fuel w1 0) (Some n) r w1 w2 HS (io_fuel_sl _ _)) as H.
    sim_destruct' H. destruct a as [[[c b]|k] r']; apply IH; repeat apply sio_ev; exact HS'.
  - cbn [run_handler]. pose proof HS as (_ & _ & A3 & _). rewrite A3.
    pose proof (sim'_read_all (length (flat_map (fun s => snd s) (segs w2)) + length (buffer (rsp r)) + 4) [] r w1 w2 HS) as H.
    sim_destruct' H. destruct a as [[k acc] r']. apply IH; repeat apply sio_ev; exact HS'.
  - cbn [run_handler]. rewrite <- (sio_io_fuel w1 w2 _ HS).
    pose proof (sim'_await_input (io_fuel w1 0) None r w1 w2 HS (io_fuel_sl _ _)) as H.
    sim_destruct' H. destruct a as [[x|e] r']; apply IH; repeat apply sio_ev; exact HS'.
  - cbn [run_handler]. destruct (set_stream (rsp r) (Some s)) as [p'| |]; try exact I.
    apply IH. apply sio_ev. exact HS.
  - cbn [run_handler]. pose proof (sim'_do_writeable r w1 w2 HS) as H.
    sim_destruct' H. destruct a as [e r']. apply IH. apply sio_ev. exact HS'.
  - cbn [run_handler]. destruct (negb (rwriteable r)); [apply IH; apply sio_ev; exact HS|].
    destruct (rlock r && negb (len (take n rest) =? 0)); [apply rsim'_dl; exact HS|].
    pose proof (sim'_writer_write_all (N.to_nat (n / 65535) + 2) s (r_id (sreq (rsp r))) (take n rest) w1 w2 HS) as H.
    sim_destruct' H. destruct a as [k|]; [apply rsim'_ok; apply sio_ev; exact HS'|apply IH; apply sio_ev; exact HS'].
  - cbn [run_handler]. destruct (rwriteable r); [|apply IH; apply sio_ev; exact HS].
    destruct (rlock r); [apply rsim'_dl; exact HS|apply IH; apply sio_ev; exact HS].
  - cbn [run_handler]. apply rsim'_ok. apply sio_ev. exact HS.
  - cbn [run_handler]. apply rsim'_ok. apply sio_ev. exact HS.
  - cbn [run_handler]. rewrite <- (sio_io_fuel w1 w2 _ HS).
    pose proof (sim'_await_input (io_fuel w1 0) (Some n) r w1 w2 HS (io_fuel_sl _ _)) as H.
    sim_destruct' H. destruct a as [[[c b]|k] r']; [apply IH|apply rsim'_ok]; repeat apply sio_ev; exact HS'.
  - cbn [run_handler]. rewrite <- (sio_io_fuel w1 w2 _ HS).
    destruct (sio_poll_input (io_fuel w1 (len (buffer (rsp r)))) (Some n) r w1 w2 HS) as [E1 S1].
    destruct (poll_input maxc _ (Some n) r w1) as [[p1 r1] w1']. destruct (poll_input maxc _ (Some n) r w2) as [[p2 r2] w2'].
    cbn [fst snd] in E1, S1. injection E1 as <- <-.
    destruct p1 as [[[c b]|k]| |]; apply IH; repeat apply sio_ev; exact S1.
  - rewrite BAD. exact I.
Qed.
End SimS.

(* ================================================================================================ *)
(* Part 2: the count of consumed client bytes only grows (the transport log: Async/LogProofs.v)     *)
(* ================================================================================================ *)
Ltac cmn := cbn [w_ev w_bump w_stop w_set_w w_set_r consumed res_w snd] in *; lia.

Lemma tpr_cm L w : consumed w <= consumed (snd (t_poll_read L w)).
Proof.
  unfold t_poll_read. destruct (L =? 0); [cmn|].
  destruct (skip_empty_segs (segs w)) as [|[[ge gm] b] rest]; [cmn|].
  destruct (count_records _ _ 0 0) as [e m]. destruct ((e <? ge) || (m <? gm)); [cmn|].
  destruct (rscript w) as [|r t]; cbv beta iota zeta.
  - destruct (L =? 0); [cmn|]. destruct (L =? R_ERR); cmn.
  - destruct (r =? 0); [cmn|]. destruct (r =? R_ERR); cmn.
Qed.

Lemma io_rel_cm w w' b : io_rel w w' b -> consumed w' = consumed w.
Proof. intros ((_ & _ & C & _) & _). exact C. Qed.

Lemma wpost_cm sel b w x : wpost sel b w x -> consumed (res_w x) = consumed w.
Proof.
  destruct x as [[k|] w'|o w']; cbn [wpost res_w].
  - intros (b1 & b2 & _ & _ & Hio & _). eapply io_rel_cm. exact Hio.
  - apply io_rel_cm.
  - destruct o; try contradiction.
    + intros (_ & _ & b1 & b2 & _ & _ & Hio). eapply io_rel_cm. exact Hio.
    + intros (b1 & b2 & _ & Hio). eapply io_rel_cm. exact Hio.
Qed.

Lemma await_read_cm fuel : forall sel L w, consumed w <= consumed (res_w (await_read fuel sel L w)).
Proof.
  induction fuel as [|f IH]; intros sel L w; [apply N.le_refl|]. cbn [await_read].
  pose proof (tpr_cm L w) as T. destruct (t_poll_read L w) as [p w1]. cbn [snd] in T.
  destruct p as [a| |].
  - cmn.
  - unfold on_wake. destruct (sel && stopped (w_bump w1)); [cmn|].
    pose proof (IH sel L (w_bump w1)) as K. cmn.
  - unfold on_block. destruct (negb (stop_at w1 =? 0) && negb (stopped w1)); [|cmn].
    destruct sel; [cmn|]. pose proof (IH false L (w_stop w1)) as K. cmn.
Qed.

Lemma awa_cm fuel sel b w : consumed (res_w (await_write_all fuel sel b w)) = consumed w.
Proof. eapply wpost_cm. apply await_write_all_post. Qed.

Lemma poll_output_cm fuel r w : consumed (snd (poll_output fuel r w)) = consumed w.
Proof.
  pose proof (poll_output_post fuel r w) as H. destruct (poll_output fuel r w) as [[p r'] w'].
  unfold po_post in H. cbv zeta in H. destruct H as (n & _ & Hio & _). cbn [snd]. eapply io_rel_cm. exact Hio.
Qed.

Section MonoConn.
Variable maxc : N.

Lemma input_loop_cm : forall fuel dest new r w, consumed w <= consumed (snd (input_loop maxc fuel dest new r w)).
Proof.
  induction fuel as [|f IH]; intros dest new r w; [apply N.le_refl|].
  cbn [input_loop]. destruct (sparse maxc (rsp r) new dest) as [p1 s|p1 e s|n]; try cmn.
  destruct (s_end s || (0 <? s_stream s)); [cmn|].
  set (r2 := mkR (compress p1) (rwriteable r) (rlock r) (raborted r)).
  pose proof (poll_output_cm (S f) r2 w) as P. destruct (poll_output (S f) r2 w) as [[po r3] w0]. cbn [snd] in P.
  destruct po as [[u|k]| |]; try cmn.
  pose proof (tpr_cm (sinput_space (rsp r3)) w0) as T. destruct (t_poll_read (sinput_space (rsp r3)) w0) as [q w1]. cbn [snd] in T.
  destruct q as [[b|k]| |]; try cmn.
  destruct b as [|x b']; [cmn|]. pose proof (IH dest (x :: b') r3 w1) as K. cmn.
Qed.

Lemma poll_input_cm fuel dest r w : consumed w <= consumed (snd (poll_input maxc fuel dest r w)).
Proof.
  unfold poll_input. cbv zeta.
  assert (EMPTY : consumed w <= consumed (snd (match poll_output fuel r w with
     | (PReady (inl _), r', w') => input_loop maxc fuel dest [] r' w'
     | (PReady (inr k), r', w') => (PReady (inr k), r', w')
     | (PWake, r', w') => (PWake, r', w')
     | (PBlock, r', w') => (PBlock, r', w')
     end))).
  { pose proof (poll_output_cm fuel r w) as P. destruct (poll_output fuel r w) as [[po r1] w1]. cbn [snd] in P.
    destruct po as [[u|k]| |]; try cmn. pose proof (input_loop_cm fuel dest [] r1 w1) as K. cmn. }
  destruct dest as [[|pc]|]; destruct (stream_buffer (rsp r)) as [|x sb]; try exact EMPTY; cmn.
Qed.

Lemma await_input_cm : forall fuel dest r w, consumed w <= consumed (res_w (await_input maxc fuel dest r w)).
Proof.
  induction fuel as [|f IH]; intros dest r w; [apply N.le_refl|]. cbn [await_input].
  pose proof (poll_input_cm (io_fuel w (len (buffer (rsp r)))) dest r w) as P.
  destruct (poll_input maxc (io_fuel w (len (buffer (rsp r)))) dest r w) as [[p r1] w1]. cbn [snd] in P.
  destruct p as [x| |].
  - cmn.
  - unfold on_wake. cbn [andb]. pose proof (IH dest r1 (w_bump w1)) as K. cmn.
  - unfold on_block. destruct (negb (stop_at w1 =? 0) && negb (stopped w1)); [|cmn].
    pose proof (IH dest r1 (w_stop w1)) as K. cmn.
Qed.

Lemma do_writeable_cm r w : consumed w <= consumed (res_w (do_writeable maxc r w)).
Proof.
  unfold do_writeable. destruct (rwriteable r); [cmn|].
  destruct (set_stream (rsp r) _) as [p'| |]; try cmn.
  match goal with |- context [await_input maxc ?fu ?d ?r0 w] => pose proof (await_input_cm fu d r0 w) as H; destruct (await_input maxc fu d r0 w) as [[[v|k] r'] w'|o w'] end; cmn.
Qed.

Lemma boundary_loop_cm : forall fuel new r w, consumed w <= consumed (res_w (boundary_loop maxc fuel new r w)).
Proof.
  induction fuel as [|f IH]; intros new r w; [apply N.le_refl|]. rewrite ConnWrites.boundary_loop_S.
  assert (AFTER : forall p', consumed w <= consumed (res_w (ConnWrites.bl_after maxc f r w p'))).
  { intros p'. unfold ConnWrites.bl_after. cbv zeta. destruct (is_record_boundary p'); [cmn|].
    pose proof (await_read_cm (io_fuel w 0) false (sinput_space (compress p')) w) as AR.
    destruct (await_read (io_fuel w 0) false (sinput_space (compress p')) w) as [[b|k] w1|o w1]; try cmn.
    destruct b as [|x b']; [cmn|].
    pose proof (IH (x :: b') (mkR (compress p') (rwriteable r) (rlock r) (raborted r)) w1) as K. cmn. }
  destruct (sparse maxc (rsp r) new None) as [p' s|p' e s|n]; [apply AFTER| |cmn].
  destruct e; try apply AFTER; cmn.
Qed.

Lemma record_boundary_cm r w : consumed w <= consumed (res_w (record_boundary maxc r w)).
Proof. unfold record_boundary. destruct (is_record_boundary (rsp r)); [cmn|apply boundary_loop_cm]. Qed.

Lemma close_finish_cm r3 d c w : consumed (res_w (close_finish r3 d c w)) = consumed w.
Proof.
  unfold close_finish. destruct (epilogue _ d c _) as [ep|]; [|reflexivity]. cbv zeta.
  pose proof (awa_cm (io_fuel w (len (output_buffer (rsp r3)))) false (output_buffer (rsp r3)) w) as W1.
  destruct (await_write_all (io_fuel w (len (output_buffer (rsp r3)))) false (output_buffer (rsp r3)) w) as [[k3|] w3|o w3];
    cbn [res_w] in W1 |- *; try exact W1.
  pose proof (awa_cm (io_fuel w3 (len ep)) false ep w3) as W2.
  destruct (await_write_all (io_fuel w3 (len ep)) false ep w3) as [[k4|] w4|o w4]; cbn [res_w] in W2 |- *; try congruence.
  destruct (N.land _ FLAG_KeepConn =? FLAG_KeepConn); [|cbn [res_w]; congruence].
  destruct (into_request_parser _); cbn [res_w]; congruence.
Qed.

Lemma close_tail_cm r1 d c w : consumed w <= consumed (res_w (close_tail maxc r1 d c w)).
Proof.
  rewrite close_tail_unfold. destruct (set_stream (rsp r1) None) as [p2| |]; try cmn.
  pose proof (record_boundary_cm (mkR p2 (rwriteable r1) (rlock r1) (raborted r1)) w) as RB.
  destruct (record_boundary maxc (mkR p2 (rwriteable r1) (rlock r1) (raborted r1)) w) as [[[k2|] r3] w2|o w2]; try cmn.
  pose proof (close_finish_cm r3 d c w2) as CF. cmn.
Qed.

Lemma do_close_cm r d c w : consumed w <= consumed (res_w (do_close maxc r d c w)).
Proof.
  unfold do_close. pose proof (do_writeable_cm r w) as DW.
  destruct (do_writeable maxc r w) as [[[k|] r1] w1|o w1]; cbn [res_w] in DW; [| |cmn].
  - destruct ((k =? EK_Aborted) && raborted r1); [|cmn]. pose proof (close_tail_cm r1 d c w1) as CT. cmn.
  - pose proof (close_tail_cm r1 d c w1) as CT. cmn.
Qed.

Lemma read_all_cm : forall fuel acc r w, consumed w <= consumed (res_w (read_all maxc fuel acc r w)).
Proof.
  induction fuel as [|f IH]; intros acc r w; [apply N.le_refl|]. cbn [read_all].
  pose proof (await_input_cm (io_fuel w 0) (Some 64) r w) as H.
  destruct (await_input maxc (io_fuel w 0) (Some 64) r w) as [[[[n b]|k] r'] w'|o w']; try cmn.
  destruct (n =? 0); [cmn|]. pose proof (IH (acc ++ b) r' w') as K. cmn.
Qed.

Lemma wwa_cm fuel stype id data w : consumed (res_w (writer_write_all fuel stype id data w)) = consumed w.
Proof. eapply wpost_cm. apply writer_write_all_post. Qed.

Lemma run_handler_cm : forall fuel script r w, consumed w <= consumed (res_w (run_handler maxc fuel script r w)).
Proof.
  induction fuel as [|f IH]; intros script r w; [apply N.le_refl|].
  destruct (sc_all maxc script) as [|n rest|rest|k rest|s rest|rest|s n rest|s rest|d c rest|k rest|n rest|n rest|script BAD].
  - cbn [run_handler]. cmn.
  - cbn [run_handler]. pose proof (await_input_cm (io_fuel w 0) (Some n) r w) as H.
    destruct (await_input maxc (io_fuel w 0) (Some n) r w) as [[[[c b]|k] r'] w'|o w']; try cmn;
      match goal with |- context [run_handler maxc f ?s ?r0 ?w0] => pose proof (IH s r0 w0) as K end; cmn.
  - cbn [run_handler].
    match goal with |- context [read_all maxc ?fu ?a r w] => pose proof (read_all_cm fu a r w) as H; destruct (read_all maxc fu a r w) as [[[k acc] r'] w'|o w'] end; try cmn.
    match goal with |- context [run_handler maxc f ?s ?r0 ?w0] => pose proof (IH s r0 w0) as K end; cmn.
  - cbn [run_handler]. pose proof (await_input_cm (io_fuel w 0) None r w) as H.
    destruct (await_input maxc (io_fuel w 0) None r w) as [[[x|e] r'] w'|o w']; try cmn;
      match goal with |- context [run_handler maxc f ?s ?r0 ?w0] => pose proof (IH s r0 w0) as K end; cmn.
  - cbn [run_handler]. destruct (set_stream (rsp r) (Some s)) as [p'| |]; try cmn.
    match goal with |- context [run_handler maxc f ?s ?r0 ?w0] => pose proof (IH s r0 w0) as K end; cmn.
  - cbn [run_handler]. pose proof (do_writeable_cm r w) as H.
    destruct (do_writeable maxc r w) as [[e r'] w'|o w']; try cmn.
    match goal with |- context [run_handler maxc f ?s ?r0 ?w0] => pose proof (IH s r0 w0) as K end; cmn.
  - cbn [run_handler]. destruct (negb (rwriteable r)).
    { match goal with |- context [run_handler maxc f ?s ?r0 ?w0] => pose proof (IH s r0 w0) as K end; cmn. }
    destruct (rlock r && negb (len (take n rest) =? 0)); [cmn|].
    pose proof (wwa_cm (N.to_nat (n / 65535) + 2) s (r_id (sreq (rsp r))) (take n rest) w) as H.
    destruct (writer_write_all (N.to_nat (n / 65535) + 2) s (r_id (sreq (rsp r))) (take n rest) w) as [[k|] w'|o w']; try cmn.
    match goal with |- context [run_handler maxc f ?s ?r0 ?w0] => pose proof (IH s r0 w0) as K end; cmn.
  - cbn [run_handler]. destruct (rwriteable r).
    + destruct (rlock r); [cmn|]. match goal with |- context [run_handler maxc f ?s ?r0 ?w0] => pose proof (IH s r0 w0) as K end; cmn.
    + match goal with |- context [run_handler maxc f ?s ?r0 ?w0] => pose proof (IH s r0 w0) as K end; cmn.
  - cbn [run_handler]. cmn.
  - cbn [run_handler]. cmn.
  - cbn [run_handler]. pose proof (await_input_cm (io_fuel w 0) (Some n) r w) as H.
    destruct (await_input maxc (io_fuel w 0) (Some n) r w) as [[[[c b]|k] r'] w'|o w']; try cmn.
    match goal with |- context [run_handler maxc f ?s ?r0 ?w0] => pose proof (IH s r0 w0) as K end; cmn.
  - cbn [run_handler]. pose proof (poll_input_cm (io_fuel w (len (buffer (rsp r)))) (Some n) r w) as H.
    destruct (poll_input maxc (io_fuel w (len (buffer (rsp r)))) (Some n) r w) as [[p1 r1] w1]. cbn [snd] in H.
    destruct p1 as [[[c b]|k]| |];
      match goal with |- context [run_handler maxc f ?s ?r0 ?w0] => pose proof (IH s r0 w0) as K end; cmn.
  - rewrite BAD. cmn.
Qed.
End MonoConn.

(* ================================================================================================ *)
(* Part 3: the select side                                                                          *)
(* ================================================================================================ *)
(* a later state of the same run: more log, more consumed *)
Definition mono (w w' : world) : Prop := is_prefix (wlog w) (wlog w') /\ consumed w <= consumed w'.

Lemma mono_refl w : mono w w.
Proof. split; [apply is_prefix_refl|lia]. Qed.
Lemma mono_trans a b c : mono a b -> mono b c -> mono a c.
Proof. intros [A1 A2] [B1 B2]. split; [eapply is_prefix_trans; eassumption|lia]. Qed.

(* the second run returned (in world w2') because of the shutdown at a point the first run (now in w1') has passed *)
Definition cutw (w1' w2' : world) : Prop :=
  stopped w2' = true /\ is_prefix (wlog w2') (wlog w1') /\ consumed w2' <= consumed w1'.

Lemma cutw_mono w1 w1' w2 : cutw w1 w2 -> mono w1 w1' -> cutw w1' w2.
Proof. intros (C1 & C2 & C3) [M1 M2]. split; [exact C1|]. split; [eapply is_prefix_trans; eassumption|lia]. Qed.

Lemma cutw_sio wa wb w1f : sio wa wb -> stopped wb = true -> mono wa w1f -> cutw w1f wb.
Proof.
  intros (A1 & A2 & A3 & A4 & A5 & A6 & A7 & A8) Hst [M1 M2]. split; [exact Hst|].
  split; [rewrite <- A4; exact M1|lia].
Qed.

Definition ssim {A} (x1 x2 : res A) : Prop :=
  match x1 with
  | Ok a w1' => (exists w2', x2 = Ok a w2' /\ sio w1' w2') \/ (exists w2', x2 = Halt ORet w2' /\ cutw w1' w2')
  | Halt o w1' => (o = ORet \/ o = ODeadlock) ->
                  (exists w2', x2 = Halt o w2' /\ sio w1' w2') \/ (exists w2', x2 = Halt ORet w2' /\ cutw w1' w2')
  end.

Lemma ssim_ok {A} (a : A) w1 w2 : sio w1 w2 -> ssim (Ok a w1) (Ok a w2).
Proof. intros H. left. exists w2. split; [reflexivity|exact H]. Qed.
Lemma ssim_halt {A} o w1 w2 : sio w1 w2 -> @ssim A (Halt o w1) (Halt o w2).
Proof. intros H _. left. exists w2. split; [reflexivity|exact H]. Qed.
Lemma ssim_cut {A} (x1 : res A) w2 : cutw (res_w x1) w2 -> ssim x1 (Halt ORet w2).
Proof.
  intros H. destruct x1 as [a w1|o w1]; cbn [res_w] in H.
  - right. exists w2. split; [reflexivity|exact H].
  - intros _. right. exists w2. split; [reflexivity|exact H].
Qed.
Lemma ssim_bad {A} o w1 (x2 : res A) : o <> ORet -> o <> ODeadlock -> ssim (Halt o w1) x2.
Proof. intros N1 N2 [H|H]; contradiction. Qed.

Lemma o_dec (o : outcome) : (o = ORet \/ o = ODeadlock) \/ (o <> ORet /\ o <> ODeadlock).
Proof. destruct o; auto; right; split; discriminate. Qed.

Lemma await_read_mono fuel sel L w : mono w (res_w (await_read fuel sel L w)).
Proof. split; [rewrite await_read_wlog; apply is_prefix_refl|apply await_read_cm]. Qed.

Lemma awa_mono fuel sel b w : mono w (res_w (await_write_all fuel sel b w)).
Proof. split; [eapply wpost_lg; apply await_write_all_post|rewrite awa_cm; lia]. Qed.

Lemma sel_await_read fuel : forall L w1 w2, sio w1 w2 -> ssim (await_read fuel true L w1) (await_read fuel true L w2).
Proof.
  induction fuel as [|f IH]; intros L w1 w2 HS; [apply ssim_bad; discriminate|].
  cbn [await_read].
  destruct (sio_tpr L w1 w2 HS) as [E1 S1].
  destruct (t_poll_read L w1) as [p1 w1']. destruct (t_poll_read L w2) as [p2 w2']. cbn [fst snd] in E1, S1. subst p2.
  destruct p1 as [a| |].
  - apply ssim_ok. exact S1.
  - unfold on_wake. cbn [andb]. pose proof (sio_bump _ _ S1) as SB.
    pose proof SB as (_ & _ & _ & _ & _ & _ & _ & B8). rewrite B8.
    destruct (stopped (w_bump w2')) eqn:E2.
    + apply ssim_cut. apply (cutw_sio (w_bump w1')); [exact SB|exact E2|apply await_read_mono].
    + apply IH. exact SB.
  - unfold on_block. pose proof S1 as (_ & _ & _ & _ & _ & _ & A7 & A8). rewrite A7, N.eqb_refl. cbn [negb andb].
    destruct (negb (stop_at w2' =? 0) && negb (stopped w2')).
    + apply ssim_cut. cbn [res_w]. apply (cutw_sio w1'); [apply sio_stop_r; exact S1|reflexivity|apply mono_refl].
    + apply ssim_halt. exact S1.
Qed.

Lemma sel_awa fuel : forall b w1 w2, sio w1 w2 -> ssim (await_write_all fuel true b w1) (await_write_all fuel true b w2).
Proof.
  induction fuel as [|f IH]; intros b w1 w2 HS; [apply ssim_bad; discriminate|].
  cbn [await_write_all]. destruct b as [|x b']; [apply ssim_ok; exact HS|].
  destruct (sio_tpw (x :: b') w1 w2 HS) as [E1 S1].
  destruct (t_poll_write (x :: b') w1) as [p1 w1']. destruct (t_poll_write (x :: b') w2) as [p2 w2']. cbn [fst snd] in E1, S1. subst p2.
  destruct p1 as [[n|k]| |].
  - destruct (n =? 0); [apply ssim_ok; exact S1|apply IH; exact S1].
  - apply ssim_ok; exact S1.
  - unfold on_wake. cbn [andb]. pose proof (sio_bump _ _ S1) as SB.
    pose proof SB as (_ & _ & _ & _ & _ & _ & _ & B8). rewrite B8.
    destruct (stopped (w_bump w2')) eqn:E2.
    + apply ssim_cut. apply (cutw_sio (w_bump w1')); [exact SB|exact E2|apply awa_mono].
    + apply IH. exact SB.
  - apply ssim_bad; discriminate.
Qed.

Section Loop.
Variable norm : bytes -> bytes.
Variable maxc : N.

(* Token::parse_request after its write *)
Definition pr_rest (f : nat) (p' : parser) (done : bool) (w' : world) : res (sp + N) :=
  if done then
    match into_stream_parser p' with
    | inl s => Ok (inl s) w'
    | inr e => Ok (inr (perr_kind e)) w'
    end
  else
    match await_read (io_fuel w' 0) true (input_space p') w' with
    | Halt o w'' => Halt o w''
    | Ok (inr k) w'' => Ok (inr k) w''
    | Ok (inl []) w'' => Ok (inr EK_Reset) w''
    | Ok (inl b) w'' => parse_request norm maxc f p' b w''
    end.

Lemma parse_request_S f p new w : parse_request norm maxc (S f) p new w =
  match parse norm maxc p new with
  | PPanic n => Halt (OPanic n) w
  | POk p' done out =>
    match await_write_all (io_fuel w (len out)) true out w with
    | Halt o w' => Halt o w'
    | Ok (Some k) w' => Ok (inr k) w'
    | Ok None w' => pr_rest f p' done w'
    end
  end.
Proof. reflexivity. Qed.

Lemma pr_rest_mono_aux f : (forall p new w, mono w (res_w (parse_request norm maxc f p new w))) ->
  forall p' done w', mono w' (res_w (pr_rest f p' done w')).
Proof.
  intros IH p' done w'. unfold pr_rest. destruct done.
  { destruct (into_stream_parser p'); apply mono_refl. }
  pose proof (await_read_mono (io_fuel w' 0) true (input_space p') w') as AR.
  destruct (await_read (io_fuel w' 0) true (input_space p') w') as [[b|k] w2|o w2]; cbn [res_w] in AR |- *; try exact AR.
  destruct b as [|x b']; [exact AR|]. eapply mono_trans; [exact AR|apply IH].
Qed.

Lemma parse_request_mono : forall fuel p new w, mono w (res_w (parse_request norm maxc fuel p new w)).
Proof.
  induction fuel as [|f IH]; intros p new w; [apply mono_refl|]. rewrite parse_request_S.
  destruct (parse norm maxc p new) as [p' done out|n]; [|apply mono_refl].
  pose proof (awa_mono (io_fuel w (len out)) true out w) as W1.
  destruct (await_write_all (io_fuel w (len out)) true out w) as [[k|] w1|o w1]; cbn [res_w] in W1 |- *; try exact W1.
  eapply mono_trans; [exact W1|apply pr_rest_mono_aux; exact IH].
Qed.

Lemma pr_rest_mono f p' done w' : mono w' (res_w (pr_rest f p' done w')).
Proof. apply pr_rest_mono_aux. apply parse_request_mono. Qed.

Lemma sel_pr_rest f : (forall p new w1 w2, sio w1 w2 -> ssim (parse_request norm maxc f p new w1) (parse_request norm maxc f p new w2)) ->
  forall p' done w1 w2, sio w1 w2 -> ssim (pr_rest f p' done w1) (pr_rest f p' done w2).
Proof.
  intros IH p' done w1 w2 HS. unfold pr_rest. destruct done.
  { destruct (into_stream_parser p'); apply ssim_ok; exact HS. }
  rewrite <- (sio_io_fuel w1 w2 _ HS).
  pose proof (sel_await_read (io_fuel w1 0) (input_space p') w1 w2 HS) as H.
  destruct (await_read (io_fuel w1 0) true (input_space p') w1) as [[b|k] w1b|o w1b].
  - destruct H as [(w2b & -> & Sb)|(w2c & -> & C)].
    + destruct b as [|x b']; [apply ssim_ok; exact Sb|apply IH; exact Sb].
    + apply ssim_cut. destruct b as [|x b']; [exact C|]. eapply cutw_mono; [exact C|apply parse_request_mono].
  - destruct H as [(w2b & -> & Sb)|(w2c & -> & C)]; [apply ssim_ok; exact Sb|apply ssim_cut; exact C].
  - destruct (o_dec o) as [Ho|[N1 N2]]; [|apply ssim_bad; assumption].
    destruct (H Ho) as [(w2b & -> & Sb)|(w2c & -> & C)]; [apply ssim_halt; exact Sb|apply ssim_cut; exact C].
Qed.

Lemma sel_parse_request : forall fuel p new w1 w2, sio w1 w2 ->
  ssim (parse_request norm maxc fuel p new w1) (parse_request norm maxc fuel p new w2).
Proof.
  induction fuel as [|f IH]; intros p new w1 w2 HS; [apply ssim_bad; discriminate|].
  rewrite !parse_request_S. destruct (parse norm maxc p new) as [p' done out|n]; [|apply ssim_bad; discriminate].
  rewrite <- (sio_io_fuel w1 w2 _ HS).
  pose proof (sel_awa (io_fuel w1 (len out)) out w1 w2 HS) as H.
  destruct (await_write_all (io_fuel w1 (len out)) true out w1) as [[k|] w1a|o w1a].
  - destruct H as [(w2a & -> & Sa)|(w2c & -> & C)]; [apply ssim_ok; exact Sa|apply ssim_cut; exact C].
  - destruct H as [(w2a & -> & Sa)|(w2c & -> & C)].
    + apply sel_pr_rest; [exact IH|exact Sa].
    + apply ssim_cut. eapply cutw_mono; [exact C|apply pr_rest_mono].
  - destruct (o_dec o) as [Ho|[N1 N2]]; [|apply ssim_bad; assumption].
    destruct (H Ho) as [(w2a & -> & Sa)|(w2c & -> & C)]; [apply ssim_halt; exact Sa|apply ssim_cut; exact C].
Qed.

(* ================================================================================================ *)
(* Part 4: Token::run                                                                               *)
(* ================================================================================================ *)
(* one iteration of the loop after parse_request produced a request *)
Definition loop_body (f : nat) (scripts : list (list N)) (served_n : nat) (acc : list served) (s0 : sp) (w' : world)
  : outcome * world * list served :=
        let rq := sreq s0 in
        let r0 := mkR s0 (len (role_input_streams (r_role rq)) <=? 1) false false in
        let env := canon_env (r_env rq) in
        let w1 := fold_left (fun w p => w_ev (w_ev w (fst p)) (snd p)) env
                    (w_ev (w_ev w' [100; epoch w']) [r_role rq; r_flags rq; len env; stream_code (stream s0);
                                            if rwriteable r0 then 1 else 0]) in
        let script := nth served_n scripts (last scripts []) in
        match run_handler maxc (length script + 2) script r0 w1 with
        | Halt o w2 => (o, w2, acc)
        | Ok (st, r1) w2 =>
          let status := match st with
                        | inl dc => Some dc
                        | inr k => if (k =? EK_Aborted) && raborted r1 then Some (EXIT_Complete, EXIT_ABORT_CODE) else None
                        end in
          let entry gate closed := mkServed rq st gate (wlog w1) (wlog w2) closed in
          match status with
          | None => (ORet, w2, acc ++ [entry false None])
          | Some (d, c) =>
            let gate := match do_writeable maxc r1 w2 with Ok (_, r2) _ => rwriteable r2 | Halt _ _ => false end in
            match do_close maxc r1 d c w2 with
            | Halt o w3 => (o, w3, acc ++ [entry gate None])
            | Ok (inl rp) w3 => run_loop_log norm maxc f rp scripts (S served_n) w3 (acc ++ [entry gate (Some (wlog w3))])
            | Ok (inr k) w3 => (ORet, w3, acc ++ [entry gate (if k =? EK_Reset then Some (wlog w3) else None)])
            end
          end
        end.

Lemma run_loop_log_S f p scripts n w acc : run_loop_log norm maxc (S f) p scripts n w acc =
  if stopped w then (ORet, w, acc) else
  match parse_request norm maxc (io_fuel w 0) p [] w with
  | Halt o w' => (o, w', acc)
  | Ok (inr _) w' => (ORet, w', acc)
  | Ok (inl s0) w' => loop_body f scripts n acc s0 w'
  end.
Proof. reflexivity. Qed.

Definition t_o (x : outcome * world * list served) : outcome := fst (fst x).
Definition t_w (x : outcome * world * list served) : world := snd (fst x).
Definition t_l (x : outcome * world * list served) : list served := snd x.

(* the run from w with ghost list acc ends later, with a longer list *)
Definition grows (w : world) (acc : list served) (x : outcome * world * list served) : Prop :=
  mono w (t_w x) /\ exists t, t_l x = acc ++ t.

Lemma grows_leaf0 w w' acc o : mono w w' -> grows w acc (o, w', acc).
Proof. intros M. split; [exact M|]. exists []. symmetry. apply app_nil_r. Qed.
Lemma grows_leaf w w' acc o t : mono w w' -> grows w acc (o, w', acc ++ t).
Proof. intros M. split; [exact M|]. exists t. reflexivity. Qed.
Lemma grows_step w w' acc e x : mono w w' -> grows w' (acc ++ [e]) x -> grows w acc x.
Proof.
  intros M [M2 (t & Ht)]. split; [eapply mono_trans; eassumption|]. exists (e :: t). rewrite Ht, <- app_assoc. reflexivity.
Qed.

Lemma mono_ev w0 w e : mono w0 w -> mono w0 (w_ev w e).
Proof. intros H. exact H. Qed.

Lemma mono_fold_ev (env : list (bytes * bytes)) : forall w0 w, mono w0 w ->
  mono w0 (fold_left (fun w p => w_ev (w_ev w (fst p)) (snd p)) env w).
Proof. induction env as [|e t IH]; intros w0 w M; [exact M|]. cbn [fold_left]. apply IH. exact M. Qed.

Lemma sio_fold_ev (env : list (bytes * bytes)) : forall wa wb, sio wa wb ->
  sio (fold_left (fun w p => w_ev (w_ev w (fst p)) (snd p)) env wa) (fold_left (fun w p => w_ev (w_ev w (fst p)) (snd p)) env wb).
Proof. induction env as [|e t IH]; intros wa wb S; [exact S|]. cbn [fold_left]. apply IH. apply sio_ev. apply sio_ev. exact S. Qed.

Lemma run_handler_mono fuel script r w : mono w (res_w (run_handler maxc fuel script r w)).
Proof.
  pose proof (run_handler_k maxc fuel script r w) as K. pose proof (run_handler_cm maxc fuel script r w) as C.
  destruct (run_handler maxc fuel script r w) as [[st r1] w2|o w2]; cbn [kpost res_w] in *; (split; [|exact C]).
  - apply K.
  - exact K.
Qed.

Lemma do_close_mono r d c w : mono w (res_w (do_close maxc r d c w)).
Proof. split; [apply do_close_lg|apply do_close_cm]. Qed.

Lemma loop_body_grows f : (forall p scripts n w acc, grows w acc (run_loop_log norm maxc f p scripts n w acc)) ->
  forall scripts n acc s0 w', grows w' acc (loop_body f scripts n acc s0 w').
Proof.
  intros IH scripts n acc s0 w'. unfold loop_body. cbv zeta.
  set (rq := sreq s0).
  set (r0 := mkR s0 (len (role_input_streams (r_role rq)) <=? 1) false false).
  set (script := nth n scripts (last scripts [])).
  match goal with |- grows _ _ (match run_handler maxc _ _ _ ?wa with _ => _ end) => set (wx := wa) end.
  assert (Mx : mono w' wx) by (subst wx; apply mono_fold_ev; apply mono_ev; apply mono_ev; apply mono_refl).
  pose proof (run_handler_mono (length script + 2) script r0 wx) as RH.
  destruct (run_handler maxc (length script + 2) script r0 wx) as [[st r1] wh|o wh]; cbn [res_w] in RH.
  2:{ apply grows_leaf0. eapply mono_trans; eassumption. }
  assert (Mh : mono w' wh) by (eapply mono_trans; eassumption).
  match goal with |- grows _ _ (match ?s with Some _ => _ | None => _ end) => destruct s as [[d c]|] end.
  2:{ apply grows_leaf. exact Mh. }
  pose proof (do_close_mono r1 d c wh) as DC.
  destruct (do_close maxc r1 d c wh) as [[rp|k] wc|o wc]; cbn [res_w] in DC.
  - eapply grows_step; [eapply mono_trans; [exact Mh|exact DC]|apply IH].
  - apply grows_leaf. eapply mono_trans; eassumption.
  - apply grows_leaf. eapply mono_trans; eassumption.
Qed.

Lemma run_loop_log_grows : forall fuel p scripts n w acc, grows w acc (run_loop_log norm maxc fuel p scripts n w acc).
Proof.
  induction fuel as [|f IH]; intros p scripts n w acc; [apply grows_leaf0; apply mono_refl|].
  rewrite run_loop_log_S. destruct (stopped w); [apply grows_leaf0; apply mono_refl|].
  pose proof (parse_request_mono (io_fuel w 0) p [] w) as PR.
  destruct (parse_request norm maxc (io_fuel w 0) p [] w) as [[s0|k] w1|o w1]; cbn [res_w] in PR.
  - destruct (loop_body_grows f IH scripts n acc s0 w1) as [M T]. split; [eapply mono_trans; eassumption|exact T].
  - apply grows_leaf0. exact PR.
  - apply grows_leaf0. exact PR.
Qed.

(* what is shown about two runs, from the ghost list acc *)
Definition post (acc : list served) (x1 x2 : outcome * world * list served) : Prop :=
  (t_o x1 = ORet \/ t_o x1 = ODeadlock) ->
  (t_o x2 = t_o x1 /\ t_l x2 = t_l x1 /\ sio (t_w x1) (t_w x2)) \/
  (t_o x2 = ORet /\ cutw (t_w x1) (t_w x2) /\ (exists t, t_l x1 = t_l x2 ++ t) /\
   exists new, t_l x2 = acc ++ new /\ Forall closed_entry new).

Lemma post_same acc o w1' w2' l : sio w1' w2' -> post acc (o, w1', l) (o, w2', l).
Proof. intros S _. left. split; [reflexivity|]. split; [reflexivity|exact S]. Qed.

Lemma post_cut acc x1 w2' : cutw (t_w x1) w2' -> (exists t, t_l x1 = acc ++ t) -> post acc x1 (ORet, w2', acc).
Proof.
  intros C T _. right. split; [reflexivity|]. split; [exact C|]. split; [exact T|].
  exists []. split; [symmetry; apply app_nil_r|constructor].
Qed.

Lemma post_snoc acc e x1 x2 : closed_entry e -> post (acc ++ [e]) x1 x2 -> post acc x1 x2.
Proof.
  intros He H Ho. destruct (H Ho) as [L|(A & B & C & (new & D & F))]; [left; exact L|right].
  split; [exact A|]. split; [exact B|]. split; [exact C|]. exists (e :: new).
  split; [rewrite D, <- app_assoc; reflexivity|constructor; assumption].
Qed.

Lemma post_halt acc o w l x2 : ((o = ORet \/ o = ODeadlock) -> post acc (o, w, l) x2) -> post acc (o, w, l) x2.
Proof. intros H Ho. exact (H Ho Ho). Qed.

Lemma loop_body_sim f :
  (forall p scripts n w1 w2 acc, sio w1 w2 ->
     post acc (run_loop_log norm maxc f p scripts n w1 acc) (run_loop_log norm maxc f p scripts n w2 acc)) ->
  forall scripts n acc s0 w1 w2, sio w1 w2 -> post acc (loop_body f scripts n acc s0 w1) (loop_body f scripts n acc s0 w2).
Proof.
  intros IH scripts n acc s0 w1 w2 HS. unfold loop_body. cbv zeta.
  set (rq := sreq s0).
  set (r0 := mkR s0 (len (role_input_streams (r_role rq)) <=? 1) false false).
  set (script := nth n scripts (last scripts [])).
  match goal with |- post _ (match run_handler maxc _ _ _ ?wa with _ => _ end) (match run_handler maxc _ _ _ ?wb with _ => _ end) =>
    set (w1x := wa); set (w2x := wb) end.
  assert (Sx : sio w1x w2x) by (subst w1x w2x; apply sio_fold_ev; apply sio_ev; apply sio_ev; exact HS).
  pose proof (sim'_run_handler maxc (length script + 2) script r0 w1x w2x Sx) as H.
  destruct (run_handler maxc (length script + 2) script r0 w1x) as [[st r1] w1h|o w1h]; cbn [rsim'] in H.
  2:{ apply post_halt. intros Ho. destruct o; try (exfalso; destruct Ho as [Ho|Ho]; discriminate Ho);
      destruct H as (w2h & -> & Sh); apply post_same; exact Sh. }
  destruct H as (w2h & -> & Sh).
  rewrite <- (sio_wlog _ _ Sx), <- (sio_wlog _ _ Sh).
  match goal with |- post _ (match ?s with Some _ => _ | None => _ end) _ => set (status := s) end.
  clearbody status. destruct status as [[d c]|].
  2:{ apply post_same. exact Sh. }
  set (gate1 := match do_writeable maxc r1 w1h with Ok (_, r2) _ => rwriteable r2 | Halt _ _ => false end).
  set (gate2 := match do_writeable maxc r1 w2h with Ok (_, r2) _ => rwriteable r2 | Halt _ _ => false end).
  assert (G : gate2 = gate1 \/ exists o w, do_close maxc r1 d c w1h = Halt o w /\ o <> ORet /\ o <> ODeadlock).
  { pose proof (sim'_do_writeable maxc r1 w1h w2h Sh) as HW. subst gate1 gate2. unfold do_close.
    destruct (do_writeable maxc r1 w1h) as [[e r2] w1w|o w1w]; cbn [rsim'] in HW.
    - destruct HW as (w2w & -> & _). left. reflexivity.
    - destruct o; try (right; eexists _, _; split; [reflexivity|split; discriminate]);
        destruct HW as (w2w & -> & _); left; reflexivity. }
  destruct G as [G|(o & w & EC & N1 & N2)].
  2:{ rewrite EC. cbv beta iota. apply post_halt. intros [Ho|Ho]; contradiction. }
  rewrite G.
  pose proof (sim'_do_close maxc r1 d c w1h w2h Sh) as HC.
  destruct (do_close maxc r1 d c w1h) as [[rp|k] w1c|o w1c]; cbn [rsim'] in HC.
  - destruct HC as (w2c & -> & Sc). rewrite <- (sio_wlog _ _ Sc). cbv beta iota.
    eapply post_snoc; [|apply IH; exact Sc]. unfold closed_entry. cbn [sv_closed]. discriminate.
  - destruct HC as (w2c & -> & Sc). rewrite <- (sio_wlog _ _ Sc). cbv beta iota. apply post_same. exact Sc.
  - cbv beta iota. apply post_halt. intros Ho. destruct o; try (exfalso; destruct Ho as [Ho|Ho]; discriminate Ho);
      destruct HC as (w2c & -> & Sc); apply post_same; exact Sc.
Qed.

Lemma shutdown_inv : forall fuel p scripts n w1 w2 acc, sio w1 w2 ->
  post acc (run_loop_log norm maxc fuel p scripts n w1 acc) (run_loop_log norm maxc fuel p scripts n w2 acc).
Proof.
  induction fuel as [|f IH]; intros p scripts n w1 w2 acc HS.
  { cbn [run_loop_log]. apply post_same. exact HS. }
  pose proof HS as (_ & _ & _ & _ & _ & _ & A7 & A8).
  destruct (stopped w2) eqn:Est2.
  { rewrite (run_loop_log_S f p scripts n w2 acc), Est2.
    destruct (run_loop_log_grows (S f) p scripts n w1 acc) as [GM GA].
    apply post_cut; [|exact GA]. apply (cutw_sio w1); [exact HS|exact Est2|exact GM]. }
  rewrite !run_loop_log_S, A8, Est2. rewrite <- (sio_io_fuel w1 w2 _ HS).
  pose proof (sel_parse_request (io_fuel w1 0) p [] w1 w2 HS) as H.
  destruct (parse_request norm maxc (io_fuel w1 0) p [] w1) as [[s0|k] w1a|o w1a].
  - destruct H as [(w2a & -> & Sa)|(w2c & -> & C)].
    + apply loop_body_sim; [exact IH|exact Sa].
    + destruct (loop_body_grows f (run_loop_log_grows f) scripts n acc s0 w1a) as [GM GA].
      apply post_cut; [eapply cutw_mono; [exact C|exact GM]|exact GA].
  - destruct H as [(w2a & -> & Sa)|(w2c & -> & C)].
    + apply post_same. exact Sa.
    + apply post_cut; [exact C|exists []; symmetry; apply app_nil_r].
  - apply post_halt. intros Ho. destruct (H Ho) as [(w2a & -> & Sa)|(w2c & -> & C)].
    + apply post_same. exact Sa.
    + apply post_cut; [exact C|exists []; symmetry; apply app_nil_r].
Qed.
End Loop.

Lemma skipn_app_len {A} (l t : list A) : skipn (length l) (l ++ t) = t.
Proof. induction l as [|a l IH]; [reflexivity|exact IH]. Qed.

Theorem shutdown_cut : shutdown_cut_stmt.
Proof.
  intros norm maxc fuel p scripts n w1 w2 acc HS H0 Hst.
  pose proof (shutdown_inv norm maxc fuel p scripts n w1 w2 acc (sio_make _ _ HS H0 Hst)) as H.
  destruct (run_loop_log norm maxc fuel p scripts n w1 acc) as [[o1 w1'] l1].
  destruct (run_loop_log norm maxc fuel p scripts n w2 acc) as [[o2 w2'] l2].
  unfold post in H. cbn [t_o t_w t_l fst snd] in H. intros Ho.
  destruct (H Ho) as [(E1 & E2 & S)|(E1 & (C1 & C2 & C3) & T & (new & E2 & F))].
  - left. split; [exact E1|]. split; [exact E2|apply sio_same_io; exact S].
  - right. split; [exact E1|]. split; [exact C1|]. split; [exact T|]. split; [|split; [exact C2|exact C3]].
    rewrite E2, skipn_app_len. exact F.
Qed.
Print Assumptions shutdown_cut.

(* ================================================================================================ *)
(* Part 5: an instance.  The client of PeerProofs3.ex3 (two KeepConn Responder requests, id 1, Stdin "abc" / "de", the second one
   released after the first EndRequest) followed by a client that stays idle (a third segment that is never released); the
   transport delivers 24 bytes (BeginRequest and the end of Params) to the first read and is not ready once at the second read,
   which is the first handler's read of Stdin: one wake-up INSIDE the first request.  Every handler reads Stdin to the end and
   writes "hi".
   - Undisturbed (stop_at = 0): both requests are served and closed, then the task waits for the idle client (ODeadlock).
   - Shutdown requested before poll 2 (the poll after that wake-up, in the middle of request 1): request 1 is served and closed
     exactly as in the undisturbed run, the task returns at the loop top: ONE entry, a proper prefix; 48 of the 96 log bytes,
     48 of the 95 client bytes.
   - Shutdown requested before poll 3 (the task is parked in select, waiting for a third request): the task returns with both
     entries.                                                                                        *)
(* ================================================================================================ *)
From FV Require Import Async.PeerTargets3 Async.PeerProofs3.

Definition exs_w (stop : N) : world :=
  mkW [24; 0] [] (enc_client (ex3_cs 1) ++ [(99, 0, [1])]) [] 0 1 stop false false [].
Definition exs_run (stop : N) : outcome * world * list served :=
  run_loop_log (fun b => b) 10 10 (new_parser 64) ex3_scripts 0 (exs_w stop) [].

Definition is_closed (s : served) : bool := match sv_closed s with Some _ => true | None => false end.

Example shutdown_cut_ex :
  let '(o1, w1', l1) := exs_run 0 in
  let '(o2, w2', l2) := exs_run 2 in
  same_io (exs_w 0) (exs_w 2) /\ o1 = ODeadlock /\ o2 = ORet /\ stopped w2' = true /\
  length l1 = 2%nat /\ length l2 = 1%nat /\ l1 = l2 ++ skipn 1 l1 /\ map is_closed l1 = [true; true] /\
  wlog w1' = wlog w2' ++ skipn 48 (wlog w1') /\ length (wlog w2') = 48%nat /\ length (wlog w1') = 96%nat /\
  consumed w2' = 48 /\ consumed w1' = 95.
Proof. vm_compute. repeat split. Qed.

Example shutdown_cut_ex_late :
  let '(o1, w1', l1) := exs_run 0 in
  let '(o2, w2', l2) := exs_run 3 in
  o1 = ODeadlock /\ o2 = ORet /\ stopped w2' = true /\ l2 = l1 /\ wlog w2' = wlog w1' /\ consumed w2' = consumed w1'.
Proof. vm_compute. repeat split. Qed.

(* ... and the theorem applied to it *)
Example shutdown_cut_ex_thm :
  let '(o1, w1', l1) := exs_run 0 in
  let '(o2, w2', l2) := exs_run 2 in
  (o1 = ORet \/ o1 = ODeadlock) ->
  (o2 = o1 /\ l2 = l1 /\ same_io w1' w2')
  \/ (o2 = ORet /\ stopped w2' = true /\ (exists t, l1 = l2 ++ t) /\ Forall closed_entry (skipn (length (@nil served)) l2) /\
      is_prefix (wlog w2') (wlog w1') /\ consumed w2' <= consumed w1').
Proof.
  assert (H : same_io (exs_w 0) (exs_w 2)) by (repeat split).
  exact (shutdown_cut (fun b => b) 10 10%nat (new_parser 64) ex3_scripts 0%nat (exs_w 0) (exs_w 2) [] H eq_refl eq_refl).
Qed.

