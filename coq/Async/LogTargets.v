(* Async/LogTargets.v — statement: the transport log of a WHOLE connection, request by request (C07: "answered - after all handler
   output and all pending management replies - by empty Stdout and Stderr records followed by exactly one EndRequest carrying the
   handler's exit status and the request's id", for every client and every transport).  Statement only; proof in Async/LogProofs.v. *)
From FV Require Import Base.Bytes Gen.Generated Codec.Header Codec.Bodies Parser.ReqModel Parser.ReqTargets Parser.StreamModel Parser.EnvCanon
  Async.Conn Async.ConnWrites Async.ConnTotal Async.ConnReads.

(* what is recorded for one handler invocation *)
Record served := mkServed {
  sv_req : req;                       (* the request the handler was started with *)
  sv_result : (N * N) + N;            (* what the handler returned: inl (disc, code) = Ok(status), inr kind = Err *)
  sv_gate : bool;                     (* Request::is_writeable() when close() wrote the epilogue (after its writeable() step) *)
  sv_start : bytes;                   (* the transport log when the handler was called *)
  sv_ret : bytes;                     (* ... when it returned *)
  sv_closed : option bytes            (* ... when Request::close returned Ok (reuse) or ConnectionReset (no KeepConn); None: close was
                                         not called, failed, or did not return *)
}.

(* Token::run with a ghost log of the handler invocations: the same loop as Conn.run_loop *)
Fixpoint run_loop_log (norm : bytes -> bytes) (maxc : N) (fuel : nat) (p : parser) (scripts : list (list N)) (served_n : nat)
                      (w : world) (acc : list served) : outcome * world * list served :=
  match fuel with
  | O => (OFuel, w, acc)
  | S f =>
    if stopped w then (ORet, w, acc)
    else
      match parse_request norm maxc (io_fuel w 0) p [] w with
      | Halt o w' => (o, w', acc)
      | Ok (inr _) w' => (ORet, w', acc)
      | Ok (inl s0) w' =>
        let rq := sreq s0 in
        let r0 := mkR s0 (len (role_input_streams (r_role rq)) <=? 1) false false in
        let env := canon_env (r_env rq) in
        let w1 := fold_left (fun w p => w_ev (w_ev w (fst p)) (snd p)) env
                    (w_ev (w_ev w' [100; epoch w']) [r_role rq; r_flags rq; len env; stream_code (stream s0);
                                            if rwriteable r0 then 1 else 0]) in
        let script := nth served_n scripts (last scripts []) in
        match run_handler maxc (length script + 2) script r0 w1 with
        | Halt o w2 => (o, w2, acc)
        | Ok (st, r1) w2 =>
          let status := match st with
                        | inl dc => Some dc
                        | inr k => if (k =? EK_Aborted) && raborted r1 then Some (EXIT_Complete, EXIT_ABORT_CODE) else None
                        end in
          let entry gate closed := mkServed rq st gate (wlog w1) (wlog w2) closed in
          match status with
          | None => (ORet, w2, acc ++ [entry false None])
          | Some (d, c) =>
            let gate := match do_writeable maxc r1 w2 with Ok (_, r2) _ => rwriteable r2 | Halt _ _ => false end in
            match do_close maxc r1 d c w2 with
            | Halt o w3 => (o, w3, acc ++ [entry gate None])
            | Ok (inl rp) w3 => run_loop_log norm maxc f rp scripts (S served_n) w3 (acc ++ [entry gate (Some (wlog w3))])
            | Ok (inr k) w3 => (ORet, w3, acc ++ [entry gate (if k =? EK_Reset then Some (wlog w3) else None)])
            end
          end
        end
      end
  end.

(* the ghost log is a pure addition *)
Definition run_loop_log_erase_stmt : Prop := forall norm maxc fuel p scripts served_n w acc,
  fst (run_loop_log norm maxc fuel p scripts served_n w acc) = run_loop norm maxc fuel p scripts served_n w.

Definition is_prefix (a b : bytes) : Prop := exists c, b = a ++ c.

(* the status an invocation is answered with: the handler's own, or ABORT for the client's abort *)
Definition answered_with (s : served) (app ps : N) : Prop :=
  match sv_result s with
  | inl (d, c) => exit_to_end d c = Some (app, ps)
  | inr _ => app = EXIT_ABORT_CODE /\ ps = PS_RequestComplete
  end.

(* one entry: the log only grows while the handler runs; when close completed, what it appended is some parser replies (whatever
   was still pending or became due while close skipped to the record boundary), then - if the request had become writeable - the
   empty Stdout and Stderr records, then ONE EndRequest record with the invocation's status and the id of the request the handler
   was started with; nothing else *)
Definition entry_ok (s : served) : Prop :=
  is_prefix (sv_start s) (sv_ret s) /\
  match sv_closed s with
  | None => True
  | Some L2 =>
    exists replies app ps, answered_with s app ps /\
      L2 = sv_ret s ++ replies ++
           (if sv_gate s then hdr_encode RT_Stdout (r_id (sv_req s)) 0 0 ++ hdr_encode RT_Stderr (r_id (sv_req s)) 0 0 else []) ++
           end_record app ps (r_id (sv_req s))
  end.

(* entries follow each other in the log: an invocation starts after the previous one was closed; only the last may be unclosed *)
Fixpoint chained (start : bytes) (l : list served) : Prop :=
  match l with
  | [] => True
  | s :: t => is_prefix start (sv_start s) /\
              match sv_closed s with
              | Some L2 => chained L2 t
              | None => t = []
              end
  end.

Definition last_log (start : bytes) (l : list served) : bytes :=
  last (map (fun s => match sv_closed s with Some L2 => L2 | None => sv_ret s end) l) start.

(* MAIN: for EVERY client (any bytes, any segmentation and gating), every transport (read sizes, Pending, write accept sizes, write
   faults), every handler scripts and buffer size: the handler invocations of the connection, in order, each satisfy entry_ok, they
   are chained in the log, and the final log extends the last entry.  In particular every handler invocation whose close completed is
   answered by exactly one epilogue, written after everything the handler wrote and before anything of the next request. *)
Definition connection_log_stmt : Prop := forall norm maxc fuel p scripts w,
  parser_ok p -> st p = Header -> world_ok w ->
  let '(o, w', l) := run_loop_log norm maxc fuel p scripts 0 w [] in
  Forall entry_ok l /\ chained (wlog w) l /\ is_prefix (last_log (wlog w) l) (wlog w').
