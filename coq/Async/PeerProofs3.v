(* Async/PeerProofs3.v — proof of Async/PeerTargets3.v: the ONE-OUTSTANDING client (one complete request per segment,
   segment j+1 released after exactly j EndRequest records and at most the management replies owed before) never ends in
   a wait-for cycle with the server.
   Part A: VB, the structure walk: from a framing position and a walk mode, the bytes are the rest of ONE request as
           this client sends it (no BeginRequest but the request's own, no AbortRequest, Params terminated, the role's
           last input stream terminated) and end exactly at a record boundary.
   Part B: the stream parser conserves VB.   Part C: the request parser conserves VB, and stops only where VB fails.
   Part D: the invariant (the management part of PeerProofs2 + the segment the parsers are in) and its steps.
   Part E: the layers of the connection task.   Part F: the client of the theorem, the theorem.  Part G: an instance. *)
From Coq Require Import ZArith.
From FV Require Import Base.Bytes Base.BytesLemmas Gen.Generated Codec.Varint Codec.VarintProofs Codec.NV Codec.NVProofs
  Codec.Header Codec.Bodies Codec.Vars Codec.ProtoProofs
  Parser.ReqModel Parser.ReqParamsSpec Parser.ReqWire Parser.ReqTargets Parser.ReqParams Parser.ReqDrive Parser.ReqRecords Parser.ReqFinal
  Parser.StreamModel Parser.AbsStream Parser.StreamRefine Parser.StreamSpec Parser.StreamInv Parser.StreamSeqProofs Parser.StreamFinal Parser.EnvCanon
  Async.ConnWrites Async.ConnTotal Async.Conn Async.ConnReads Async.PeerTargets Async.PeerProofs Async.PeerTargets2 Async.PeerProofs2
  Async.PeerTargets3.
From Coq Require Import ZifyBool ZifyNat ZifyN.
Ltac Zify.zify_post_hook ::= Z.div_mod_to_equations.

Notation flat := (flat_map (fun s : N * N * bytes => snd s)).

(* ------------------------------------------------------------------------------------------ *)
(* Part A: the structure walk                                                                   *)
(* ------------------------------------------------------------------------------------------ *)

(* MI: between requests (after a close): only records that are neither BeginRequest nor AbortRequest may follow.
   MB: the segment of the next request has been opened: junk, then its BeginRequest.
   MP: inside the Params phase of request id.   MS: the input streams of request id are not all terminated yet.
   MD: the last input stream of the request in progress is terminated. *)
Inductive vmode := MI | MB | MP (id role : N) | MS (id role : N) | MD.

Definition vm_final (vm : vmode) : bool := match vm with MI | MD => true | _ => false end.
Definition bonus (vm : vmode) : N := match vm with MI => 0 | _ => 1 end.

Definition is_last (role t : N) : bool := match last_opt role with Some x => t =? x | None => false end.
Definition done_mode (id role : N) : vmode := match role_input_streams role with [] => MD | _ => MS id role end.

(* one record header with known type, seen in mode vm; [rest] are the bytes after the header *)
Definition vstep (vm : vmode) (t rid cl : N) (rest : bytes) : option vmode :=
  if t =? RT_AbortRequest then None
  else if t =? RT_BeginRequest then
    match vm with
    | MB => if (cl =? 8) && (8 <=? len rest) then
              match begin_decode (take 8 rest) with
              | (_, Some (role, _)) => if rid =? 0 then None else Some (MP rid role)
              | (_, None) => None
              end
            else None
    | _ => None
    end
  else match vm with
       | MP id role => if (t =? RT_Params) && (rid =? id) && (cl =? 0) then Some (done_mode id role) else Some vm
       | MS id role => if is_input_stream t && (rid =? id) && is_last role t && (cl =? 0) then Some MD else Some vm
       | _ => Some vm
       end.

Definition vb_body (rec : vmode -> N -> N -> bytes -> bool) (vm : vmode) (prem pad : N) (w : bytes) : bool :=
  if 0 <? prem then
    if len w <? prem then false else rec vm 0 pad (drop prem w)
  else if 0 <? pad then
    if len w <? pad then false else rec vm 0 0 (drop pad w)
  else if len w =? 0 then vm_final vm
  else if len w <? HEADER_LEN then false
  else
    let head := take HEADER_LEN w in
    let rest := drop HEADER_LEN w in
    match hdr_decode head with
    | HBadVersion _ => false
    | HBadType _ => rec vm (be16 (nthN head 4) (nthN head 5)) (nthN head 6) rest
    | HOk t rid cl pl => match vstep vm t rid cl rest with Some vm' => rec vm' cl pl rest | None => false end
    end.

Fixpoint vb_from (fuel : nat) (vm : vmode) (prem pad : N) (w : bytes) : bool :=
  match fuel with
  | O => false
  | S f => vb_body (vb_from f) vm prem pad w
  end.

Lemma vb_body_ext (r1 r2 : vmode -> N -> N -> bytes -> bool) vm prem pad w :
  (forall vm' prem' pad' w', (length w' < length w)%nat -> r1 vm' prem' pad' w' = r2 vm' prem' pad' w') ->
  vb_body r1 vm prem pad w = vb_body r2 vm prem pad w.
Proof.
  intros H. unfold vb_body.
  destruct (N.ltb_spec 0 prem) as [Hp|Hp].
  - destruct (N.ltb_spec (len w) prem) as [Hl|Hl]; [reflexivity|]. apply H. apply drop_shorter; lia.
  - destruct (N.ltb_spec 0 pad) as [Hq|Hq].
    + destruct (N.ltb_spec (len w) pad) as [Hl|Hl]; [reflexivity|]. apply H. apply drop_shorter; lia.
    + destruct (len w =? 0); [reflexivity|].
      destruct (N.ltb_spec (len w) HEADER_LEN) as [Hl|Hl]; [reflexivity|].
      assert (Hs : (length (drop HEADER_LEN w) < length w)%nat) by (apply drop_shorter; unfold HEADER_LEN in *; lia).
      cbv zeta. destruct (hdr_decode (take HEADER_LEN w)) as [t rid cl pl|v|t]; [|reflexivity|apply H; exact Hs].
      destruct (vstep vm t rid cl (drop HEADER_LEN w)); [apply H; exact Hs|reflexivity].
Qed.

Lemma vb_from_fuel f1 : forall f2 vm prem pad w, (length w < f1)%nat -> (length w < f2)%nat ->
  vb_from f1 vm prem pad w = vb_from f2 vm prem pad w.
Proof.
  induction f1 as [|f1 IH]; intros f2 vm prem pad w H1 H2; [lia|]. destruct f2 as [|f2]; [lia|].
  cbn [vb_from]. apply vb_body_ext. intros vm' prem' pad' w' Hw. apply IH; lia.
Qed.

Definition VB (vm : vmode) (prem pad : N) (w : bytes) : bool := vb_from (length w + 2) vm prem pad w.

Lemma VB_eq vm prem pad w : VB vm prem pad w = vb_body VB vm prem pad w.
Proof.
  unfold VB at 1. replace (length w + 2)%nat with (S (length w + 1)) by lia. cbn [vb_from].
  apply vb_body_ext. intros vm' prem' pad' w' Hw. unfold VB. apply vb_from_fuel; lia.
Qed.

Lemma VB_prem vm prem pad w : 0 < prem ->
  VB vm prem pad w = if len w <? prem then false else VB vm 0 pad (drop prem w).
Proof. intros H. rewrite VB_eq at 1. unfold vb_body. rewrite (ltb_0_pos _ H). reflexivity. Qed.

Lemma VB_pad vm pad w : 0 < pad ->
  VB vm 0 pad w = if len w <? pad then false else VB vm 0 0 (drop pad w).
Proof. intros H. rewrite VB_eq at 1. unfold vb_body. rewrite ltb_0_0, (ltb_0_pos _ H). reflexivity. Qed.

Definition vb_hd (vm : vmode) (head rest : bytes) : bool :=
  match hdr_decode head with
  | HBadVersion _ => false
  | HBadType _ => VB vm (be16 (nthN head 4) (nthN head 5)) (nthN head 6) rest
  | HOk t rid cl pl => match vstep vm t rid cl rest with Some vm' => VB vm' cl pl rest | None => false end
  end.

Lemma VB_head vm w : HEADER_LEN <= len w -> VB vm 0 0 w = vb_hd vm (take HEADER_LEN w) (drop HEADER_LEN w).
Proof.
  intros H. rewrite VB_eq at 1. unfold vb_body. rewrite !ltb_0_0.
  destruct (N.eqb_spec (len w) 0) as [Hz|_]; [unfold HEADER_LEN in H; lia|].
  destruct (N.ltb_spec (len w) HEADER_LEN) as [Hl|_]; [lia|]. reflexivity.
Qed.

Lemma VB_short vm w : len w < HEADER_LEN -> VB vm 0 0 w = (len w =? 0) && vm_final vm.
Proof.
  intros H. rewrite VB_eq. unfold vb_body. rewrite !ltb_0_0.
  destruct (N.eqb_spec (len w) 0) as [Hz|Hz]; [reflexivity|].
  destruct (N.ltb_spec (len w) HEADER_LEN) as [_|Hl]; [reflexivity|lia].
Qed.

Lemma VB_nil vm prem pad : VB vm prem pad [] = (prem =? 0) && (pad =? 0) && vm_final vm.
Proof.
  rewrite VB_eq. unfold vb_body. change (len (@nil N)) with 0.
  destruct (N.ltb_spec 0 prem) as [Hp|Hp].
  - destruct (N.ltb_spec 0 prem) as [_|Hl]; [|lia]. destruct (N.eqb_spec prem 0); [lia|reflexivity].
  - assert (prem = 0) by lia. subst prem. destruct (N.ltb_spec 0 pad) as [Hq|Hq].
    + destruct (N.ltb_spec 0 pad) as [_|Hl]; [|lia]. destruct (N.eqb_spec pad 0); [lia|reflexivity].
    + assert (pad = 0) by lia. subst pad. reflexivity.
Qed.

Lemma VB_adv vm prem pad w n : n <= prem -> n <= len w -> VB vm prem pad w = VB vm (prem - n) pad (drop n w).
Proof.
  intros Hn Hw.
  destruct (N.eq_dec n 0) as [->|Hn0].
  { rewrite drop_0, N.sub_0_r. reflexivity. }
  rewrite (VB_prem vm prem) by lia.
  destruct (N.eq_dec n prem) as [->|Hne].
  - rewrite N.sub_diag. destruct (N.ltb_spec (len w) prem) as [Hl|Hl]; [lia|]. reflexivity.
  - rewrite (VB_prem vm (prem - n)) by lia. rewrite len_drop, drop_drop.
    replace (n + (prem - n)) with prem by lia.
    destruct (N.ltb_spec (len w - n) (prem - n)); destruct (N.ltb_spec (len w) prem); try reflexivity; lia.
Qed.

Lemma VB_pad_adv vm pad w n : n <= pad -> n <= len w -> VB vm 0 pad w = VB vm 0 (pad - n) (drop n w).
Proof.
  intros Hn Hw.
  destruct (N.eq_dec n 0) as [->|Hn0].
  { rewrite drop_0, N.sub_0_r. reflexivity. }
  rewrite (VB_pad vm pad) by lia.
  destruct (N.eq_dec n pad) as [->|Hne].
  - rewrite N.sub_diag. destruct (N.ltb_spec (len w) pad) as [Hl|Hl]; [lia|]. reflexivity.
  - rewrite (VB_pad vm (pad - n)) by lia. rewrite len_drop, drop_drop.
    replace (n + (pad - n)) with pad by lia.
    destruct (N.ltb_spec (len w - n) (pad - n)); destruct (N.ltb_spec (len w) pad); try reflexivity; lia.
Qed.

Lemma VB_head_app vm raw u : HEADER_LEN <= len raw ->
  VB vm 0 0 (raw ++ u) = vb_hd vm (take HEADER_LEN raw) (drop HEADER_LEN raw ++ u).
Proof.
  intros H. rewrite VB_head by (rewrite len_app; lia).
  rewrite (take_app_le HEADER_LEN raw u H), (drop_app_le HEADER_LEN raw u H). reflexivity.
Qed.

(* the whole payload, or payload and padding, lying in front *)
Lemma VB_through vm p q w : p <= len w -> VB vm p q w = VB vm 0 q (drop p w).
Proof. intros H. rewrite (VB_adv vm p q w p) by lia. rewrite N.sub_diag. reflexivity. Qed.

Lemma VB_skip vm p q w : p + q <= len w -> VB vm p q w = VB vm 0 0 (drop (p + q) w).
Proof.
  intros H. rewrite VB_through by lia. rewrite (VB_pad_adv vm q (drop p w) q) by (rewrite ?len_drop; lia).
  rewrite N.sub_diag, drop_drop. reflexivity.
Qed.

Lemma VB_body vm b q w : VB vm (len b) (len q) (b ++ q ++ w) = VB vm 0 0 w.
Proof.
  rewrite VB_skip by (rewrite !len_app; lia). rewrite app_assoc.
  replace (len b + len q) with (len (b ++ q)) by apply len_app. rewrite drop_len_app. reflexivity.
Qed.

(* a walk that is not complete where the bytes stop *)
Lemma VB_mid_false vm prem pad w : len w < prem + pad -> VB vm prem pad w = false.
Proof.
  intros H. destruct (N.ltb_spec 0 prem) as [Hp|Hp].
  - rewrite VB_prem by exact Hp. destruct (N.ltb_spec (len w) prem) as [|Hl]; [reflexivity|].
    destruct (N.ltb_spec 0 pad) as [Hq|Hq]; [|lia].
    rewrite VB_pad by exact Hq. rewrite len_drop. destruct (N.ltb_spec (len w - prem) pad); [reflexivity|lia].
  - assert (prem = 0) by lia. subst prem. rewrite VB_pad by lia. destruct (N.ltb_spec (len w) pad); [reflexivity|lia].
Qed.

(* ---- one record ---- *)
Definition vstep_r (vm : vmode) (r : rcd) (w : bytes) : option vmode :=
  if known_type (rt r) then vstep vm (rt r) (rid r) (len (rbody r)) (rbody r ++ rpad r ++ w) else Some vm.

Lemma VB_record vm r w : rcd_ok r ->
  VB vm 0 0 (enc_rcd r ++ w) = match vstep_r vm r w with Some vm' => VB vm' 0 0 w | None => false end.
Proof.
  intros Hr. rewrite enc_rcd_app.
  rewrite VB_head by apply len_hdr8_app. rewrite take8_hdr8, drop8_hdr8.
  unfold vb_hd, vstep_r. rewrite (hdr_decode_hdr8 r Hr).
  destruct (known_type (rt r)).
  - destruct (vstep vm (rt r) (rid r) (len (rbody r)) (rbody r ++ rpad r ++ w)); [apply VB_body|reflexivity].
  - destruct (hdr8_fields r Hr) as (_ & -> & ->). apply VB_body.
Qed.

(* ---- finite facts about roles ---- *)
Lemma in_role_input role ta : In ta (role_input_streams role) -> is_input_stream ta = true.
Proof.
  destruct (role_streams_cases role) as [Hr|[Hr|Hr]]; rewrite Hr; cbn [In]; intros H;
    repeat (destruct H as [<-|H]; [reflexivity|]); contradiction.
Qed.

Lemma last_not_lt role t ta : In ta (role_input_streams role) -> is_last role t = true ->
  cmp_input_streams role t (Some ta) <> Some Lt.
Proof.
  unfold is_last, last_opt, cmp_input_streams.
  destruct (role_streams_cases role) as [Hr|[Hr|Hr]]; rewrite Hr; cbn [In rev app]; intros H HL;
    try contradiction; apply N.eqb_eq in HL; subst t;
    repeat (destruct H as [<-|H]; [vm_compute; discriminate|]); contradiction.
Qed.

(* ---- weakening: what is acceptable as the rest of a request in progress is acceptable after its close ---- *)
Definition vm_weak (vm : vmode) : bool := match vm with MI | MS _ _ | MD => true | _ => false end.

Lemma vstep_weak vm t rid cl rest vm' : vm_weak vm = true -> vstep vm t rid cl rest = Some vm' ->
  vm_weak vm' = true /\ forall rest', vstep MI t rid cl rest' = Some MI.
Proof.
  unfold vstep. destruct (t =? RT_AbortRequest); [discriminate|].
  destruct (t =? RT_BeginRequest); [destruct vm; discriminate|].
  destruct vm as [| |id role|id role|]; try discriminate; intros _ E.
  - injection E as <-. split; reflexivity.
  - destruct (is_input_stream t && (rid =? id) && is_last role t && (cl =? 0)); injection E as <-; split; reflexivity.
  - injection E as <-. split; reflexivity.
Qed.

Lemma VB_weak : forall n vm p q w, (length w <= n)%nat -> vm_weak vm = true -> VB vm p q w = true -> VB MI p q w = true.
Proof.
  induction n as [|n IH]; intros vm p q w Hn Hw H.
  { assert (w = []) by (destruct w; [reflexivity|cbn [length] in Hn; lia]). subst w. rewrite VB_nil in *.
    destruct vm; try discriminate Hw; cbn [vm_final] in *; try exact H; rewrite andb_false_r in H; discriminate H. }
  destruct (N.ltb_spec 0 p) as [Hp|Hp].
  - rewrite VB_prem in * by exact Hp. destruct (N.ltb_spec (len w) p) as [Hl|Hl]; [discriminate H|].
    apply (IH vm); [pose proof (drop_shorter p w Hp Hl); lia|exact Hw|exact H].
  - assert (p = 0) by lia. subst p. destruct (N.ltb_spec 0 q) as [Hq|Hq].
    + rewrite VB_pad in * by exact Hq. destruct (N.ltb_spec (len w) q) as [Hl|Hl]; [discriminate H|].
      apply (IH vm); [pose proof (drop_shorter q w Hq Hl); lia|exact Hw|exact H].
    + assert (q = 0) by lia. subst q. destruct (N.ltb_spec (len w) HEADER_LEN) as [Hl|Hl].
      * rewrite VB_short in * by exact Hl. apply andb_true_iff in H. destruct H as [H _]. rewrite H. reflexivity.
      * rewrite VB_head in * by exact Hl. unfold vb_hd in *.
        assert (Hs : (length (drop HEADER_LEN w) <= n)%nat).
        { pose proof (drop_shorter HEADER_LEN w ltac:(unfold HEADER_LEN; lia) Hl). lia. }
        destruct (hdr_decode (take HEADER_LEN w)) as [t rid cl pl|v|t]; [|discriminate H|apply (IH vm); assumption].
        destruct (vstep vm t rid cl (drop HEADER_LEN w)) as [vm'|] eqn:E; [|discriminate H].
        destruct (vstep_weak _ _ _ _ _ _ Hw E) as [W1 W2]. rewrite W2. apply (IH vm'); assumption.
Qed.

(* ---- what is acceptable between requests, followed by y, is y for the walk that waits for a BeginRequest ---- *)
Lemma VB_app_MI : forall n p q x y, (length x <= n)%nat -> VB MI p q x = true -> VB MB p q (x ++ y) = VB MB 0 0 y.
Proof.
  induction n as [|n IH]; intros p q x y Hn H.
  { assert (x = []) by (destruct x; [reflexivity|cbn [length] in Hn; lia]). subst x. rewrite VB_nil in H.
    apply andb_true_iff in H. destruct H as [H _]. apply andb_true_iff in H. destruct H as [H1 H2].
    apply N.eqb_eq in H1. apply N.eqb_eq in H2. subst p q. reflexivity. }
  destruct (N.ltb_spec 0 p) as [Hp|Hp].
  - rewrite VB_prem in H by exact Hp. destruct (N.ltb_spec (len x) p) as [Hl|Hl]; [discriminate H|].
    rewrite (VB_prem MB p) by exact Hp. rewrite len_app. destruct (N.ltb_spec (len x + len y) p); [lia|].
    rewrite drop_app_le by lia. apply IH; [pose proof (drop_shorter p x Hp Hl); lia|exact H].
  - assert (p = 0) by lia. subst p. destruct (N.ltb_spec 0 q) as [Hq|Hq].
    + rewrite VB_pad in H by exact Hq. destruct (N.ltb_spec (len x) q) as [Hl|Hl]; [discriminate H|].
      rewrite (VB_pad MB q) by exact Hq. rewrite len_app. destruct (N.ltb_spec (len x + len y) q); [lia|].
      rewrite drop_app_le by lia. apply IH; [pose proof (drop_shorter q x Hq Hl); lia|exact H].
    + assert (q = 0) by lia. subst q. destruct (N.ltb_spec (len x) HEADER_LEN) as [Hl|Hl].
      * rewrite VB_short in H by exact Hl. apply andb_true_iff in H. destruct H as [H _]. apply N.eqb_eq in H.
        rewrite (len_zero_nil x H). reflexivity.
      * rewrite VB_head in H by exact Hl. rewrite VB_head_app by exact Hl. unfold vb_hd in *.
        assert (Hs : (length (drop HEADER_LEN x) <= n)%nat).
        { pose proof (drop_shorter HEADER_LEN x ltac:(unfold HEADER_LEN; lia) Hl). lia. }
        destruct (hdr_decode (take HEADER_LEN x)) as [t rid cl pl|v|t]; [|discriminate H|apply IH; assumption].
        unfold vstep in *. destruct (t =? RT_AbortRequest); [discriminate H|].
        destruct (t =? RT_BeginRequest); [discriminate H|]. apply IH; assumption.
Qed.

(* ---- a walk inside the input streams of a request that completes passes the terminator of every input stream of
        the role: read against the "ends" function of Parser/StreamFinal.v ---- *)
Lemma VB_ends role id ta : In ta (role_input_streams role) ->
  forall n p q w, (length w <= n)%nat -> VB (MS id role) p q w = true -> EF role id (Some ta) p q w = true.
Proof.
  intros Hin. pose proof (in_role_input _ _ Hin) as Hta.
  induction n as [|n IH]; intros p q w Hn H.
  { assert (w = []) by (destruct w; [reflexivity|cbn [length] in Hn; lia]). subst w. rewrite VB_nil in H.
    cbn [vm_final] in H. rewrite andb_false_r in H. discriminate H. }
  destruct (N.ltb_spec 0 p) as [Hp|Hp].
  - rewrite VB_prem in H by exact Hp. rewrite EF_prem by exact Hp.
    destruct (N.ltb_spec (len w) p) as [Hl|Hl]; [discriminate H|].
    apply IH; [pose proof (drop_shorter p w Hp Hl); lia|exact H].
  - assert (p = 0) by lia. subst p. destruct (N.ltb_spec 0 q) as [Hq|Hq].
    + rewrite VB_pad in H by exact Hq. rewrite EF_pad by exact Hq.
      destruct (N.ltb_spec (len w) q) as [Hl|Hl]; [discriminate H|].
      destruct (N.leb_spec (len w) q) as [Hl2|Hl2].
      * rewrite (drop_all q w) in H by lia. rewrite VB_nil in H. cbn [vm_final] in H. rewrite andb_false_r in H. discriminate H.
      * apply IH; [pose proof (drop_shorter q w Hq Hl); lia|exact H].
    + assert (q = 0) by lia. subst q. destruct (N.ltb_spec (len w) HEADER_LEN) as [Hl|Hl].
      * rewrite VB_short in H by exact Hl. cbn [vm_final] in H. rewrite andb_false_r in H. discriminate H.
      * rewrite VB_head in H by exact Hl. rewrite EF_head by exact Hl. unfold vb_hd in H. unfold ef_hd.
        assert (Hs : (length (drop HEADER_LEN w) <= n)%nat).
        { pose proof (drop_shorter HEADER_LEN w ltac:(unfold HEADER_LEN; lia) Hl). lia. }
        destruct (hdr_decode (take HEADER_LEN w)) as [t rid cl pl|v|t]; [|discriminate H|apply IH; assumption].
        unfold vstep in H. destruct (N.eqb_spec t RT_AbortRequest) as [Ea|Ea]; [discriminate H|].
        destruct (t =? RT_BeginRequest); [discriminate H|].
        destruct (is_input_stream t && (rid =? id)) eqn:Hst; cbn [andb] in H.
        -- apply andb_true_iff in Hst. destruct Hst as [Hti _].
           pose proof (cmp_some role t ta Hti Hta) as Hc. pose proof (last_not_lt role t ta Hin) as HL.
           destruct (cmp_input_streams role t (Some ta)) as [[| |]|]; [| |reflexivity|contradiction].
           ++ destruct (is_last role t); [exfalso; apply HL; reflexivity|]. cbn [andb] in H. apply IH; assumption.
           ++ destruct (cl =? 0); [reflexivity|]. rewrite andb_false_r in H. apply IH; assumption.
        -- destruct (N.eqb_spec t RT_AbortRequest) as [|_]; [contradiction|]. cbn [andb]. apply IH; assumption.
Qed.

(* ------------------------------------------------------------------------------------------ *)
(* Part B: the stream parser conserves the structure walk                                       *)
(* ------------------------------------------------------------------------------------------ *)
Section WalkMachine3.
Variable maxc : N.

Definition VA (vm : vmode) (a : ast) (u : bytes) : bool := VB vm (a_prem a) (a_pad a) (a_raw a ++ u).

Definition in_role (a : ast) : Prop :=
  match a_stream a with Some ta => In ta (role_input_streams (r_role (a_req a))) | None => True end.

(* the walk mode that goes with a stream-parser state: the last input stream of the role is terminated only once no
   stream is active any more *)
Definition SREL (a : ast) (vm : vmode) : Prop :=
  (vm = MS (r_id (a_req a)) (r_role (a_req a)) /\ in_role a) \/ (vm = MD /\ a_stream a = None).

Lemma SREL_same a a' vm : a_req a' = a_req a -> a_stream a' = a_stream a -> SREL a vm -> SREL a' vm.
Proof. intros Q S. unfold SREL, in_role. rewrite Q, S. exact (fun x => x). Qed.

Definition v_post (a : ast) (fl : aflow) : Prop :=
  forall vm, SREL a vm ->
  match fl with
  | AContinue l' | ABreak l' | AErr l' _ =>
      exists vm', SREL (al l') vm' /\ forall u, VA vm a u = true -> VA vm' (al l') u = true
  | APanic _ => True
  end.

Lemma v_post_refl_c a res cap : v_post a (ABreak (mkAL a res cap)).
Proof. intros vm H. exists vm. split; [exact H|]. intros u Hu; exact Hu. Qed.

Lemma v_post_trans a l2 fl : v_post a (AContinue l2) -> v_post (al l2) fl -> v_post a fl.
Proof.
  intros H12 H vm HS. destruct (H12 vm HS) as (vm1 & S1 & L1). specialize (H vm1 S1).
  destruct fl as [l'|l'|l' e|n]; [| | |exact I]; destruct H as (vm2 & S2 & L2); exists vm2; (split; [exact S2|]);
    intros u Hu; apply L2, L1, Hu.
Qed.

Lemma pfin_V a parsed' out' st' res cap' n : v_post a (pfin' a parsed' out' st' res cap' n).
Proof.
  unfold pfin'. cbv zeta.
  destruct (N.ltb_spec (N.min (a_prem a) (len (a_raw a))) n) as [Hn|Hn]; [intros vm _; exact I|].
  assert (G : forall vm, SREL a vm -> exists vm', SREL (mkA (a_B a) (a_space a) parsed' (drop n (a_raw a)) out' (a_req a) (a_stream a)
                              (a_prem a - n) (a_pad a) st') vm' /\
              forall u, VA vm a u = true -> VA vm' (mkA (a_B a) (a_space a) parsed' (drop n (a_raw a)) out' (a_req a) (a_stream a)
                              (a_prem a - n) (a_pad a) st') u = true).
  { intros vm HS. exists vm. split; [apply (SREL_same a); [reflexivity|reflexivity|exact HS]|].
    intros u Hu. unfold VA in *. cbn [a_prem a_pad a_raw].
    rewrite (VB_adv vm (a_prem a) (a_pad a) (a_raw a ++ u) n) in Hu by (rewrite ?len_app; lia).
    rewrite (drop_app_le n (a_raw a) u) in Hu by lia. exact Hu. }
  match goal with |- v_post _ (if ?c then _ else _) => destruct c end; intros vm HS; cbn [al]; apply G, HS.
Qed.

Lemma payload_V l : v_post (al l) (aparse_payload maxc l).
Proof.
  rewrite aparse_payload_eq. cbv zeta. destruct l as [a res cap]. cbn [al ares acap].
  destruct (a_st a).
  - destruct cap as [c|]; apply pfin_V.
  - apply pfin_V.
  - destruct (nv_run (take (N.min (a_prem a) (len (a_raw a))) (a_raw a))) as [ps rest].
    destruct (len (a_raw a) <? a_prem a); apply pfin_V.
Qed.

Lemma vstep_nobegin vm t hid cl rest : vm_weak vm = true -> vstep vm t hid cl rest = vstep vm t hid cl [].
Proof.
  intros Hw. unfold vstep. destruct (t =? RT_AbortRequest); [reflexivity|].
  destruct (t =? RT_BeginRequest); [destruct vm; try discriminate Hw; reflexivity|]. reflexivity.
Qed.

Lemma SREL_weak a vm : SREL a vm -> vm_weak vm = true.
Proof. intros [[-> _]|[-> _]]; reflexivity. Qed.

(* a header the parser goes past keeps the relation *)
Lemma vstep_srel a vm t hid cl vm' : SREL a vm -> vstep vm t hid cl [] = Some vm' ->
  (a_stream a = None \/
   is_input_stream t && (hid =? r_id (a_req a)) && is_last (r_role (a_req a)) t && (cl =? 0) = false) ->
  SREL a vm'.
Proof.
  intros HS E HP. unfold vstep in E. destruct (t =? RT_AbortRequest); [discriminate E|].
  destruct (t =? RT_BeginRequest). { destruct HS as [[-> _]|[-> _]]; discriminate E. }
  destruct HS as [[-> Hr]|[-> Hn]].
  - destruct (is_input_stream t && (hid =? r_id (a_req a)) && is_last (r_role (a_req a)) t && (cl =? 0)) eqn:C;
      injection E as <-.
    + destruct HP as [HP|HP]; [right; split; [reflexivity|exact HP]|discriminate HP].
    + left. split; [reflexivity|exact Hr].
  - injection E as <-. right. split; [reflexivity|exact Hn].
Qed.

Lemma hgo_V l st t hid cl pl out added : a_prem (al l) = 0 -> a_pad (al l) = 0 -> HEADER_LEN <= len (a_raw (al l)) ->
  hdr_decode (take HEADER_LEN (a_raw (al l))) = HOk t hid cl pl ->
  (forall vm, SREL (al l) vm -> a_stream (al l) = None \/
   is_input_stream t && (hid =? r_id (a_req (al l))) && is_last (r_role (a_req (al l))) t && (cl =? 0) = false) ->
  v_post (al l) (StreamInv.hgo l st cl pl out added).
Proof.
  intros Hp Hq Hl Ed HP vm HS. specialize (HP vm HS). unfold StreamInv.hgo. cbn [al].
  assert (HV : forall u, VA vm (al l) u = vb_hd vm (take HEADER_LEN (a_raw (al l))) (drop HEADER_LEN (a_raw (al l)) ++ u)).
  { intros u. unfold VA. rewrite Hp, Hq. apply VB_head_app. exact Hl. }
  unfold vb_hd in HV. rewrite Ed in HV.
  destruct (vstep vm t hid cl []) as [vm'|] eqn:E.
  - exists vm'. split.
    + apply (SREL_same (al l)); [reflexivity|reflexivity|]. apply (vstep_srel _ _ _ _ _ _ HS E HP).
    + intros u Hu. rewrite HV, (vstep_nobegin vm t hid cl _ (SREL_weak _ _ HS)), E in Hu. exact Hu.
  - exists vm. split; [apply (SREL_same (al l)); [reflexivity|reflexivity|exact HS]|].
    intros u Hu. rewrite HV, (vstep_nobegin vm t hid cl _ (SREL_weak _ _ HS)), E in Hu. discriminate Hu.
Qed.

Lemma head_V l : a_prem (al l) = 0 -> a_pad (al l) = 0 -> v_post (al l) (aparse_head l).
Proof.
  intros Hp Hq. rewrite aparse_head_eq. cbv zeta.
  destruct (negb (a_boundary (al l))); [intros vm _; exact I|].
  destruct (N.ltb_spec (len (a_raw (al l))) HEADER_LEN) as [Hl|Hl].
  { destruct l as [a res cap]. apply v_post_refl_c. }
  assert (REFL : forall res cap, v_post (al l) (ABreak (mkAL (al l) res cap))) by (intros; apply v_post_refl_c).
  assert (REFE : forall e, v_post (al l) (AErr l e)).
  { intros e vm H. exists vm. split; [exact H|]. intros u Hu; exact Hu. }
  destruct (hdr_decode (take HEADER_LEN (a_raw (al l)))) as [t hid cl pl|v|t] eqn:Ed.
  - destruct (is_input_stream t && (hid =? r_id (a_req (al l)))) eqn:Hin.
    + destruct (cmp_input_streams (r_role (a_req (al l))) t (a_stream (al l))) as [[| |]|] eqn:Ec.
      * apply (hgo_V l SSkip t hid cl pl _ _ Hp Hq Hl Ed). intros vm HS.
        destruct (a_stream (al l)) as [ta|] eqn:Es; [right|left; reflexivity].
        destruct (is_last (r_role (a_req (al l))) t) eqn:EL; [|rewrite andb_false_r; reflexivity].
        exfalso. destruct HS as [[_ Hr]|[_ Hn]]; [|rewrite Es in Hn; discriminate Hn]. unfold in_role in Hr. rewrite Es in Hr.
        apply (last_not_lt _ t ta Hr EL). exact Ec.
      * destruct (cl =? 0) eqn:Ecl; cbn [negb]; [apply REFL|].
        apply (hgo_V l SStream t hid cl pl _ _ Hp Hq Hl Ed). intros vm HS. right. rewrite Ecl. apply andb_false_r.
      * apply REFL.
      * intros vm _; exact I.
    + assert (PASS : forall vm, SREL (al l) vm -> a_stream (al l) = None \/
        is_input_stream t && (hid =? r_id (a_req (al l))) && is_last (r_role (a_req (al l))) t && (cl =? 0) = false).
      { intros vm _. right. rewrite Hin. reflexivity. }
      destruct ((t =? RT_AbortRequest) && (hid =? r_id (a_req (al l)))); [apply REFE|].
      destruct ((t =? RT_BeginRequest) && negb (hid =? r_id (a_req (al l))));
        [apply (hgo_V l SSkip t hid cl pl _ _ Hp Hq Hl Ed PASS)|].
      destruct ((t =? RT_GetValues) && hdr_is_management t hid); apply (hgo_V l _ t hid cl pl _ _ Hp Hq Hl Ed PASS).
  - apply REFE.
  - intros vm HS. unfold StreamInv.hgo. cbn [al]. exists vm.
    split; [apply (SREL_same (al l)); [reflexivity|reflexivity|exact HS]|].
    intros u Hu. unfold VA in *. cbn [a_prem a_pad a_raw]. rewrite Hp, Hq, (VB_head_app vm _ u Hl) in Hu.
    unfold vb_hd in Hu. rewrite Ed in Hu. exact Hu.
Qed.

Lemma after_payload_V l : v_post (al l) (after_payload l).
Proof.
  unfold after_payload. cbv zeta.
  destruct (N.ltb_spec 0 (a_pad (al l))) as [Hq|Hq].
  - destruct (N.eqb_spec (a_prem (al l)) 0) as [Hp|Hp]; cbn [negb]; [|intros vm _; exact I].
    assert (ADV : forall n res cap, n <= a_pad (al l) -> n <= len (a_raw (al l)) ->
              v_post (al l) (AContinue (mkAL (a_set (al l) (a_parsed (al l)) (drop n (a_raw (al l))) (a_out (al l)) (a_prem (al l))
                                  (a_pad (al l) - n) (a_st (al l))) res cap))).
    { intros n res cap H1 H2 vm HS. exists vm. cbn [al]. split; [apply (SREL_same (al l)); [reflexivity|reflexivity|exact HS]|].
      intros u Hu. unfold VA, a_set in *. cbn [a_prem a_pad a_raw]. rewrite Hp in *.
      rewrite (VB_pad_adv vm (a_pad (al l)) (a_raw (al l) ++ u) n) in Hu by (rewrite ?len_app; lia).
      rewrite (drop_app_le n (a_raw (al l)) u) in Hu by lia. exact Hu. }
    destruct (N.leb_spec (len (a_raw (al l))) (a_pad (al l))) as [Hl|Hl].
    + pose proof (ADV (len (a_raw (al l))) (ares l) (acap l) Hl ltac:(lia)) as H.
      rewrite (drop_all (len (a_raw (al l))) (a_raw (al l))) in H by lia. exact H.
    + set (l2 := mkAL (a_set (al l) (a_parsed (al l)) (drop (a_pad (al l)) (a_raw (al l))) (a_out (al l))
                              (a_prem (al l)) 0 (a_st (al l))) (ares l) (acap l)).
      apply (v_post_trans (al l) l2).
      * unfold l2. pose proof (ADV (a_pad (al l)) (ares l) (acap l) ltac:(lia) ltac:(lia)) as H. rewrite N.sub_diag in H. exact H.
      * apply head_V; unfold l2, a_set; cbn [al a_prem a_pad]; [exact Hp|reflexivity].
  - destruct (N.eq_dec (a_prem (al l)) 0) as [Hp|Hp].
    + apply head_V; [exact Hp|lia].
    + rewrite aparse_head_eq. cbv zeta. unfold a_boundary.
      destruct (N.eqb_spec (a_prem (al l)) 0) as [Hz|_]; [contradiction|]. cbn [andb negb]. intros vm _; exact I.
Qed.

Lemma iter_V l : v_post (al l) (aparse_iter maxc l).
Proof.
  rewrite aparse_iter_eq.
  destruct (0 <? a_prem (al l)); [|apply after_payload_V].
  pose proof (payload_V l) as H.
  destruct (aparse_payload maxc l) as [l'|l'|l' e|n].
  - apply (v_post_trans _ _ _ H). apply after_payload_V.
  - exact H.
  - exact H.
  - intros vm _; exact I.
Qed.

Lemma loop_V fuel : forall l, v_post (al l) (aparse_loop maxc fuel l).
Proof.
  induction fuel as [|f IH]; intros l; [intros vm _; exact I|].
  cbn [aparse_loop]. destruct (a_raw (al l)) as [|b r]; [destruct l as [a res cap]; apply v_post_refl_c|].
  pose proof (iter_V l) as H.
  destruct (aparse_iter maxc l) as [l'|l'|l' e|n].
  - apply (v_post_trans _ _ _ H). apply IH.
  - exact H.
  - exact H.
  - intros vm _; exact I.
Qed.

(* every call conserves the structure walk *)
Theorem struct_law a new dest a' s vm : SREL a vm ->
  (aparse maxc a new dest = AOk a' s \/ exists e, aparse maxc a new dest = AFail a' e s) ->
  exists vm', SREL a' vm' /\ forall u, VA vm a (new ++ u) = true -> VA vm' a' u = true.
Proof.
  intros HS Hres. unfold aparse in Hres.
  destruct (match dest with Some _ => negb (len (a_parsed a) =? 0) | None => false end).
  { destruct Hres as [H|[e H]]; discriminate H. }
  destruct (a_space a <? len new).
  { destruct Hres as [H|[e H]]; discriminate H. }
  cbv zeta in Hres.
  set (a1 := mkA (a_B a) (a_space a - len new) (a_parsed a) (a_raw a ++ new) (a_out a) (a_req a)
                                     (a_stream a) (a_prem a) (a_pad a) (a_st a)) in *.
  assert (HS1 : SREL a1 vm) by (apply (SREL_same a); [reflexivity|reflexivity|exact HS]).
  assert (FIN : forall l', (exists vm', SREL (al l') vm' /\ forall u, VA vm a1 u = true -> VA vm' (al l') u = true) ->
            exists vm', SREL (al l') vm' /\ forall u, VA vm a (new ++ u) = true -> VA vm' (al l') u = true).
  { intros l' (vm' & S' & L). exists vm'. split; [exact S'|]. intros u Hu. apply L. unfold VA in *. unfold a1.
    cbn [a_prem a_pad a_raw]. rewrite <- app_assoc. exact Hu. }
  match type of Hres with context [aparse_loop maxc ?f ?l] =>
    pose proof (loop_V f l vm HS1) as H; destruct (aparse_loop maxc f l) as [l'|l'|l' e'|n] end.
  - destruct Hres as [Hr|[e Hr]]; [|discriminate Hr]. inversion Hr; subst a' s. apply FIN, H.
  - destruct Hres as [Hr|[e Hr]]; [|discriminate Hr]. inversion Hr; subst a' s. apply FIN, H.
  - destruct Hres as [Hr|[e Hr]]; [discriminate Hr|]. inversion Hr; subst a' s. apply FIN, H.
  - destruct Hres as [Hr|[e Hr]]; discriminate Hr.
Qed.

(* a stuck parser inside a record: the walk over the bytes it holds is not complete *)
Lemma stuck_V a vm : stuck a -> a_boundary a = false -> VA vm a [] = false.
Proof.
  unfold VA, a_boundary. rewrite app_nil_r. intros [H|[[H1 H2]|(H1 & H2 & H3)]] Hb.
  - rewrite H, VB_nil. destruct ((a_prem a =? 0) && (a_pad a =? 0)); [discriminate Hb|reflexivity].
  - apply VB_mid_false. lia.
  - rewrite H1, H2 in Hb. discriminate Hb.
Qed.

(* a stuck parser with an active stream that has not ended in the bytes it holds: the walk is not complete either *)
Lemma stuck_quiet_V a vm ta : SREL a vm -> a_stream a = Some ta -> E a [] = false -> VA vm a [] = false.
Proof.
  intros [[-> Hr]|[_ Hn]] Hs HE; [|rewrite Hn in Hs; discriminate Hs].
  unfold in_role in Hr. rewrite Hs in Hr. unfold VA.
  destruct (VB (MS (r_id (a_req a)) (r_role (a_req a))) (a_prem a) (a_pad a) (a_raw a ++ [])) eqn:V; [|reflexivity].
  pose proof (VB_ends _ _ ta Hr _ _ _ _ (le_n _) V) as H. unfold E in HE. rewrite Hs in HE. rewrite H in HE. discriminate HE.
Qed.
End WalkMachine3.

(* ------------------------------------------------------------------------------------------ *)
(* Part C: the request parser conserves the structure walk                                      *)
(* ------------------------------------------------------------------------------------------ *)
Section WalkRequest3.
Variable norm : bytes -> bytes.
Variable maxc : N.
(* g: the segment of the next request has been opened *)
Variable g : bool.

Definition rvm (s : state) : vmode :=
  match s with
  | Header | HeaderSkip _ _ | HeaderValues _ _ _ => if g then MB else MI
  | Params i _ _ | ParamsSkip i _ _ | ParamsValues i _ _ _ => MP (r_id (ireq i)) (r_role (ireq i))
  | DoneSkip r _ _ | Done r => done_mode (r_id r) (r_role r)
  | Fatal _ => MI
  end.

Definition VS (s : state) (w : bytes) : bool := VB (rvm s) (sprem s) (spad s) w.

Definition PV (s : state) (vm : vmode) (p q : N) : Prop := rvm s = vm /\ sprem s = p /\ spad s = q /\ is_fatal s = false.

Lemma VS_PV s vm p q w : PV s vm p q -> VS s w = VB vm p q w.
Proof. intros (H1 & H2 & H3 & _). unfold VS. rewrite H1, H2, H3. reflexivity. Qed.

Lemma into_skip_PV wrap nxt vm p q : (forall p' q', PV (wrap p' q') vm p' q') -> PV nxt vm 0 0 ->
  PV (into_skip wrap nxt p q) vm p q.
Proof.
  intros Hw Hn. destruct (into_skip_cases wrap nxt p q) as [(-> & -> & E)|(_ & E)]; rewrite E; [exact Hn|apply Hw].
Qed.

Lemma header_skip_PV p q : PV (header_skip_to p q) (rvm Header) p q.
Proof. apply into_skip_PV; [intros; repeat split|repeat split]. Qed.
Lemma params_skip_PV i p q : PV (params_skip_to i p q) (rvm (Params i 0 0)) p q.
Proof. apply into_skip_PV; [intros; repeat split|repeat split]. Qed.
Lemma done_skip_PV r p q : PV (into_skip (DoneSkip r) (Done r) p q) (rvm (Done r)) p q.
Proof. apply into_skip_PV; [intros; repeat split|repeat split]. Qed.

(* the postcondition of one sub-state drive: the walk is conserved; the mode leaves "between requests" only for
   "request in progress"; a drive that stops without finishing leaves a walk that is complete only between requests *)
Definition keep (s : state) (d : bytes) (s' : state) (r : bytes) : Prop :=
  forall u, VS s (d ++ u) = true -> VS s' (r ++ u) = true /\ (rvm s' = MI -> rvm s = MI).

Definition v_law (s : state) (d : bytes) (res : flow * bytes) : Prop :=
  bytes_ok d ->
  match res with
  | (PANIC _, _) => True
  | (Break r s', _) => (is_fatal s' = false -> keep s d s' r) /\ (is_final s' = false -> VS s' r = true -> rvm s' = MI)
  | (Continue r s', _) => is_fatal s' = false -> keep s d s' r
  end.

Lemma keep_pre s d s0 d0 s' r : (forall u, VS s (d ++ u) = VS s0 (d0 ++ u)) -> rvm s = rvm s0 ->
  keep s0 d0 s' r -> keep s d s' r.
Proof. intros HV Hm H u Hu. rewrite HV in Hu. rewrite Hm. apply H, Hu. Qed.

Lemma v_law_pre s d s0 d0 res : (forall u, VS s (d ++ u) = VS s0 (d0 ++ u)) -> rvm s = rvm s0 -> (bytes_ok d -> bytes_ok d0) ->
  v_law s0 d0 res -> v_law s d res.
Proof.
  intros HV Hm Hb H Hd. specialize (H (Hb Hd)). destruct res as [[r s'|r s'|n] o]; [| |exact I].
  - destruct H as [H1 H2]. split; [|exact H2]. intros Hf. apply (keep_pre _ _ _ _ _ _ HV Hm (H1 Hf)).
  - intros Hf. apply (keep_pre _ _ _ _ _ _ HV Hm (H Hf)).
Qed.

Lemma skip_vlaw wrap nxt vm p q d s : (forall p' q', PV (wrap p' q') vm p' q') -> PV nxt vm 0 0 -> PV s vm p q ->
  v_law s d (skip_drive wrap nxt p q d, []).
Proof.
  intros Hw Hn Hs _. unfold skip_drive. cbv zeta.
  assert (Em : forall s2 p2 q2, PV s2 vm p2 q2 -> rvm s2 = MI -> rvm s = MI).
  { intros s2 p2 q2 (E2 & _) H. destruct Hs as (E1 & _). congruence. }
  destruct (N.ltb_spec (len d) p) as [H1|H1]; [|destruct (N.ltb_spec (len d) (p + q)) as [H2|H2]].
  - split.
    + intros _ u Hu. split; [|apply (Em _ _ _ (Hw (p - len d) q))].
      rewrite (VS_PV s vm p q _ Hs) in Hu. rewrite (VS_PV _ _ _ _ _ (Hw (p - len d) q)). cbn [app].
      rewrite (VB_adv vm p q (d ++ u) (len d)) in Hu by (rewrite ?len_app; lia).
      rewrite drop_len_app in Hu. exact Hu.
    + intros _ Hv. rewrite (VS_PV _ _ _ _ _ (Hw (p - len d) q)), VB_mid_false in Hv by (rewrite len_nil; lia). discriminate Hv.
  - split.
    + intros _ u Hu. split; [|apply (Em _ _ _ (Hw 0 (q - (len d - p))))].
      rewrite (VS_PV s vm p q _ Hs) in Hu. rewrite (VS_PV _ _ _ _ _ (Hw 0 (q - (len d - p)))). cbn [app].
      rewrite VB_through in Hu by (rewrite len_app; lia).
      rewrite (VB_pad_adv vm q _ (len d - p)) in Hu by (rewrite ?len_drop, ?len_app; lia).
      rewrite drop_drop in Hu. replace (p + (len d - p)) with (len d) in Hu by lia. rewrite drop_len_app in Hu. exact Hu.
    + intros _ Hv. rewrite (VS_PV _ _ _ _ _ (Hw 0 (q - (len d - p)))), VB_mid_false in Hv by (rewrite len_nil; lia). discriminate Hv.
  - intros _ u Hu. split; [|apply (Em _ _ _ Hn)].
    rewrite (VS_PV s vm p q _ Hs) in Hu. rewrite (VS_PV nxt vm 0 0 _ Hn).
    rewrite VB_skip in Hu by (rewrite len_app; lia). rewrite drop_app_le in Hu by lia. exact Hu.
Qed.

(* the padding stage of a GetValues sub-state *)
Lemma finish_vlaw (wrap : N -> N -> N -> state) nxt vm q vars x o :
  (forall v p' q', PV (wrap v p' q') vm p' q') -> PV nxt vm 0 0 ->
  match values_finish wrap nxt q vars x o with
  | (Break r s', _) => is_final s' = false /\ (forall u, VB vm 0 q (x ++ u) = VS s' (r ++ u)) /\ rvm s' = vm /\ VS s' r = false
  | (Continue r s', _) => is_fatal s' = false /\ (forall u, VB vm 0 q (x ++ u) = VS s' (r ++ u)) /\ rvm s' = vm
  | _ => True
  end.
Proof.
  intros Hw Hn. unfold values_finish. destruct (N.ltb_spec (len x) q) as [H|H].
  - pose proof (Hw vars 0 (q - len x)) as P. destruct P as (W1 & W2 & W3 & W4).
    assert (Hfin : is_final (wrap vars 0 (q - len x)) = false).
    { destruct (wrap vars 0 (q - len x)); try reflexivity; [|discriminate W4]. cbn [spad] in W3. lia. }
    split; [exact Hfin|]. unfold VS. rewrite W1, W2, W3. split; [|split; [reflexivity|]].
    + intros u. cbn [app]. rewrite (VB_pad_adv vm q (x ++ u) (len x)) by (rewrite ?len_app; lia).
      rewrite drop_len_app. reflexivity.
    + apply VB_mid_false. rewrite len_nil. lia.
  - split; [apply Hn|]. split; [|apply Hn].
    intros u. rewrite (VS_PV nxt vm 0 0 _ Hn).
    rewrite (VB_pad_adv vm q (x ++ u) q) by (rewrite ?len_app; lia).
    rewrite N.sub_diag, drop_app_le by lia. reflexivity.
Qed.

Lemma values_vlaw (wrap : N -> N -> N -> state) nxt vm vars p q d s :
  (forall v p' q', PV (wrap v p' q') vm p' q') -> PV nxt vm 0 0 -> PV s vm p q ->
  v_law s d (values_drive maxc wrap nxt vars p q d).
Proof.
  intros Hw Hn Hs _. rewrite values_drive_eq.
  assert (HVS : forall w, VS s w = VB vm p q w) by (intros w; apply (VS_PV _ _ _ _ _ Hs)).
  assert (Hm : rvm s = vm) by apply Hs.
  destruct (N.ltb_spec 0 p) as [Hp|Hp].
  - destruct (nv_run (take (N.min (len d) p) d)) as [ps rest] eqn:En.
    pose proof (nv_run_rest_len (take (N.min (len d) p) d)) as Hr. rewrite En in Hr. cbn [snd] in Hr. rewrite len_take in Hr.
    destruct (N.ltb_spec (len d) p) as [H1|H1].
    + set (c := N.min (len d) p - len rest). assert (Hc : c <= len d /\ c < p) by (unfold c; lia).
      destruct (Hw (vars_of_pairs vars ps) (p - c) q) as (W1 & W2 & W3 & W4).
      split.
      * intros _ u Hu. split; [|rewrite W1, Hm; exact (fun x => x)]. rewrite HVS in Hu.
        unfold VS. rewrite W1, W2, W3.
        rewrite (VB_adv vm p q (d ++ u) c) in Hu by (rewrite ?len_app; lia).
        rewrite drop_app_le in Hu by lia. exact Hu.
      * intros _ Hv. unfold VS in Hv. rewrite W1, W2, W3, VB_mid_false in Hv by (rewrite len_drop; lia). discriminate Hv.
    + pose proof (finish_vlaw wrap nxt vm q (vars_of_pairs vars ps) (drop p d) (write_response (vars_of_pairs vars ps) maxc) Hw Hn) as F.
      assert (PRE : forall u, VS s (d ++ u) = VB vm 0 q (drop p d ++ u)).
      { intros u. rewrite HVS, VB_through by (rewrite len_app; lia). rewrite drop_app_le by lia. reflexivity. }
      destruct (values_finish wrap nxt q (vars_of_pairs vars ps) (drop p d) (write_response (vars_of_pairs vars ps) maxc))
        as [[r s'|r s'|n] o']; [| |exact I].
      * destruct F as (F0 & F1 & F2 & F3). split; [|intros _ Hv; rewrite F3 in Hv; discriminate Hv].
        intros _ u Hu. rewrite PRE, F1 in Hu. split; [exact Hu|rewrite F2, Hm; exact (fun x => x)].
      * destruct F as (F0 & F1 & F2). intros _ u Hu. rewrite PRE, F1 in Hu. split; [exact Hu|rewrite F2, Hm; exact (fun x => x)].
  - assert (Hp0 : p = 0) by lia. rewrite Hp0 in HVS.
    pose proof (finish_vlaw wrap nxt vm q vars d [] Hw Hn) as F.
    destruct (values_finish wrap nxt q vars d []) as [[r s'|r s'|n] o']; [| |exact I].
    + destruct F as (F0 & F1 & F2 & F3). split; [|intros _ Hv; rewrite F3 in Hv; discriminate Hv].
      intros _ u Hu. rewrite HVS, F1 in Hu. split; [exact Hu|rewrite F2, Hm; exact (fun x => x)].
    + destruct F as (F0 & F1 & F2). intros _ u Hu. rewrite HVS, F1 in Hu. split; [exact Hu|rewrite F2, Hm; exact (fun x => x)].
Qed.

(* the header of a record: what try_head returns, in terms of the walk *)
Lemma try_head_vlaw self (skip : N -> N -> state) vm d : (forall p q, PV (skip p q) vm p q) ->
  match try_head self skip d with
  | HeadOk t id cl pl => HEADER_LEN <= len d /\
      forall u, VB vm 0 0 (d ++ u) =
                match vstep vm t id cl (drop 8 d ++ u) with Some vm' => VB vm' cl pl (drop 8 d ++ u) | None => false end
  | HeadRet (Break r s') _ => r = d /\ ((s' = self /\ len d < HEADER_LEN) \/ is_fatal s' = true)
  | HeadRet (Continue r s') _ => is_fatal s' = false /\ rvm s' = vm /\ forall u, VB vm 0 0 (d ++ u) = VS s' (r ++ u)
  | HeadRet (PANIC _) _ => True
  end.
Proof.
  intros Hsk. destruct (N.ltb_spec (len d) 8) as [Hl|Hl].
  - rewrite try_head_short by exact Hl. split; [reflexivity|]. left. split; [reflexivity|exact Hl].
  - rewrite try_head_long by exact Hl.
    assert (HW : forall u, VB vm 0 0 (d ++ u) = vb_hd vm (take 8 d) (drop 8 d ++ u)) by (intros u; apply VB_head_app; exact Hl).
    unfold vb_hd in HW. destruct (hdr_decode (take 8 d)) as [t id cl pl|v|t] eqn:E.
    + split; [exact Hl|exact HW].
    + split; [reflexivity|]. right. reflexivity.
    + pose proof (Hsk (be16 (nthN (take 8 d) 4) (nthN (take 8 d) 5)) (nthN (take 8 d) 6)) as Hp.
      split; [apply Hp|]. split; [apply Hp|]. intros u. rewrite HW, (VS_PV _ _ _ _ _ Hp). reflexivity.
Qed.

Lemma VS_short s d : sprem s = 0 -> spad s = 0 -> len d < HEADER_LEN -> VS s d = true -> vm_final (rvm s) = true.
Proof.
  intros Hp Hq Hl H. unfold VS in H. rewrite Hp, Hq, VB_short in H by exact Hl. apply andb_true_iff in H. apply H.
Qed.

Lemma header_vlaw d : v_law Header d (header_drive d).
Proof.
  intros Hb. rewrite header_drive_eq.
  pose proof (try_head_vlaw Header header_skip_to (rvm Header) d header_skip_PV) as TH.
  assert (TRIV : keep Header d Header d) by (intros u Hu; split; [exact Hu|exact (fun x => x)]).
  assert (STOP : len d < HEADER_LEN -> VS Header d = true -> rvm Header = MI).
  { intros Hl Hv. pose proof (VS_short Header d eq_refl eq_refl Hl Hv) as H. cbn [rvm] in *. destruct g; [discriminate H|reflexivity]. }
  destruct (try_head Header header_skip_to d) as [t id cl pl|f o].
  - destruct TH as (Hl & HW). unfold header_body.
    destruct (N.eqb_spec t RT_BeginRequest) as [Et|Et].
    + subst t.
      destruct (N.eqb_spec BeginRequest_LEN cl) as [Ecl|Ecl]; cbn [negb]; [|split; intros H; discriminate H].
      subst cl. destruct (N.ltb_spec (len d) 16) as [H16|H16].
      * split; [intros _; exact TRIV|]. intros _ Hv. exfalso. unfold VS in Hv. cbn [sprem spad] in Hv.
        specialize (HW []). rewrite !app_nil_r in HW. rewrite HW in Hv. unfold vstep in Hv.
        change (RT_BeginRequest =? RT_AbortRequest) with false in Hv. rewrite N.eqb_refl in Hv.
        destruct (rvm Header); try discriminate Hv.
        rewrite len_drop in Hv. destruct (N.leb_spec 8 (len d - 8)) as [Hc|_]; [lia|].
        rewrite andb_false_r in Hv. discriminate Hv.
      * assert (BODY : forall u, take 8 (drop 8 d ++ u) = slice 8 16 d).
        { intros u. unfold slice. rewrite take_app_le by (rewrite len_drop; lia). reflexivity. }
        assert (ADV : forall vm' u, VB vm' BeginRequest_LEN pl (drop 8 d ++ u) = VB vm' 0 pl (drop 16 d ++ u)).
        { intros vm' u. rewrite VB_through by (rewrite len_app, len_drop; unfold BeginRequest_LEN; lia).
          rewrite drop_app_le by (rewrite len_drop; unfold BeginRequest_LEN; lia). rewrite drop_drop. reflexivity. }
        assert (HW' : forall u, VS Header (d ++ u) = true ->
                  rvm Header = MB /\ exists role fl, begin_decode (slice 8 16 d) = (role, Some (role, fl)) /\ (id =? 0) = false /\
                  VB (MP id role) 0 pl (drop 16 d ++ u) = true).
        { intros u Hu. unfold VS in Hu. cbn [sprem spad] in Hu. rewrite HW in Hu. unfold vstep in Hu.
          change (RT_BeginRequest =? RT_AbortRequest) with false in Hu. rewrite N.eqb_refl in Hu.
          destruct (rvm Header); try discriminate Hu. split; [reflexivity|].
          destruct ((BeginRequest_LEN =? 8) && (8 <=? len (drop 8 d ++ u))); [|discriminate Hu].
          rewrite BODY in Hu. unfold begin_decode in *.
          destruct (known_role (be16 (nthN (slice 8 16 d) 0) (nthN (slice 8 16 d) 1))); [|discriminate Hu].
          destruct (id =? 0); [discriminate Hu|]. rewrite ADV in Hu. eexists _, _. split; [reflexivity|]. split; [reflexivity|exact Hu]. }
        destruct (begin_decode (slice 8 16 d)) as [role [[role' flags]|]] eqn:Ebd.
        -- destruct (id =? 0) eqn:Eid; [split; intros H; discriminate H|].
           intros _ u Hu. destruct (HW' u Hu) as (Hm & role2 & fl2 & E2 & _ & Hv). injection E2 as <- <- <-.
           split; [exact Hv|]. cbn [rvm ireq r_id r_role]. discriminate.
        -- intros _ u Hu. destruct (HW' u Hu) as (_ & role2 & fl2 & E2 & _). discriminate E2.
    + assert (GEN : forall s', PV s' (rvm Header) cl pl -> keep Header d s' (drop 8 d)).
      { intros s' P u Hu. unfold VS in Hu. cbn [sprem spad] in Hu. rewrite HW in Hu.
        destruct P as (P1 & P2 & P3 & _). unfold VS. rewrite P1, P2, P3. split; [|exact (fun x => x)].
        unfold vstep in Hu. destruct (t =? RT_AbortRequest); [discriminate Hu|].
        destruct (N.eqb_spec t RT_BeginRequest) as [|_]; [contradiction|].
        cbn [rvm] in *. destruct g; exact Hu. }
      destruct ((t =? RT_GetValues) && hdr_is_management t id).
      * intros _. apply GEN. repeat split.
      * intros _. apply GEN. apply header_skip_PV.
  - destruct f as [r s'|r s'|n]; [| |exact I].
    + destruct TH as (-> & [[-> Hl]|Hf]).
      * split; [intros _; exact TRIV|]. intros _. apply STOP. exact Hl.
      * split; intros H; [rewrite Hf in H; discriminate H|]. destruct s'; try discriminate Hf. discriminate H.
    + destruct TH as (Hnf & Hm & HW). intros _ u Hu. unfold VS in Hu at 1. cbn [sprem spad] in Hu. rewrite HW in Hu.
      split; [exact Hu|rewrite Hm; exact (fun x => x)].
Qed.

Lemma done_mode_not_MI id role : done_mode id role <> MI.
Proof. unfold done_mode. destruct (role_input_streams role); discriminate. Qed.

Lemma sh_vfacts i t id cl pl rest :
  match vstep (rvm (Params i 0 0)) t id cl rest with
  | Some vm' => PV (sh_state i t id cl pl) vm' cl pl /\ vm' <> MI
  | None => True
  end.
Proof.
  cbn [rvm]. unfold vstep, sh_state. cbv zeta.
  destruct (N.eqb_spec t RT_AbortRequest) as [Ea|Ea]; [exact I|].
  destruct (N.eqb_spec t RT_BeginRequest) as [Eb|Eb]; [exact I|].
  destruct ((t =? RT_Params) && (id =? r_id (ireq i))) eqn:E1; cbn [andb].
  { destruct (N.eqb_spec cl 0) as [->|Hc].
    - split; [apply (done_skip_PV (ireq i) 0 pl)|apply done_mode_not_MI].
    - split; [repeat split|discriminate]. }
  destruct (N.eqb_spec t RT_AbortRequest) as [|_]; [contradiction|]. cbn [andb].
  destruct (N.eqb_spec t RT_BeginRequest) as [|_]; [contradiction|]. cbn [andb].
  destruct ((t =? RT_GetValues) && hdr_is_management t id).
  - split; [repeat split|discriminate].
  - split; [apply (params_skip_PV i cl pl)|discriminate].
Qed.

Lemma stage_head_vlaw i d : v_law (Params i 0 0) d (stage_head i d).
Proof.
  intros Hb. unfold stage_head.
  pose proof (try_head_vlaw (Params i 0 0) (params_skip_to i) (rvm (Params i 0 0)) d (params_skip_PV i)) as TH.
  destruct (try_head (Params i 0 0) (params_skip_to i) d) as [t id cl pl|f o].
  - destruct TH as (Hl & HW). intros _ u Hu. unfold VS in Hu. cbn [sprem spad] in Hu. rewrite HW in Hu.
    pose proof (sh_vfacts i t id cl pl (drop 8 d ++ u)) as F.
    destruct (vstep (rvm (Params i 0 0)) t id cl (drop 8 d ++ u)) as [vm'|]; [|discriminate Hu].
    destruct F as [P Hn]. rewrite (VS_PV _ _ _ _ _ P). split; [exact Hu|]. destruct P as (P1 & _). rewrite P1. intros H. contradiction.
  - destruct f as [r s'|r s'|n]; [| |exact I].
    + destruct TH as (-> & [[-> Hl]|Hf]).
      * split; [intros _ u Hu; split; [exact Hu|exact (fun x => x)]|].
        intros _ Hv. pose proof (VS_short (Params i 0 0) d eq_refl eq_refl Hl Hv) as H. discriminate H.
      * split; intros H; [rewrite Hf in H; discriminate H|]. destruct s'; try discriminate Hf. discriminate H.
    + destruct TH as (Hnf & Hm & HW). intros _ u Hu. unfold VS in Hu at 1. cbn [sprem spad] in Hu. rewrite HW in Hu.
      split; [exact Hu|rewrite Hm; exact (fun x => x)].
Qed.

Lemma stage_pad_vlaw i q d : v_law (Params i 0 q) d (stage_pad i q d).
Proof.
  unfold stage_pad. destruct (N.ltb_spec 0 q) as [Hq|Hq].
  - destruct (N.leb_spec (len d) q) as [Hl|Hl].
    + intros _. split.
      * intros _ u Hu. split; [|exact (fun x => x)]. unfold VS in *. cbn [rvm sprem spad app] in *.
        rewrite (VB_pad_adv _ q (d ++ u) (len d)) in Hu by (rewrite ?len_app; lia). rewrite drop_len_app in Hu. exact Hu.
      * intros _ Hv. unfold VS in Hv. cbn [rvm sprem spad] in Hv. rewrite VB_nil in Hv. cbn [vm_final] in Hv.
        rewrite andb_false_r in Hv. discriminate Hv.
    + apply (v_law_pre _ _ (Params i 0 0) (drop q d)); [|reflexivity|apply bytes_ok_drop|apply stage_head_vlaw].
      intros u. unfold VS. cbn [rvm sprem spad]. rewrite (VB_pad_adv _ q (d ++ u) q) by (rewrite ?len_app; lia).
      rewrite N.sub_diag, drop_app_le by lia. reflexivity.
  - assert (q = 0) by lia. subst q. apply stage_head_vlaw.
Qed.

Lemma ps_ids i x e i' c : inner_ok i -> bytes_ok x -> len x < SIZE_LIMIT -> parse_stream norm i x e = Some (i', c) ->
  r_id (ireq i') = r_id (ireq i) /\ r_role (ireq i') = r_role (ireq i).
Proof.
  intros Hi Hx Hl E.
  assert (Hsz : len (ibuf i ++ x) <= USIZE_MAX).
  { pose proof (buf_ok_len _ Hi). rewrite len_app. unfold SIZE_LIMIT, USIZE_MAX in *. lia. }
  destruct (F_S1 norm i x e Hi Hx Hsz) as (i2 & c2 & E2 & _ & _ & _ & A & B & _). rewrite E in E2. injection E2 as <- <-.
  split; assumption.
Qed.

Lemma params_vlaw i p q d : inner_ok i -> len d < SIZE_LIMIT -> v_law (Params i p q) d (params_drive norm i p q d).
Proof.
  intros Hi Hsz. rewrite ReqDrive.params_drive_eq. destruct (N.ltb_spec 0 p) as [Hp|Hp].
  - destruct (N.ltb_spec (len d) p) as [H1|H1].
    + destruct (parse_stream norm i d false) as [[i' c]|] eqn:EP; [|intros _; exact I].
      destruct (N.ltb_spec p c) as [|Hc1]; [intros _; exact I|]. destruct (N.ltb_spec (len d) c) as [|Hc2]; [intros _; exact I|].
      intros Hb. destruct (ps_ids i d false i' c Hi Hb Hsz EP) as [I1 I2]. split.
      * intros _ u Hu. unfold VS in *. cbn [rvm sprem spad] in *. rewrite I1, I2. split; [|discriminate].
        rewrite (VB_adv _ p q (d ++ u) c) in Hu by (rewrite ?len_app; lia). rewrite drop_app_le in Hu by lia. exact Hu.
      * intros _ Hv. unfold VS in Hv. cbn [sprem spad] in Hv. rewrite VB_mid_false in Hv by (rewrite len_drop; lia). discriminate Hv.
    + destruct (parse_stream norm i (take p d) true) as [[i' c]|] eqn:EP; [|intros _; exact I].
      destruct (negb (c =? p)); [intros _; exact I|].
      intros Hb. destruct (ps_ids i (take p d) true i' c Hi (bytes_ok_take p d Hb) ltac:(rewrite len_take; lia) EP) as [I1 I2].
      revert Hb. apply (v_law_pre _ _ (Params i' 0 q) (drop p d)); [| |apply bytes_ok_drop|apply stage_pad_vlaw].
      * intros u. unfold VS. cbn [rvm sprem spad]. rewrite I1, I2. rewrite VB_through by (rewrite len_app; lia).
        rewrite drop_app_le by lia. reflexivity.
      * cbn [rvm]. rewrite I1, I2. reflexivity.
  - assert (p = 0) by lia. subst p. apply stage_pad_vlaw.
Qed.

Lemma drive1_vlaw s d : state_ok s -> len d < SIZE_LIMIT -> v_law s d (drive1 norm maxc s d).
Proof.
  intros Hs Hsz. destruct s as [|p q|vars p q|i p q|i p q|i vars p q|r p q|r|e]; cbn [drive1].
  - apply header_vlaw.
  - apply (skip_vlaw HeaderSkip Header (rvm Header)); [intros; repeat split|repeat split|repeat split].
  - apply (values_vlaw HeaderValues Header (rvm Header)); [intros; repeat split|repeat split|repeat split].
  - apply params_vlaw; [apply Hs|exact Hsz].
  - apply (skip_vlaw (ParamsSkip i) (Params i 0 0) (rvm (Params i 0 0))); [intros; repeat split|repeat split|repeat split].
  - apply (values_vlaw (ParamsValues i) (Params i 0 0) (rvm (Params i 0 0))); [intros; repeat split|repeat split|repeat split].
  - apply (skip_vlaw (DoneSkip r) (Done r) (rvm (Done r))); [intros; repeat split|repeat split|repeat split].
  - intros _. split; [|intros H; discriminate H]. intros _ u Hu. split; [exact Hu|exact (fun x => x)].
  - intros _. split; intros H; discriminate H.
Qed.

Lemma keep_trans s d s1 r1 s2 r2 : keep s d s1 r1 -> keep s1 r1 s2 r2 -> keep s d s2 r2.
Proof. intros H1 H2 u Hu. destruct (H1 u Hu) as [A B]. destruct (H2 u A) as [C D]. split; [exact C|]. intros H. apply B, D, H. Qed.

(* a drive that has consumed everything and is not finished: the walk from there over nothing is complete only between requests *)
Lemma stop_nil s : sgood s -> is_final s = false -> VS s [] = true -> rvm s = MI.
Proof.
  intros [_ H00] Hf Hv. unfold VS in Hv. rewrite VB_nil in Hv.
  apply andb_true_iff in Hv. destruct Hv as [Hv Hfin]. apply andb_true_iff in Hv. destruct Hv as [Hp Hq].
  apply N.eqb_eq in Hp. apply N.eqb_eq in Hq.
  destruct s as [|p q|vars p q|i p q|i p q|i vars p q|r p q|r|e]; cbn [rvm sprem spad no00 vm_final] in *;
    try discriminate Hfin; try discriminate Hf; try lia; destruct g; try discriminate Hfin; reflexivity.
Qed.

Lemma drive_vlaw : forall f s d out r s' o, state_ok s -> bytes_ok d -> len d < SIZE_LIMIT ->
  drive norm maxc f s d out = DOk r s' o -> is_fatal s' = false ->
  keep s d s' r /\ (is_final s' = false -> VS s' r = true -> rvm s' = MI).
Proof.
  induction f as [|f IH]; intros s d out r s' o Hs Hok Hsz E Hnf; [discriminate E|].
  rewrite drive_S in E. pose proof (drive1_post norm maxc (F_S1 norm) s d Hs Hok Hsz) as P.
  pose proof (drive1_vlaw s d Hs Hsz Hok) as L.
  destruct (drive1 norm maxc s d) as [[r0 s0|r0 s0|n] o0]; cbn [step_post] in P.
  - injection E as <- <- <-. destruct L as [L1 L2]. split; [apply L1, Hnf|exact L2].
  - destruct P as (P1 & P2 & P3 & P4).
    assert (Hnf0 : is_fatal s0 = false).
    { destruct s0; try reflexivity. exfalso. destruct r0 as [|b r0']; [injection E as _ <- _; discriminate Hnf|].
      destruct f as [|f']; [discriminate E|]. cbn [drive is_final] in E. injection E as _ <- _. discriminate Hnf. }
    specialize (L Hnf0). destruct r0 as [|b r0'].
    + injection E as <- <- <-. split; [exact L|]. intros Hfin Hv. apply (stop_nil _ P1 Hfin Hv).
    + destruct (IH s0 (b :: r0') (out ++ o0) r s' o (proj1 P1) (suffix_ok _ _ P3 Hok)
                  ltac:(pose proof (suffix_len _ _ P3); lia) E Hnf) as (K1 & S1).
      split; [apply (keep_trans _ _ _ _ _ _ L K1)|exact S1].
  - contradiction.
Qed.

(* Parser::parse conserves the structure walk; a call that is not done leaves a walk that is complete over the bytes
   it holds only between requests *)
Theorem parse_vlaw p new p' dn out : parser_ok p -> bytes_ok new -> len new <= input_space p ->
  parse norm maxc p new = POk p' dn out -> is_fatal (st p') = false ->
  (forall u, VS (st p) (held p ++ new ++ u) = true ->
             VS (st p') (held p' ++ u) = true /\ (rvm (st p') = MI -> rvm (st p) = MI)) /\
  (dn = false -> VS (st p') (held p') = true -> rvm (st p') = MI).
Proof.
  intros Hp Hn Hsp E Hnf.
  destruct (parse_spec norm maxc (F_S1 norm) p new Hp Hn Hsp) as (rest & s' & o' & Ed & G1 & G2 & G3 & G4 & G5 & _ & Hparse).
  rewrite E in Hparse. destruct Hp as (Hs & _ & Hh & Hl & Hc). unfold input_space in Hsp.
  destruct (negb (is_final s') && (len rest =? cap p)); injection Hparse as -> -> ->; [discriminate Hnf|].
  cbn [st held] in *. unfold drive_all in Ed.
  apply drive_vlaw in Ed; [|exact Hs|apply bytes_ok_app; split; assumption|rewrite len_app; lia|exact Hnf].
  destruct Ed as (K & S). split; [intros u Hu; apply K; rewrite <- app_assoc; exact Hu|].
  intros Hd. apply S. exact Hd.
Qed.
End WalkRequest3.

(* ------------------------------------------------------------------------------------------ *)
(* Part D: the invariant of the connection                                                      *)
(* ------------------------------------------------------------------------------------------ *)

(* the management part: the invariant of PeerProofs2 on the gates with the EndRequest component erased *)
Definition zero_ge (sg : list (N * N * bytes)) : list (N * N * bytes) := map (fun s => (0, snd (fst s), snd s)) sg.

Lemma zero_ge_app a b : zero_ge (a ++ b) = zero_ge a ++ zero_ge b.
Proof. apply map_app. Qed.

Lemma flat_zero_ge sg : flat (zero_ge sg) = flat sg.
Proof. induction sg as [|[[ge gm] b] t IH]; [reflexivity|]. cbn [zero_ge map flat_map fst snd]. f_equal. exact IH. Qed.

Definition Qm (k : bool) (p q : N) (raw out log new : bytes) (sg : list (N * N * bytes)) : Prop :=
  Q k p q raw out log new (zero_ge sg).

(* the EndRequest part.  A segment not yet opened is a whole request of this client: appended to what may stand between
   requests it makes a walk, from "waiting for the BeginRequest", that is complete *)
Definition seg_ok (b : bytes) : Prop := b <> [] /\ forall p q x, VB MI p q x = true -> VB MB p q (x ++ b) = true.

Fixpoint tail_ok (g : N) (l : list (N * N * bytes)) : Prop :=
  match l with
  | [] => True
  | (ge, gm, b) :: t => ge = g /\ seg_ok b /\ tail_ok (g + 1) t
  end.

Definition EC (l : bytes) : N := fst (counts l).

(* [vm p q]: walk mode and framing position of the parser.  The first segment with bytes left is either opened (its gate
   was met; what the parser holds, what was read and the rest of the segment are the rest of one request, or of what follows
   a closed one) or not (then what the parser holds and what was read is that, and the segment is a whole request).
   EC (log ++ out) + bonus counts the requests closed or begun (or about to begin in an opened segment). *)
Definition J (vm : vmode) (p q : N) (raw out log new : bytes) (sg : list (N * N * bytes)) : Prop :=
  forall E0 ge gm b rest, sg = E0 ++ (ge, gm, b) :: rest -> flat E0 = [] -> b <> [] ->
    tail_ok (ge + 1) rest /\
    ((ge <= EC log /\ VB vm p q (raw ++ new ++ b) = true /\ ge + 1 <= EC (log ++ out) + bonus vm) \/
     (VB vm p q (raw ++ new) = true /\ seg_ok b /\ ge <= EC (log ++ out) + bonus vm)).

Definition Q3 (k : bool) (vm : vmode) (p q : N) (raw out log new : bytes) (sg : list (N * N * bytes)) : Prop :=
  Qm k p q raw out log new sg /\ J vm p q raw out log new sg.

Lemma EC_mono l x : EC l <= EC (l ++ x).
Proof. apply counts_mono_any. Qed.

Lemma EC_app a b : wholeF a -> wholeF b -> EC (a ++ b) = EC a + EC b.
Proof. intros Ha Hb. unfold EC. rewrite (counts_app_F a b Ha Hb). reflexivity. Qed.

Lemma bonus_le vm vm' : (vm' = MI -> vm = MI) -> bonus vm <= bonus vm'.
Proof. intros H. destruct vm'; destruct vm; cbn [bonus]; try lia; discriminate (H eq_refl). Qed.

Lemma J_parse vm p q raw out log new sg vm' p' q' raw' o :
  (forall u, VB vm p q (raw ++ new ++ u) = true -> VB vm' p' q' (raw' ++ u) = true /\ (vm' = MI -> vm = MI)) ->
  J vm p q raw out log new sg -> J vm' p' q' raw' (out ++ o) log [] sg.
Proof.
  intros L HJ E0 ge gm b rest Es HF Hb. destruct (HJ E0 ge gm b rest Es HF Hb) as [HT [(G1 & G2 & G3)|(G1 & G2 & G3)]].
  - split; [exact HT|left]. destruct (L b G2) as [V Hm]. split; [exact G1|]. split; [exact V|].
    pose proof (bonus_le _ _ Hm). pose proof (EC_mono (log ++ out) o). rewrite app_assoc. lia.
  - split; [exact HT|right]. rewrite <- (app_nil_r new) in G1. destruct (L [] G1) as [V Hm]. split; [exact V|].
    split; [exact G2|]. pose proof (bonus_le _ _ Hm). pose proof (EC_mono (log ++ out) o). rewrite app_assoc. lia.
Qed.

Lemma J_flush vm p q raw out log new sg fl out' : out = fl ++ out' ->
  J vm p q raw out log new sg -> J vm p q raw out' (log ++ fl) new sg.
Proof.
  intros -> HJ E0 ge gm b rest Es HF Hb. destruct (HJ E0 ge gm b rest Es HF Hb) as [HT [(G1 & G2 & G3)|(G1 & G2 & G3)]].
  - split; [exact HT|left]. rewrite <- app_assoc. pose proof (EC_mono log fl). split; [lia|]. split; assumption.
  - split; [exact HT|right]. rewrite <- app_assoc. split; [exact G1|]. split; assumption.
Qed.

Lemma J_skip vm p q raw out log new E s : flat E = [] -> J vm p q raw out log new (E ++ s) -> J vm p q raw out log new s.
Proof.
  intros HF HJ E0 ge gm b rest Es HF0 Hb. apply (HJ (E ++ E0) ge gm b rest); [rewrite Es, app_assoc; reflexivity| |exact Hb].
  rewrite flat_map_app, HF, HF0. reflexivity.
Qed.

Lemma J_log vm p q raw out log new sg x : wholeF log -> wholeF out -> wholeF x ->
  J vm p q raw out log new sg -> J vm p q raw out (log ++ x) new sg.
Proof.
  intros Hl Ho Hx HJ E0 ge gm b rest Es HF Hb.
  assert (HE : EC (log ++ out) <= EC ((log ++ x) ++ out)).
  { rewrite (EC_app _ out (wholeF_app _ _ Hl Hx) Ho), (EC_app log x Hl Hx), (EC_app log out Hl Ho). lia. }
  destruct (HJ E0 ge gm b rest Es HF Hb) as [HT [(G1 & G2 & G3)|(G1 & G2 & G3)]].
  - split; [exact HT|left]. pose proof (EC_mono log x). split; [lia|]. split; [exact G2|lia].
  - split; [exact HT|right]. split; [exact G1|]. split; [exact G2|lia].
Qed.

(* the request in progress is closed: one more EndRequest in the log *)
Lemma J_close vm p q raw out log log' sg : vm_weak vm = true -> EC log <= EC log' -> EC (log ++ out) + 1 <= EC log' ->
  J vm p q raw out log [] sg -> J MI p q raw [] log' [] sg.
Proof.
  intros Hw H1 H2 HJ E0 ge gm b rest Es HF Hb. rewrite app_nil_r.
  assert (Hbo : bonus vm <= 1) by (destruct vm; cbn [bonus]; lia).
  destruct (HJ E0 ge gm b rest Es HF Hb) as [HT [(G1 & G2 & G3)|(G1 & G2 & G3)]].
  - split; [exact HT|left]. split; [lia|]. split; [apply (VB_weak _ vm _ _ _ (le_n _) Hw G2)|cbn [bonus]; lia].
  - split; [exact HT|right]. split; [apply (VB_weak _ vm _ _ _ (le_n _) Hw G1)|]. split; [exact G2|cbn [bonus]; lia].
Qed.

Lemma tail_ok_head g l E0 x r : tail_ok g l -> l = E0 ++ x :: r -> flat E0 = [] -> E0 = [].
Proof.
  intros HT -> HF. destruct E0 as [|[[ge gm] b] E1]; [reflexivity|]. exfalso.
  cbn [app tail_ok] in HT. destruct HT as (_ & [Hb _] & _). cbn [flat_map snd] in HF. apply app_eq_nil in HF. apply Hb, HF.
Qed.

(* a delivery from the first segment with bytes left, whose gate is met.  If the bytes held so far make a complete walk,
   the parser stands between requests: the segment is now opened, the walk waits for its BeginRequest *)
Lemma J_read vm p q raw out log E ge gm bb rest n : flat E = [] -> bb <> [] -> ge <= EC log ->
  (VB vm p q raw = true -> vm = MI) ->
  J vm p q raw out log [] (E ++ (ge, gm, bb) :: rest) ->
  exists vm', (vm' = vm \/ (vm = MI /\ vm' = MB)) /\ J vm' p q raw out log (take n bb) ((ge, gm, drop n bb) :: rest).
Proof.
  intros HF Hbb Hge Hvm HJ. destruct (HJ E ge gm bb rest eq_refl HF Hbb) as [HT G].
  assert (A : exists vm', (vm' = vm \/ (vm = MI /\ vm' = MB)) /\ VB vm' p q (raw ++ bb) = true /\
                          ge + 1 <= EC (log ++ out) + bonus vm').
  { destruct G as [(G1 & G2 & G3)|(G1 & G2 & G3)].
    - exists vm. split; [left; reflexivity|]. split; [exact G2|exact G3].
    - rewrite app_nil_r in G1. pose proof (Hvm G1) as ->. exists MB. split; [right; split; reflexivity|].
      split; [apply G2, G1|]. pose proof (EC_mono log out). cbn [bonus]. lia. }
  destruct A as (vm' & Hvm' & V & C). exists vm'. split; [exact Hvm'|].
  intros E0 ge' gm' b' rest' Es HF0 Hb'. destruct E0 as [|s0 E1].
  - cbn [app] in Es. injection Es as <- <- <- <-. split; [exact HT|left]. split; [exact Hge|].
    rewrite take_drop. split; [exact V|exact C].
  - cbn [app] in Es. injection Es as <- Er. cbn [flat_map snd] in HF0. apply app_eq_nil in HF0. destruct HF0 as [Hd HF1].
    pose proof (tail_ok_head _ _ _ _ _ HT Er HF1) as ->. cbn [app] in Er. subst rest.
    cbn [tail_ok] in HT. destruct HT as (-> & Hs & HT). split; [exact HT|right].
    assert (Ht : take n bb = bb) by (rewrite <- (take_drop n bb) at 2; rewrite Hd, app_nil_r; reflexivity).
    rewrite Ht. split; [exact V|]. split; [exact Hs|exact C].
Qed.

(* a block with the pending output written: the EndRequest part of the gate is met *)
Lemma J_block vm p q raw out log E ge gm bb rest : flat E = [] -> bb <> [] ->
  (VB vm p q raw = true -> vm = MI /\ out = []) ->
  J vm p q raw out log [] (E ++ (ge, gm, bb) :: rest) -> ge <= EC log.
Proof.
  intros HF Hbb Hvm HJ. destruct (HJ E ge gm bb rest eq_refl HF Hbb) as [_ [(G1 & _)|(G1 & _ & G3)]]; [exact G1|].
  rewrite app_nil_r in G1. destruct (Hvm G1) as [-> ->]. rewrite app_nil_r in G3. cbn [bonus] in G3. lia.
Qed.

(* ---- the two parts together ---- *)
Lemma Q3_parse k vm p q raw out log new sg k' vm' p' q' raw' o : whole o ->
  (forall u, WK k p q (raw ++ new ++ u) = padd (snd (counts o)) (WK k' p' q' (raw' ++ u))) ->
  (forall u, VB vm p q (raw ++ new ++ u) = true -> VB vm' p' q' (raw' ++ u) = true /\ (vm' = MI -> vm = MI)) ->
  Q3 k vm p q raw out log new sg -> Q3 k' vm' p' q' raw' (out ++ o) log [] sg.
Proof.
  intros Ho L1 L2 [H1 H2]. split; [apply (Q_parse k p q raw out log new _ k' p' q' raw' o Ho L1 H1)|apply (J_parse _ _ _ _ _ _ _ _ _ _ _ _ _ L2 H2)].
Qed.

Lemma Q3_flush k vm p q raw out log new sg fl out' : out = fl ++ out' ->
  Q3 k vm p q raw out log new sg -> Q3 k vm p q raw out' (log ++ fl) new sg.
Proof. intros E [H1 H2]. split; [apply (Q_flush _ _ _ _ out _ _ _ fl out' E H1)|apply (J_flush _ _ _ _ out _ _ _ fl out' E H2)]. Qed.

Lemma Q3_skip k vm p q raw out log new E s : flat E = [] -> Q3 k vm p q raw out log new (E ++ s) -> Q3 k vm p q raw out log new s.
Proof.
  intros HF [H1 H2]. split; [|apply (J_skip _ _ _ _ _ _ _ E s HF H2)].
  unfold Qm in *. rewrite zero_ge_app in H1. apply (Q_skip _ _ _ _ _ _ _ (zero_ge E) _); [rewrite flat_zero_ge; exact HF|exact H1].
Qed.

Lemma Q3_log k vm p q raw out log new sg x : wholeF log -> wholeF out -> wholeF x ->
  Q3 k vm p q raw out log new sg -> Q3 k vm p q raw out (log ++ x) new sg.
Proof. intros Hl Ho Hx [H1 H2]. split; [apply Q_log; assumption|apply J_log; assumption]. Qed.

Lemma Q3_world k vm p q raw out log new sg : Q3 k vm p q raw out log new sg -> wholeF (log ++ out).
Proof. intros [H _]. apply (Q_world _ _ _ _ _ _ _ _ H). Qed.

Lemma Q3_k k k' vm p q raw out log new sg : (forall w, WK k p q w = WK k' p q w) ->
  Q3 k vm p q raw out log new sg -> Q3 k' vm p q raw out log new sg.
Proof. intros H [H1 H2]. split; [apply (Q_pos k p q k' p q); assumption|exact H2]. Qed.

Lemma Q3_read k vm p q raw out log E ge gm bb rest n : flat E = [] -> bb <> [] -> gate_met (counts log) ge gm ->
  (VB vm p q raw = true -> vm = MI) ->
  Q3 k vm p q raw out log [] (E ++ (ge, gm, bb) :: rest) ->
  exists vm', (vm' = vm \/ (vm = MI /\ vm' = MB)) /\ Q3 k vm' p q raw out log (take n bb) ((ge, gm, drop n bb) :: rest).
Proof.
  intros HF Hbb [Hge Hgm] Hvm [H1 H2].
  destruct (J_read vm p q raw out log E ge gm bb rest n HF Hbb Hge Hvm H2) as (vm' & Hvm' & HJ).
  exists vm'. split; [exact Hvm'|]. split; [|exact HJ].
  unfold Qm in *. rewrite zero_ge_app in H1. cbn [zero_ge map fst snd] in *.
  apply (Q_read _ _ _ _ _ _ (zero_ge E) 0 gm bb); [rewrite flat_zero_ge; exact HF|exact Hbb|exact Hgm|exact H1].
Qed.

Lemma Q3_block k vm p q raw log E ge gm bb rest : flat E = [] -> bb <> [] -> fst (WK k p q raw) = 0 ->
  (VB vm p q raw = true -> vm = MI) ->
  Q3 k vm p q raw [] log [] (E ++ (ge, gm, bb) :: rest) -> gate_met (counts log) ge gm.
Proof.
  intros HF Hbb H0 Hvm [H1 H2]. split.
  - apply (J_block vm p q raw [] log E ge gm bb rest HF Hbb); [|exact H2]. intros V. split; [apply Hvm, V|reflexivity].
  - unfold Qm in H1. rewrite zero_ge_app in H1. cbn [zero_ge map fst snd] in H1.
    apply (Q_block _ _ _ _ _ (zero_ge E) 0 gm bb _ ltac:(rewrite flat_zero_ge; exact HF) Hbb H0 H1).
Qed.

Lemma Q3_block_mid k vm p q raw out log E ge gm bb rest : flat E = [] -> bb <> [] -> snd (WK k p q raw) = false ->
  VB vm p q raw = false ->
  Q3 k vm p q raw out log [] (E ++ (ge, gm, bb) :: rest) -> gate_met (counts log) ge gm.
Proof.
  intros HF Hbb H0 Hvm [H1 H2]. split.
  - apply (J_block vm p q raw out log E ge gm bb rest HF Hbb); [|exact H2]. intros V. rewrite V in Hvm. discriminate Hvm.
  - unfold Qm in H1. rewrite zero_ge_app in H1. cbn [zero_ge map fst snd] in H1.
    apply (Q_block_mid _ _ _ _ _ _ (zero_ge E) 0 gm bb _ ltac:(rewrite flat_zero_ge; exact HF) Hbb H0 H1).
Qed.

(* ------------------------------------------------------------------------------------------ *)
(* Part E: the layers of the connection task                                                    *)
(* ------------------------------------------------------------------------------------------ *)
Section Layers3.
Variable maxc : N.

Definition SQ3 (a : ast) (vm : vmode) (log new : bytes) (sg : list (N * N * bytes)) : Prop :=
  Q3 (kst (a_st a)) vm (a_prem a) (a_pad a) (a_raw a) (a_out a) log new sg.
Definition inv3 (r : rstate) (w : world) (new : bytes) : Prop :=
  exists vm, SREL (abs (rsp r)) vm /\ SQ3 (abs (rsp r)) vm (wlog w) new (segs w).

Lemma SREL_not_MI a vm : SREL a vm -> vm <> MI.
Proof. intros [[-> _]|[-> _]]; discriminate. Qed.

Lemma sparse_struct p new dest vm : pinv p -> SREL (abs p) vm ->
  match sparse maxc p new dest with
  | StOk p' _ | StErr p' _ _ =>
      exists vm', SREL (abs p') vm' /\ forall u, VA vm (abs p) (new ++ u) = true -> VA vm' (abs p') u = true
  | StPanic _ => True
  end.
Proof.
  intros [HRI Hinv] HS. destruct (sparse_refines maxc p new dest HRI) as [Ga _].
  destruct (sparse maxc p new dest) as [p' s|p' e s|n]; cbn [absres] in Ga; [| |exact I].
  - apply (struct_law maxc (abs p) new dest (abs p') s vm HS (or_introl Ga)).
  - apply (struct_law maxc (abs p) new dest (abs p') s vm HS (or_intror (ex_intro _ e Ga))).
Qed.

Lemma SQ3_sparse p new p' o vm vm' log sg : output_buffer p' = output_buffer p ++ o -> whole o ->
  (forall u, W (abs p) (new ++ u) = padd (snd (counts o)) (W (abs p') u)) ->
  SREL (abs p') vm' -> (forall u, VA vm (abs p) (new ++ u) = true -> VA vm' (abs p') u = true) ->
  SQ3 (abs p) vm log new sg -> SQ3 (abs p') vm' log [] sg.
Proof.
  intros Eo Ho L HS' LV H. unfold SQ3 in *. change (a_out (abs p')) with (output_buffer p'). rewrite Eo.
  apply (Q3_parse (kst (a_st (abs p))) vm (a_prem (abs p)) (a_pad (abs p)) (a_raw (abs p)) (output_buffer p) log new sg
           (kst (a_st (abs p'))) vm' (a_prem (abs p')) (a_pad (abs p')) (a_raw (abs p')) o Ho); [| |exact H].
  - intros u. apply (L u).
  - intros u Hu. split; [apply (LV u), Hu|]. intros Hm. exfalso. apply (SREL_not_MI _ _ HS' Hm).
Qed.

Lemma stuck_E a : stuck a -> E a [] = false.
Proof.
  unfold E. rewrite app_nil_r. intros [H|[[H1 H2]|(H1 & H2 & H3)]].
  - rewrite H. apply EF_nil.
  - rewrite EF_prem by exact H1. destruct (N.ltb_spec (len (a_raw a)) (a_prem a)); [reflexivity|lia].
  - rewrite H1, H2. apply EF_short. exact H3.
Qed.

(* what one poll_read does to the invariant, at a place where the walk over the bytes held is not complete *)
Lemma read_inv3 a vm log w0 L pr w1 : t_poll_read L w0 = (pr, w1) -> wlog w0 = log -> SREL a vm ->
  VA vm a [] = false -> SQ3 a vm log [] (segs w0) ->
  match pr with
  | PReady (inl b) => SQ3 a vm log b (segs w1)
  | PBlock => a_out a = [] -> fst (W a []) = 0 -> False
  | _ => SQ3 a vm log [] (segs w1)
  end.
Proof.
  intros ER El HS HV HI. pose proof (t_poll_read_segs _ _ _ _ ER) as S2. rewrite El in S2.
  unfold VA in HV. rewrite app_nil_r in HV.
  assert (Hvm : VB vm (a_prem a) (a_pad a) (a_raw a) = true -> vm = MI) by (intros V; rewrite V in HV; discriminate HV).
  destruct pr as [[b|k]| |]; cbv beta iota in S2.
  - destruct S2 as [(-> & E0 & HF & HS0)|(E0 & ge & gm & bb & rest & n & HF & HS0 & Hbb & Hb & HS' & Hm)].
    + rewrite HS0 in HI. apply (Q3_skip _ _ _ _ _ _ _ _ E0 _ HF HI).
    + rewrite HS0 in HI. rewrite HS', Hb.
      destruct (Q3_read _ _ _ _ _ _ _ E0 ge gm bb rest n HF Hbb Hm Hvm HI) as (vm' & [->|[-> _]] & HQ); [exact HQ|].
      exfalso. apply (SREL_not_MI _ _ HS eq_refl).
  - destruct S2 as (E0 & HF & HS0). rewrite HS0 in HI. apply (Q3_skip _ _ _ _ _ _ _ _ E0 _ HF HI).
  - destruct S2 as (E0 & HF & HS0). rewrite HS0 in HI. apply (Q3_skip _ _ _ _ _ _ _ _ E0 _ HF HI).
  - intros Ho H0. destruct S2 as (E0 & ge & gm & bb & rest & HF & HS0 & Hbb & Hn). apply Hn.
    rewrite HS0 in HI. unfold SQ3 in HI. rewrite Ho in HI. unfold W in H0. rewrite app_nil_r in H0.
    apply (Q3_block _ _ _ _ _ _ E0 ge gm bb rest HF Hbb H0 Hvm HI).
Qed.

Lemma input_loop_nd3 : forall fuel dest new r w p r' w',
  pinv (rsp r) -> bytes_ok (remaining w) -> bytes_ok new -> len new <= sinput_space (rsp r) ->
  stream_buffer (rsp r) = [] -> dest <> Some 0 -> no_fault (wscript w) ->
  (length (wscript w) + length (remaining w) + 2 <= fuel)%nat ->
  input_loop maxc fuel dest new r w = (p, r', w') ->
  inv3 r w new -> wl r w ->
  p <> PBlock /\ inv3 r' w' [] /\ (ready p -> wl r' w').
Proof.
  induction fuel as [|f IH]; intros dest new r w p r' w' Hinv Hrem Hnew Hfit Hsb Hd0 Hnf Hf E (vm & HS & HI) HWL; [lia|].
  cbn [input_loop] in E.
  pose proof (sparse_step maxc (rsp r) new dest Hinv Hnew Hfit ltac:(intros _; exact Hsb)) as SS.
  pose proof (sparse_walk maxc (rsp r) new dest Hinv Hnew) as SW.
  pose proof (sparse_struct (rsp r) new dest vm Hinv HS) as SV.
  destruct (sparse maxc (rsp r) new dest) as [p1 s|p1 e s|n] eqn:ESP; [| |contradiction].
  2:{ injection E as <- <- <-. destruct SW as (o & Eo & Ho & L). destruct SV as (vm1 & HS1 & LV). split; [discriminate|]. split.
      - exists vm1. cbn [rsp]. split; [exact HS1|]. apply (SQ3_sparse (rsp r) new p1 o vm vm1 _ _ Eo Ho L HS1 LV HI).
      - intros _. destruct HWL as [H1 H2]. split; [exact H1|]. cbn [rsp]. rewrite Eo.
        apply wholeF_app; [exact H2|apply whole_F, Ho]. }
  destruct SS as (SO & Hend). destruct SW as (o & Eo & Ho & L). destruct SV as (vm1 & HS1 & LV).
  assert (I1 : SQ3 (abs p1) vm1 (wlog w) [] (segs w)) by (apply (SQ3_sparse (rsp r) new p1 o vm vm1 _ _ Eo Ho L HS1 LV HI)).
  assert (WL1 : wholeF (output_buffer p1)).
  { rewrite Eo. apply wholeF_app; [apply HWL|apply whole_F, Ho]. }
  destruct (s_end s || (0 <? s_stream s)) eqn:Edone.
  { match type of E with (_, (if ?c then _ else _), _) = _ => destruct c end; injection E as <- <- <-;
      (split; [discriminate|]; split; [exists vm1; split; [exact HS1|exact I1]|]; intros _; split; [apply HWL|exact WL1]). }
  apply orb_false_iff in Edone. destruct Edone as [Eend Estr].
  assert (Hz : s_stream s = 0) by (destruct (N.ltb_spec 0 (s_stream s)); [discriminate|lia]).
  assert (Hsb1 : stream_buffer p1 = []).
  { destruct dest as [c|].
    - destruct (so_some _ _ _ _ _ _ SO c eq_refl) as (A & _). exact A.
    - destruct (so_none _ _ _ _ _ _ SO eq_refl) as (_ & d & B & C). rewrite B, Hsb.
      assert (d = []) by (apply len_zero_nil; lia). subst d. reflexivity. }
  pose proof (so_inv _ _ _ _ _ _ SO) as [RI1 A1].
  destruct (compress_views p1 RI1) as (V1 & V2 & V3 & V4 & V5 & V6).
  pose proof (compress_abs p1 RI1) as CA.
  pose proof (sparse_stuck maxc (rsp r) new dest p1 s Hinv Hnew Hfit ltac:(intros _; exact Hsb) Hd0 ESP Eend Hz) as ST.
  (* the call was quiet: a stream is active and its end is not in the bytes held *)
  assert (HV1 : VA vm1 (abs p1) [] = false).
  { destruct (a_stream (abs p1)) as [ta|] eqn:Es.
    - apply (stuck_quiet_V (abs p1) vm1 ta HS1 Es (stuck_E _ ST)).
    - exfalso. assert (H : s_end s = true) by (apply Hend; left; exact Es). rewrite H in Eend. discriminate Eend. }
  set (r2 := mkR (compress p1) (rwriteable r) (rlock r) (raborted r)) in E.
  assert (Hinv2 : pinv (rsp r2)).
  { split; [exact V1|]. cbn [r2 rsp]. rewrite CA. apply compress_inv. exact A1. }
  destruct (poll_output (S f) r2 w) as [[po r3] w0] eqn:EPO.
  destruct (poll_output_abs _ _ _ _ _ _ EPO Hinv2 ltac:(lia))
    as (fl & P1 & P2 & P3 & P4 & P5 & P6 & P7 & P8 & P9 & P10 & P11 & P12).
  cbn [r2 rsp rwriteable] in P4, P5, P6, P7, P8, P9, P11.
  pose proof (same_but_io_remaining _ _ P2) as Prem.
  assert (Psegs : segs w0 = segs w) by apply P2.
  assert (HS3 : SREL (abs (rsp r3)) vm1).
  { rewrite P5, CA. apply (SREL_same (abs p1)); [reflexivity|reflexivity|exact HS1]. }
  assert (HV3 : VA vm1 (abs (rsp r3)) [] = false) by (rewrite P5, CA; exact HV1).
  assert (I3 : SQ3 (abs (rsp r3)) vm1 (wlog w0) [] (segs w0)).
  { rewrite P5, P1, Psegs, CA. unfold SQ3 in *. cbn [set_out acompress a_st a_prem a_pad a_raw a_out].
    apply (Q3_flush _ _ _ _ _ (a_out (abs p1)) _ _ _ fl); [|exact I1].
    change (a_out (abs p1)) with (output_buffer p1). rewrite <- V4. exact P4. }
  assert (ST3 : stuck (abs (rsp r3))).
  { rewrite P5, CA. exact ST. }
  assert (Hnf0 : no_fault (wscript w0)) by (apply (no_fault_suffix _ _ P3 Hnf)).
  destruct po as [[u|k]| |].
  - assert (Hlog0 : wholeF (wlog w0)).
    { pose proof (Q3_world _ _ _ _ _ _ _ _ _ I3) as H. change (a_out (abs (rsp r3))) with (output_buffer (rsp r3)) in H.
      rewrite P12, app_nil_r in H. exact H. }
    assert (WL3 : forall w1, wlog w1 = wlog w0 -> wl r3 w1).
    { intros w1 Q1. split; [rewrite Q1; exact Hlog0|rewrite P12; apply wholeF_nil]. }
    destruct (t_poll_read (sinput_space (rsp r3)) w0) as [pr w1] eqn:ER.
    destruct (t_poll_read_rem _ _ _ _ ER) as (T1 & T2 & T3 & T4).
    pose proof (read_inv3 (abs (rsp r3)) vm1 (wlog w0) w0 _ pr w1 ER eq_refl HS3 HV3 I3) as RI3.
    destruct pr as [[b|k]| |].
    + destruct T4 as (Tr & Tl & Tnil). destruct b as [|x b'].
      * injection E as <- <- <-. split; [discriminate|]. split; [exists vm1; split; [exact HS3|rewrite T1; exact RI3]|].
        intros _. apply WL3, T1.
      * assert (Hb : bytes_ok (x :: b' ++ remaining w1)) by (rewrite <- Prem, Tr in Hrem; exact Hrem).
        change (x :: b' ++ remaining w1) with ((x :: b') ++ remaining w1) in Hb. apply bytes_ok_app in Hb.
        assert (Hf' : (length (wscript w1) + length (remaining w1) + 2 <= f)%nat).
        { rewrite T2. pose proof (suffix_length _ _ P3). rewrite <- Prem, Tr in Hf.
          cbn [app length] in Hf. rewrite app_length in Hf. lia. }
        apply (IH dest (x :: b') r3 w1 p r' w' P10 (proj2 Hb) (proj1 Hb) Tl ltac:(rewrite P6, V2; exact Hsb1) Hd0
                  ltac:(rewrite T2; exact Hnf0) Hf' E); [exists vm1; split; [exact HS3|rewrite T1; exact RI3]|apply WL3, T1].
    + injection E as <- <- <-. split; [discriminate|]. split; [exists vm1; split; [exact HS3|rewrite T1; exact RI3]|].
      intros _. apply WL3, T1.
    + injection E as <- <- <-. split; [discriminate|]. split; [exists vm1; split; [exact HS3|rewrite T1; exact RI3]|].
      intros H; destruct H.
    + exfalso. apply RI3; [exact P12|apply (stuck_W _ ST3)].
  - exfalso. apply (no_fault_not_fault _ _ Hnf P12).
  - injection E as <- <- <-. split; [discriminate|]. split; [exists vm1; split; [exact HS3|exact I3]|]. intros H; destruct H.
  - contradiction.
Qed.

Lemma flush_inv3 r w fl r1 w1 : wlog w1 = wlog w ++ fl -> segs w1 = segs w ->
  output_buffer (rsp r) = fl ++ output_buffer (rsp r1) ->
  abs (rsp r1) = set_out (abs (rsp r)) (output_buffer (rsp r1)) ->
  forall new, inv3 r w new -> inv3 r1 w1 new.
Proof.
  intros P1 Psegs P4 P5 new (vm & HS & HI). exists vm. unfold SQ3 in *. rewrite P5, P1, Psegs.
  split; [apply (SREL_same (abs (rsp r))); [reflexivity|reflexivity|exact HS]|].
  cbn [set_out a_st a_prem a_pad a_raw a_out].
  apply (Q3_flush _ _ _ _ _ (a_out (abs (rsp r))) _ _ _ fl); [exact P4|exact HI].
Qed.

Lemma inv3_world r w new : inv3 r w new -> wholeF (wlog w ++ output_buffer (rsp r)).
Proof. intros (vm & _ & HI). apply (Q3_world _ _ _ _ _ _ _ _ _ HI). Qed.

Lemma poll_input_nd3 fuel dest r w p r' w' :
  pinv (rsp r) -> bytes_ok (remaining w) -> no_fault (wscript w) ->
  (length (wscript w) + length (remaining w) + 2 <= fuel)%nat ->
  poll_input maxc fuel dest r w = (p, r', w') ->
  inv3 r w [] -> (wl r w \/ poll_parses dest r = true) ->
  p <> PBlock /\ inv3 r' w' [] /\ (ready p -> wl r' w').
Proof.
  intros Hinv Hrem Hnf Hf E HI HD.
  assert (EMPTY : stream_buffer (rsp r) = [] -> dest <> Some 0 ->
    (match poll_output fuel r w with
     | (PReady (inl _), r1, w1) => input_loop maxc fuel dest [] r1 w1
     | (PReady (inr k), r1, w1) => (PReady (inr k), r1, w1)
     | (PWake, r1, w1) => (PWake, r1, w1)
     | (PBlock, r1, w1) => (PBlock, r1, w1)
     end) = (p, r', w') ->
    p <> PBlock /\ inv3 r' w' [] /\ (ready p -> wl r' w')).
  { intros Esb Hd0 E1.
    destruct (poll_output fuel r w) as [[po r1] w1] eqn:EPO.
    destruct (poll_output_abs _ _ _ _ _ _ EPO Hinv ltac:(lia))
      as (fl & P1 & P2 & P3 & P4 & P5 & P6 & P7 & P8 & P9 & P10 & P11 & P12).
    pose proof (same_but_io_remaining _ _ P2) as Prem.
    assert (Psegs : segs w1 = segs w) by apply P2.
    pose proof (flush_inv3 r w fl r1 w1 P1 Psegs P4 P5 [] HI) as I1.
    destruct po as [[u|k]| |].
    - pose proof (suffix_length _ _ P3) as Hsl.
      assert (WL1 : wl r1 w1).
      { pose proof (inv3_world _ _ _ I1) as H. rewrite P12, app_nil_r in H. split; [exact H|rewrite P12; apply wholeF_nil]. }
      apply (input_loop_nd3 fuel dest [] r1 w1 p r' w' P10 ltac:(rewrite Prem; exact Hrem) ltac:(constructor)
               ltac:(rewrite len_nil; lia) ltac:(rewrite P6; exact Esb) Hd0 (no_fault_suffix _ _ P3 Hnf)
               ltac:(rewrite Prem; lia) E1 I1 WL1).
    - exfalso. apply (no_fault_not_fault _ _ Hnf P12).
    - injection E1 as <- <- <-. split; [discriminate|]. split; [exact I1|]. intros H; destruct H.
    - contradiction. }
  assert (SAME : poll_parses dest r = false -> PReady (inl (0, @nil N)) <> @PBlock (N * bytes + N) /\ inv3 r w [] /\
                 (ready (PReady (@inl (N * bytes) N (0, @nil N))) -> wl r w)).
  { intros Hpp. split; [discriminate|]. split; [exact HI|]. intros _. destruct HD as [H|H]; [exact H|]. rewrite Hpp in H. discriminate H. }
  destruct dest as [[|pc]|].
  - rewrite poll_input_zero in E. injection E as <- <- <-. apply SAME. reflexivity.
  - unfold poll_input in E. cbv zeta in E. destruct (stream_buffer (rsp r)) as [|x sb] eqn:Esb.
    + apply EMPTY; [reflexivity|discriminate|exact E].
    + cbv beta iota in E. injection E as <- <- <-.
      set (n := N.min (N.pos pc) (len (x :: sb))).
      destruct Hinv as [HRI HI0].
      pose proof (consume_stream_abs (rsp r) n HRI) as CA.
      assert (Hpp : poll_parses (Some (N.pos pc)) r = false) by (unfold poll_parses; rewrite Esb; reflexivity).
      split; [discriminate|]. split.
      * destruct HI as (vm & HS & HI). exists vm. unfold SQ3 in *. cbn [rsp]. rewrite CA.
        split; [apply (SREL_same (abs (rsp r))); [reflexivity|reflexivity|exact HS]|].
        cbn [aconsume_stream a_st a_prem a_pad a_raw a_out]. exact HI.
      * intros _. destruct HD as [[H1 H2]|H]; [|rewrite Hpp in H; discriminate H]. split; [exact H1|]. cbn [rsp].
        pose proof (f_equal a_out CA) as Eo. cbn [abs aconsume_stream a_out] in Eo. rewrite Eo. exact H2.
  - unfold poll_input in E. cbv zeta in E. destruct (stream_buffer (rsp r)) as [|x sb] eqn:Esb.
    + apply EMPTY; [reflexivity|discriminate|exact E].
    + cbv beta iota in E. injection E as <- <- <-. apply SAME. unfold poll_parses. rewrite Esb. reflexivity.
Qed.

(* poll_fn(|cx| poll_input(cx, dest)).await never ends in the wait-for cycle *)
Theorem await_input_nd3 : forall fuel dest r w, pinv (rsp r) -> bytes_ok (remaining w) -> no_fault (wscript w) ->
  inv3 r w [] -> (wl r w \/ poll_parses dest r = true) ->
  match await_input maxc fuel dest r w with
  | Ok (_, r') w' => inv3 r' w' [] /\ wl r' w'
  | Halt o w' => o <> ODeadlock
  end.
Proof.
  induction fuel as [|f IH]; intros dest r w Hinv Hrem Hnf HI HD; [cbn [await_input]; discriminate|].
  cbn [await_input].
  destruct (poll_input maxc (io_fuel w (len (buffer (rsp r)))) dest r w) as [[p r1] w1] eqn:EP.
  assert (Hfu : (length (wscript w) + length (remaining w) + 2 <= io_fuel w (len (buffer (rsp r))))%nat)
    by (rewrite io_fuel_remaining; lia).
  destruct (poll_input_reads maxc _ dest r w p r1 w1 Hinv Hrem Hfu EP) as (dl & A & C & _).
  destruct (poll_input_nd3 _ dest r w p r1 w1 Hinv Hrem Hnf Hfu EP HI HD) as (NB & I1 & WL1).
  assert (RETRY : forall w1', remaining w1' = remaining w1 -> wlog w1' = wlog w1 -> segs w1' = segs w1 ->
            wscript w1' = wscript w1 -> poll_parses dest r1 = true ->
            match await_input maxc f dest r1 w1' with
            | Ok (_, r') w' => inv3 r' w' [] /\ wl r' w'
            | Halt o w' => o <> ODeadlock
            end).
  { intros w1' Q1 Q2 Q3' Q4 Hpp. apply IH.
    - apply (ac_inv _ _ _ _ _ _ _ A).
    - rewrite Q1. apply (acct_bytes_ok _ _ _ _ _ _ _ A Hrem).
    - rewrite Q4. apply (no_fault_suffix _ _ (ac_ws _ _ _ _ _ _ _ A) Hnf).
    - unfold inv3 in *. rewrite Q2, Q3'. exact I1.
    - right. exact Hpp. }
  destruct p as [x| |].
  - split; [exact I1|apply WL1; exact I].
  - unfold on_wake. cbn [andb]. apply RETRY; try reflexivity.
    destruct C as (C1 & C2 & C3). destruct dest as [[|pc]|].
    + rewrite poll_input_zero in EP. discriminate EP.
    + unfold poll_parses. rewrite C3. reflexivity.
    + unfold poll_parses. rewrite C3. reflexivity.
  - exfalso. apply NB. reflexivity.
Qed.

(* ---- the handler's view: what holds between its operations ---- *)
Definition HS3 (r : rstate) (w : world) : Prop :=
  pinv (rsp r) /\ bytes_ok (remaining w) /\ no_fault (wscript w) /\ inv3 r w [] /\ wl r w.

Lemma HS3_world r w w' : remaining w' = remaining w -> wscript w' = wscript w -> wlog w' = wlog w -> segs w' = segs w ->
  HS3 r w -> HS3 r w'.
Proof.
  intros Q1 Q2 Q3' Q4 (H1 & H2 & H3 & H4 & H5). unfold HS3, inv3, wl in *. rewrite Q1, Q2, Q3', Q4. tauto.
Qed.

Lemma HS3_ev r w e : HS3 r w -> HS3 r (w_ev w e).
Proof. apply HS3_world; reflexivity. Qed.

Lemma await_input_hs3 fuel dest r w : HS3 r w ->
  match await_input maxc fuel dest r w with
  | Ok (_, r') w' => HS3 r' w'
  | Halt o _ => o <> ODeadlock
  end.
Proof.
  intros (H1 & H2 & H3 & H4 & H5).
  pose proof (await_input_nd3 fuel dest r w H1 H2 H3 H4 (or_introl H5)) as ND.
  pose proof (await_input_keeps maxc fuel dest r w) as KP.
  destruct (await_input maxc fuel dest r w) as [[x r'] w'|o w']; [|exact ND].
  destruct (KP x r' w' H1 H2 H3 eq_refl) as (K1 & K2 & K3). destruct ND as [N1 N2].
  split; [exact K1|]. split; [exact K2|]. split; [exact K3|]. split; assumption.
Qed.

(* ... and Request.lock is free (what a StreamWriter op needs): on a fault-free transport every AWAITED read ends with
   the reply flush completed (ConnTotal.await_input_unlocked) *)
Definition HSL3 (r : rstate) (w : world) : Prop := HS3 r w /\ rlock r = false.

Lemma HSL3_ev r w e : HSL3 r w -> HSL3 r (w_ev w e).
Proof. intros [H L]. split; [apply HS3_ev; exact H|exact L]. Qed.

Lemma await_input_hsl3 fuel dest r w : HSL3 r w ->
  match await_input maxc fuel dest r w with
  | Ok (_, r') w' => HSL3 r' w'
  | Halt o _ => o <> ODeadlock
  end.
Proof.
  intros [H L]. pose proof (await_input_hs3 fuel dest r w H) as A.
  pose proof (await_input_unlocked (fun b => b) maxc fuel dest r w) as U.
  destruct (await_input maxc fuel dest r w) as [[x r'] w'|o w']; [|exact A]. split; [exact A|].
  destruct H as (H1 & H2 & H3 & _).
  apply (U x r' w' (pinv_lgood _ H1) (remaining_world_ok _ H2) L H3 eq_refl).
Qed.

Lemma consume_hs3 r w c wr lk ab : HS3 r w -> HS3 (mkR (consume_stream (rsp r) c) wr lk ab) w.
Proof.
  intros ([HRI HI0] & H2 & H3 & (vm & HS & H4) & [H5 H6]). pose proof (consume_stream_abs (rsp r) c HRI) as CA.
  split; [split; [apply consume_stream_RI; exact HRI|cbn [rsp]; rewrite CA; apply consume_stream_inv; exact HI0]|].
  split; [exact H2|]. split; [exact H3|]. split.
  - exists vm. unfold SQ3 in *. cbn [rsp]. rewrite CA.
    split; [apply (SREL_same (abs (rsp r))); [reflexivity|reflexivity|exact HS]|].
    cbn [aconsume_stream a_st a_prem a_pad a_raw a_out]. exact H4.
  - split; [exact H5|]. cbn [rsp]. pose proof (f_equal a_out CA) as Eo. cbn [abs aconsume_stream a_out] in Eo. rewrite Eo. exact H6.
Qed.

Lemma gt_in_role role x c : cmp_input_streams role x (Some c) = Some Gt -> In x (role_input_streams role).
Proof.
  intros H. destruct (cmp_gt_input _ _ _ H) as [Hx Hc]. apply is_input_cases in Hx. apply is_input_cases in Hc.
  unfold cmp_input_streams in H.
  destruct (role_streams_cases role) as [Hr|[Hr|Hr]]; rewrite Hr in *;
    destruct Hx as [-> | ->]; destruct Hc as [-> | ->]; vm_compute in H; try discriminate H; cbn [In]; auto.
Qed.

Lemma eq_same role x c : cmp_input_streams role x (Some c) = Some Eq -> x = c.
Proof.
  unfold cmp_input_streams. destruct (negb (is_input_stream x) || negb (is_input_stream c)); [discriminate|].
  destruct (N.eqb_spec x c) as [->|_]; [reflexivity|]. intros H. exfalso. injection H as H. revert H.
  generalize (role_input_streams role). intros l.
  assert (G : forall pos, pos <> Eq ->
    (fix go (l0 : list N) (pos0 : ord) {struct l0} : ord :=
       match l0 with [] => Lt | s :: t => if s =? x then pos0 else if s =? c then go t Gt else go t pos0 end) l pos <> Eq).
  { induction l as [|s t IH]; intros pos Hp; [discriminate|]. destruct (s =? x); [exact Hp|]. destruct (s =? c); apply IH; [discriminate|exact Hp]. }
  apply G. discriminate.
Qed.

Lemma SREL_set a s vm B sp parsed raw out prem pad st : SREL a vm ->
  accepts (r_role (a_req a)) (a_stream a) s = Some true ->
  SREL (mkA B sp parsed raw out (a_req a) s prem pad st) vm.
Proof.
  intros HS Hacc. unfold SREL, in_role in *. cbn [a_req a_stream].
  destruct s as [x|]; [|destruct HS as [[-> _]|[-> _]]; [left; split; [reflexivity|exact I]|right; split; reflexivity]].
  unfold accepts in Hacc. destruct (a_stream a) as [c|] eqn:Es; [|discriminate Hacc].
  destruct HS as [[-> Hr]|[_ Hn]]; [|discriminate Hn]. left. split; [reflexivity|].
  destruct (cmp_input_streams (r_role (a_req a)) x (Some c)) as [[| |]|] eqn:Ec; try discriminate Hacc.
  - apply eq_same in Ec. subst x. exact Hr.
  - apply (gt_in_role _ _ _ Ec).
Qed.

Lemma set_stream_hs3 r w s p' wr lk ab : HS3 r w -> set_stream (rsp r) s = SetOk p' -> HS3 (mkR p' wr lk ab) w.
Proof.
  intros (Hinv & Hrem & Hnf & (vm & HS & HI) & HWL) E.
  destruct (set_stream_step maxc (rsp r) s p' Hinv E) as (I1 & _ & _ & Eo & _).
  split; [exact I1|]. split; [exact Hrem|]. split; [exact Hnf|]. split.
  - destruct Hinv as [HRI _]. pose proof (set_stream_refines (rsp r) s HRI) as SR. rewrite E in SR.
    destruct (aset_stream (abs (rsp r)) s) as [a1| |] eqn:EA; try contradiction. destruct SR as [_ A1].
    exists vm. unfold SQ3 in *. cbn [rsp]. rewrite A1. unfold aset_stream in EA.
    destruct (accepts (r_role (a_req (abs (rsp r)))) (a_stream (abs (rsp r))) s) as [[|]|] eqn:Eacc; try discriminate EA.
    destruct (optN_eqb s (a_stream (abs (rsp r)))); injection EA as <-; [split; [exact HS|exact HI]|].
    split; [apply (SREL_set _ _ _ _ _ _ _ _ _ _ _ HS Eacc)|].
    cbn [abs a_st a_prem a_pad a_raw a_out] in HI |- *. destruct (sst (rsp r)); exact HI.
  - split; [apply HWL|]. cbn [rsp]. rewrite Eo. apply HWL.
Qed.

Lemma do_writeable_hs3 r w : HS3 r w ->
  match do_writeable maxc r w with
  | Ok (_, r') w' => HS3 r' w'
  | Halt o _ => o <> ODeadlock
  end.
Proof.
  intros H. unfold do_writeable. destruct (rwriteable r); [exact H|].
  destruct (set_stream (rsp r) _) as [p'| |] eqn:E; [|discriminate|discriminate].
  pose proof (await_input_hs3 (io_fuel w 0) None _ w (set_stream_hs3 r w _ p' false (rlock r) (raborted r) H E)) as A.
  destruct (await_input maxc (io_fuel w 0) None (mkR p' false (rlock r) (raborted r)) w) as [[[x|k] r'] w'|o w']; exact A.
Qed.

Lemma read_all_hs3 : forall fuel acc r w, HS3 r w ->
  match read_all maxc fuel acc r w with
  | Ok (_, r') w' => HS3 r' w'
  | Halt o _ => o <> ODeadlock
  end.
Proof.
  induction fuel as [|f IH]; intros acc r w H; [cbn [read_all]; discriminate|]. cbn [read_all].
  pose proof (await_input_hs3 (io_fuel w 0) (Some 64) r w H) as A.
  destruct (await_input maxc (io_fuel w 0) (Some 64) r w) as [[[[n b]|k] r'] w'|o w']; [|exact A|exact A].
  destruct (n =? 0); [exact A|]. apply IH. exact A.
Qed.

Lemma do_writeable_hsl3 r w : HSL3 r w ->
  match do_writeable maxc r w with
  | Ok (_, r') w' => HSL3 r' w'
  | Halt o _ => o <> ODeadlock
  end.
Proof.
  intros [H L]. unfold do_writeable. destruct (rwriteable r); [split; assumption|].
  destruct (set_stream (rsp r) _) as [p'| |] eqn:E; [|discriminate|discriminate].
  pose proof (await_input_hsl3 (io_fuel w 0) None _ w
                (conj (set_stream_hs3 r w _ p' false (rlock r) (raborted r) H E) L)) as A.
  destruct (await_input maxc (io_fuel w 0) None (mkR p' false (rlock r) (raborted r)) w) as [[[x|k] r'] w'|o w']; exact A.
Qed.

Lemma read_all_hsl3 : forall fuel acc r w, HSL3 r w ->
  match read_all maxc fuel acc r w with
  | Ok (_, r') w' => HSL3 r' w'
  | Halt o _ => o <> ODeadlock
  end.
Proof.
  induction fuel as [|f IH]; intros acc r w H; [cbn [read_all]; discriminate|]. cbn [read_all].
  pose proof (await_input_hsl3 (io_fuel w 0) (Some 64) r w H) as A.
  destruct (await_input maxc (io_fuel w 0) (Some 64) r w) as [[[[n b]|k] r'] w'|o w']; [|exact A|exact A].
  destruct (n =? 0); [exact A|]. apply IH. exact A.
Qed.

(* the handler's own output: complete records appended to the log *)
Lemma log_hs3 r w w' x : io_rel w w' x -> wholeF x -> HS3 r w -> HS3 r w'.
Proof.
  intros (Hsame & Hlog & Hsuf & _) Hx (H1 & H2 & H3 & (vm & HS & H4) & [H5 H6]). unfold wlog_ext in Hlog.
  split; [exact H1|]. split; [rewrite (same_but_io_remaining _ _ Hsame); exact H2|].
  split; [apply (no_fault_suffix _ _ Hsuf H3)|]. assert (Hsegs : segs w' = segs w) by apply Hsame. split.
  - exists vm. split; [exact HS|]. unfold SQ3 in *. rewrite Hlog, Hsegs. apply Q3_log; assumption.
  - split; [rewrite Hlog; apply wholeF_app; assumption|exact H6].
Qed.

Lemma writer_hs3 fuel stype id data r w : HS3 r w ->
  match writer_write_all fuel stype id data w with
  | Ok None w' => HS3 r w'
  | Ok (Some _) _ => False
  | Halt o _ => o <> ODeadlock
  end.
Proof.
  intros H. pose proof (writer_write_all_spec fuel stype id data w) as S.
  destruct (writer_write_all fuel stype id data w) as [[k|] w'|o w']; cbn [wspec] in S.
  - destruct S as (_ & Hn & _). apply Hn. apply H.
  - apply (log_hs3 r w w' _ S (stream_records_F stype id data) H).
  - destruct o; try contradiction; discriminate.
Qed.

Lemma run_handler_hsl3 strict role cur script : script_ok strict role cur script -> no_abandoned_read script ->
  forall f r w, HSL3 r w ->
  match run_handler maxc f script r w with
  | Ok (_, r') w' => HSL3 r' w'
  | Halt o _ => o <> ODeadlock
  end.
Proof.
  induction 1 as [cur|cur n rest H IH|cur rest H IH|cur k rest H IH|cur s rest Hacc H IH|cur rest H IH
                  |cur s n rest H IH|cur s rest H IH|cur d c rest Hd|cur k rest|cur n rest H IH|cur n rest H IH];
    intros NA; try (specialize (IH ltac:(inversion NA; assumption))); intros f r w HSr; (destruct f as [|f]; [cbn [run_handler]; discriminate|]); cbn [run_handler].
  - apply HSL3_ev, HSr.
  - pose proof (await_input_hsl3 (io_fuel w 0) (Some n) r w HSr) as A.
    destruct (await_input maxc (io_fuel w 0) (Some n) r w) as [[[[c b]|k] r1] w1|o w1]; [| |exact A];
      apply IH; apply HSL3_ev, HSL3_ev, A.
  - match goal with |- context [read_all maxc ?fu [] r w] => pose proof (read_all_hsl3 fu [] r w HSr) as A;
      destruct (read_all maxc fu [] r w) as [[[k acc] r1] w1|o w1] end; [|exact A].
    apply IH. apply HSL3_ev, HSL3_ev, A.
  - pose proof (await_input_hsl3 (io_fuel w 0) None r w HSr) as A.
    destruct (await_input maxc (io_fuel w 0) None r w) as [[[[c b]|e] r1] w1|o w1]; [| |exact A].
    + apply IH. apply HSL3_ev, HSL3_ev. split; [apply consume_hs3; apply A|apply A].
    + apply IH. apply HSL3_ev, HSL3_ev, A.
  - destruct (set_stream (rsp r) (Some s)) as [p'| |] eqn:E; [|discriminate|discriminate].
    apply IH. apply HSL3_ev. split; [apply (set_stream_hs3 r w (Some s) p' _ _ _ (proj1 HSr) E)|apply HSr].
  - pose proof (do_writeable_hsl3 r w HSr) as A.
    destruct (do_writeable maxc r w) as [[e r1] w1|o w1]; [|exact A]. apply IH. apply HSL3_ev, A.
  - destruct (negb (rwriteable r)); [apply IH; apply HSL3_ev, HSr|].
    (* the lock is free: the writer does not wait *)
    rewrite (proj2 HSr). cbn [andb].
    pose proof (writer_hs3 (N.to_nat (n / 65535) + 2) s (r_id (sreq (rsp r))) (take n rest) r w (proj1 HSr)) as A.
    destruct (writer_write_all (N.to_nat (n / 65535) + 2) s (r_id (sreq (rsp r))) (take n rest) w) as [[k|] w1|o w1];
      [contradiction| |exact A].
    apply IH. apply HSL3_ev. split; [exact A|apply HSr].
  - rewrite (proj2 HSr). destruct (rwriteable r); apply IH; apply HSL3_ev, HSr.
  - apply HSL3_ev, HSr.
  - apply HSL3_ev, HSr.
  - pose proof (await_input_hsl3 (io_fuel w 0) (Some n) r w HSr) as A.
    destruct (await_input maxc (io_fuel w 0) (Some n) r w) as [[[[c b]|k] r1] w1|o w1]; [| |exact A].
    + apply IH. apply HSL3_ev, HSL3_ev, A.
    + apply HSL3_ev, HSL3_ev, A.
  - (* 11 n is not a script that awaits its reads *)
    inversion NA.
Qed.

Lemma run_handler_hs3 strict role cur script : script_ok strict role cur script -> no_abandoned_read script ->
  forall f r w, HS3 r w -> rlock r = false ->
  match run_handler maxc f script r w with
  | Ok (_, r') w' => HS3 r' w'
  | Halt o _ => o <> ODeadlock
  end.
Proof.
  intros Hs NA f r w H L. pose proof (run_handler_hsl3 strict role cur script Hs NA f r w (conj H L)) as A.
  destruct (run_handler maxc f script r w) as [[x r'] w'|o w']; [apply A|exact A].
Qed.

(* ---- input.read(buf).await outside poll_input: Request::record_boundary, Token::parse_request ---- *)
Lemma await_read_inv3 k vm p q raw out : forall fuel sel L w, Q3 k vm p q raw out (wlog w) [] (segs w) ->
  (VB vm p q raw = true -> vm = MI) ->
  (forall E ge gm bb rest, flat E = [] -> segs w = E ++ (ge, gm, bb) :: rest -> bb <> [] -> gate_met (counts (wlog w)) ge gm) ->
  match await_read fuel sel L w with
  | Ok (inl b) w' => exists vm', (vm' = vm \/ (vm = MI /\ vm' = MB)) /\ Q3 k vm' p q raw out (wlog w') b (segs w')
  | Ok (inr _) w' => Q3 k vm p q raw out (wlog w') [] (segs w')
  | Halt o _ => o <> ODeadlock
  end.
Proof.
  induction fuel as [|f IH]; intros sel L w HI Hvm HG; [cbn [await_read]; discriminate|]. cbn [await_read].
  destruct (t_poll_read L w) as [pr w1] eqn:ET. pose proof (t_poll_read_segs _ _ _ _ ET) as S2.
  destruct (t_poll_read_rem _ _ _ _ ET) as (T1 & _). destruct pr as [[b|e]| |]; cbv beta iota in S2.
  - rewrite T1. destruct S2 as [(-> & E0 & HF & HS)|(E0 & ge & gm & bb & rest & n & HF & HS & Hbb & Hb & HS' & Hm)].
    + exists vm. split; [left; reflexivity|]. rewrite HS in HI. apply (Q3_skip _ _ _ _ _ _ _ _ E0 _ HF HI).
    + rewrite HS in HI. rewrite HS', Hb. apply (Q3_read _ _ _ _ _ _ _ E0 ge gm bb rest n HF Hbb Hm Hvm HI).
  - rewrite T1. destruct S2 as (E0 & HF & HS). rewrite HS in HI. apply (Q3_skip _ _ _ _ _ _ _ _ E0 _ HF HI).
  - unfold on_wake. destruct (sel && stopped (w_bump w1)); [discriminate|].
    destruct S2 as (E0 & HF & HS). apply IH.
    + change (wlog (w_bump w1)) with (wlog w1). change (segs (w_bump w1)) with (segs w1). rewrite T1.
      rewrite HS in HI. apply (Q3_skip _ _ _ _ _ _ _ _ E0 _ HF HI).
    + exact Hvm.
    + intros E ge gm bb rest HF' HS' Hbb. change (wlog (w_bump w1)) with (wlog w1). change (segs (w_bump w1)) with (segs w1) in HS'.
      rewrite T1. apply (HG (E0 ++ E) ge gm bb rest); [rewrite flat_map_app, HF, HF'; reflexivity| |exact Hbb].
      rewrite HS, HS', app_assoc. reflexivity.
  - exfalso. destruct S2 as (E0 & ge & gm & bb & rest & HF & HS & Hbb & Hn). apply Hn. apply (HG E0 ge gm bb rest HF HS Hbb).
Qed.

Lemma HS3_mk p1 vm wr lk ab w : pinv p1 -> bytes_ok (remaining w) -> no_fault (wscript w) -> SREL (abs p1) vm ->
  SQ3 (abs p1) vm (wlog w) [] (segs w) -> wholeF (wlog w) -> wholeF (output_buffer p1) -> HS3 (mkR p1 wr lk ab) w.
Proof.
  intros H1 H2 H3 HS H4 H5 H6. split; [exact H1|]. split; [exact H2|]. split; [exact H3|].
  split; [exists vm; split; [exact HS|exact H4]|]. split; [exact H5|exact H6].
Qed.

(* Request::record_boundary: a read inside the skip loop happens strictly inside a record, hence inside a segment
   the client has already opened *)
Lemma boundary_loop_hs3 : forall fuel new r w,
  pinv (rsp r) -> bytes_ok new -> len new <= sinput_space (rsp r) -> bytes_ok (remaining w) -> no_fault (wscript w) ->
  inv3 r w new -> wl r w ->
  match boundary_loop maxc fuel new r w with
  | Ok (_, r') w' => HS3 r' w'
  | Halt o _ => o <> ODeadlock
  end.
Proof.
  induction fuel as [|f IH]; intros new r w Hinv Hnew Hfit Hrem Hnf (vm & HS & HI) HWL; [cbn [boundary_loop]; discriminate|].
  rewrite ConnWrites.boundary_loop_S.
  pose proof (sparse_step maxc (rsp r) new None Hinv Hnew Hfit ltac:(intros H; contradiction)) as SS.
  pose proof (sparse_walk maxc (rsp r) new None Hinv Hnew) as SW.
  pose proof (sparse_struct (rsp r) new None vm Hinv HS) as SV.
  assert (PARSED : forall p1 s, sparse_ok maxc (rsp r) new None p1 s ->
            (exists o, output_buffer p1 = output_buffer (rsp r) ++ o /\ whole o /\
                       forall u, W (abs (rsp r)) (new ++ u) = padd (snd (counts o)) (W (abs p1) u)) ->
            (exists vm', SREL (abs p1) vm' /\ forall u, VA vm (abs (rsp r)) (new ++ u) = true -> VA vm' (abs p1) u = true) ->
            pinv p1 /\ (exists vm1, SREL (abs p1) vm1 /\ SQ3 (abs p1) vm1 (wlog w) [] (segs w)) /\ wholeF (output_buffer p1)).
  { intros p1 s SO (o & Eo & Ho & L) (vm1 & HS1 & LV). split; [apply (so_inv _ _ _ _ _ _ SO)|].
    split; [exists vm1; split; [exact HS1|apply (SQ3_sparse (rsp r) new p1 o vm vm1 _ _ Eo Ho L HS1 LV HI)]|].
    rewrite Eo. apply wholeF_app; [apply HWL|apply whole_F, Ho]. }
  assert (AFTER : forall p1 s, sparse_ok maxc (rsp r) new None p1 s ->
            (exists o, output_buffer p1 = output_buffer (rsp r) ++ o /\ whole o /\
                       forall u, W (abs (rsp r)) (new ++ u) = padd (snd (counts o)) (W (abs p1) u)) ->
            (exists vm', SREL (abs p1) vm' /\ forall u, VA vm (abs (rsp r)) (new ++ u) = true -> VA vm' (abs p1) u = true) ->
            (stuck (abs p1) \/ is_record_boundary p1 = true) ->
            match ConnWrites.bl_after maxc f r w p1 with
            | Ok (_, r') w' => HS3 r' w'
            | Halt o _ => o <> ODeadlock
            end).
  { intros p1 s SO SW1 SV1 Hstop. destruct (PARSED p1 s SO SW1 SV1) as ([RI1 A1] & (vm1 & HS1 & I1) & WL1).
    unfold ConnWrites.bl_after. cbv zeta. destruct (is_record_boundary p1) eqn:Eb.
    { apply (HS3_mk p1 vm1); try assumption; [split; assumption|apply HWL]. }
    destruct Hstop as [ST|Hc]; [|discriminate Hc].
    destruct (compress_views p1 RI1) as (V1 & V2 & V3 & V4 & V5 & V6).
    pose proof (compress_abs p1 RI1) as CA.
    assert (I2 : pinv (compress p1)) by (split; [exact V1|rewrite CA; apply compress_inv; exact A1]).
    assert (HS2 : SREL (abs (compress p1)) vm1) by (rewrite CA; apply (SREL_same (abs p1)); [reflexivity|reflexivity|exact HS1]).
    assert (Q2 : SQ3 (abs (compress p1)) vm1 (wlog w) [] (segs w)) by (rewrite CA; exact I1).
    pose proof (stuck_V (abs p1) vm1 ST Eb) as HV. unfold VA in HV. rewrite app_nil_r in HV.
    assert (Hvm : VB vm1 (a_prem (abs (compress p1))) (a_pad (abs (compress p1))) (a_raw (abs (compress p1))) = true -> vm1 = MI).
    { rewrite CA. cbn [acompress a_prem a_pad a_raw]. intros V. rewrite V in HV. discriminate HV. }
    assert (GATE : forall E ge gm bb rest, flat E = [] -> segs w = E ++ (ge, gm, bb) :: rest -> bb <> [] ->
              gate_met (counts (wlog w)) ge gm).
    { intros E ge gm bb rest HF HS0 Hbb. unfold SQ3 in I1. rewrite HS0 in I1.
      refine (Q3_block_mid _ _ _ _ _ _ _ E ge gm bb rest HF Hbb _ HV I1).
      destruct (stuck_W _ ST) as [_ H]. unfold W in H. rewrite app_nil_r in H. apply H. exact Eb. }
    pose proof (await_read_inv3 _ _ _ _ _ _ (io_fuel w 0) false (sinput_space (compress p1)) w Q2 Hvm GATE) as AR.
    pose proof (await_read_rem (io_fuel w 0) false (sinput_space (compress p1)) w) as RM.
    destruct (await_read (io_fuel w 0) false (sinput_space (compress p1)) w) as [[b|k] w1|o w1]; [| |exact AR].
    - destruct AR as (vm' & [->|[Hm _]] & AR); [|exfalso; apply (SREL_not_MI _ _ HS1 Hm)].
      destruct RM as (R1 & R2 & R3 & R4 & _). rewrite R3 in Hrem. apply bytes_ok_app in Hrem. destruct b as [|x b].
      + apply (HS3_mk _ vm1); [exact I2|apply Hrem|rewrite R2; exact Hnf|exact HS2|exact AR|rewrite R1; apply HWL|rewrite V4; exact WL1].
      + apply IH; [exact I2|apply Hrem|exact R4|apply Hrem|rewrite R2; exact Hnf|exists vm1; split; [exact HS2|exact AR]|].
        split; [rewrite R1; apply HWL|cbn [rsp]; rewrite V4; exact WL1].
    - destruct RM as (R1 & R2 & R3 & _).
      apply (HS3_mk _ vm1); [exact I2|rewrite R3; exact Hrem|rewrite R2; exact Hnf|exact HS2|exact AR|rewrite R1; apply HWL|rewrite V4; exact WL1]. }
  destruct (sparse maxc (rsp r) new None) as [p1 s|p1 e s|n] eqn:ESP; [| |discriminate].
  - apply (AFTER p1 s); [apply SS|exact SW|exact SV|apply (sparse_none_stop maxc (rsp r) new p1 s Hinv ESP)].
  - destruct SS as (SO & He & _).
    assert (ERR : HS3 (mkR p1 (rwriteable r) (rlock r) (raborted r)) w).
    { destruct (PARSED p1 s SO SW SV) as (J1 & (vm1 & J2 & J3) & J4). apply (HS3_mk p1 vm1); try assumption. apply HWL. }
    destruct e; try exact ERR.
    apply (AFTER p1 s SO SW SV). right. apply (err_at_boundary _ _ He).
Qed.

Lemma record_boundary_hs3 r w : HS3 r w ->
  match record_boundary maxc r w with
  | Ok (_, r') w' => HS3 r' w'
  | Halt o _ => o <> ODeadlock
  end.
Proof.
  intros H. unfold record_boundary. destruct (is_record_boundary (rsp r)); [exact H|].
  destruct H as (H1 & H2 & H3 & H4 & H5). apply boundary_loop_hs3; try assumption; [constructor|rewrite len_nil; lia].
Qed.

(* ---- Request::close ---- *)
(* what holds between requests: [new] are bytes read but not yet fed to the request parser; [g]: the segment of the next
   request has been opened *)
Definition PS3 (p : parser) (w : world) (new : bytes) : Prop :=
  bytes_ok (remaining w) /\ no_fault (wscript w) /\
  exists g, Q3 (sk (st p)) (rvm g (st p)) (sprem (st p)) (spad (st p)) (held p) [] (wlog w) new (segs w).

Lemma hdr0s_F id streams : wholeF (flat_map (fun s => hdr_encode s id 0 0) streams).
Proof. induction streams as [|s t IH]; [apply wholeF_nil|]. cbn [flat_map]. apply wholeF_app; [apply hdr0_F|exact IH]. Qed.

Lemma end_EC app ps id : EC (end_record app ps id) = 1.
Proof.
  change (end_record app ps id) with (enc_rcds [mkRcd RT_EndRequest id (end_encode app ps) []] ++ []).
  rewrite app_nil_r. unfold EC. rewrite counts_enc_fr; [reflexivity|].
  constructor; [|constructor]. split; vm_compute; reflexivity.
Qed.

(* every epilogue written by Request::close holds an EndRequest record *)
Lemma epilogue_EC id disc code streams ep : epilogue id disc code streams = Some ep -> 1 <= EC ep.
Proof.
  unfold epilogue. destruct (exit_to_end disc code) as [[app ps]|]; [|discriminate]. intros E. injection E as <-.
  rewrite (EC_app _ _ (hdr0s_F id streams) (end_F app ps id)), end_EC. lia.
Qed.

Lemma close_tail_hs3 r1 disc code w1 : HS3 r1 w1 ->
  match close_tail maxc r1 disc code w1 with
  | Ok (inl rp) w' => PS3 rp w' []
  | Ok (inr _) _ => True
  | Halt o _ => o <> ODeadlock
  end.
Proof.
  intros H. rewrite close_tail_unfold.
  destruct (set_stream (rsp r1) None) as [p2| |] eqn:E; [|discriminate|discriminate].
  pose proof (record_boundary_hs3 _ w1 (set_stream_hs3 r1 w1 None p2 (rwriteable r1) (rlock r1) (raborted r1) H E)) as RB.
  destruct (record_boundary maxc (mkR p2 (rwriteable r1) (rlock r1) (raborted r1)) w1) as [[[k2|] r3] w2|o w2];
    [exact I| |exact RB].
  pose proof (close_finish_spec r3 disc code w2) as CF.
  destruct (epilogue (r_id (sreq (rsp r3))) disc code (if rwriteable r3 then ROLE_OUTPUT_STREAMS else [])) as [ep|] eqn:Eep;
    [|rewrite CF; discriminate].
  destruct (close_finish r3 disc code w2) as [[rp|k] w'|o w']; unfold cf_post in CF; cbv zeta in CF.
  - destruct CF as ((Hsame & Hlog & Hsuf & _) & Hconv & _). unfold wlog_ext in Hlog.
    destruct RB as ([RI3 A3] & R2 & R3 & (vm3 & HS3' & R4) & [R5 R6]).
    split; [rewrite (same_but_io_remaining _ _ Hsame); exact R2|]. split; [apply (no_fault_suffix _ _ Hsuf R3)|].
    assert (Hsegs : segs w' = segs w2) by apply Hsame.
    destruct (close_p4_spec r3) as (Hsp & Ho4 & _). destruct (sp_same_views _ _ Hsp) as (_ & V2 & _ & V4 & _).
    assert (RI4 : RI (close_p4 r3)).
    { unfold close_p4. destruct (output_buffer (rsp r3)); [exact RI3|apply consume_output_RI; exact RI3]. }
    pose proof (into_request_parser_refines (close_p4 r3) RI4) as IR. rewrite Hconv in IR. cbn [absconv] in IR.
    unfold ainto_request_parser in IR. change (a_boundary (abs (close_p4 r3))) with (is_record_boundary (close_p4 r3)) in IR.
    rewrite V4 in IR. destruct (is_record_boundary (rsp r3)) eqn:Eb; cbn [negb] in IR; [|discriminate IR].
    destruct (negb (len (a_out (abs (close_p4 r3))) =? 0)); [discriminate IR|]. injection IR as <-. cbn [st held sk sprem spad].
    exists false. cbn [rvm].
    change (a_raw (abs (close_p4 r3))) with (raw_bytes (close_p4 r3)). rewrite V2, Hlog, Hsegs.
    unfold is_record_boundary in Eb. apply andb_true_iff in Eb. destruct Eb as [Ep Eq]. apply N.eqb_eq in Ep. apply N.eqb_eq in Eq.
    unfold SQ3 in R4. cbn [abs a_st a_prem a_pad a_raw a_out] in R4. rewrite Ep, Eq in R4.
    pose proof (epilogue_F _ _ _ _ _ Eep) as HepF. pose proof (epilogue_EC _ _ _ _ _ Eep) as HepE.
    destruct R4 as [R4m R4j]. split.
    + unfold Qm in *. apply (Q_pos (kst (sst (rsp r3))) 0 0 false 0 0); [intros x; apply WK_k0|].
      rewrite app_assoc. apply Q_log; [apply wholeF_app; assumption|apply wholeF_nil|exact HepF|].
      apply (Q_flush _ _ _ _ (output_buffer (rsp r3)) _ _ _ (output_buffer (rsp r3)) []); [symmetry; apply app_nil_r|exact R4m].
    + apply (J_close vm3 0 0 _ (output_buffer (rsp r3)) (wlog w2)); [apply (SREL_weak _ _ HS3')|apply EC_mono| |exact R4j].
      rewrite app_assoc, (EC_app _ ep (wholeF_app _ _ R5 R6) HepF). lia.
  - exact I.
  - destruct o; try contradiction; discriminate.
Qed.

Lemma do_close_hs3 r disc code w : HS3 r w ->
  match do_close maxc r disc code w with
  | Ok (inl rp) w' => PS3 rp w' []
  | Ok (inr _) _ => True
  | Halt o _ => o <> ODeadlock
  end.
Proof.
  intros H. unfold do_close. pose proof (do_writeable_hs3 r w H) as DW.
  destruct (do_writeable maxc r w) as [[[k|] r1] w1|o w1]; [| |exact DW].
  - destruct ((k =? EK_Aborted) && raborted r1); [apply close_tail_hs3; exact DW|exact I].
  - apply close_tail_hs3; exact DW.
Qed.

End Layers3.

(* ------------------------------------------------------------------------------------------ *)
(* Part F: Token::parse_request, Token::run, the client of the theorem, the theorem             *)
(* ------------------------------------------------------------------------------------------ *)
Lemma next_first role :
  match role_input_streams role with
  | [] => next_input_stream role None = None
  | x :: _ => next_input_stream role None = Some x
  end.
Proof.
  destruct (role_cases role) as [->|[->|[->|[H1 H2]]]]; try reflexivity. rewrite H1. apply H2.
Qed.

Lemma SREL_init B sp parsed raw out rq prem pad st :
  SREL (mkA B sp parsed raw out rq (next_input_stream (r_role rq) None) prem pad st) (done_mode (r_id rq) (r_role rq)).
Proof.
  unfold SREL, in_role, done_mode. cbn [a_req a_stream]. pose proof (next_first (r_role rq)) as H.
  destruct (role_input_streams (r_role rq)) as [|x t] eqn:E.
  - right. split; [reflexivity|exact H].
  - left. split; [reflexivity|]. rewrite H. left. reflexivity.
Qed.

Lemma rvm_open g s : is_final s = false -> rvm g s = MI -> rvm true s = MB.
Proof.
  destruct s as [|p q|vars p q|i p q|i p q|i vars p q|r p q|r|e]; cbn [rvm is_final]; intros Hf H;
    try reflexivity; try discriminate H; try discriminate Hf. exfalso. apply (done_mode_not_MI _ _ H).
Qed.

Section Loop3.
Variable norm : bytes -> bytes.
Variable maxc : N.

(* between requests: every read happens after the whole output of the parse call just made has been written, and
   that call has consumed every complete record it held *)
Lemma parse_request_ps3 : forall fuel p new w, parser_ok p -> bytes_ok new -> len new <= input_space p -> PS3 p w new ->
  match parse_request norm maxc fuel p new w with
  | Ok (inl s0) w' => forall wr lk ab, HS3 (mkR s0 wr lk ab) w'
  | Ok (inr _) _ => True
  | Halt o _ => o <> ODeadlock
  end.
Proof.
  induction fuel as [|f IH]; intros p new w Hp Hn Hl (Hrem & Hnf & g & HQ); [cbn [parse_request]; discriminate|].
  rewrite parse_request_iter.
  destruct (parse_facts norm maxc p new Hp Hn Hl) as (p' & d & o & EP & Hp' & Hd & _). rewrite EP.
  pose proof (await_write_all_spec (io_fuel w (len o)) true o w) as WS1.
  destruct (await_write_all (io_fuel w (len o)) true o w) as [[k|] w1|o1 w1]; [exact I| |].
  2:{ destruct o1; try contradiction; discriminate. }
  destruct WS1 as (Hsame & Hlog & Hsuf & _). unfold wlog_ext in Hlog.
  assert (Hrem1 : bytes_ok (remaining w1)) by (rewrite (same_but_io_remaining _ _ Hsame); exact Hrem).
  assert (Hnf1 : no_fault (wscript w1)) by (apply (no_fault_suffix _ _ Hsuf Hnf)).
  assert (Hsegs : segs w1 = segs w) by apply Hsame.
  assert (STEP : is_fatal (st p') = false ->
            Q3 (sk (st p')) (rvm g (st p')) (sprem (st p')) (spad (st p')) (held p') [] (wlog w1) [] (segs w1) /\
            (d = false -> fst (WS (st p') (held p')) = 0) /\
            (d = false -> VS g (st p') (held p') = true -> rvm g (st p') = MI)).
  { intros Hnfat. destruct (parse_law norm maxc p new p' d o Hp Hn Hl EP Hnfat) as (Wo & L & S).
    destruct (parse_vlaw norm maxc g p new p' d o Hp Hn Hl EP Hnfat) as (LV & SV).
    split; [|split; [exact S|exact SV]]. rewrite Hlog, Hsegs.
    pose proof (Q3_parse (sk (st p)) (rvm g (st p)) (sprem (st p)) (spad (st p)) (held p) [] (wlog w) new (segs w)
                  (sk (st p')) (rvm g (st p')) (sprem (st p')) (spad (st p')) (held p') o Wo L LV HQ) as H1. cbn [app] in H1.
    apply (Q3_flush _ _ _ _ _ o _ _ _ o []); [symmetry; apply app_nil_r|exact H1]. }
  destruct d.
  - destruct (into_stream_parser p') as [s0|e] eqn:EI; [|exact I].
    pose proof EI as EI'. unfold into_stream_parser in EI'.
    destruct (st p') as [| | | | | | |rq|e] eqn:Est; try discriminate EI'.
    destruct (STEP eq_refl) as [Q1 _]. cbn [sk sprem spad rvm] in Q1.
    destruct Hp' as (_ & _ & Hh & Hc & _).
    destruct (into_stream_parser_init p' rq Est Hc) as (p0 & E0 & R0 & A0). rewrite EI in E0. injection E0 as <-.
    intros wr lk ab. apply (HS3_mk s0 (done_mode (r_id rq) (r_role rq))).
    + apply (into_stream_parser_pinv p' rq s0 Est Hc Hh EI).
    + exact Hrem1.
    + exact Hnf1.
    + rewrite A0. apply SREL_init.
    + unfold SQ3. rewrite A0. cbn [a_st a_prem a_pad a_raw a_out kst]. exact Q1.
    + pose proof (Q3_world _ _ _ _ _ _ _ _ _ Q1) as H. rewrite app_nil_r in H. exact H.
    + pose proof (f_equal a_out A0) as Eo. cbn [abs a_out] in Eo. rewrite Eo. apply wholeF_nil.
  - assert (Hnfin : is_final (st p') = false) by (symmetry; exact Hd).
    assert (Hnfat : is_fatal (st p') = false) by (destruct (st p'); try reflexivity; discriminate Hd).
    destruct (STEP Hnfat) as (Q1 & S1 & SV). specialize (S1 eq_refl). specialize (SV eq_refl).
    assert (GATE : forall E ge gm bb rest, flat E = [] -> segs w1 = E ++ (ge, gm, bb) :: rest -> bb <> [] ->
              gate_met (counts (wlog w1)) ge gm).
    { intros E ge gm bb rest HF HS Hbb. rewrite HS in Q1. apply (Q3_block _ _ _ _ _ _ E ge gm bb rest HF Hbb S1 SV Q1). }
    pose proof (await_read_inv3 _ _ _ _ _ _ (io_fuel w1 0) true (input_space p') w1 Q1 SV GATE) as AR.
    pose proof (await_read_rem (io_fuel w1 0) true (input_space p') w1) as RM.
    destruct (await_read (io_fuel w1 0) true (input_space p') w1) as [[b|k] w2|o2 w2]; [|exact I|exact AR].
    destruct b as [|x b]; [exact I|]. destruct RM as (R1 & R2 & R3 & R4 & _).
    rewrite R3 in Hrem1. apply bytes_ok_app in Hrem1.
    apply IH; [exact Hp'|apply Hrem1|exact R4|]. split; [apply Hrem1|]. split; [rewrite R2; exact Hnf1|].
    destruct AR as (vm' & [->|[Hm ->]] & AR); [exists g; exact AR|]. exists true. rewrite (rvm_open g _ Hnfin Hm). exact AR.
Qed.

(* Token::run never ends in the wait-for cycle *)
Lemma run_loop_nd3 scripts : scripts_ok true scripts -> Forall no_abandoned_read scripts ->
  forall fuel p served w, parser_ok p -> world_ok w -> PS3 p w [] ->
  fst (run_loop norm maxc fuel p scripts served w) <> ODeadlock.
Proof.
  intros Hscripts Hna. induction fuel as [|f IH]; intros p served w Hp Wok HPS; [cbn [run_loop fst]; discriminate|].
  cbn [run_loop]. destruct (stopped w); [cbn [fst]; discriminate|].
  pose proof (parse_request_ok norm maxc (io_fuel w 0) p [] w Hp Wok ltac:(apply Forall_nil) ltac:(rewrite len_nil; lia)
                ltac:(rewrite io_fuel_eq; lia)) as PR.
  pose proof (parse_request_ps3 (io_fuel w 0) p [] w Hp ltac:(constructor) ltac:(rewrite len_nil; lia) HPS) as PN.
  unfold preq_post in PR.
  destruct (parse_request norm maxc (io_fuel w 0) p [] w) as [[s0|k] w1|o w1]; [|cbn [fst]; discriminate|cbn [fst]; exact PN].
  destruct PR as (G0 & S1 & B0 & St0 & _).
  set (role := r_role (sreq s0)) in *.
  set (r0 := mkR s0 (len (role_input_streams role) <=? 1) false false).
  assert (GR0 : rgood r0).
  { split; [exact G0|]. unfold wr_inv. subst r0. cbn [rsp rwriteable]. fold role. rewrite St0. apply wr_inv_init. }
  set (w2 := fold_left _ _ _).
  assert (S2 : wstep w1 w2).
  { subst w2. eapply wstep_trans; [|apply wstep_fold_ev]. eapply wstep_trans; apply wstep_ev. }
  assert (HS2 : HS3 r0 w2).
  { subst w2. match goal with |- HS3 _ (fold_left _ ?env ?w) => destruct (fold_ev_fields env w) as (F1 & F2 & F3 & F4) end.
    apply (HS3_world r0 w1); [rewrite F1; reflexivity|rewrite F2; reflexivity|rewrite F3; reflexivity|rewrite F4; reflexivity|].
    apply PN. }
  set (script := nth served scripts (last scripts [])).
  assert (Hscript : script_ok true role (next_input_stream role None) script).
  { subst script. apply (Forall_nth_default (fun s => forall role, script_ok true role (next_input_stream role None) s));
      [exact Hscripts|]. apply Forall_last; [exact Hscripts|]. intros role'. constructor. }
  pose proof (run_handler_ok norm maxc LAny true role _ script Hscript I (length script + 2) r0 w2 ltac:(lia) GR0
                (ws_ok _ _ S2 (ws_ok _ _ S1 Wok)) eq_refl St0 I) as RH.
  assert (Hnascript : no_abandoned_read script).
  { subst script. apply Forall_nth_default; [exact Hna|]. apply Forall_last; [exact Hna|constructor]. }
  pose proof (run_handler_hs3 maxc true role _ script Hscript Hnascript (length script + 2) r0 w2 HS2 eq_refl) as RN.
  unfold hpost in RH.
  destruct (run_handler maxc (length script + 2) script r0 w2) as [[st r1] w3|o w3]; [|cbn [fst]; exact RN].
  destruct RH as ((G1 & S3 & _) & Hst).
  assert (Wok3 : world_ok w3) by (apply (ws_ok _ _ S3), (ws_ok _ _ S2), (ws_ok _ _ S1), Wok).
  assert (CLOSE : forall d c, In d EXITSTATUS_VALUES ->
    fst (match do_close maxc r1 d c w3 with
         | Halt o w4 => (o, w4)
         | Ok (inl rp) w4 => run_loop norm maxc f rp scripts (S served) w4
         | Ok (inr _) w4 => (ORet, w4)
         end) <> ODeadlock).
  { intros d c Hd. pose proof (do_close_ok norm maxc r1 d c w3 G1 Wok3 Hd) as DC.
    pose proof (do_close_hs3 maxc r1 d c w3 RN) as DN. unfold close_post in DC.
    destruct (do_close maxc r1 d c w3) as [[rp|k] w4|o w4].
    - destruct DC as (C1 & C2 & C3 & C4). apply IH; [exact C1|apply (ws_ok _ _ C3 Wok3)|exact DN].
    - cbn [fst]. discriminate.
    - cbn [fst]. exact DN. }
  destruct st as [[d c]|k].
  - apply CLOSE. exact Hst.
  - destruct ((k =? EK_Aborted) && raborted r1); [apply CLOSE; apply exit_complete_in|cbn [fst]; discriminate].
Qed.
End Loop3.

(* ---- the client of the theorem: every segment is a whole request ---- *)
Lemma VB_junk vm rs w : Forall rcd_ok rs -> Forall (fun r => forall w', vstep_r vm r w' = Some vm) rs ->
  VB vm 0 0 (enc_rcds rs ++ w) = VB vm 0 0 w.
Proof.
  induction 1 as [|r rs Hr Hrs IH]; intros HK; [reflexivity|]. inversion HK as [|? ? K1 K2]; subst.
  rewrite enc_rcds_cons, <- app_assoc, (VB_record vm r _ Hr), K1. apply IH. exact K2.
Qed.

Lemma nba_eqb r : no_begin_abort r -> (rt r =? RT_AbortRequest) = false /\ (rt r =? RT_BeginRequest) = false.
Proof. intros [H1 H2]. split; apply N.eqb_neq; assumption. Qed.

Lemma junk_plain vm r w : no_begin_abort r -> (vm = MI \/ vm = MB \/ vm = MD) -> vstep_r vm r w = Some vm.
Proof.
  intros Hn Hvm. destruct (nba_eqb r Hn) as [Ea Eb]. unfold vstep_r, vstep. rewrite Ea, Eb.
  destruct (known_type (rt r)); [|reflexivity]. destruct Hvm as [->|[->| ->]]; reflexivity.
Qed.

Lemma junk_MP id role r w : no_begin_abort r -> ~ (rid r = id /\ (rt r = RT_Params \/ rt r = RT_AbortRequest)) ->
  vstep_r (MP id role) r w = Some (MP id role).
Proof.
  intros Hn Hj. destruct (nba_eqb r Hn) as [Ea Eb]. unfold vstep_r, vstep. rewrite Ea, Eb.
  destruct (known_type (rt r)); [|reflexivity].
  destruct (N.eqb_spec (rt r) RT_Params) as [Et|Et]; [|reflexivity].
  destruct (N.eqb_spec (rid r) id) as [Ei|Ei]; [|reflexivity]. exfalso. apply Hj. split; [exact Ei|left; exact Et].
Qed.

Lemma junks_plain vm rs : Forall no_begin_abort rs -> (vm = MI \/ vm = MB \/ vm = MD) ->
  Forall (fun r => forall w', vstep_r vm r w' = Some vm) rs.
Proof. intros H Hvm. rewrite Forall_forall in *. intros r Hr w'. apply junk_plain; [apply H, Hr|exact Hvm]. Qed.

Lemma junks_MP id role rs : Forall no_begin_abort rs -> Forall (params_junk_ok id) rs ->
  Forall rcd_ok rs /\ Forall (fun r => forall w', vstep_r (MP id role) r w' = Some (MP id role)) rs.
Proof.
  intros H1 H2. rewrite Forall_forall in H1, H2. split; rewrite Forall_forall; intros r Hr; destruct (H2 r Hr) as [A B]; [exact A|].
  intros w'. apply junk_MP; [apply H1, Hr|exact B].
Qed.

Lemma enc_one r w : enc_rcds [r] ++ w = enc_rcd r ++ w.
Proof. cbn [enc_rcds flat_map]. rewrite app_nil_r. reflexivity. Qed.

Lemma params_rcd_ok' id body pad : id < 65536 -> len body < 65536 -> len pad < 256 -> bytes_ok body -> bytes_ok pad ->
  rcd_ok (mkRcd RT_Params id body pad).
Proof. intros. unfold rcd_ok. cbn [rt rid rbody rpad]. unfold RT_Params. repeat split; try assumption; lia. Qed.

Lemma VB_pieces id role : id < 65536 -> forall ps w, Forall (piece_ok id) ps ->
  Forall (fun p => Forall no_begin_abort (pjunk p)) ps ->
  VB (MP id role) 0 0 (enc_rcds (flat_map (piece_rcds id) ps) ++ w) = VB (MP id role) 0 0 w.
Proof.
  intros Hid. induction ps as [|p t IH]; intros w Hok Hnb; [reflexivity|].
  inversion Hok as [|? ? Hp Hok']; inversion Hnb as [|? ? Hn Hnb']; subst.
  destruct Hp as (P1 & P2 & P3 & P4 & P5). destruct (junks_MP id role (pjunk p) Hn P1) as [J1 J2].
  cbn [flat_map]. unfold piece_rcds at 1. rewrite !enc_rcds_app, <- !app_assoc.
  rewrite (VB_junk _ _ _ J1 J2), enc_one.
  rewrite (VB_record _ _ _ (params_rcd_ok' id (pbody p) (ppad p) Hid ltac:(lia) P3 P4 P5)).
  unfold vstep_r, vstep. cbn [rt rid rbody rpad]. change (known_type RT_Params) with true.
  change (RT_Params =? RT_AbortRequest) with false. change (RT_Params =? RT_BeginRequest) with false.
  rewrite !N.eqb_refl. destruct (N.eqb_spec (len (pbody p)) 0) as [Hz|_]; [lia|]. cbn [andb]. apply IH; assumption.
Qed.

Lemma last_cases role :
  (last_opt role = None /\ role_input_streams role = []) \/
  (exists tl, last_opt role = Some tl /\ In tl (role_input_streams role) /\ role_input_streams role <> [] /\
              forall t, is_input_stream t = true -> t <> tl -> spec_cmp role t (Some tl) = Lt).
Proof.
  unfold last_opt. destruct (role_streams_cases role) as [Hr|[Hr|Hr]]; rewrite Hr; cbn [rev app].
  - right. exists 5. split; [reflexivity|]. split; [left; reflexivity|]. split; [discriminate|].
    intros t Ht Hne. apply is_input_cases in Ht. destruct Ht as [-> | ->]; [contradiction|]. unfold spec_cmp. rewrite Hr. reflexivity.
  - left. split; reflexivity.
  - right. exists 8. split; [reflexivity|]. split; [right; left; reflexivity|]. split; [discriminate|].
    intros t Ht Hne. apply is_input_cases in Ht. destruct Ht as [-> | ->]; [|contradiction]. unfold spec_cmp. rewrite Hr. reflexivity.
Qed.

(* the stream records of a request: the terminator of the role's last input stream is among them *)
Lemma VB_srs role id tl : last_opt role = Some tl ->
  (forall t, is_input_stream t = true -> t <> tl -> spec_cmp role t (Some tl) = Lt) ->
  forall rs w, Forall rcd_ok rs -> Forall no_begin_abort rs ->
  ended_rcds role id (Some tl) rs = true -> VB (MS id role) 0 0 (enc_rcds rs ++ w) = VB MD 0 0 w.
Proof.
  intros HL HLt. induction rs as [|r t IH]; intros w Hok Hnb He; [discriminate He|].
  inversion Hok as [|? ? Hr Hok']; inversion Hnb as [|? ? Hn Hnb']; subst.
  rewrite enc_rcds_cons, <- app_assoc, (VB_record _ r _ Hr).
  cbn [ended_rcds] in He. unfold rcd_effect_on in He. destruct (nba_eqb r Hn) as [Ea Eb].
  unfold vstep_r, vstep. rewrite Ea, Eb. rewrite Ea in He. cbn [andb] in He.
  assert (EL : is_last role (rt r) = (rt r =? tl)) by (unfold is_last; rewrite HL; reflexivity).
  destruct (known_type (rt r)) eqn:Hk.
  - destruct (is_input_stream (rt r) && (rid r =? id)) eqn:Hin; cbn [andb].
    + apply andb_true_iff in Hin. destruct Hin as [Hti _]. rewrite EL.
      destruct (N.eqb_spec (rt r) tl) as [Et|Et]; cbn [andb].
      * unfold spec_cmp in He. rewrite Et, N.eqb_refl in He.
        destruct (len (rbody r) =? 0).
        -- apply VB_junk; [exact Hok'|]. apply junks_plain; [exact Hnb'|right; right; reflexivity].
        -- apply IH; assumption.
      * rewrite (HLt _ Hti Et) in He. apply IH; assumption.
    + apply IH; assumption.
  - destruct (unknown_not_special _ Hk) as (Hi & _). rewrite Hi in He. cbn [andb] in He. apply IH; assumption.
Qed.

Lemma creq_rcds_ok c : creq_ok c -> Forall rcd_ok (creq_rcds c).
Proof.
  intros ((P1 & P2 & P3 & P4 & P5 & P6 & P7 & P8 & P9 & P10) & _ & _ & _ & Hs & _).
  unfold creq_rcds, preamble_rcds. repeat (apply Forall_app; split); try exact Hs.
  - rewrite Forall_forall in *. intros r Hr. apply (P1 r Hr).
  - constructor; [|constructor]. apply (begin_rcd_ok (w_id (c_pre c)) (w_role (c_pre c)) (w_flags (c_pre c)) (w_beginpad (c_pre c)));
      try assumption; lia.
  - induction P7 as [|p t Hp Ht IH]; [constructor|]. cbn [flat_map]. apply Forall_app. split; [|exact IH].
    destruct Hp as (Q1 & Q2 & Q3 & Q4 & Q5). unfold piece_rcds. apply Forall_app. split.
    + rewrite Forall_forall in *. intros r Hr. apply (Q1 r Hr).
    + constructor; [|constructor]. apply params_rcd_ok'; try assumption; lia.
  - rewrite Forall_forall in *. intros r Hr. apply (P8 r Hr).
  - constructor; [|constructor]. apply params_rcd_ok'; try assumption; try lia; [rewrite len_nil; lia|constructor].
Qed.

(* a whole request of this client, walked from "waiting for the BeginRequest", is complete *)
Lemma creq_VB c : creq_ok c -> VB MB 0 0 (enc_rcds (creq_rcds c)) = true.
Proof.
  intros ((P1 & P2 & P3 & P4 & P5 & P6 & P7 & P8 & P9 & P10) & Hni & Hnp & Hne & Hs & Hsn & Hend).
  set (id := w_id (c_pre c)) in *. set (role := w_role (c_pre c)) in *.
  unfold creq_rcds, preamble_rcds. fold id role. rewrite <- (app_nil_r (enc_rcds _)). rewrite !enc_rcds_app, <- !app_assoc.
  (* records before the BeginRequest *)
  rewrite VB_junk; [|rewrite Forall_forall in *; intros r Hr; apply (P1 r Hr)|apply junks_plain; [exact Hni|right; left; reflexivity]].
  (* the BeginRequest *)
  rewrite enc_one.
  rewrite (VB_record _ _ _ (begin_rcd_ok id role (w_flags (c_pre c)) (w_beginpad (c_pre c)) ltac:(lia) P4 P5 P6)).
  unfold begin_rcd, vstep_r at 1, vstep. cbn [rt rid rbody rpad]. change (known_type RT_BeginRequest) with true.
  change (RT_BeginRequest =? RT_AbortRequest) with false. change (RT_BeginRequest =? RT_BeginRequest) with true.
  change (len (begin_encode role (w_flags (c_pre c)))) with 8. change (8 =? 8) with true.
  assert (Hlen : forall x, 8 <=? len (begin_encode role (w_flags (c_pre c)) ++ x) = true).
  { intros x. rewrite len_app. change (len (begin_encode role (w_flags (c_pre c)))) with 8. apply N.leb_le. lia. }
  assert (Htk : forall x, take 8 (begin_encode role (w_flags (c_pre c)) ++ x) = begin_encode role (w_flags (c_pre c))).
  { intros x. change 8 with (len (begin_encode role (w_flags (c_pre c)))). apply take_len_app. }
  rewrite Hlen, Htk. cbn [andb]. rewrite (begin_roundtrip role _ P3 P4).
  destruct (N.eqb_spec id 0) as [Hz|_]; [lia|].
  (* the Params records *)
  rewrite (VB_pieces id role ltac:(lia) _ _ P7 Hnp).
  destruct (junks_MP id role _ Hne P8) as [J1 J2]. rewrite (VB_junk _ _ _ J1 J2), enc_one.
  rewrite (VB_record _ _ _ (params_rcd_ok' id [] (w_endpad (c_pre c)) ltac:(lia) ltac:(rewrite len_nil; lia) P9 ltac:(constructor) P10)).
  unfold vstep_r at 1, vstep. cbn [rt rid rbody rpad]. change (known_type RT_Params) with true.
  change (RT_Params =? RT_AbortRequest) with false. change (RT_Params =? RT_BeginRequest) with false.
  rewrite !N.eqb_refl. change (len (@nil N) =? 0) with true. cbn [andb].
  (* the stream records *)
  unfold done_mode. destruct (last_cases role) as [[HL Hr]|(tl & HL & Hin & Hne' & HLt)].
  - rewrite Hr. rewrite VB_junk; [reflexivity|exact Hs|apply junks_plain; [exact Hsn|right; right; reflexivity]].
  - destruct (role_input_streams role) as [|x t] eqn:Er; [contradiction|].
    rewrite (VB_srs role id tl HL HLt _ _ Hs Hsn); [reflexivity|].
    rewrite Forall_forall in Hend. apply Hend. exact Hin.
Qed.

Lemma creq_seg_ok c : creq_ok c -> seg_ok (enc_rcds (creq_rcds c)).
Proof.
  intros H. pose proof (creq_VB c H) as V. split.
  - intros E. rewrite E in V. discriminate V.
  - intros p q x Hx. rewrite (VB_app_MI _ p q x _ (le_n _) Hx). exact V.
Qed.

Lemma client_tail_ok : forall cs done sofar, client_segs done sofar cs -> tail_ok done (enc_client cs).
Proof.
  induction cs as [|[[ge gm] c] t IH]; intros done sofar H; [exact I|].
  cbn [client_segs] in H. destruct H as (-> & _ & Hc & H). cbn [enc_client map fst snd tail_ok].
  split; [reflexivity|]. split; [apply creq_seg_ok, Hc|apply (IH _ _ H)].
Qed.

Definition peer_of (cs : list (N * N * creq)) : list (N * N * list rcd) :=
  map (fun s => (0, snd (fst s), creq_rcds (snd s))) cs.

Lemma client_peer : forall cs done sofar, client_segs done sofar cs -> peer_segs sofar (peer_of cs).
Proof.
  induction cs as [|[[ge gm] c] t IH]; intros done sofar H; [exact I|].
  cbn [client_segs] in H. destruct H as (_ & Hgm & Hc & H). cbn [peer_of map fst snd peer_segs].
  split; [reflexivity|]. split; [exact Hgm|]. split; [apply creq_rcds_ok, Hc|apply (IH _ _ H)].
Qed.

Lemma zero_ge_client cs : zero_ge (enc_client cs) = enc_segs (peer_of cs).
Proof.
  unfold zero_ge, enc_client, enc_segs, peer_of. rewrite !map_map. apply map_ext. intros [[ge gm] c]. reflexivity.
Qed.

Lemma Q3_init cs : client_segs 0 0 cs -> Q3 false MI 0 0 [] [] [] [] (enc_client cs).
Proof.
  intros H. split.
  - unfold Qm. rewrite zero_ge_client. apply Q_init. apply (client_peer cs 0 0 H).
  - pose proof (client_tail_ok cs 0 0 H) as HT. intros E0 ge gm b rest Es HF Hb.
    pose proof (tail_ok_head _ _ _ _ _ HT Es HF) as ->. cbn [app] in Es. rewrite Es in HT.
    cbn [tail_ok] in HT. destruct HT as (-> & Hs & HT). split; [exact HT|right].
    split; [reflexivity|]. split; [exact Hs|]. cbn [app bonus]. lia.
Qed.

Lemma client_world : forall cs done sofar, client_segs done sofar cs ->
  Forall (fun s : N * N * bytes => bytes_ok (snd s)) (enc_client cs).
Proof.
  induction cs as [|[[ge gm] c] t IH]; intros done sofar H; [constructor|]. cbn [client_segs] in H. destruct H as (_ & _ & Hc & H).
  cbn [enc_client map]. constructor; [|apply (IH _ _ H)]. cbn [snd]. apply whole_bytes_ok.
  exists (creq_rcds c). split; [apply creq_rcds_ok, Hc|reflexivity].
Qed.

Theorem client_never_deadlocks : client_never_deadlocks_stmt.
Proof.
  intros norm maxc scripts B cs w0 HB Hs Hna Hsegs Hcl Hlog Hnf.
  assert (Wok : world_ok w0) by (unfold world_ok; rewrite Hsegs; apply (client_world cs 0 0 Hcl)).
  destruct (run_loop_total norm maxc scripts B w0 Wok Hs HB) as (w & [E|E]); [rewrite E; reflexivity|].
  exfalso. apply (run_loop_nd3 norm maxc scripts Hs Hna (nb w0 + 4) (new_parser B) 0%nat w0 (new_parser_ok B HB) Wok);
    [|rewrite E; reflexivity].
  split; [apply world_ok_remaining; exact Wok|]. split; [exact Hnf|]. exists false.
  rewrite Hlog, Hsegs. cbn [new_parser st held sk sprem spad rvm]. apply Q3_init. exact Hcl.
Qed.
Print Assumptions client_never_deadlocks.


(* ------------------------------------------------------------------------------------------ *)
(* Part G: an instance: two requests (KeepConn) in two segments; the client releases the second request only after it
   has counted the EndRequest of the first                                                      *)
(* ------------------------------------------------------------------------------------------ *)
Definition ex3_c (body : bytes) : creq :=
  mkCReq (mkPreamble [] 1 ROLE_Responder FLAG_KeepConn [] [] [] [])
         [ mkRcd RT_Stdin 1 body [0; 0; 0; 0; 0]; mkRcd RT_Stdin 1 [] [] ].
(* segment 2 is released once the client has counted [ge] EndRequest records *)
Definition ex3_cs (ge : N) : list (N * N * creq) := [ (0, 0, ex3_c [97; 98; 99]); (ge, 0, ex3_c [100; 101]) ].
Definition ex3_w (ge : N) : world := mkW [] [] (enc_client (ex3_cs ge)) [] 0 1 0 false false [].
(* every handler reads Stdin to the end, then writes "hi" to Stdout *)
Definition ex3_scripts : list (list N) := [[2; 6; 6; 2; 104; 105]].


Lemma ex3_creq_ok body : bytes_okb body = true -> (0 <? len body) && (len body <? 65536) = true -> creq_ok (ex3_c body).
Proof.
  intros Hb Hl. apply andb_true_iff in Hl. destruct Hl as [L1 L2]. apply N.ltb_lt in L1. apply N.ltb_lt in L2.
  unfold creq_ok, ex3_c. cbn [c_pre c_srs w_idle w_pieces w_endjunk w_role w_id].
  split.
  { unfold preamble_ok. cbn [w_idle w_id w_role w_flags w_beginpad w_pieces w_endjunk w_endpad].
    repeat split; try constructor; try (vm_compute; reflexivity). }
  split; [constructor|]. split; [constructor|]. split; [constructor|]. split.
  { constructor; [|constructor; [|constructor]].
    - unfold rcd_ok. cbn [rt rid rbody rpad]. repeat split; try (vm_compute; reflexivity); try exact L2.
      + apply bytes_okb_ok. exact Hb.
      + apply bytes_okb_ok. reflexivity.
    - unfold rcd_ok. cbn [rt rid rbody rpad]. repeat split; try (vm_compute; reflexivity); constructor. }
  split.
  { constructor; [|constructor; [|constructor]]; split; cbn [rt]; discriminate. }
  change (role_input_streams ROLE_Responder) with [RT_Stdin]. constructor; [|constructor].
  cbn [ended_rcds]. unfold rcd_effect_on. cbn [rt rid rbody].
  change (is_input_stream RT_Stdin && (1 =? 1)) with true. cbv iota.
  change (spec_cmp ROLE_Responder RT_Stdin (Some RT_Stdin)) with Eq. cbv iota.
  destruct (N.eqb_spec (len body) 0) as [Hz|_]; [lia|]. reflexivity.
Qed.

(* the hypotheses of the theorem hold for it *)
Example ex3_hyps :
  64 < SIZE_LIMIT - 8 /\ scripts_ok true ex3_scripts /\ Forall no_abandoned_read ex3_scripts /\
  segs (ex3_w 1) = enc_client (ex3_cs 1) /\ client_segs 0 0 (ex3_cs 1) /\
  wlog (ex3_w 1) = [] /\ no_fault (wscript (ex3_w 1)).
Proof.
  split; [vm_compute; reflexivity|]. split.
  { constructor; [|constructor]. intros role. apply SO_read_all. apply (SO_write true role _ 6 2 [104; 105]). apply SO_nil. }
  split.
  { constructor; [|constructor]. apply NA_read_all. apply (NA_write 6 2 [104; 105]). apply NA_nil. }
  split; [reflexivity|]. split.
  { cbn [client_segs ex3_cs]. split; [reflexivity|]. split; [lia|]. split; [apply ex3_creq_ok; reflexivity|].
    split; [reflexivity|]. split; [vm_compute; discriminate|]. split; [apply ex3_creq_ok; reflexivity|exact I]. }
  split; [reflexivity|constructor].
Qed.

(* the run: both handlers receive their input (so the second segment was delivered: its gate was met by the EndRequest of
   the first request), the connection task returns at the end of the input; the log holds two EndRequest records *)
Example ex3_returns :
  let r := run_loop (fun b => b) 10 (nb (ex3_w 1) + 4) (new_parser 64) ex3_scripts 0 (ex3_w 1) in
  fst r = ORet /\ counts (wlog (snd r)) = (2, 0) /\ remaining (snd r) = [] /\
  In [97; 98; 99] (events (snd r)) /\ In [100; 101] (events (snd r)).
Proof. vm_compute. repeat split; try reflexivity; auto 12. Qed.

(* ... and by the theorem, for every normalisation function and every max_conns *)
Example ex3_never_deadlocks norm maxc :
  fst (run_loop norm maxc (nb (ex3_w 1) + 4) (new_parser 64) ex3_scripts 0 (ex3_w 1)) = ORet.
Proof.
  destruct ex3_hyps as (H1 & H2 & H2' & H3 & H4 & H5 & H6).
  exact (client_never_deadlocks norm maxc ex3_scripts 64 (ex3_cs 1) (ex3_w 1) H1 H2 H2' H3 H4 H5 H6).
Qed.

(* the hypothesis on the gates matters: a client that waits for two EndRequest records after one request is waited for in
   vain, with its second request undelivered *)
Example ex3_greedy_deadlocks :
  let r := run_loop (fun b => b) 10 (nb (ex3_w 2) + 4) (new_parser 64) ex3_scripts 0 (ex3_w 2) in
  fst r = ODeadlock /\ counts (wlog (snd r)) = (1, 0) /\ remaining (snd r) = enc_rcds (creq_rcds (ex3_c [100; 101])) /\
  ~ client_segs 0 0 (ex3_cs 2).
Proof.
  cbv zeta. split; [vm_compute; reflexivity|]. split; [vm_compute; reflexivity|]. split; [vm_compute; reflexivity|].
  cbn [client_segs ex3_cs]. intros (_ & _ & _ & H & _). vm_compute in H. discriminate H.
Qed.

(* the hypothesis [no_abandoned_read] matters too (compare ex2p_abandoned_read_deadlocks in PeerProofs2.v).  Request 1
   carries a GetValues query before its Stdin data; the transport accepts 3 bytes and is then not ready once.  The first
   handler reads "abc", polls a read once and drops it (op 11) when 3 bytes of the reply to the query are written — with
   Request.lock held — and then writes "hi" to Stdout: the StreamWriter waits for the lock for ever (known finding F6).
   Every other hypothesis holds, but the handler never finishes: no EndRequest of request 1 is written, request 2 is never
   released and the task waits. *)
Definition ex3p_c1 : creq :=
  mkCReq (mkPreamble [] 1 ROLE_Responder FLAG_KeepConn [] [] [] [])
         [ mkRcd RT_GetValues 0 [14; 0; 70; 67; 71; 73; 95; 77; 65; 88; 95; 67; 79; 78; 78; 83] [];
           mkRcd RT_Stdin 1 [97; 98; 99] [0; 0; 0; 0; 0]; mkRcd RT_Stdin 1 [] [] ].
Definition ex3p_cs : list (N * N * creq) := [ (0, 0, ex3p_c1); (1, 0, ex3_c [100; 101]) ].
Definition ex3p_w : world := mkW [] [3; 0] (enc_client ex3p_cs) [] 0 1 0 false false [].
Definition ex3p_scripts (op : N) : list (list N) := [[1; 3; op; 5; 6; 6; 2; 104; 105; 2]; [2]].

Lemma ex3p_creq_ok : creq_ok ex3p_c1.
Proof.
  unfold creq_ok, ex3p_c1. cbn [c_pre c_srs w_idle w_pieces w_endjunk w_role w_id].
  split.
  { unfold preamble_ok. cbn [w_idle w_id w_role w_flags w_beginpad w_pieces w_endjunk w_endpad].
    repeat split; try constructor; try (vm_compute; reflexivity). }
  split; [constructor|]. split; [constructor|]. split; [constructor|]. split.
  { repeat (constructor; [unfold rcd_ok; cbn [rt rid rbody rpad]; repeat split; try (vm_compute; reflexivity);
                          apply bytes_okb_ok; reflexivity|]). constructor. }
  split.
  { repeat (constructor; [split; cbn [rt]; discriminate|]). constructor. }
  change (role_input_streams ROLE_Responder) with [RT_Stdin]. constructor; [|constructor]. vm_compute. reflexivity.
Qed.

Example ex3p_hyps :
  64 < SIZE_LIMIT - 8 /\ scripts_ok true (ex3p_scripts 11) /\ ~ Forall no_abandoned_read (ex3p_scripts 11) /\
  Forall no_abandoned_read (ex3p_scripts 1) /\
  segs ex3p_w = enc_client ex3p_cs /\ client_segs 0 0 ex3p_cs /\ wlog ex3p_w = [] /\ no_fault (wscript ex3p_w).
Proof.
  split; [vm_compute; reflexivity|]. split.
  { constructor; [|constructor; [|constructor]]; intros role.
    - apply SO_read. apply SO_poll. apply (SO_write true role _ 6 2 [104; 105; 2]). apply SO_read_all. apply SO_nil.
    - apply SO_read_all. apply SO_nil. }
  split.
  { intros H. inversion H as [|x l Hx Hl]; subst. inversion Hx as [|n rest Hr| | | | | | | | |]; subst. inversion Hr. }
  split.
  { constructor; [|constructor; [|constructor]].
    - apply NA_read. apply NA_read. apply (NA_write 6 2 [104; 105; 2]). apply NA_read_all. apply NA_nil.
    - apply NA_read_all. apply NA_nil. }
  split; [reflexivity|]. split.
  { cbn [client_segs ex3p_cs]. split; [reflexivity|]. split; [lia|]. split; [exact ex3p_creq_ok|].
    split; [reflexivity|]. split; [vm_compute; discriminate|]. split; [apply ex3_creq_ok; reflexivity|exact I]. }
  split; [reflexivity|]. repeat constructor; discriminate.
Qed.

Example ex3p_abandoned_read_deadlocks :
  let r := run_loop (fun b => b) 10 (nb ex3p_w + 4) (new_parser 64) (ex3p_scripts 11) 0 ex3p_w in
  fst r = ODeadlock /\ fst (counts (wlog (snd r))) = 0 /\
  remaining (snd r) = enc_rcds [mkRcd RT_Stdin 1 [] []] ++ enc_rcds (creq_rcds (ex3_c [100; 101])) /\
  In [11; 2; 0; 1] (events (snd r)) /\ ~ In [6; 0] (events (snd r)) /\ ~ In [8] (events (snd r)).
Proof.
  cbv zeta. split; [vm_compute; reflexivity|]. split; [vm_compute; reflexivity|]. split; [vm_compute; reflexivity|].
  split; [vm_compute; tauto|].
  split; (intros H; vm_compute in H; repeat (destruct H as [H|H]; [discriminate H|]); exact H).
Qed.

Example ex3p_awaited_read_returns :
  let r := run_loop (fun b => b) 10 (nb ex3p_w + 4) (new_parser 64) (ex3p_scripts 1) 0 ex3p_w in
  fst r = ORet /\ counts (wlog (snd r)) = (2, 1) /\ remaining (snd r) = [] /\ In [100; 101] (events (snd r)).
Proof. vm_compute. repeat split; try reflexivity; tauto. Qed.

Print Assumptions ex3_hyps.
Print Assumptions ex3p_hyps.
Print Assumptions ex3p_abandoned_read_deadlocks.
Print Assumptions ex3p_awaited_read_returns.
Print Assumptions ex3_returns.
Print Assumptions ex3_never_deadlocks.
Print Assumptions ex3_greedy_deadlocks.
