(* Async/SyncProofs.v — proofs of the statements of Async/SyncTargets.v about the connection-token
   model (Async/Tokens.v, C13) and the shutdown wait-group model (Async/WaitGroup.v, C14). *)
From Coq Require Import ZArith ZifyBool ZifyNat ZifyN.
From FV Require Import Base.Bytes Base.BytesLemmas Async.Tokens Async.WaitGroup Async.SyncTargets.
Ltac Zify.zify_post_hook ::= Z.div_mod_to_equations.

(* ================================================================== *)
(* Wait group (C14)                                                    *)
(* ================================================================== *)

Ltac wbrk :=
  match goal with
  | |- context [if ?a =? ?b then _ else _] => destruct (N.eqb_spec a b)
  | |- context [if ?a <? ?b then _ else _] => destruct (N.ltb_spec a b)
  | |- context [?a =? ?b] => destruct (N.eqb_spec a b)
  | |- context [?a <? ?b] => destruct (N.ltb_spec a b)
  end; cbn [andb fst snd strong dropped registered wake_count] in *; try lia.

Lemma wg_init_inv n : wg_inv (wg_init n) n.
Proof.
  unfold wg_inv, wg_init; cbn [strong dropped registered].
  split; [reflexivity|]. split; [reflexivity|]. intros H; discriminate H.
Qed.

Lemma release_inv s t : wg_inv s t -> 0 < t -> wg_inv (release s) (t - 1).
Proof.
  destruct s as [st dr rg wc]. unfold wg_inv, release; cbn [strong dropped registered wake_count].
  intros (Hs & Hd & Hr) Ht. subst st dr.
  repeat wbrk; (split; [lia|]); (split; [try reflexivity; try lia|]); try (intros H; discriminate H).
  all: try (intros H; specialize (Hr H); lia).
Qed.

Lemma release_wake s : wake_count s <= wake_count (release s).
Proof.
  destruct s as [st dr rg wc]. unfold release; cbn [strong dropped registered wake_count].
  repeat wbrk. all: try (destruct rg; cbn [wake_count]; lia).
Qed.

(* everything one needs about one poll, from the invariant *)
Definition poll_post (w t : N) (s : wg) (r : bool) (s' : wg) (t' : N) : Prop :=
  wg_inv s' t' /\
  r = (alive_at_check w t =? 0) /\
  wake_count s <= wake_count s' /\
  (r = false ->
     (t' = 0 /\ registered s' = false /\ wake_count s < wake_count s') \/
     (0 < t' /\ registered s' = true)).

Lemma wg_poll_spec w t s : wg_inv s t ->
  poll_post w t s (fst (fst (wg_poll w t s))) (snd (fst (wg_poll w t s))) (snd (wg_poll w t s)).
Proof.
  destruct s as [st dr rg wc]. unfold wg_inv; cbn [strong dropped registered wake_count].
  intros (Hs & Hd & Hr). subst st dr.
  unfold poll_post, wg_poll, alive_at_check, release, wg_inv.
  cbn [andb fst snd strong dropped registered wake_count].
  repeat wbrk.
  all: cbn [andb fst snd strong dropped registered wake_count].
  all: repeat split; try reflexivity; try lia; try discriminate; try (intros; discriminate).
  all: try (destruct rg; lia).
  all: try (intros _; right; split; [lia|reflexivity]).
  all: try (intros _; left; repeat split; try lia; destruct rg; lia).
  all: try (intros H; specialize (Hr H); lia).
Qed.

Lemma wstep_inv s t o : wg_inv s t ->
  wg_inv (fst (fst (wstep (s, t) o))) (snd (fst (wstep (s, t) o))).
Proof.
  intros Hi. destruct o as [|w]; unfold wstep.
  - destruct (N.ltb_spec 0 t) as [Ht|Ht]; cbn [fst snd]; [apply release_inv; assumption|assumption].
  - pose proof (wg_poll_spec w t s Hi) as Hp.
    destruct (wg_poll w t s) as [[r s'] t']. cbn [fst snd] in *. apply Hp.
Qed.

Lemma wfold_inv ops : forall s t, wg_inv s t ->
  wg_inv (fst (fold_left (fun st o => fst (wstep st o)) ops (s, t)))
         (snd (fold_left (fun st o => fst (wstep st o)) ops (s, t))).
Proof.
  induction ops as [|o ops IH]; intros s t Hi; cbn [fold_left]; [exact Hi|].
  pose proof (wstep_inv s t o Hi) as Hn.
  destruct (fst (wstep (s, t) o)) as [s1 t1]. cbn [fst snd] in Hn. apply IH; exact Hn.
Qed.

Lemma C14_wg_inv : C14_wg_inv_stmt.
Proof.
  unfold C14_wg_inv_stmt, wrun. intros n ops. apply wfold_inv. apply wg_init_inv.
Qed.

Lemma C14_ready_iff_done : C14_ready_iff_done_stmt.
Proof.
  unfold C14_ready_iff_done_stmt. intros n ops w. cbv zeta.
  pose proof (C14_wg_inv n ops) as Hi.
  apply (wg_poll_spec w _ _ Hi).
Qed.

(* after a Pending poll: either no token is left, the waker was taken and invoked, or tokens are
   left and the waker is still registered *)
Definition woken_or_armed (wc0 : N) (s : wg) (t : N) : Prop :=
  (t = 0 /\ registered s = false /\ wc0 < wake_count s) \/
  (0 < t /\ registered s = true /\ wc0 <= wake_count s).

Lemma release_armed wc0 s t : wg_inv s t -> 0 < t -> registered s = true -> wc0 <= wake_count s ->
  woken_or_armed wc0 (release s) (t - 1).
Proof.
  destruct s as [st dr rg wc]. unfold wg_inv, woken_or_armed, release;
    cbn [strong dropped registered wake_count].
  intros (Hs & Hd & Hr) Ht Hg Hw. subst st dr rg.
  repeat wbrk.
  all: try (left; repeat split; lia).
  all: try (right; repeat split; lia).
Qed.

Lemma drops_armed wc0 more : (forall o, In o more -> o = WDrop) ->
  forall s t, wg_inv s t -> woken_or_armed wc0 s t ->
  let st' := fold_left (fun st o => fst (wstep st o)) more (s, t) in
  snd st' = 0 -> registered (fst st') = false /\ wc0 < wake_count (fst st').
Proof.
  induction more as [|o more IH]; intros Hall s t Hi Hw; cbn [fold_left].
  - cbn [fst snd]. intros Ht. destruct Hw as [(_ & Hr & Hc)|(Hp & _)]; [split; assumption|lia].
  - assert (Ho : o = WDrop) by (apply Hall; left; reflexivity). subst o.
    assert (Hall' : forall o, In o more -> o = WDrop) by (intros o Ho; apply Hall; right; exact Ho).
    assert (E : fst (wstep (s, t) WDrop) = if 0 <? t then (release s, t - 1) else (s, t))
      by (unfold wstep; destruct (0 <? t); reflexivity).
    rewrite E; clear E.
    destruct (N.ltb_spec 0 t) as [Ht|Ht].
    + apply (IH Hall').
      * apply release_inv; assumption.
      * destruct Hw as [(Hz & _)|(_ & Hr & Hc)]; [lia|]. apply (release_armed wc0 s t); assumption.
    + apply (IH Hall'); assumption.
Qed.

Lemma C14_no_lost_wakeup : C14_no_lost_wakeup_stmt.
Proof.
  unfold C14_no_lost_wakeup_stmt. intros n ops w more. cbv zeta.
  pose proof (C14_wg_inv n ops) as Hi.
  pose proof (wg_poll_spec w _ _ Hi) as (Hi' & _ & Hle & Hdis).
  intros Hr Hall. specialize (Hdis Hr).
  apply (drops_armed _ more Hall _ _ Hi').
  unfold woken_or_armed. destruct Hdis as [(H1 & H2 & H3)|(H1 & H2)]; [left|right]; repeat split; assumption.
Qed.
