(* Async/SyncProofs.v — proofs of the statements of Async/SyncTargets.v about the connection-token
   model (Async/Tokens.v, C13) and the shutdown wait-group model (Async/WaitGroup.v, C14). *)
From Coq Require Import ZArith ZifyBool ZifyNat ZifyN.
From FV Require Import Base.Bytes Base.BytesLemmas Async.Tokens Async.WaitGroup Async.SyncTargets.
Ltac Zify.zify_post_hook ::= Z.div_mod_to_equations.

(* ================================================================== *)
(* Wait group (C14)                                                    *)
(* ================================================================== *)

Ltac wbrk :=
  match goal with
  | |- context [if ?a =? ?b then _ else _] => destruct (N.eqb_spec a b)
  | |- context [if ?a <? ?b then _ else _] => destruct (N.ltb_spec a b)
  | |- context [?a =? ?b] => destruct (N.eqb_spec a b)
  | |- context [?a <? ?b] => destruct (N.ltb_spec a b)
  end; cbn [andb fst snd strong dropped registered wake_count] in *; try lia.

Lemma wg_init_inv n : wg_inv (wg_init n) n.
Proof.
  unfold wg_inv, wg_init; cbn [strong dropped registered].
  split; [reflexivity|]. split; [reflexivity|]. intros H; discriminate H.
Qed.

Lemma release_inv s t : wg_inv s t -> 0 < t -> wg_inv (release s) (t - 1).
Proof.
  destruct s as [st dr rg wc]. unfold wg_inv, release; cbn [strong dropped registered wake_count].
  intros (Hs & Hd & Hr) Ht. subst st dr.
  repeat wbrk; (split; [lia|]); (split; [try reflexivity; try lia|]); try (intros H; discriminate H).
  all: try (intros H; specialize (Hr H); lia).
Qed.

Lemma release_wake s : wake_count s <= wake_count (release s).
Proof.
  destruct s as [st dr rg wc]. unfold release; cbn [strong dropped registered wake_count].
  repeat wbrk. all: try (destruct rg; cbn [wake_count]; lia).
Qed.

(* everything one needs about one poll, from the invariant *)
Definition poll_post (w t : N) (s : wg) (r : bool) (s' : wg) (t' : N) : Prop :=
  wg_inv s' t' /\
  r = (alive_at_check w t =? 0) /\
  wake_count s <= wake_count s' /\
  (r = false ->
     (t' = 0 /\ registered s' = false /\ wake_count s < wake_count s') \/
     (0 < t' /\ registered s' = true)).

Lemma wg_poll_spec w t s : wg_inv s t ->
  poll_post w t s (fst (fst (wg_poll w t s))) (snd (fst (wg_poll w t s))) (snd (wg_poll w t s)).
Proof.
  destruct s as [st dr rg wc]. unfold wg_inv; cbn [strong dropped registered wake_count].
  intros (Hs & Hd & Hr). subst st dr.
  unfold poll_post, wg_poll, alive_at_check, release, wg_inv.
  cbn [andb fst snd strong dropped registered wake_count].
  repeat wbrk.
  all: cbn [andb fst snd strong dropped registered wake_count].
  all: repeat split; try reflexivity; try lia; try discriminate; try (intros; discriminate).
  all: try (destruct rg; lia).
  all: try (intros _; right; split; [lia|reflexivity]).
  all: try (intros _; left; repeat split; try lia; destruct rg; lia).
  all: try (intros H; specialize (Hr H); lia).
Qed.

Lemma wstep_inv s t o : wg_inv s t ->
  wg_inv (fst (fst (wstep (s, t) o))) (snd (fst (wstep (s, t) o))).
Proof.
  intros Hi. destruct o as [|w]; unfold wstep.
  - destruct (N.ltb_spec 0 t) as [Ht|Ht]; cbn [fst snd]; [apply release_inv; assumption|assumption].
  - pose proof (wg_poll_spec w t s Hi) as Hp.
    destruct (wg_poll w t s) as [[r s'] t']. cbn [fst snd] in *. apply Hp.
Qed.

Lemma wfold_inv ops : forall s t, wg_inv s t ->
  wg_inv (fst (fold_left (fun st o => fst (wstep st o)) ops (s, t)))
         (snd (fold_left (fun st o => fst (wstep st o)) ops (s, t))).
Proof.
  induction ops as [|o ops IH]; intros s t Hi; cbn [fold_left]; [exact Hi|].
  pose proof (wstep_inv s t o Hi) as Hn.
  destruct (fst (wstep (s, t) o)) as [s1 t1]. cbn [fst snd] in Hn. apply IH; exact Hn.
Qed.

Lemma C14_wg_inv : C14_wg_inv_stmt.
Proof.
  unfold C14_wg_inv_stmt, wrun. intros n ops. apply wfold_inv. apply wg_init_inv.
Qed.

Lemma C14_ready_iff_done : C14_ready_iff_done_stmt.
Proof.
  unfold C14_ready_iff_done_stmt. intros n ops w. cbv zeta.
  pose proof (C14_wg_inv n ops) as Hi.
  apply (wg_poll_spec w _ _ Hi).
Qed.

(* after a Pending poll: either no token is left, the waker was taken and invoked, or tokens are
   left and the waker is still registered *)
Definition woken_or_armed (wc0 : N) (s : wg) (t : N) : Prop :=
  (t = 0 /\ registered s = false /\ wc0 < wake_count s) \/
  (0 < t /\ registered s = true /\ wc0 <= wake_count s).

Lemma release_armed wc0 s t : wg_inv s t -> 0 < t -> registered s = true -> wc0 <= wake_count s ->
  woken_or_armed wc0 (release s) (t - 1).
Proof.
  destruct s as [st dr rg wc]. unfold wg_inv, woken_or_armed, release;
    cbn [strong dropped registered wake_count].
  intros (Hs & Hd & Hr) Ht Hg Hw. subst st dr rg.
  repeat wbrk.
  all: try (left; repeat split; lia).
  all: try (right; repeat split; lia).
Qed.

Lemma drops_armed wc0 more : (forall o, In o more -> o = WDrop) ->
  forall s t, wg_inv s t -> woken_or_armed wc0 s t ->
  let st' := fold_left (fun st o => fst (wstep st o)) more (s, t) in
  snd st' = 0 -> registered (fst st') = false /\ wc0 < wake_count (fst st').
Proof.
  induction more as [|o more IH]; intros Hall s t Hi Hw; cbn [fold_left].
  - cbn [fst snd]. intros Ht. destruct Hw as [(_ & Hr & Hc)|(Hp & _)]; [split; assumption|lia].
  - assert (Ho : o = WDrop) by (apply Hall; left; reflexivity). subst o.
    assert (Hall' : forall o, In o more -> o = WDrop) by (intros o Ho; apply Hall; right; exact Ho).
    assert (E : fst (wstep (s, t) WDrop) = if 0 <? t then (release s, t - 1) else (s, t))
      by (unfold wstep; destruct (0 <? t); reflexivity).
    rewrite E; clear E.
    destruct (N.ltb_spec 0 t) as [Ht|Ht].
    + apply (IH Hall').
      * apply release_inv; assumption.
      * destruct Hw as [(Hz & _)|(_ & Hr & Hc)]; [lia|]. apply (release_armed wc0 s t); assumption.
    + apply (IH Hall'); assumption.
Qed.

Lemma C14_no_lost_wakeup : C14_no_lost_wakeup_stmt.
Proof.
  unfold C14_no_lost_wakeup_stmt. intros n ops w more. cbv zeta.
  pose proof (C14_wg_inv n ops) as Hi.
  pose proof (wg_poll_spec w _ _ Hi) as (Hi' & _ & Hle & Hdis).
  intros Hr Hall. specialize (Hdis Hr).
  apply (drops_armed _ more Hall _ _ Hi').
  unfold woken_or_armed. destruct Hdis as [(H1 & H2 & H3)|(H1 & H2)]; [left|right]; repeat split; assumption.
Qed.

(* ================================================================== *)
(* Tokens (C13)                                                        *)
(* ================================================================== *)

(* ---- lists keyed by N ---- *)
Section KeyLists.
  Context {A : Type}.
  Implicit Types l : list (N * A).

  Lemma map_fst_filter_neq id l :
    map fst (filter (fun e => negb (fst e =? id)) l) = filter (fun x => negb (x =? id)) (map fst l).
  Proof.
    induction l as [|[k v] l IH]; [reflexivity|]. cbn [filter map fst].
    destruct (k =? id); cbn [negb map fst]; rewrite IH; reflexivity.
  Qed.

  Lemma find_key_some id l e : find (fun e => fst e =? id) l = Some e -> In e l /\ fst e = id.
  Proof.
    intros H. apply find_some in H. destruct H as [H1 H2]. split; [assumption|].
    apply N.eqb_eq; assumption.
  Qed.

  Lemma nodup_fst_inj l k v v' : NoDup (map fst l) -> In (k, v) l -> In (k, v') l -> v = v'.
  Proof.
    induction l as [|[k0 v0] l IH]; cbn [map fst In]; intros Hnd H1 H2; [contradiction|].
    inversion Hnd as [|? ? Hni Hnd']; subst.
    destruct H1 as [H1|H1]; destruct H2 as [H2|H2].
    - congruence.
    - inversion H1; subst. exfalso; apply Hni. apply in_map_iff.
      exists (k, v'); split; [reflexivity|assumption].
    - inversion H2; subst. exfalso; apply Hni. apply in_map_iff.
      exists (k, v); split; [reflexivity|assumption].
    - apply IH; assumption.
  Qed.
End KeyLists.

Lemma in_filter_neq (id x : N) (l : list N) :
  In x (filter (fun y => negb (y =? id)) l) <-> In x l /\ x <> id.
Proof.
  rewrite filter_In. split; intros [H1 H2]; (split; [assumption|]).
  - intros ->. rewrite N.eqb_refl in H2. discriminate H2.
  - apply negb_true_iff. apply N.eqb_neq. assumption.
Qed.

Lemma filter_neq_notin (i : N) (l : list N) : ~ In i l -> filter (fun j => negb (j =? i)) l = l.
Proof.
  induction l as [|a l IH]; intros Hn; [reflexivity|]. cbn [filter].
  destruct (N.eqb_spec a i) as [E|E]; cbn [negb].
  - exfalso. apply Hn. left. assumption.
  - f_equal. apply IH. intros H. apply Hn. right. assumption.
Qed.

Lemma len_filter_remove (i : N) (l : list N) :
  NoDup l -> In i l -> len (filter (fun j => negb (j =? i)) l) + 1 = len l.
Proof.
  induction l as [|a l IH]; intros Hnd Hin; [contradiction|].
  inversion Hnd as [|? ? Hni Hnd']; subst. cbn [filter].
  destruct (N.eqb_spec a i) as [E|E]; cbn [negb].
  - subst a. rewrite filter_neq_notin by assumption. rewrite len_cons. reflexivity.
  - destruct Hin as [Hin|Hin]; [contradiction|]. rewrite !len_cons. rewrite IH by assumption. reflexivity.
Qed.

Lemma NoDup_snoc {A} (l : list A) (x : A) : NoDup l -> ~ In x l -> NoDup (l ++ [x]).
Proof.
  induction l as [|a l IH]; cbn [app]; intros Hnd Hni.
  - constructor; [intros H; contradiction H|constructor].
  - inversion Hnd as [|? ? Ha Hnd']; subst. constructor.
    + rewrite in_app_iff. intros [H|[H|H]].
      * apply Ha; assumption.
      * apply Hni. left. symmetry. assumption.
      * contradiction H.
    + apply IH; [assumption|]. intros H. apply Hni. right. assumption.
Qed.

(* ---- the event: notify_first / notify1 / drop_listener ---- *)
Definition ids (s : tsys) : list N := map fst (lst s).
Definition fidx (s : tsys) : list N := map fst (futs s).
Definition has_notif (l : list (N * lstate)) : Prop := l <> [] -> exists id, In (id, LNotified) l.

Lemma notify_first_ids l : map fst (fst (notify_first l)) = map fst l.
Proof.
  induction l as [|[id st] l IH]; [reflexivity|]. cbn [notify_first].
  destruct st; cbn [fst map]; try reflexivity.
  destruct (notify_first l) as [t' w]. cbn [fst map] in *. rewrite IH. reflexivity.
Qed.

Lemma notify_first_has l : l <> [] -> exists id, In (id, LNotified) (fst (notify_first l)).
Proof.
  destruct l as [|[id st] l]; [intros H; contradiction H; reflexivity|]. intros _. exists id.
  cbn [notify_first]. destruct st; try (cbn [fst]; left; reflexivity).
  destruct (notify_first l); cbn [fst]; left; reflexivity.
Qed.

Lemma notified_count_has l : 1 <= notified_count l -> exists id, In (id, LNotified) l.
Proof.
  unfold notified_count. intros H.
  destruct (filter (fun e => is_notified (snd e)) l) as [|[id st] r] eqn:E.
  - rewrite len_nil in H. lia.
  - assert (Hin : In (id, st) (filter (fun e => is_notified (snd e)) l)) by (rewrite E; left; reflexivity).
    apply filter_In in Hin. destruct Hin as [Hin Hs]. cbn [snd] in Hs.
    destruct st; cbn [is_notified] in Hs; try discriminate Hs. exists id; assumption.
Qed.

Lemma notify1_fields s :
  t_max (notify1 s) = t_max s /\ permits (notify1 s) = permits s /\ next_id (notify1 s) = next_id s /\
  futs (notify1 s) = futs s /\ live (notify1 s) = live s /\ ids (notify1 s) = ids s.
Proof.
  unfold notify1, ids. destruct (1 <=? notified_count (lst s)).
  { repeat (split; [reflexivity|]). reflexivity. }
  pose proof (notify_first_ids (lst s)) as H. destruct (notify_first (lst s)) as [l' w].
  cbn [t_max permits next_id futs live lst fst] in *.
  repeat (split; [reflexivity|]). exact H.
Qed.
Lemma notify1_tmax s : t_max (notify1 s) = t_max s. Proof. apply notify1_fields. Qed.
Lemma notify1_permits s : permits (notify1 s) = permits s. Proof. apply notify1_fields. Qed.
Lemma notify1_next s : next_id (notify1 s) = next_id s. Proof. apply notify1_fields. Qed.
Lemma notify1_futs s : futs (notify1 s) = futs s. Proof. apply notify1_fields. Qed.
Lemma notify1_live s : live (notify1 s) = live s. Proof. apply notify1_fields. Qed.
Lemma notify1_ids s : ids (notify1 s) = ids s. Proof. apply notify1_fields. Qed.

(* after notify(1) a non-empty queue has a notified listener *)
Lemma notify1_has s : has_notif (lst (notify1 s)).
Proof.
  unfold has_notif, notify1. destruct (N.leb_spec 1 (notified_count (lst s))) as [H|H].
  - intros _. apply notified_count_has; assumption.
  - pose proof (notify_first_has (lst s)) as Hh. pose proof (notify_first_ids (lst s)) as Hi.
    destruct (notify_first (lst s)) as [l' w]. cbn [lst fst] in *. intros Hne. apply Hh.
    intros E. rewrite E in Hi. destruct l' as [|e l']; [apply Hne; reflexivity|].
    cbn [map] in Hi. discriminate Hi.
Qed.

Definition rm (id : N) (l : list (N * lstate)) : list (N * lstate) :=
  filter (fun e => negb (fst e =? id)) l.

Definition unlinked (id : N) (s : tsys) : tsys :=
  mkT (t_max s) (permits s) (rm id (lst s)) (next_id s) (futs s) (live s) (wakes s).

Lemma drop_listener_eq id s :
  drop_listener id s =
  match find (fun e => fst e =? id) (lst s) with
  | Some (_, LNotified) => notify1 (unlinked id s)
  | _ => unlinked id s
  end.
Proof.
  unfold drop_listener, remove_listener, unlinked, rm.
  destruct (find (fun e => fst e =? id) (lst s)) as [[k [| |]]|]; reflexivity.
Qed.

Lemma drop_listener_fields id s :
  t_max (drop_listener id s) = t_max s /\ permits (drop_listener id s) = permits s /\
  next_id (drop_listener id s) = next_id s /\ futs (drop_listener id s) = futs s /\
  live (drop_listener id s) = live s /\
  ids (drop_listener id s) = filter (fun x => negb (x =? id)) (ids s).
Proof.
  rewrite drop_listener_eq.
  assert (Hu : ids (unlinked id s) = filter (fun x => negb (x =? id)) (ids s))
    by (unfold ids, unlinked, rm; cbn [lst]; apply map_fst_filter_neq).
  destruct (find (fun e => fst e =? id) (lst s)) as [[k [| |]]|];
    rewrite ?notify1_tmax, ?notify1_permits, ?notify1_next, ?notify1_futs, ?notify1_live, ?notify1_ids;
    (repeat (split; [reflexivity|])); exact Hu.
Qed.

(* dropping a listener keeps "a non-empty queue has a notified listener": a notified listener
   passes its notification on *)
Lemma drop_listener_has id s : NoDup (ids s) -> has_notif (lst s) -> has_notif (lst (drop_listener id s)).
Proof.
  intros Hnd Hh. rewrite drop_listener_eq.
  assert (Hother : (forall id0, In (id0, LNotified) (lst s) -> id0 <> id) -> has_notif (lst (unlinked id s))).
  { intros Hneq Hne. unfold unlinked, rm in *. cbn [lst] in *.
    assert (Hs : lst s <> []) by (intros E; rewrite E in Hne; apply Hne; reflexivity).
    destruct (Hh Hs) as [id0 H0]. exists id0. apply filter_In. split; [assumption|].
    cbn [fst]. apply negb_true_iff. apply N.eqb_neq. apply Hneq; assumption. }
  destruct (find (fun e => fst e =? id) (lst s)) as [[k st]|] eqn:F.
  - apply find_key_some in F. destruct F as [Fin Fk]. cbn [fst] in Fk. subst k.
    destruct st; try apply notify1_has; apply Hother; intros id0 H0 ->;
      pose proof (nodup_fst_inj _ _ _ _ Hnd H0 Fin) as E; discriminate E.
  - apply Hother. intros id0 H0 ->. pose proof (find_none _ _ F _ H0) as E. cbn [fst] in E.
    rewrite N.eqb_refl in E. discriminate E.
Qed.

Definition drop_opt (lo : option N) (s : tsys) : tsys :=
  match lo with Some id => drop_listener id s | None => s end.

Lemma drop_opt_fields lo s :
  t_max (drop_opt lo s) = t_max s /\ permits (drop_opt lo s) = permits s /\
  next_id (drop_opt lo s) = next_id s /\ futs (drop_opt lo s) = futs s /\
  live (drop_opt lo s) = live s /\
  ids (drop_opt lo s) = match lo with Some id => filter (fun x => negb (x =? id)) (ids s) | None => ids s end.
Proof.
  destruct lo as [id|]; [apply drop_listener_fields|]. cbn [drop_opt].
  repeat (split; [reflexivity|]). reflexivity.
Qed.
Lemma drop_opt_tmax lo s : t_max (drop_opt lo s) = t_max s. Proof. apply drop_opt_fields. Qed.
Lemma drop_opt_permits lo s : permits (drop_opt lo s) = permits s. Proof. apply drop_opt_fields. Qed.
Lemma drop_opt_next lo s : next_id (drop_opt lo s) = next_id s. Proof. apply drop_opt_fields. Qed.
Lemma drop_opt_futs lo s : futs (drop_opt lo s) = futs s. Proof. apply drop_opt_fields. Qed.
Lemma drop_opt_live lo s : live (drop_opt lo s) = live s. Proof. apply drop_opt_fields. Qed.
Lemma drop_opt_ids lo s : ids (drop_opt lo s) =
  match lo with Some id => filter (fun x => negb (x =? id)) (ids s) | None => ids s end.
Proof. apply drop_opt_fields. Qed.

Lemma drop_opt_has lo s : NoDup (ids s) -> has_notif (lst s) -> has_notif (lst (drop_opt lo s)).
Proof. destruct lo as [id|]; [apply drop_listener_has|]. intros _ H; exact H. Qed.

(* ---- the table of pending futures ---- *)
Lemma fut_listener_some i fs lo : fut_listener i fs = Some lo -> In (i, lo) fs.
Proof.
  unfold fut_listener. destruct (find (fun e => fst e =? i) fs) as [[k v]|] eqn:F; intros H; [|discriminate H].
  apply find_key_some in F. destruct F as [Fin Fk]. cbn [fst snd] in *. inversion H; subst. assumption.
Qed.

Lemma fidx_del i fs : map fst (del_fut i fs) = filter (fun x => negb (x =? i)) (map fst fs).
Proof. unfold del_fut. apply map_fst_filter_neq. Qed.

Lemma in_del i fs j (x : option N) : In (j, x) (del_fut i fs) <-> In (j, x) fs /\ j <> i.
Proof.
  unfold del_fut. rewrite filter_In. cbn [fst]. split; intros [H1 H2]; (split; [assumption|]).
  - intros ->. rewrite N.eqb_refl in H2. discriminate H2.
  - apply negb_true_iff. apply N.eqb_neq. assumption.
Qed.

Lemma fidx_set i l fs : map fst (set_fut i l fs) = map fst fs.
Proof.
  unfold set_fut. rewrite map_map. apply map_ext. intros [k v]. cbn [fst].
  destruct (N.eqb_spec k i) as [E|E]; [subst; reflexivity|reflexivity].
Qed.

Lemma in_set_same i l fs : In i (map fst fs) -> In (i, l) (set_fut i l fs).
Proof.
  intros H. apply in_map_iff in H. destruct H as [[k v] [Hk Hin]]. cbn [fst] in Hk. subst k.
  unfold set_fut. apply in_map_iff. exists (i, v). split; [|assumption]. cbn [fst].
  rewrite N.eqb_refl. reflexivity.
Qed.

Lemma in_set_other i l fs j (x : option N) : j <> i -> In (j, x) fs -> In (j, x) (set_fut i l fs).
Proof.
  intros Hne Hin. unfold set_fut. apply in_map_iff. exists (j, x). split; [|assumption]. cbn [fst].
  destruct (N.eqb_spec j i) as [E|E]; [contradiction|reflexivity].
Qed.

Lemma map_fst_relabel id (v : lstate) (l : list (N * lstate)) :
  map fst (map (fun e => if fst e =? id then (id, v) else e) l) = map fst l.
Proof.
  rewrite map_map. apply map_ext. intros [k st]. cbn [fst].
  destruct (N.eqb_spec k id) as [E|E]; [subst; reflexivity|reflexivity].
Qed.

Lemma owned_del i lo fs (idl : list N) :
  NoDup (map fst fs) -> In (i, lo) fs ->
  (forall id, In id idl -> exists j, In (j, Some id) fs) ->
  forall id', In id' (match lo with Some id => filter (fun x => negb (x =? id)) idl | None => idl end) ->
  exists j, In (j, Some id') (del_fut i fs).
Proof.
  intros Hnd Hin Hown id' Hid'.
  assert (Hin' : In id' idl /\ lo <> Some id').
  { destruct lo as [id|].
    - apply in_filter_neq in Hid'. destruct Hid' as [H1 H2]. split; [assumption|congruence].
    - split; [assumption|discriminate]. }
  destruct Hin' as [H1 H2]. destruct (Hown id' H1) as [j Hj]. exists j. apply in_del.
  split; [assumption|]. intros ->. apply H2. exact (nodup_fst_inj _ _ _ _ Hnd Hin Hj).
Qed.

(* ---- the reachable-state invariant ---- *)
Record tinv (m : N) (s : tsys) (n : N) : Prop := mkTinv {
  ti_max : t_max s = m;
  ti_perm : permits s + len (live s) = t_max s;
  ti_live_nd : NoDup (live s);
  ti_live_lt : forall j, In j (live s) -> j < n;
  ti_fut_lt : forall j, In j (fidx s) -> j < n;
  ti_fut_nd : NoDup (fidx s);
  ti_live_fut : forall j, In j (live s) -> ~ In j (fidx s);
  ti_ids_nd : NoDup (ids s);
  ti_ids_lt : forall id, In id (ids s) -> id < next_id s;
  ti_owned : forall id, In id (ids s) -> exists i, In (i, Some id) (futs s);
  ti_ns : 0 < permits s -> has_notif (lst s)
}.

Ltac tf := cbn [t_max permits lst next_id futs live wakes].

Lemma tinv_init m : tinv m (init m) 0.
Proof.
  constructor; unfold ids, fidx, init; tf; cbn [map].
  - reflexivity.
  - rewrite len_nil. lia.
  - constructor.
  - intros j H; contradiction H.
  - intros j H; contradiction H.
  - constructor.
  - intros j H; contradiction H.
  - constructor.
  - intros j H; contradiction H.
  - intros j H; contradiction H.
  - intros _ H. contradiction H. reflexivity.
Qed.

Lemma tinv_new m s n : tinv m s n -> tinv m (new_fut n s) (n + 1).
Proof.
  intros [H0 H1 H2 H3 H4 H5 H6 H7 H8 H9 H10]. unfold ids, fidx in *.
  constructor; unfold ids, fidx, new_fut; tf; cbn [map fst].
  - assumption.
  - assumption.
  - assumption.
  - intros j Hj. specialize (H3 j Hj). lia.
  - intros j [Hj|Hj]; [lia|specialize (H4 j Hj); lia].
  - constructor; [intros Hn; specialize (H4 n Hn); lia|assumption].
  - intros j Hj [Hn|Hn]; [specialize (H3 j Hj); lia|exact (H6 j Hj Hn)].
  - assumption.
  - assumption.
  - intros id Hid. destruct (H9 id Hid) as [i Hi]. exists i. right; assumption.
  - assumption.
Qed.

(* future i (holding listener lo) goes away: by acquiring (p', lv' = permits-1, i :: live) or by
   being dropped (p', lv' unchanged) *)
Lemma tinv_remove m i lo s n p' lv' :
  tinv m s n -> In (i, lo) (futs s) ->
  p' + len lv' = t_max s -> NoDup lv' -> (forall j, In j lv' -> j < n) ->
  (forall j, In j lv' -> j = i \/ ~ In j (fidx s)) ->
  (0 < p' -> 0 < permits s) ->
  tinv m (drop_opt lo (mkT (t_max s) p' (lst s) (next_id s) (del_fut i (futs s)) lv' (wakes s))) n.
Proof.
  intros [H0 H1 H2 H3 H4 H5 H6 H7 H8 H9 H10] Hin Hp Hnd Hlt Hlf Hpos.
  constructor; unfold fidx;
    rewrite ?drop_opt_tmax, ?drop_opt_permits, ?drop_opt_live, ?drop_opt_futs, ?drop_opt_next, ?drop_opt_ids;
    tf; unfold ids; tf; fold (ids s).
  - assumption.
  - assumption.
  - assumption.
  - assumption.
  - intros j. rewrite fidx_del, in_filter_neq. intros [Hj _]. apply H4; assumption.
  - rewrite fidx_del. apply NoDup_filter. assumption.
  - intros j Hj. rewrite fidx_del, in_filter_neq. intros [Hj1 Hj2].
    destruct (Hlf j Hj) as [E|E]; [contradiction|apply E; assumption].
  - destruct lo; [apply NoDup_filter|]; assumption.
  - intros id. destruct lo as [id0|]; [rewrite in_filter_neq; intros [Hid _]|intros Hid]; apply H8; assumption.
  - apply (owned_del i lo); assumption.
  - intros Hp'. apply drop_opt_has; unfold ids; tf; [assumption|]. apply H10. apply Hpos. assumption.
Qed.

(* future i (holding lo, whose listener - if any - is no longer in l') registers a fresh listener *)
Lemma tinv_listen m i lo s n l' :
  tinv m s n -> In (i, lo) (futs s) -> permits s = 0 ->
  NoDup (map fst l') ->
  (forall x, In x (map fst l') -> In x (ids s) /\ lo <> Some x) ->
  tinv m (mkT (t_max s) (permits s) (l' ++ [(next_id s, LTask i)]) (next_id s + 1)
              (set_fut i (Some (next_id s)) (futs s)) (live s) (wakes s)) n.
Proof.
  intros [H0 H1 H2 H3 H4 H5 H6 H7 H8 H9 H10] Hin Hp0 Hnd Hsub.
  assert (Hi : In i (fidx s)).
  { unfold fidx. apply in_map_iff. exists (i, lo). split; [reflexivity|assumption]. }
  constructor; unfold ids, fidx; tf; rewrite ?fidx_set; fold (fidx s).
  - assumption.
  - assumption.
  - assumption.
  - assumption.
  - assumption.
  - assumption.
  - assumption.
  - rewrite map_app. cbn [map fst]. apply NoDup_snoc; [assumption|].
    intros Hx. destruct (Hsub _ Hx) as [Hx' _]. specialize (H8 _ Hx'). lia.
  - intros id. rewrite map_app, in_app_iff. cbn [map fst In]. intros [Hx|[Hx|Hx]].
    + destruct (Hsub _ Hx) as [Hx' _]. specialize (H8 _ Hx'). lia.
    + lia.
    + contradiction Hx.
  - intros id. rewrite map_app, in_app_iff. cbn [map fst In]. intros [Hx|[Hx|Hx]].
    + destruct (Hsub _ Hx) as [Hx' Hlo]. destruct (H9 _ Hx') as [j Hj]. exists j.
      apply in_set_other; [|assumption]. intros ->. apply Hlo.
      exact (nodup_fst_inj _ _ _ _ H5 Hin Hj).
    + subst id. exists i. apply in_set_same. exact Hi.
    + contradiction Hx.
  - intros Hpos. lia.
Qed.

(* the states of queued listeners change while no permit is free *)
Lemma tinv_relabel m s n l' : tinv m s n -> permits s = 0 -> map fst l' = ids s ->
  tinv m (mkT (t_max s) (permits s) l' (next_id s) (futs s) (live s) (wakes s)) n.
Proof.
  intros [H0 H1 H2 H3 H4 H5 H6 H7 H8 H9 H10] Hp0 Hl.
  constructor; unfold ids, fidx in *; tf; rewrite ?Hl; try assumption.
  intros Hpos. lia.
Qed.

Lemma tinv_poll m i s n : tinv m s n -> tinv m (snd (poll_fut i s)) n.
Proof.
  intros Hinv. unfold poll_fut.
  destruct (fut_listener i (futs s)) as [lo|] eqn:Hf; [|exact Hinv].
  apply fut_listener_some in Hf.
  assert (Hi : In i (fidx s)).
  { unfold fidx. apply in_map_iff. exists (i, lo). split; [reflexivity|assumption]. }
  destruct (N.ltb_spec 0 (permits s)) as [Hp|Hp]; cbn [snd].
  - apply (tinv_remove m i lo s n (permits s - 1) (i :: live s)); try assumption.
    + rewrite len_cons. pose proof (ti_perm _ _ _ Hinv). lia.
    + constructor; [|apply (ti_live_nd _ _ _ Hinv)].
      intros Hl. exact (ti_live_fut _ _ _ Hinv i Hl Hi).
    + intros j [Hj|Hj]; [subst j; apply (ti_fut_lt _ _ _ Hinv); assumption|apply (ti_live_lt _ _ _ Hinv); assumption].
    + intros j [Hj|Hj]; [left; symmetry; assumption|right; apply (ti_live_fut _ _ _ Hinv); assumption].
    + intros _. assumption.
  - assert (Hp0 : permits s = 0) by lia.
    destruct lo as [id|].
    + destruct (find (fun e => fst e =? id) (lst s)) as [[k st]|] eqn:Ff; [destruct st|]; cbn [snd].
      * apply tinv_relabel; [assumption|assumption|apply map_fst_relabel].
      * apply tinv_relabel; [assumption|assumption|apply map_fst_relabel].
      * apply (tinv_listen m i (Some id)); try assumption.
        -- rewrite map_fst_filter_neq. apply NoDup_filter. apply (ti_ids_nd _ _ _ Hinv).
        -- intros x. rewrite map_fst_filter_neq, in_filter_neq. intros [Hx1 Hx2].
           split; [assumption|congruence].
      * exact Hinv.
    + apply (tinv_listen m i None); try assumption.
      * apply (ti_ids_nd _ _ _ Hinv).
      * intros x Hx. split; [assumption|discriminate].
Qed.

Lemma tinv_drop_token m i s n : tinv m s n -> tinv m (drop_token i s) n.
Proof.
  intros Hinv. unfold drop_token. destruct (existsb (N.eqb i) (live s)) eqn:He; [|exact Hinv].
  apply existsb_exists in He. destruct He as [x [Hx Hxi]]. apply N.eqb_eq in Hxi. subst x.
  destruct Hinv as [H0 H1 H2 H3 H4 H5 H6 H7 H8 H9 H10].
  constructor; unfold fidx;
    rewrite ?notify1_tmax, ?notify1_permits, ?notify1_live, ?notify1_futs, ?notify1_next, ?notify1_ids;
    tf; unfold ids; tf; fold (ids s); fold (fidx s).
  - assumption.
  - pose proof (len_filter_remove i (live s) H2 Hx). lia.
  - apply NoDup_filter. assumption.
  - intros j. rewrite in_filter_neq. intros [Hj _]. apply H3; assumption.
  - assumption.
  - assumption.
  - intros j. rewrite in_filter_neq. intros [Hj _]. apply H6; assumption.
  - assumption.
  - assumption.
  - assumption.
  - intros _. apply notify1_has.
Qed.

Lemma tinv_drop_fut m i s n : tinv m s n -> tinv m (drop_fut i s) n.
Proof.
  intros Hinv. unfold drop_fut.
  destruct (fut_listener i (futs s)) as [lo|] eqn:Hf; [|exact Hinv].
  apply fut_listener_some in Hf.
  apply (tinv_remove m i lo s n (permits s) (live s)); try assumption.
  - apply (ti_perm _ _ _ Hinv).
  - apply (ti_live_nd _ _ _ Hinv).
  - apply (ti_live_lt _ _ _ Hinv).
  - intros j Hj. right. apply (ti_live_fut _ _ _ Hinv). assumption.
  - intros H; exact H.
Qed.

Lemma tinv_step m st o : tinv m (fst st) (snd st) -> tinv m (fst (tstep st o)) (snd (tstep st o)).
Proof.
  destruct st as [s n]. cbn [fst snd]. intros Hinv. destruct o as [|i|i|i]; cbn [tstep fst snd].
  - apply tinv_new; assumption.
  - apply tinv_poll; assumption.
  - apply tinv_drop_token; assumption.
  - apply tinv_drop_fut; assumption.
Qed.

Lemma tinv_fold m ops : forall st, tinv m (fst st) (snd st) ->
  tinv m (fst (fold_left tstep ops st)) (snd (fold_left tstep ops st)).
Proof.
  induction ops as [|o ops IH]; intros st Hinv; cbn [fold_left]; [exact Hinv|].
  apply IH. apply tinv_step. exact Hinv.
Qed.

Lemma tinv_run m ops : tinv m (fst (trun m ops)) (snd (trun m ops)).
Proof. unfold trun. apply tinv_fold. cbn [fst snd]. apply tinv_init. Qed.

(* ---- the C13 statements ---- *)
Lemma C13_bound : C13_bound_stmt.
Proof.
  unfold C13_bound_stmt. intros maxc ops. cbv zeta.
  pose proof (tinv_run maxc ops) as Hinv.
  pose proof (ti_perm _ _ _ Hinv) as Hp. rewrite (ti_max _ _ _ Hinv) in Hp.
  split; [exact Hp|]. split; [lia|]. apply (ti_live_nd _ _ _ Hinv).
Qed.

(* holds in every state, reachable or not *)
Lemma poll_immediate i s : 0 < permits s -> fut_listener i (futs s) <> None -> fst (poll_fut i s) = true.
Proof.
  intros Hp Hf. unfold poll_fut. destruct (fut_listener i (futs s)) as [lo|]; [|contradiction Hf; reflexivity].
  destruct (N.ltb_spec 0 (permits s)) as [H|H]; [reflexivity|lia].
Qed.

Lemma C13_immediate : C13_immediate_stmt.
Proof. unfold C13_immediate_stmt. intros maxc ops i. cbv zeta. apply poll_immediate. Qed.

Lemma C13_not_stranded : C13_not_stranded_stmt.
Proof.
  unfold C13_not_stranded_stmt. intros maxc ops. cbv zeta.
  exact (ti_ns _ _ _ (tinv_run maxc ops)).
Qed.

Lemma C13_listeners_owned : C13_listeners_owned_stmt.
Proof.
  unfold C13_listeners_owned_stmt. intros maxc ops id st. cbv zeta. intros Hin.
  apply (ti_owned _ _ _ (tinv_run maxc ops)). unfold ids. apply in_map_iff.
  exists (id, st). split; [reflexivity|assumption].
Qed.

(* wake counters: every operation keeps every counter and never decreases it (any state) *)
Definition wle (w w' : list (N * N)) : Prop :=
  forall i c, In (i, c) w -> exists c', In (i, c') w' /\ c <= c'.

Lemma wle_refl w : wle w w.
Proof. intros i c H. exists c. split; [assumption|lia]. Qed.

Lemma wle_trans a b c : wle a b -> wle b c -> wle a c.
Proof.
  intros H1 H2 i x Hx. destruct (H1 i x Hx) as [y [Hy Hxy]]. destruct (H2 i y Hy) as [z [Hz Hyz]].
  exists z. split; [assumption|lia].
Qed.

Lemma wle_bump f w : wle w (bump f w).
Proof.
  induction w as [|[j c0] w IH]; intros i c Hin; [contradiction Hin|]. cbn [bump].
  destruct (N.eqb_spec j f) as [E|E].
  - destruct Hin as [Hin|Hin].
    + inversion Hin; subst. exists (c + 1). split; [left; reflexivity|lia].
    + exists c. split; [right; assumption|lia].
  - destruct Hin as [Hin|Hin].
    + exists c. split; [left; assumption|lia].
    + destruct (IH i c Hin) as [c' [H1 H2]]. exists c'. split; [right; assumption|assumption].
Qed.

Lemma wle_notify1 s : wle (wakes s) (wakes (notify1 s)).
Proof.
  unfold notify1. destruct (1 <=? notified_count (lst s)); [apply wle_refl|].
  destruct (notify_first (lst s)) as [l' [f|]]; cbn [wakes]; [apply wle_bump|apply wle_refl].
Qed.

Lemma wle_drop_opt lo s : wle (wakes s) (wakes (drop_opt lo s)).
Proof.
  destruct lo as [id|]; [|apply wle_refl]. cbn [drop_opt]. rewrite drop_listener_eq.
  destruct (find (fun e => fst e =? id) (lst s)) as [[k [| |]]|]; try apply wle_refl.
  eapply wle_trans; [|apply wle_notify1]. apply wle_refl.
Qed.

Lemma wle_poll i s : wle (wakes s) (wakes (snd (poll_fut i s))).
Proof.
  unfold poll_fut. destruct (fut_listener i (futs s)) as [lo|]; [|apply wle_refl].
  destruct (0 <? permits s); cbn [snd].
  - eapply wle_trans; [|apply (wle_drop_opt lo)]. apply wle_refl.
  - destruct lo as [id|]; [|apply wle_refl].
    destruct (find (fun e => fst e =? id) (lst s)) as [[k [| |]]|]; apply wle_refl.
Qed.

Lemma wle_step st o : wle (wakes (fst st)) (wakes (fst (tstep st o))).
Proof.
  destruct st as [s n]. destruct o as [|i|i|i]; cbn [tstep fst snd].
  - unfold new_fut; cbn [wakes]. intros i c H. exists c. split; [right; assumption|lia].
  - apply wle_poll.
  - unfold drop_token. destruct (existsb (N.eqb i) (live s)); [|apply wle_refl].
    eapply wle_trans; [|apply wle_notify1]. apply wle_refl.
  - unfold drop_fut. destruct (fut_listener i (futs s)) as [lo|]; [|apply wle_refl].
    eapply wle_trans; [|apply (wle_drop_opt lo)]. apply wle_refl.
Qed.

Lemma C13_wakes_monotone : C13_wakes_monotone_stmt.
Proof.
  unfold C13_wakes_monotone_stmt. intros maxc ops o i c. cbv zeta. apply wle_step.
Qed.

Print Assumptions C13_bound.
Print Assumptions C13_immediate.
Print Assumptions C13_not_stranded.
Print Assumptions C13_wakes_monotone.
Print Assumptions C13_listeners_owned.
Print Assumptions C14_wg_inv.
Print Assumptions C14_ready_iff_done.
Print Assumptions C14_no_lost_wakeup.
