(* Async/ShutdownAnswerProofs.v — proof of Async/ShutdownAnswerTargets.v: in a run with a shutdown requested at any moment every closed
   handler invocation is answered exactly once (as in C07_epilogue_records), and either the invocations are those of the undisturbed
   run or the task returned with all of its invocations closed, an initial segment of the undisturbed run's.
   Corollary of ShutdownProofs.shutdown_cut (C14_shutdown_cut) and EpilogueProofs.epilogue_records (C07_epilogue_records).
   Part 1: the theorem.
   Part 2: an instance (the one of ShutdownProofs Part 5) in which the second alternative occurs with a proper initial segment. *)
From FV Require Import Base.Bytes Base.BytesLemmas Gen.Generated Codec.Header Codec.Bodies Parser.ReqModel Parser.ReqWire Parser.ReqTargets
  Parser.StreamModel
  Async.Conn Async.ConnWrites Async.ConnTotal Async.ConnReads Async.ReadsWTargets Async.LogTargets Async.FrameTargets
  Async.EpilogueTargets Async.EpilogueProofs Async.ShutdownTargets Async.ShutdownProofs Async.ShutdownAnswerTargets.

(* ================================================================================================ *)
(* Part 1: the theorem                                                                              *)
(* ================================================================================================ *)

Theorem shutdown_answers_inflight : shutdown_answers_inflight_stmt.
Proof.
  intros norm maxc fuel B scripts w1 w2 HB Wok Hlog Hnf H0 Hst Hs Hwk Hna HS.
  pose proof (epilogue_records norm maxc fuel B scripts w1 HB Wok Hlog Hnf H0 Hst Hs Hwk Hna) as HE.
  pose proof (shutdown_cut norm maxc fuel (new_parser B) scripts 0%nat w1 w2 [] HS H0 Hst) as HC.
  destruct (run_loop_log norm maxc fuel (new_parser B) scripts 0 w1 []) as [[o1 w1'] l1].
  destruct (run_loop_log norm maxc fuel (new_parser B) scripts 0 w2 []) as [[o2 w2'] l2].
  intros Ho.
  destruct (HC Ho) as [(_ & E & _)|(E1 & E2 & (t & T) & F & _)].
  - split; [rewrite E; exact HE|left; exact E].
  - split.
    + rewrite T in HE. apply Forall_app in HE. exact (proj1 HE).
    + right. split; [exact E1|]. split; [exact E2|]. split; [exact F|]. exists t. exact T.
Qed.
Print Assumptions shutdown_answers_inflight.

(* ================================================================================================ *)
(* Part 2: an instance.  The worlds, client and handler of ShutdownProofs Part 5 (exs_w: two KeepConn Responder requests and
   a client that then stays idle; every handler reads Stdin to the end and writes "hi" to Stdout).  Undisturbed (stop_at = 0) both
   requests are served and closed and the task waits for the idle client; with the shutdown requested before poll 2 (in the
   middle of request 1) the task returns after ONE invocation.                                       *)
(* ================================================================================================ *)
From FV Require Import Async.PeerTargets3 Async.PeerProofs3.

(* every hypothesis of the theorem holds ... *)
Example sai_hyps :
  64 < SIZE_LIMIT - 8 /\ world_ok (exs_w 0) /\ wlog (exs_w 0) = [] /\ no_fault (wscript (exs_w 0)) /\
  stop_at (exs_w 0) = 0 /\ stopped (exs_w 0) = false /\
  scripts_ok false ex3_scripts /\ Forall writes_std ex3_scripts /\ Forall no_abandoned_read ex3_scripts /\
  same_io (exs_w 0) (exs_w 2).
Proof.
  split; [vm_compute; reflexivity|]. split.
  { assert (Hb : forallb (fun s : N * N * bytes => bytes_okb (snd s)) (segs (exs_w 0)) = true) by (vm_compute; reflexivity).
    unfold world_ok. apply Forall_forall. intros s Hin. rewrite forallb_forall in Hb. apply bytes_okb_ok. exact (Hb s Hin). }
  split; [reflexivity|]. split; [constructor|]. split; [reflexivity|]. split; [reflexivity|]. split.
  { constructor; [|constructor]. intros role. apply SO_read_all. apply (SO_write false role _ 6 2 [104; 105]). apply SO_nil. }
  split.
  { constructor; [|constructor]. apply WS_all. apply (WS_write 6 2 [104; 105]); [left; reflexivity|apply WS_nil]. }
  split.
  { constructor; [|constructor]. apply NA_read_all. apply (NA_write 6 2 [104; 105]). apply NA_nil. }
  repeat split.
Qed.

(* ... the undisturbed run serves and closes two invocations and waits for the client; the run with the shutdown RETURNS with the
   first of them, closed: the second alternative, with a proper initial segment (l2 <> l1) *)
Example shutdown_answers_inflight_ex :
  let '(o1, w1', l1) := run_loop_log (fun b => b) 10 10 (new_parser 64) ex3_scripts 0 (exs_w 0) [] in
  let '(o2, w2', l2) := run_loop_log (fun b => b) 10 10 (new_parser 64) ex3_scripts 0 (exs_w 2) [] in
  o1 = ODeadlock /\ o2 = ORet /\ stopped w2' = true /\
  length l1 = 2%nat /\ length l2 = 1%nat /\ l1 = l2 ++ skipn 1 l1 /\
  map is_closed l1 = [true; true] /\ map is_closed l2 = [true].
Proof. vm_compute. repeat split. Qed.

(* the theorem applied to these worlds and this handler, for every normalisation function, max_conns and fuel *)
Example shutdown_answers_inflight_ex_any norm maxc fuel :
  let '(o1, w1', l1) := run_loop_log norm maxc fuel (new_parser 64) ex3_scripts 0 (exs_w 0) [] in
  let '(o2, w2', l2) := run_loop_log norm maxc fuel (new_parser 64) ex3_scripts 0 (exs_w 2) [] in
  (o1 = ORet \/ o1 = ODeadlock) ->
  Forall (fun s => match sv_closed s with Some L2 => answered_once s L2 | None => True end) l2 /\
  (l2 = l1 \/ (o2 = ORet /\ stopped w2' = true /\ Forall closed_entry l2 /\ exists t, l1 = l2 ++ t)).
Proof.
  destruct sai_hyps as (H1 & H2 & H3 & H4 & H5 & H6 & H7 & H8 & H9 & H10).
  exact (shutdown_answers_inflight norm maxc fuel 64 ex3_scripts (exs_w 0) (exs_w 2) H1 H2 H3 H4 H5 H6 H7 H8 H9 H10).
Qed.

(* ... in particular to the runs above: the first alternative is excluded (the lists have different lengths), so the theorem
   yields the second one: the one invocation of the run with the shutdown is closed, answered exactly once, and the undisturbed
   run's list continues with a non-empty rest *)
Example shutdown_answers_inflight_ex_thm :
  let l1 := snd (run_loop_log (fun b => b) 10 10 (new_parser 64) ex3_scripts 0 (exs_w 0) []) in
  let l2 := snd (run_loop_log (fun b => b) 10 10 (new_parser 64) ex3_scripts 0 (exs_w 2) []) in
  length l2 = 1%nat /\
  Forall (fun s => exists L2, sv_closed s = Some L2 /\ answered_once s L2) l2 /\
  exists t, t <> [] /\ l1 = l2 ++ t.
Proof.
  cbv zeta.
  assert (Ho : fst (fst (run_loop_log (fun b => b) 10 10 (new_parser 64) ex3_scripts 0 (exs_w 0) [])) = ODeadlock)
    by (vm_compute; reflexivity).
  assert (L1 : length (snd (run_loop_log (fun b => b) 10 10 (new_parser 64) ex3_scripts 0 (exs_w 0) [])) = 2%nat)
    by (vm_compute; reflexivity).
  assert (L2 : length (snd (run_loop_log (fun b => b) 10 10 (new_parser 64) ex3_scripts 0 (exs_w 2) [])) = 1%nat)
    by (vm_compute; reflexivity).
  pose proof (shutdown_answers_inflight_ex_any (fun b => b) 10 10%nat) as T.
  destruct (run_loop_log (fun b => b) 10 10 (new_parser 64) ex3_scripts 0 (exs_w 0) []) as [[o1 w1'] l1].
  destruct (run_loop_log (fun b => b) 10 10 (new_parser 64) ex3_scripts 0 (exs_w 2) []) as [[o2 w2'] l2].
  cbn [fst snd] in *.
  destruct (T (or_intror Ho)) as [HA [E|(_ & _ & HC & t & Ht)]].
  { exfalso. rewrite E, L1 in L2. discriminate L2. }
  split; [exact L2|]. split.
  - rewrite Forall_forall in HA, HC. apply Forall_forall. intros s Hin.
    specialize (HA s Hin). specialize (HC s Hin). unfold closed_entry in HC.
    destruct (sv_closed s) as [L|]; [|exfalso; apply HC; reflexivity].
    exists L. split; [reflexivity|exact HA].
  - exists t. split; [|exact Ht].
    intros ->. rewrite app_nil_r in Ht. rewrite Ht, L2 in L1. discriminate L1.
Qed.

Print Assumptions shutdown_answers_inflight.
Print Assumptions shutdown_answers_inflight_ex.
Print Assumptions shutdown_answers_inflight_ex_thm.
