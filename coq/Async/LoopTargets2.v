(* Async/LoopTargets2.v — statements: in-flight requests are not disturbed by a shutdown request (C14);
   nothing is written after a failed write when the handler propagates I/O errors (C12).
   Statements only; proofs go to Async/LoopProofs2.v. *)
From FV Require Import Base.Bytes Gen.Generated Codec.Header Parser.ReqModel Parser.ReqTargets Parser.StreamModel
  Async.Conn Async.ConnWrites Async.ConnTotal Async.ConnReads.

(* ---------------------------------------------------------------------------------------------- *)
(* C14: the shutdown request is looked at only between requests                                    *)
(* ---------------------------------------------------------------------------------------------- *)

(* two worlds that differ at most in the shutdown bookkeeping (when the stop request fires, whether it has
   fired, how many times the task was polled) *)
Definition same_mod_stop (w1 w2 : world) : Prop :=
  rscript w1 = rscript w2 /\ wscript w1 = wscript w2 /\ segs w1 = segs w2 /\ wlog w1 = wlog w2 /\
  consumed w1 = consumed w2 /\ vectored w1 = vectored w2 /\ events w1 = events w2.

(* A handler run that completes without a shutdown request completes in exactly the same way — same result,
   same request state, same bytes read and written, same handler observations — whenever and however often a
   shutdown is requested meanwhile: nothing inside a request looks at the stop listener. *)
Definition handler_ignores_stop_stmt : Prop := forall maxc f script r w1 w2 x w1',
  same_mod_stop w1 w2 ->
  run_handler maxc f script r w1 = Ok x w1' ->
  exists w2', run_handler maxc f script r w2 = Ok x w2' /\ same_mod_stop w1' w2'.

(* ... and so does Request::close: the in-flight request gets its complete epilogue and the same reuse decision *)
Definition close_ignores_stop_stmt : Prop := forall maxc r d c w1 w2 x w1',
  same_mod_stop w1 w2 ->
  do_close maxc r d c w1 = Ok x w1' ->
  exists w2', do_close maxc r d c w2 = Ok x w2' /\ same_mod_stop w1' w2'.

(* a blocked in-flight request is not aborted by the shutdown either: it keeps waiting for its client *)
Definition handler_block_stmt : Prop := forall maxc f script r w1 w2 w1',
  same_mod_stop w1 w2 ->
  run_handler maxc f script r w1 = Halt ODeadlock w1' ->
  exists w2', run_handler maxc f script r w2 = Halt ODeadlock w2' /\ same_mod_stop w1' w2'.

(* ---------------------------------------------------------------------------------------------- *)
(* C12: nothing is written after a failed write                                                    *)
(* ---------------------------------------------------------------------------------------------- *)

(* handlers that propagate I/O errors: [prop_script], defined in Async/ConnTotal.v (opcodes 4, 6, 7, 8, 9, 10: every read is
   `read(..).await?`, writes return their error, no op that observes an error and goes on) *)

Definition plain_fault (k : N) : Prop := k = W_ZERO \/ k = W_ERR.

(* The write script answers the transport's write calls one entry per call.  If its first fault (a zero-length
   write or a write error; the ConnectionAborted-kind error is excluded here, see DESIGN.md 13.3/F4) is entry
   number |pre|, then in the final world either that entry was never reached, or it was the LAST write call the
   task ever made: the remaining script is exactly [post], and the log holds only bytes accepted before it. *)
Definition nothing_after_failed_write_stmt : Prop :=
  forall (norm : bytes -> bytes) maxc fuel p scripts served w pre k post,
  Forall prop_script scripts ->
  wscript w = pre ++ k :: post -> no_fault pre -> plain_fault k ->
  let w' := snd (run_loop norm maxc fuel p scripts served w) in
  (exists s, wscript w' = s ++ k :: post) \/ wscript w' = post.
