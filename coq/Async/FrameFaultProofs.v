(* Async/FrameFaultProofs.v — proof of Async/FrameFaultTargets.v: with a first plain write fault (zero-length write or write
   error) anywhere in the write script and handlers that propagate I/O errors, the transport log of a whole connection is
   framed at every end of the run.
   The invariant of Async/FrameProofs.v ([FI]: the unsent parser output completes the log to whole records) is threaded
   through every function of Async/Conn.v together with the case split of Async/LoopProofs2.v Part B: the world is [Bef]
   (the fault entry is still ahead: every write call so far was answered by a non-fault entry, the fault-free reasoning
   applies) or [Aft] (the fault entry was consumed by the last write call, which appended nothing: the log is the log of a
   [Bef] world, hence framed; and the function returns the error, so that the propagating caller stops without a further
   write call).
   Part A: the transport and the "write all" loops.  Part B: Request::*.  Part C: handlers, Token::parse_request, Token::run.
   Part D: the theorem.  Part E: two runs. *)
From Coq Require Import ZArith.
From FV Require Import Base.Bytes Base.BytesLemmas Gen.Generated Codec.Varint Codec.NV Codec.Header Codec.Bodies Codec.Vars
  Codec.ProtoProofs Parser.ReqModel Parser.ReqWire Parser.ReqTargets Parser.ReqDrive Parser.ReqRecords
  Parser.StreamModel Parser.AbsStream Parser.StreamRefine Parser.StreamInv Parser.EnvCanon
  Async.Conn Async.ConnWrites Async.ConnTotal Async.ConnReads Async.PeerProofs Async.PeerProofs2 Async.LogProofs Async.ReadsWTargets
  Async.PeerTargets Async.PeerTargets2 Async.LoopTargets2 Async.LoopProofs2 Async.FrameTargets Async.FrameProofs Async.FrameFaultTargets.
From Coq Require Import ZifyBool ZifyNat ZifyN.
Ltac Zify.zify_post_hook ::= Z.div_mod_to_equations.

Section Faults.
Variable k : N.
Variable post : list N.
Hypothesis Hk : plain_fault k.

Notation BefW := (Bef k post).
Notation AftW := (Aft post).

(* ------------------------------------------------------------------------------------------ *)
(* Part A: the transport and the write loops                                                    *)
(* ------------------------------------------------------------------------------------------ *)

Lemma Bef_bump w : BefW w -> BefW (w_bump w).
Proof. apply Bef_ws. reflexivity. Qed.

Lemma Bef_stop w : BefW w -> BefW (w_stop w).
Proof. apply Bef_ws. reflexivity. Qed.

Lemma FI_ev r w e : FI r w -> FI r (w_ev w e).
Proof. intros F. apply (FI_wlog r w); [exact F|reflexivity]. Qed.

Lemma FI_bump r w : FI r w -> FI r (w_bump w).
Proof. intros F. apply (FI_wlog r w); [exact F|reflexivity]. Qed.

Lemma FI_stop r w : FI r w -> FI r (w_stop w).
Proof. intros F. apply (FI_wlog r w); [exact F|reflexivity]. Qed.

(* one write call: answered by an entry before the fault (the fault-free cases), or by the fault: nothing is appended *)
Lemma tpw_C offer w p w' : BefW w -> offer <> [] -> t_poll_write offer w = (p, w') ->
  (BefW w' /\ ((p = PWake /\ wlog w' = wlog w) \/
               exists n, p = PReady (inl n) /\ n <> 0 /\ n <= len offer /\ wlog w' = wlog w ++ take n offer)) \/
  (AftW w' /\ wlog w' = wlog w /\ (p = PReady (inl 0) \/ p = PReady (inr EK_Transport))).
Proof.
  intros HB Ho ET. destruct (t_poll_write_cases offer w p w' ET) as (Hio & _ & _ & _ & _ & Hp).
  pose proof (io_rel_wlog _ _ _ Hio) as Hl.
  destruct (tpw_B k post Hk _ _ _ _ HB Ho ET) as [(B1 & [->|(n & -> & Hn)])|(A1 & [->| ->])]; cbv iota beta in Hl.
  - left. split; [exact B1|]. left. split; [reflexivity|]. rewrite app_nil_r in Hl. exact Hl.
  - left. split; [exact B1|]. right. exists n. split; [reflexivity|]. split; [exact Hn|]. split; [apply Hp|exact Hl].
  - right. split; [exact A1|]. split; [|left; reflexivity]. rewrite take_0, app_nil_r in Hl. exact Hl.
  - right. split; [exact A1|]. split; [|right; reflexivity]. rewrite app_nil_r in Hl. exact Hl.
Qed.

(* the "write all of b" loops: success before the fault, an error exactly when the fault was consumed *)
Definition wB (x : res (option N)) : Prop :=
  match x with
  | Ok None w' => BefW w'
  | Ok (Some e) w' => AftW w' /\ nab e
  | Halt _ w' => BefW w'
  end.

Lemma awa_wB fuel : forall sel b w, BefW w -> wB (await_write_all fuel sel b w).
Proof.
  induction fuel as [|f IH]; intros sel b w HB; [exact HB|]. cbn [await_write_all].
  destruct b as [|x b']; [exact HB|].
  destruct (t_poll_write (x :: b') w) as [p w1] eqn:ET.
  destruct (tpw_B k post Hk _ _ _ _ HB (cons_nonnil _ _) ET) as [(B1 & [->|(n & -> & Hn)])|(A1 & [->| ->])].
  - unfold on_wake. destruct (sel && stopped (w_bump w1)); [exact B1|]. apply IH. exact B1.
  - destruct (N.eqb_spec n 0) as [|_]; [contradiction|]. apply IH. exact B1.
  - change (0 =? 0) with true. cbv iota. split; [exact A1|exact nab_wz].
  - split; [exact A1|exact nab_tr].
Qed.

Lemma write_slices_wB fuel : forall slices w, BefW w -> wB (write_slices fuel slices w).
Proof.
  induction fuel as [|f IH]; intros slices w HB; [exact HB|]. rewrite ConnTotal.write_slices_S.
  destruct (filter (fun s => negb (len s =? 0)) slices) as [|s1 more] eqn:EF; [exact HB|].
  pose proof (filter_head_nonempty _ _ _ EF) as Hs1.
  match goal with |- context [t_poll_write ?o w] =>
    assert (Ho : o <> []) by (destruct (vectored w); [destruct s1; [contradiction|discriminate]|exact Hs1]);
    revert Ho; generalize o end. intros offer Ho.
  destruct (t_poll_write offer w) as [p w1] eqn:ET.
  destruct (tpw_B k post Hk _ _ _ _ HB Ho ET) as [(B1 & [->|(n & -> & Hn)])|(A1 & [->| ->])].
  - rewrite on_wake_false. apply IH. exact B1.
  - destruct (N.eqb_spec n 0) as [|_]; [contradiction|]. apply IH. exact B1.
  - change (0 =? 0) with true. cbv iota. split; [exact A1|exact nab_wz].
  - split; [exact A1|exact nab_tr].
Qed.

Lemma writer_write_all_wB fuel : forall stype id data w, BefW w -> wB (writer_write_all fuel stype id data w).
Proof.
  induction fuel as [|f IH]; intros stype id data w HB; [exact HB|]. rewrite writer_write_all_S.
  destruct data as [|x data']; [exact HB|]. cbv zeta.
  set (n := N.min (len (x :: data')) 65535).
  pose proof (write_slices_wB (io_fuel w (n + 300)) [hdr_encode stype id n (auto_padding n); take n (x :: data'); zeros (auto_padding n)] w HB) as WS.
  destruct (write_slices _ _ w) as [[e|] w'|o w']; cbn [wB] in *.
  - exact WS.
  - apply IH. exact WS.
  - exact WS.
Qed.

(* what a "write all of b" loop leaves behind when b completes the log to whole records *)
Definition wfrC (b : bytes) (w : world) (x : res (option N)) : Prop :=
  match x with
  | Ok None w' => BefW w' /\ wlog w' = wlog w ++ b
  | Ok (Some e) w' => AftW w' /\ nab e /\ framed (wlog w')
  | Halt _ w' => framed (wlog w')
  end.

Lemma wpost_C sel b w x : wpost sel b w x -> wB x -> recs (wlog w ++ b) -> wfrC b w x.
Proof.
  intros P HBx R.
  assert (FR : forall b1 b2 w', b = b1 ++ b2 -> io_rel w w' b1 -> framed (wlog w')).
  { intros b1 b2 w' Hb Hio. rewrite (io_rel_wlog _ _ _ Hio). apply (framed_recs _ b2). rewrite <- app_assoc, <- Hb. exact R. }
  destruct x as [[e|] w'|o w']; cbn [wpost wB wfrC] in *.
  - destruct P as (b1 & b2 & Hb & _ & Hio & _). destruct HBx as [A1 He].
    split; [exact A1|]. split; [exact He|]. eapply FR; eassumption.
  - split; [exact HBx|apply io_rel_wlog; exact P].
  - destruct o; try contradiction.
    + destruct P as (_ & _ & b1 & b2 & Hb & _ & Hio). eapply FR; eassumption.
    + destruct P as (b1 & b2 & Hb & Hio). eapply FR; eassumption.
Qed.

Lemma awa_C fuel sel b w : BefW w -> recs (wlog w ++ b) -> wfrC b w (await_write_all fuel sel b w).
Proof.
  intros HB R. apply (wpost_C sel); [apply await_write_all_post|apply awa_wB; exact HB|exact R].
Qed.

Lemma wwa_C fuel stype id data w : BefW w -> recs (wlog w) -> known_type stype = true ->
  wfrC (stream_records stype id data) w (writer_write_all fuel stype id data w).
Proof.
  intros HB R Ht. apply (wpost_C false); [apply writer_write_all_post|apply writer_write_all_wB; exact HB|].
  apply recs_app; [exact R|apply stream_records_recs; exact Ht].
Qed.

(* reads do not touch the write side *)
Lemma await_read_C fuel sel L w :
  match await_read fuel sel L w with Ok _ w' | Halt _ w' => wlog w' = wlog w /\ wscript w' = wscript w end.
Proof.
  pose proof (await_read_rem fuel sel L w) as H.
  destruct (await_read fuel sel L w) as [[b|e] w'|o w']; (split; [apply H|apply H]).
Qed.

(* ------------------------------------------------------------------------------------------ *)
(* Part B: Request::poll_output / poll_input / writeable / record_boundary / close               *)
(* ------------------------------------------------------------------------------------------ *)

(* a poll function: before the fault with the invariant, or right after it with the error as its result *)
Definition ppostC {A} (p : pres (A + N)) (r' : rstate) (w' : world) : Prop :=
  (BefW w' /\ FI r' w') \/ (AftW w' /\ framed (wlog w') /\ exists e, p = PReady (inr e) /\ nab e).

Lemma ppostC_cast {A B} (p : pres (A + N)) (q : pres (B + N)) r w :
  ppostC p r w -> (forall e, p = PReady (inr e) -> q = PReady (inr e)) -> ppostC q r w.
Proof.
  intros [H|(H & Fr & e & -> & He)] Hq; [left; exact H|right]. split; [exact H|]. split; [exact Fr|].
  exists e. split; [apply Hq; reflexivity|exact He].
Qed.

Lemma poll_output_C : forall fuel r w, BefW w -> FI r w ->
  match poll_output fuel r w with (p, r', w') => ppostC p r' w' end.
Proof.
  induction fuel as [|f IH]; intros r w HB F; [left; split; assumption|].
  cbn [poll_output]. destruct F as (O & A & B).
  destruct (output_buffer (rsp r)) as [|x o'] eqn:Eo.
  - left. split; [exact HB|]. unfold FI. cbn [rsp rlock]. rewrite Eo. split; [exact O|]. split; [exact A|].
    intros _. rewrite app_nil_r in A. exact A.
  - destruct (t_poll_write (x :: o') w) as [p w1] eqn:ET.
    destruct (tpw_C _ _ _ _ HB (cons_nonnil _ _) ET) as [(B1 & [(-> & L1)|(n & -> & Hn & Hle & L1)])|(A1 & L1 & [->| ->])].
    + left. split; [exact B1|]. unfold FI. cbn [rsp rlock]. rewrite Eo, L1. split; [exact O|]. split; [exact A|discriminate].
    + destruct (N.eqb_spec n 0) as [|_]; [contradiction|]. apply IH; [exact B1|]. unfold FI. cbn [rsp rlock].
      split; [apply consume_output_oinv; exact O|]. split; [|discriminate].
      rewrite consume_output_buffer, Eo, L1, <- app_assoc, take_drop. exact A.
    + change (0 =? 0) with true. cbv iota. right. split; [exact A1|]. split; [rewrite L1; eapply framed_recs; exact A|].
      exists EK_WriteZero. split; [reflexivity|exact nab_wz].
    + right. split; [exact A1|]. split; [rewrite L1; eapply framed_recs; exact A|].
      exists EK_Transport. split; [reflexivity|exact nab_tr].
Qed.

Section WithMaxc.
Variable maxc : N.

Lemma input_loop_C : forall fuel dest new r w, BefW w -> FI r w ->
  match input_loop maxc fuel dest new r w with (p, r', w') => ppostC p r' w' end.
Proof.
  induction fuel as [|f IH]; intros dest new r w HB F; [left; split; assumption|].
  cbn [input_loop]. pose proof (sparse_ext maxc (rsp r) new dest) as X.
  destruct (sparse maxc (rsp r) new dest) as [p1 s|p1 e s|n].
  - destruct (s_end s || (0 <? s_stream s)).
    + left. split; [exact HB|].
      match goal with |- context [if ?c then _ else _] => destruct c end; apply FI_pext; assumption.
    + set (r2 := mkR (compress p1) (rwriteable r) (rlock r) (raborted r)).
      assert (F2 : FI r2 w) by (apply FI_pext; [exact F|eapply pext_trans; [exact X|apply compress_pext]]).
      pose proof (poll_output_C (S f) r2 w HB F2) as PO.
      destruct (poll_output (S f) r2 w) as [[po r3] w0].
      destruct po as [[u|e]| |].
      * destruct PO as [[B0 F0]|(_ & _ & e & E & _)]; [|discriminate E].
        destruct (t_poll_read (sinput_space (rsp r3)) w0) as [pr w1] eqn:ET.
        destruct (t_poll_read_rem _ _ _ _ ET) as (L1 & WS & _).
        pose proof (Bef_ws k post _ _ WS B0) as B1. pose proof (FI_wlog _ _ _ F0 L1) as F1.
        destruct pr as [[b|e]| |]; try (left; split; assumption).
        destruct b as [|y b']; [left; split; assumption|]. apply IH; assumption.
      * eapply ppostC_cast; [exact PO|]. intros e' E. injection E as ->. reflexivity.
      * eapply ppostC_cast; [exact PO|]. intros e' E. discriminate E.
      * eapply ppostC_cast; [exact PO|]. intros e' E. discriminate E.
  - left. split; [exact HB|]. apply FI_pext; assumption.
  - left. split; assumption.
Qed.

Lemma poll_input_C fuel dest r w : BefW w -> FI r w ->
  match poll_input maxc fuel dest r w with (p, r', w') => ppostC p r' w' end.
Proof.
  intros HB F. unfold poll_input. cbv zeta.
  assert (POLL : match (match poll_output fuel r w with
                 | (PReady (inl _), r1, w1) => input_loop maxc fuel dest [] r1 w1
                 | (PReady (inr e), r1, w1) => (PReady (inr e), r1, w1)
                 | (PWake, r1, w1) => (PWake, r1, w1)
                 | (PBlock, r1, w1) => (PBlock, r1, w1)
                 end) with (p, r', w') => ppostC p r' w' end).
  { pose proof (poll_output_C fuel r w HB F) as PO. destruct (poll_output fuel r w) as [[po r1] w1].
    destruct po as [[u|e]| |].
    - destruct PO as [[B1 F1]|(_ & _ & e & E & _)]; [|discriminate E]. apply input_loop_C; assumption.
    - eapply ppostC_cast; [exact PO|]. intros e' E. injection E as ->. reflexivity.
    - eapply ppostC_cast; [exact PO|]. intros e' E. discriminate E.
    - eapply ppostC_cast; [exact PO|]. intros e' E. discriminate E. }
  destruct dest as [c|].
  - destruct c as [|c'].
    + destruct (stream_buffer (rsp r)); left; split; assumption.
    + destruct (stream_buffer (rsp r)) as [|x sb']; [exact POLL|].
      left. split; [exact HB|]. apply FI_pext; [exact F|apply consume_stream_pext].
  - destruct (stream_buffer (rsp r)) as [|x sb']; [exact POLL|left; split; assumption].
Qed.

(* an awaited computation on a request *)
Definition E_err {X} (x : X + N) : Prop := exists e, x = inr e /\ nab e.

Definition rpostC {X} (E : X -> Prop) (x : res (X * rstate)) : Prop :=
  match x with
  | Ok (a, r') w' => (BefW w' /\ FI r' w') \/ (AftW w' /\ framed (wlog w') /\ E a)
  | Halt _ w' => framed (wlog w')
  end.

Lemma await_input_C : forall fuel dest r w, BefW w -> FI r w -> rpostC E_err (await_input maxc fuel dest r w).
Proof.
  induction fuel as [|f IH]; intros dest r w HB F; [eapply FI_framed; exact F|].
  cbn [await_input].
  pose proof (poll_input_C (io_fuel w (len (buffer (rsp r)))) dest r w HB F) as PI.
  destruct (poll_input maxc (io_fuel w (len (buffer (rsp r)))) dest r w) as [[p r1] w1].
  destruct p as [x| |].
  - destruct PI as [PI|(A1 & Fr & e & E & He)]; [left; exact PI|right]. split; [exact A1|]. split; [exact Fr|].
    exists e. injection E as ->. split; [reflexivity|exact He].
  - destruct PI as [[B1 F1]|(_ & _ & e & E & _)]; [|discriminate E]. rewrite on_wake_false.
    apply IH; [apply Bef_bump; exact B1|apply FI_bump; exact F1].
  - destruct PI as [[B1 F1]|(_ & _ & e & E & _)]; [|discriminate E]. unfold on_block.
    destruct (negb (stop_at w1 =? 0) && negb (stopped w1)); [|eapply FI_framed; exact F1].
    apply IH; [apply Bef_stop; exact B1|apply FI_stop; exact F1].
Qed.

Lemma do_writeable_C r w : BefW w -> FI r w -> rpostC E_opt (do_writeable maxc r w).
Proof.
  intros HB F. unfold do_writeable. destruct (rwriteable r); [left; split; assumption|].
  match goal with |- context [set_stream ?p ?s] => destruct (set_stream p s) as [p'| |] eqn:ES end;
    [|eapply FI_framed; exact F..].
  apply set_stream_ext in ES.
  match goal with |- context [await_input maxc ?fu ?d ?r0 w] =>
    pose proof (await_input_C fu d r0 w HB (FI_pext r w p' _ _ F ES)) as H;
    destruct (await_input maxc fu d r0 w) as [[[v|e] r'] w'|o w'] end; cbn [rpostC] in *.
  - destruct H as [H|(_ & _ & e & E & _)]; [left; exact H|discriminate E].
  - destruct H as [H|(A1 & Fr & e' & E & He)]; [left; exact H|right]. injection E as ->.
    split; [exact A1|]. split; [exact Fr|]. exists e'. split; [reflexivity|exact He].
  - exact H.
Qed.

(* Request::record_boundary reads only: it stays before the fault *)
Definition bpostC {X} (x : res (X * rstate)) : Prop :=
  match x with
  | Ok (_, r') w' => BefW w' /\ FI r' w'
  | Halt _ w' => framed (wlog w')
  end.

Lemma boundary_loop_C : forall fuel new r w, BefW w -> FI r w -> bpostC (boundary_loop maxc fuel new r w).
Proof.
  induction fuel as [|f IH]; intros new r w HB F; [eapply FI_framed; exact F|].
  rewrite ConnTotal.boundary_loop_S.
  assert (AFTER : forall p', pext (rsp r) p' -> bpostC (ConnTotal.bl_after maxc f r w p')).
  { intros p' X. unfold ConnTotal.bl_after. cbv zeta. destruct (is_record_boundary p').
    { split; [exact HB|apply FI_pext; assumption]. }
    assert (F2 : FI (mkR (compress p') (rwriteable r) (rlock r) (raborted r)) w).
    { apply FI_pext; [exact F|eapply pext_trans; [exact X|apply compress_pext]]. }
    pose proof (await_read_C (io_fuel w 0) false (sinput_space (compress p')) w) as AR.
    destruct (await_read (io_fuel w 0) false (sinput_space (compress p')) w) as [[b|e] w1|o w1]; destruct AR as [L1 WS].
    - pose proof (FI_wlog _ _ _ F2 L1) as F1. pose proof (Bef_ws k post _ _ WS HB) as B1.
      destruct b as [|x b']; [split; assumption|]. apply IH; assumption.
    - split; [exact (Bef_ws k post _ _ WS HB)|apply (FI_wlog _ _ _ F2 L1)].
    - eapply FI_framed. apply (FI_wlog _ _ _ F2 L1). }
  pose proof (sparse_ext maxc (rsp r) new None) as X.
  destruct (sparse maxc (rsp r) new None) as [p' s|p' e s|n];
    [apply AFTER; exact X| |eapply FI_framed; exact F].
  destruct e; try (apply AFTER; exact X); (split; [exact HB|apply FI_pext; assumption]).
Qed.

Lemma record_boundary_C r w : BefW w -> FI r w -> bpostC (record_boundary maxc r w).
Proof.
  intros HB F. unfold record_boundary.
  destruct (is_record_boundary (rsp r)); [split; assumption|apply boundary_loop_C; assumption].
Qed.

(* Request::close: a parser for the next request before the fault with a whole log; anything else ends the task *)
Definition cpostC (x : res (parser + N)) : Prop :=
  match x with
  | Ok (inl _) w' => BefW w' /\ recs (wlog w')
  | Ok (inr _) w' => framed (wlog w')
  | Halt _ w' => framed (wlog w')
  end.

Lemma close_finish_C r3 d c w2 : BefW w2 -> FI r3 w2 -> cpostC (close_finish r3 d c w2).
Proof.
  intros HB F. unfold close_finish.
  destruct (epilogue (r_id (sreq (rsp r3))) d c (if rwriteable r3 then ROLE_OUTPUT_STREAMS else [])) as [ep|] eqn:Eep;
    [|eapply FI_framed; exact F].
  apply epilogue_recs in Eep. cbv zeta. set (out := output_buffer (rsp r3)).
  assert (R : recs (wlog w2 ++ out)) by apply F.
  pose proof (awa_C (io_fuel w2 (len out)) false out w2 HB R) as A1.
  destruct (await_write_all (io_fuel w2 (len out)) false out w2) as [[k3|] w3|o w3]; cbn [wfrC cpostC] in *;
    [apply A1| |exact A1].
  destruct A1 as [B3 L3].
  assert (R3 : recs (wlog w3 ++ ep)) by (rewrite L3; apply recs_app; assumption).
  pose proof (awa_C (io_fuel w3 (len ep)) false ep w3 B3 R3) as A2.
  destruct (await_write_all (io_fuel w3 (len ep)) false ep w3) as [[k4|] w4|o w4]; cbn [wfrC cpostC] in *;
    [apply A2| |exact A2].
  destruct A2 as [B4 L4]. rewrite <- L4 in R3.
  destruct (N.land (r_flags (sreq (close_p4 r3))) FLAG_KeepConn =? FLAG_KeepConn); [|apply framed_of_recs; exact R3].
  destruct (into_request_parser (close_p4 r3)); [split; assumption|apply framed_of_recs; exact R3..].
Qed.

Lemma close_tail_C r1 d c w1 : BefW w1 -> FI r1 w1 -> cpostC (close_tail maxc r1 d c w1).
Proof.
  intros HB F. rewrite close_tail_unfold.
  destruct (set_stream (rsp r1) None) as [p2| |] eqn:ES; [|eapply FI_framed; exact F..].
  apply set_stream_ext in ES. set (r2 := mkR p2 (rwriteable r1) (rlock r1) (raborted r1)).
  assert (F2 : FI r2 w1) by (apply FI_pext; assumption).
  pose proof (record_boundary_C r2 w1 HB F2) as RB.
  destruct (record_boundary maxc r2 w1) as [[[k2|] r3] w2|o w2]; cbn [bpostC cpostC] in *.
  - eapply FI_framed. apply RB.
  - destruct RB as [B2 F3]. apply close_finish_C; assumption.
  - exact RB.
Qed.

Lemma do_close_C r d c w : BefW w -> FI r w -> cpostC (do_close maxc r d c w).
Proof.
  intros HB F. unfold do_close. pose proof (do_writeable_C r w HB F) as DW.
  destruct (do_writeable maxc r w) as [[e r1] w1|o w1]; cbn [rpostC] in DW; [|exact DW].
  destruct DW as [[B1 F1]|(A1 & Fr & e' & E & He)].
  - pose proof (close_tail_C r1 d c w1 B1 F1) as CT.
    destruct e as [e|]; [|exact CT]. destruct ((e =? EK_Aborted) && raborted r1); [exact CT|].
    eapply FI_framed. exact F1.
  - subst e. destruct (N.eqb_spec e' EK_Aborted) as [Ha|_]; [contradiction (He Ha)|]. cbn [andb]. exact Fr.
Qed.

(* ------------------------------------------------------------------------------------------ *)
(* Part C: handlers that propagate errors, Token::parse_request, Token::run                      *)
(* ------------------------------------------------------------------------------------------ *)

Lemma wk_set s rest : writes_known (4 :: s :: rest) -> writes_known rest.
Proof. intros H. inversion H as [| | | |s0 rest0 H0| | | | | | |]; subst. exact H0. Qed.

Lemma wk_write s n rest : writes_known (6 :: s :: n :: rest) -> known_type s = true /\ writes_known (drop n rest).
Proof. intros H. inversion H as [| | | | | |s0 n0 rest0 Hs H0| | | | |]; subst. split; assumption. Qed.

Lemma wk_flush s rest : writes_known (7 :: s :: rest) -> writes_known rest.
Proof. intros H. inversion H as [| | | | | | |s0 rest0 Hs H0| | | |]; subst. exact H0. Qed.

Lemma wk_readq n rest : writes_known (10 :: n :: rest) -> writes_known rest.
Proof. intros H. inversion H as [| | | | | | | | | |n0 rest0 H0|]; subst. exact H0. Qed.

Lemma run_handler_C : forall fuel script r w, prop_script script -> writes_known script -> BefW w -> FI r w ->
  rpostC E_err (run_handler maxc fuel script r w).
Proof.
  induction fuel as [|f IH]; intros script r w PS WK HB F; [eapply FI_framed; exact F|].
  inversion PS as [|s rest PS'|s n rest PS'|s rest PS'|d c rest|e rest|n rest PS']; subst; cbn [run_handler].
  - (* end of script *) left. split; [apply Bef_ev; exact HB|apply FI_ev; exact F].
  - (* 4 s *)
    apply wk_set in WK.
    destruct (set_stream (rsp r) (Some s)) as [p'| |] eqn:E; [|eapply FI_framed; exact F..].
    apply IH; [exact PS'|exact WK|apply Bef_ev; exact HB|]. apply FI_ev. apply (FI_pext r w p' _ _ F).
    apply set_stream_ext with (s := Some s). exact E.
  - (* 6 s n data *)
    apply wk_write in WK. destruct WK as [Hs WK].
    cbv zeta. destruct (negb (rwriteable r)); [apply IH; [exact PS'|exact WK|apply Bef_ev; exact HB|apply FI_ev; exact F]|].
    destruct (rlock r) eqn:Elk.
    + destruct (N.eqb_spec (len (take n rest)) 0) as [Hz|Hz]; cbn [negb andb].
      * apply len_zero_nil in Hz. rewrite Hz. rewrite writer_write_all_empty by lia.
        apply IH; [exact PS'|exact WK|apply Bef_ev; exact HB|apply FI_ev; exact F].
      * eapply FI_framed. exact F.
    + cbn [andb].
      pose proof (wwa_C (N.to_nat (n / 65535) + 2) s (r_id (sreq (rsp r))) (take n rest) w HB (proj2 (proj2 F) Elk) Hs) as WW.
      destruct (writer_write_all (N.to_nat (n / 65535) + 2) s (r_id (sreq (rsp r))) (take n rest) w) as [[e|] w1|o w1];
        cbn [wfrC rpostC] in *.
      * destruct WW as (A1 & He & Fr). right. split; [apply Aft_ev; exact A1|]. split; [exact Fr|].
        exists e. split; [reflexivity|exact He].
      * destruct WW as [B1 L1]. apply IH; [exact PS'|exact WK|apply Bef_ev; exact B1|]. apply FI_ev.
        apply (FI_write r w _ (stream_records s (r_id (sreq (rsp r))) (take n rest)) F Elk L1).
        apply stream_records_recs. exact Hs.
      * exact WW.
  - (* 7 s *)
    apply wk_flush in WK.
    destruct (rwriteable r); [destruct (rlock r); [eapply FI_framed; exact F|]|];
      (apply IH; [exact PS'|exact WK|apply Bef_ev; exact HB|apply FI_ev; exact F]).
  - (* 8 d c *) left. split; [apply Bef_ev; exact HB|apply FI_ev; exact F].
  - (* 9 e *) left. split; [apply Bef_ev; exact HB|apply FI_ev; exact F].
  - (* 10 n *)
    apply wk_readq in WK.
    pose proof (await_input_C (io_fuel w 0) (Some n) r w HB F) as A.
    destruct (await_input maxc (io_fuel w 0) (Some n) r w) as [[[[c b]|e] r1] w1|o w1]; cbn [rpostC] in *.
    + destruct A as [[B1 F1]|(_ & _ & e & E & _)]; [|discriminate E].
      apply IH; [exact PS'|exact WK|apply Bef_ev, Bef_ev; exact B1|apply FI_ev, FI_ev; exact F1].
    + destruct A as [[B1 F1]|(A1 & Fr & e' & E & He)].
      * left. split; [apply Bef_ev, Bef_ev; exact B1|apply FI_ev, FI_ev; exact F1].
      * right. injection E as ->. split; [apply Aft_ev, Aft_ev; exact A1|]. split; [exact Fr|].
        exists e'. split; [reflexivity|exact He].
    + exact A.
Qed.

Section WithNorm.
Variable norm : bytes -> bytes.

Definition qpostC (x : res (sp + N)) : Prop :=
  match x with
  | Ok (inl s) w' => BefW w' /\ recs (wlog w') /\ output s = [] /\ output_start s = 0
  | Ok (inr _) w' => framed (wlog w')
  | Halt _ w' => framed (wlog w')
  end.

Lemma parse_request_C : forall fuel p new w, BefW w -> recs (wlog w) -> qpostC (parse_request norm maxc fuel p new w).
Proof.
  induction fuel as [|f IH]; intros p new w HB R; [apply framed_of_recs; exact R|].
  cbn [parse_request]. destruct (parse norm maxc p new) as [p' done out|n] eqn:EP; [|apply framed_of_recs; exact R].
  apply parse_out_recs in EP.
  pose proof (awa_C (io_fuel w (len out)) true out w HB (recs_app _ _ R EP)) as A1.
  destruct (await_write_all (io_fuel w (len out)) true out w) as [[e|] w1|o w1]; cbn [wfrC qpostC] in *;
    [apply A1| |exact A1].
  destruct A1 as [B1 L1]. assert (R1 : recs (wlog w1)) by (rewrite L1; apply recs_app; assumption).
  destruct done.
  - destruct (into_stream_parser p') as [s|e] eqn:EI.
    + split; [exact B1|]. split; [exact R1|]. apply (into_stream_parser_out p' s EI).
    + apply framed_of_recs. exact R1.
  - pose proof (await_read_C (io_fuel w1 0) true (input_space p') w1) as AR.
    destruct (await_read (io_fuel w1 0) true (input_space p') w1) as [[b|e] w2|o w2]; destruct AR as [L2 WS];
      rewrite <- L2 in R1.
    + destruct b as [|x b']; [apply framed_of_recs; exact R1|].
      apply IH; [exact (Bef_ws k post _ _ WS B1)|exact R1].
    + apply framed_of_recs. exact R1.
    + apply framed_of_recs. exact R1.
Qed.

Lemma fold_ev_wlog (env : list (bytes * bytes)) : forall w,
  wlog (fold_left (fun w p => w_ev (w_ev w (fst p)) (snd p)) env w) = wlog w.
Proof. induction env as [|x env IH]; intros w; [reflexivity|]. cbn [fold_left]. rewrite IH. reflexivity. Qed.

Lemma run_loop_C scripts : Forall prop_script scripts -> Forall writes_known scripts ->
  forall fuel p served w, BefW w -> recs (wlog w) ->
  framed (wlog (snd (run_loop norm maxc fuel p scripts served w))).
Proof.
  intros HPS HWK. induction fuel as [|f IH]; intros p served w HB R; [apply framed_of_recs; exact R|].
  cbn [run_loop].
  destruct (stopped w); [apply framed_of_recs; exact R|].
  pose proof (parse_request_C (io_fuel w 0) p [] w HB R) as PR.
  destruct (parse_request norm maxc (io_fuel w 0) p [] w) as [[s0|e] w1|o w1]; cbn [qpostC snd] in *; [|exact PR..].
  destruct PR as (B1 & R1 & Eo & Es).
  set (role := r_role (sreq s0)) in *.
  set (r0 := mkR s0 (len (role_input_streams role) <=? 1) false false).
  assert (F0 : FI r0 w1).
  { unfold FI, oinv, output_buffer. subst r0. cbn [rsp rlock]. rewrite Eo, Es. change (len (@nil N)) with 0.
    split; [lia|]. split; [|intros _; exact R1]. change (drop 0 (@nil N)) with (@nil N). rewrite app_nil_r. exact R1. }
  cbv zeta.
  match goal with |- context [fold_left ?fn ?env ?wi] =>
    assert (B2 : BefW (fold_left fn env wi)) by (eapply Bef_ws; [apply fold_ev_ws|]; apply Bef_ev, Bef_ev; exact B1);
    assert (F2 : FI r0 (fold_left fn env wi)) by (apply (FI_wlog r0 w1); [exact F0|rewrite fold_ev_wlog; reflexivity]);
    set (w2 := fold_left fn env wi) in * end.
  set (script := nth served scripts (last scripts [])).
  assert (PS : prop_script script).
  { subst script. apply Forall_nth_default; [exact HPS|]. apply Forall_last; [exact HPS|constructor]. }
  assert (WK : writes_known script).
  { subst script. apply Forall_nth_default; [exact HWK|]. apply Forall_last; [exact HWK|constructor]. }
  pose proof (run_handler_C (length script + 2) script r0 w2 PS WK B2 F2) as RH.
  destruct (run_handler maxc (length script + 2) script r0 w2) as [[st r1] w3|o w3]; cbn [rpostC snd] in *; [|exact RH].
  destruct RH as [[B3 F3]|(A3 & Fr & e' & E & He)].
  - assert (CLOSE : forall d c,
      framed (wlog (snd (match do_close maxc r1 d c w3 with
                         | Halt o w4 => (o, w4)
                         | Ok (inl rp) w4 => run_loop norm maxc f rp scripts (S served) w4
                         | Ok (inr _) w4 => (ORet, w4)
                         end)))).
    { intros d c. pose proof (do_close_C r1 d c w3 B3 F3) as DC.
      destruct (do_close maxc r1 d c w3) as [[rp|e] w4|o w4]; cbn [cpostC snd] in *; [|exact DC..].
      destruct DC as [B4 R4]. apply IH; assumption. }
    destruct st as [[d c]|e].
    + apply CLOSE.
    + destruct ((e =? EK_Aborted) && raborted r1); [apply CLOSE|]. cbn [snd]. eapply FI_framed. exact F3.
  - subst st. destruct (N.eqb_spec e' EK_Aborted) as [Ha|_]; [contradiction (He Ha)|]. cbn [andb snd]. exact Fr.
Qed.

End WithNorm.
End WithMaxc.
End Faults.

(* ------------------------------------------------------------------------------------------ *)
(* Part D: the theorem                                                                           *)
(* ------------------------------------------------------------------------------------------ *)

Theorem connection_framing_faults : connection_framing_faults_stmt.
Proof.
  intros norm maxc fuel B scripts w0 pre k post HB Wok Hlog Hws Hnf Hk Hs Hwk Hps.
  assert (B0 : Bef k post w0) by (exists pre; split; assumption).
  assert (R0 : recs (wlog w0)) by (rewrite Hlog; apply recs_nil).
  pose proof (run_loop_C k post Hk maxc norm scripts Hps Hwk fuel (new_parser B) 0%nat w0 B0 R0) as H.
  destruct (run_loop norm maxc fuel (new_parser B) scripts 0 w0) as [o w']. exact H.
Qed.

(* ------------------------------------------------------------------------------------------ *)
(* Part E: the statement is about non-trivial runs                                              *)
(* ------------------------------------------------------------------------------------------ *)

(* (1) The client of PeerProofs2.ex2 (BeginRequest, Params, Stdin "abc", a GetValues query, then Stdin "de" and its end); the
   handler reads with `read(..).await?` twice and would write "hi" to Stdout.  The transport accepts 3 bytes, fails the next
   write call (write error or zero-length write) and would accept 9 more.  Every hypothesis of the theorem holds ... *)
Definition exff_w (fault : N) : world := mkW [] [3; fault; 9] (enc_segs (ex2_sg 1)) [] 0 1 0 false false [].
Definition exff_scripts : list (list N) := [[10; 64; 10; 64; 6; 6; 2; 104; 105]].

Example exff_hyps fault : fault = W_ZERO \/ fault = W_ERR ->
  64 < SIZE_LIMIT - 8 /\ world_ok (exff_w fault) /\ wlog (exff_w fault) = [] /\
  wscript (exff_w fault) = [3] ++ fault :: [9] /\ no_fault [3] /\ plain_fault fault /\
  scripts_ok false exff_scripts /\ Forall writes_known exff_scripts /\ Forall prop_script exff_scripts.
Proof.
  intros Hf. split; [vm_compute; reflexivity|]. split; [vm_compute; repeat constructor|]. split; [reflexivity|].
  split; [reflexivity|]. split; [constructor; [repeat split; discriminate|constructor]|]. split; [exact Hf|].
  split.
  { constructor; [|constructor]. intros role. apply SO_readq. apply SO_readq. apply (SO_write false role _ 6 2 [104; 105]).
    apply SO_nil. }
  split.
  { constructor; [|constructor]. apply WK_readq. apply WK_readq. apply (WK_write 6 2 [104; 105]); [reflexivity|apply WK_nil]. }
  constructor; [|constructor]. apply PS_readq. apply PS_readq. apply (PS_write 6 2 [104; 105]). apply PS_nil.
Qed.

(* ... the fault hits Request::poll_output in the middle of the GetValuesResult reply, which the handler's second read was
   flushing: the read returns the error (kind 7 = transport error / 6 = WriteZero, event [1; 0; kind]), the handler propagates
   it, the connection task returns; the rest of the write script ([9]) is never consulted, nothing of "hi" is written.  The log
   holds the first 3 bytes of the reply: framed - the beginning of a record - but not whole *)
Example exff_framed_not_whole fault : fault = W_ZERO \/ fault = W_ERR ->
  let r := run_loop (fun b => b) 10 (nb (exff_w fault) + 4) (new_parser 64) exff_scripts 0 (exff_w fault) in
  fst r = ORet /\ wlog (snd r) = [1; 10; 0] /\ wlog (snd r) = take 3 (write_response 1 10) /\ wscript (snd r) = [9] /\
  hd [] (tl (events (snd r))) = [1; 0; if fault =? W_ERR then EK_Transport else EK_WriteZero] /\
  framed (wlog (snd r)) /\ ~ whole (wlog (snd r)).
Proof.
  intros [-> | ->]; cbv zeta.
  - split; [vm_compute; reflexivity|]. split; [vm_compute; reflexivity|]. split; [vm_compute; reflexivity|].
    split; [vm_compute; reflexivity|]. split; [vm_compute; reflexivity|]. split.
    + exists (drop 3 (write_response 1 10)). vm_compute. reflexivity.
    + vm_compute. discriminate.
  - split; [vm_compute; reflexivity|]. split; [vm_compute; reflexivity|]. split; [vm_compute; reflexivity|].
    split; [vm_compute; reflexivity|]. split; [vm_compute; reflexivity|]. split.
    + exists (drop 3 (write_response 1 10)). vm_compute. reflexivity.
    + vm_compute. discriminate.
Qed.

(* without the fault (the transport accepts 5 bytes instead) the same run writes the reply, "hi", and the epilogue *)
Example exff_no_fault_whole :
  let r := run_loop (fun b => b) 10 (nb (exff_w 5) + 4) (new_parser 64) exff_scripts 0 (exff_w 5) in
  fst r = ORet /\ whole (wlog (snd r)) /\ len (wlog (snd r)) = 80.
Proof. vm_compute. repeat split; reflexivity. Qed.

(* framed also by the theorem, for every normalisation function, max_conns and fuel *)
Example exff_framed_any fault norm maxc fuel : fault = W_ZERO \/ fault = W_ERR ->
  framed (wlog (snd (run_loop norm maxc fuel (new_parser 64) exff_scripts 0 (exff_w fault)))).
Proof.
  intros Hf. destruct (exff_hyps fault Hf) as (H1 & H2 & H3 & H4 & H5 & H6 & H7 & H8 & H9).
  pose proof (connection_framing_faults norm maxc fuel 64 exff_scripts (exff_w fault) [3] fault [9] H1 H2 H3 H4 H5 H6 H7 H8 H9) as T.
  destruct (run_loop norm maxc fuel (new_parser 64) exff_scripts 0 (exff_w fault)) as [o w']. exact T.
Qed.

(* (2) LoopProofs2.exB (C12's example): the keep-alive client of ConnTotal.ex_world, the handler writes "hi" to Stdout through a
   StreamWriter and exits.  The transport accepts 3 bytes of the Stdout record's header and fails the next write call: the
   StreamWriter's write returns the error, the task returns with the 3 header bytes in the log - framed, not whole *)
Example exffB_hyps :
  0 < SIZE_LIMIT - 8 /\ world_ok (exB_w W_ERR) /\ wlog (exB_w W_ERR) = [] /\
  wscript (exB_w W_ERR) = [3] ++ W_ERR :: [5; 7] /\ no_fault [3] /\ plain_fault W_ERR /\
  scripts_ok false [exB_script] /\ Forall writes_known [exB_script] /\ Forall prop_script [exB_script].
Proof.
  split; [vm_compute; reflexivity|]. split; [vm_compute; repeat constructor|]. split; [reflexivity|].
  split; [reflexivity|]. split; [constructor; [repeat split; discriminate|constructor]|]. split; [right; reflexivity|].
  split.
  { constructor; [|constructor]. intros role. apply (SO_write false role _ 6 2 [104; 105; 8; 0; 0]).
    apply SO_exit. left. reflexivity. }
  split.
  { constructor; [|constructor]. apply (WK_write 6 2 [104; 105; 8; 0; 0]); [reflexivity|apply WK_exit]. }
  constructor; [|constructor]. apply (PS_write 6 2 [104; 105; 8; 0; 0]). apply PS_exit.
Qed.

Example exffB_framed_not_whole :
  let r := run_loop (fun b => b) 10 (nb (exB_w W_ERR) + 4) (new_parser 0) [exB_script] 0 (exB_w W_ERR) in
  fst r = ORet /\ wlog (snd r) = [1; 6; 0] /\ wlog (snd r) = take 3 (stream_records RT_Stdout 1 [104; 105]) /\
  wscript (snd r) = [5; 7] /\ framed (wlog (snd r)) /\ ~ whole (wlog (snd r)).
Proof.
  cbv zeta. split; [vm_compute; reflexivity|]. split; [vm_compute; reflexivity|]. split; [vm_compute; reflexivity|].
  split; [vm_compute; reflexivity|]. split.
  - exists (drop 3 (stream_records RT_Stdout 1 [104; 105])). vm_compute. reflexivity.
  - vm_compute. discriminate.
Qed.

Example exffB_framed_any norm maxc fuel :
  framed (wlog (snd (run_loop norm maxc fuel (new_parser 0) [exB_script] 0 (exB_w W_ERR)))).
Proof.
  destruct exffB_hyps as (H1 & H2 & H3 & H4 & H5 & H6 & H7 & H8 & H9).
  pose proof (connection_framing_faults norm maxc fuel 0 [exB_script] (exB_w W_ERR) [3] W_ERR [5; 7] H1 H2 H3 H4 H5 H6 H7 H8 H9) as T.
  destruct (run_loop norm maxc fuel (new_parser 0) [exB_script] 0 (exB_w W_ERR)) as [o w']. exact T.
Qed.

Print Assumptions connection_framing_faults.
Print Assumptions exff_framed_not_whole.
Print Assumptions exff_framed_any.
Print Assumptions exffB_framed_not_whole.
Print Assumptions exffB_framed_any.
