(* Async/LoopTargets.v — statements tying the connection loop (Async/Conn.v) to the request-parser
   theorems (C01/C03): what the handler of a request sees is exactly what the client sent (C07), and no
   handler runs for a preamble that did not arrive completely (C12).  Statements only; proofs go to
   Async/LoopProofs.v. *)
From FV Require Import Base.Bytes Gen.Generated Codec.Varint Codec.NV Codec.Header Codec.Bodies Codec.Vars
  Parser.ReqModel Parser.ReqWire Parser.ReqTargets Parser.StreamModel
  Async.Conn Async.ConnWrites Async.ConnTotal Async.ConnReads.

Section L.
Variable norm : bytes -> bytes.
Variable maxc : N.

(* (1) Token::parse_request IS a read schedule of the request parser: the chunks are the transport reads.
   If it hands a stream parser to the caller, then the bytes it took from the client ([taken]) are a prefix
   of what the client still had to deliver, and running the request parser over new ++ taken ++ (anything
   that follows) with the chunk sizes of those reads stops at the same call with the same parser, having
   emitted exactly what parse_request wrote to the transport. *)
Definition parse_request_sched_stmt : Prop := forall fuel p new w s0 w',
  parser_ok p -> bytes_ok new -> len new <= input_space p -> world_ok w ->
  parse_request norm maxc fuel p new w = Ok (inl s0) w' ->
  exists taken sched p' out,
    remaining w = taken ++ remaining w' /\
    (forall future, bytes_ok future -> len (held p ++ new ++ taken ++ future) < SIZE_LIMIT ->
       run_schedule norm maxc p (new ++ taken ++ future) (len new :: sched) = SOk p' true future out) /\
    into_stream_parser p' = inl s0 /\ wlog w' = wlog w ++ out.

(* (2) a parser that starts with leftover input L (the reuse case: Request::close hands back a parser whose
   buffer holds the bytes read beyond the previous request) behaves exactly like a fresh parser that is
   fed L first *)
Definition leftover_as_fed_stmt : Prop := forall B L wire sched p d u o,
  B < SIZE_LIMIT - 8 -> bytes_ok L -> len L <= aligned_bufsize B -> bytes_ok wire -> len (L ++ wire) < SIZE_LIMIT ->
  run_schedule norm maxc (new_parser B) (L ++ wire) (len L :: sched) = SOk p d u o ->
  run_schedule norm maxc (mkParser (aligned_bufsize B) L Header) wire (0 :: sched) = SOk p d u o.

(* (3) C07, "exactly that request's environment": whatever the transport does (any read sizes, Pending,
   any write pattern), if the client's stream — leftover of the previous request followed by everything it
   still has to deliver — begins with a well-formed preamble (as in C01: any junk, any record cuts, any
   padding, pairs within the documented bound) and parse_request hands over to a handler, then the
   request the handler sees has exactly the transmitted id, role, flags and environment, exactly the
   replies owed for the preamble's management records have been written, and the stream parser starts
   with exactly the bytes that followed the preamble: nothing lost, nothing invented. *)
Definition handler_sees_request_stmt : Prop := forall fuel B L w pw pairs trailing s0 w',
  B < SIZE_LIMIT - 8 -> bytes_ok L -> len L <= aligned_bufsize B -> world_ok w ->
  preamble_ok pw -> Forall pair_ok pairs -> nv_write_all pairs = Some (preamble_payload pw) ->
  Forall (pair_fits (aligned_bufsize B)) pairs -> preamble_fits (aligned_bufsize B) pw ->
  bytes_ok trailing -> len (enc_rcds (preamble_rcds pw) ++ trailing) < SIZE_LIMIT ->
  L ++ remaining w = enc_rcds (preamble_rcds pw) ++ trailing ->
  parse_request norm maxc fuel (mkParser (aligned_bufsize B) L Header) [] w = Ok (inl s0) w' ->
  sreq s0 = mkReq (w_id pw) (w_role pw) (w_flags pw) (env_log norm pairs) /\
  wlog w' = wlog w ++ preamble_replies maxc pw /\
  raw_bytes s0 ++ remaining w' = trailing /\
  stream s0 = next_input_stream (w_role pw) None /\ output_buffer s0 = [] /\ stream_buffer s0 = [].

(* (4) C12, "no handler is invoked for a request whose preamble did not arrive completely": if everything
   the client will ever deliver (leftover included) is a PROPER prefix of a well-formed preamble — the
   transport reports EOF, or fails, or blocks somewhere inside it — parse_request never hands over to a
   handler, whatever the read and write patterns. *)
Definition no_handler_for_partial_stmt : Prop := forall fuel B L w pw pairs missing,
  B < SIZE_LIMIT - 8 -> bytes_ok L -> len L <= aligned_bufsize B -> world_ok w ->
  preamble_ok pw -> Forall pair_ok pairs -> nv_write_all pairs = Some (preamble_payload pw) ->
  Forall (pair_fits (aligned_bufsize B)) pairs -> preamble_fits (aligned_bufsize B) pw ->
  len (enc_rcds (preamble_rcds pw)) < SIZE_LIMIT ->
  missing <> [] -> (L ++ remaining w) ++ missing = enc_rcds (preamble_rcds pw) ->
  forall s0 w', parse_request norm maxc fuel (mkParser (aligned_bufsize B) L Header) [] w <> Ok (inl s0) w'.

End L.
