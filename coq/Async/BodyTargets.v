(* Async/BodyTargets.v — statement: over a WHOLE connection of the one-outstanding client (C07), what each handler invocation can
   READ is the body of ITS OWN request: at the moment handler j is called, the content that is still to come of every input stream
   of the request - the specification content K / F of Parser/StreamSpec.v, which C09's trace law (C09_handler_reads_with_writes)
   says every read takes its bytes from - is exactly the content of that stream in the records the client sent for request j;
   nothing of an earlier or later request, nothing missing.  Statement only; proof in Async/BodyProofs.v. *)
From FV Require Import Base.Bytes Gen.Generated Codec.Varint Codec.NV Codec.Header Codec.Bodies Codec.Vars Parser.ReqModel Parser.ReqWire
  Parser.ReqTargets Parser.StreamModel Parser.AbsStream Parser.StreamSpec Parser.StreamFinal Parser.EnvCanon
  Async.Conn Async.ConnWrites Async.ConnTotal Async.ConnReads
  Async.PeerTargets Async.PeerTargets2 Async.PeerTargets3 Async.PeerTargets4.

(* Token::run with a ghost trace: the same loop as Conn.run_loop (and PeerTargets4.run_loop_tr), recording for every handler
   invocation the request it is started with, the abstract state of the stream parser it is handed and the client bytes not yet
   read from the transport at that moment *)
Fixpoint run_loop_body (norm : bytes -> bytes) (maxc : N) (fuel : nat) (p : parser) (scripts : list (list N)) (served : nat)
                       (w : world) (acc : list (req * ast * bytes)) : outcome * world * list (req * ast * bytes) :=
  match fuel with
  | O => (OFuel, w, acc)
  | S f =>
    if stopped w then (ORet, w, acc)
    else
      match parse_request norm maxc (io_fuel w 0) p [] w with
      | Halt o w' => (o, w', acc)
      | Ok (inr _) w' => (ORet, w', acc)
      | Ok (inl s0) w' =>
        let rq := sreq s0 in
        let r0 := mkR s0 (len (role_input_streams (r_role rq)) <=? 1) false false in
        let env := canon_env (r_env rq) in
        let w1 := fold_left (fun w p => w_ev (w_ev w (fst p)) (snd p)) env
                    (w_ev (w_ev w' [100; epoch w']) [r_role rq; r_flags rq; len env; stream_code (stream s0);
                                            if rwriteable r0 then 1 else 0]) in
        let script := nth served scripts (last scripts []) in
        let acc' := acc ++ [(rq, abs s0, remaining w1)] in
        match run_handler maxc (length script + 2) script r0 w1 with
        | Halt o w2 => (o, w2, acc')
        | Ok (st, r1) w2 =>
          let status := match st with
                        | inl dc => Some dc
                        | inr k => if (k =? EK_Aborted) && raborted r1 then Some (EXIT_Complete, EXIT_ABORT_CODE) else None
                        end in
          match status with
          | None => (ORet, w2, acc')
          | Some (d, c) =>
            match do_close maxc r1 d c w2 with
            | Halt o w3 => (o, w3, acc')
            | Ok (inl rp) w3 => run_loop_body norm maxc f rp scripts (S served) w3 acc'
            | Ok (inr _) w3 => (ORet, w3, acc')
            end
          end
        end
      end
  end.

(* the trace is a pure addition *)
Definition run_loop_body_erase_stmt : Prop := forall norm maxc fuel p scripts served w acc,
  fst (run_loop_body norm maxc fuel p scripts served w acc) = run_loop norm maxc fuel p scripts served w.

(* what is still to come of stream sg for a handler that is handed the parser state a with the client bytes u outstanding: K for
   the stream that is selected, F for the others (Parser/StreamSpec.v) - the very terms of C09's trace law htlaw *)
Definition to_come (sg : N) (a : ast) (u : bytes) : bytes :=
  if optN_eqb (Some sg) (a_stream a) then K a u else F (Some sg) a u.

(* MAIN: for the one-outstanding client whose requests respect the documented buffer bound, on a fault-free transport, for every
   buffer size, handler scripts and read / write readiness pattern: handler invocation i is started with request i of the client
   (C07_requests_in_order), with the role's first input stream selected and nothing delivered yet, and for EVERY input stream of
   the role the content still to come is exactly that stream's content in the records the client sent for request i. *)
Definition bodies_in_order_stmt : Prop :=
  forall (norm : bytes -> bytes) (maxc : N) scripts B cs pairss w0,
  B < SIZE_LIMIT - 8 -> scripts_ok true scripts ->
  segs w0 = enc_client cs -> client_segs 0 0 cs -> wlog w0 = [] ->
  no_fault (wscript w0) ->
  length pairss = length cs ->
  (forall i c ps, nth_error (map snd cs) i = Some c -> nth_error pairss i = Some ps -> creq_fits B c ps) ->
  len (flat_map (fun s : N * N * bytes => snd s) (segs w0)) < SIZE_LIMIT ->
  let tr := snd (run_loop_body norm maxc (nb w0 + 4) (new_parser B) scripts 0 w0 []) in
  (length tr <= length cs)%nat /\
  forall i rq a u c ps,
    nth_error tr i = Some (rq, a, u) -> nth_error (map snd cs) i = Some c -> nth_error pairss i = Some ps ->
    rq = sent_request norm c ps /\
    a_req a = rq /\ a_parsed a = [] /\
    a_stream a = next_input_stream (w_role (c_pre c)) None /\
    forall sg, In sg (role_input_streams (w_role (c_pre c))) ->
      to_come sg a u = content_rcds (w_role (c_pre c)) (w_id (c_pre c)) (Some sg) (c_srs c).
