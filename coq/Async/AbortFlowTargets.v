(* Async/AbortFlowTargets.v — statements: the abort flow of C11 end to end at the connection level.
   A handler's read failed with the client's AbortRequest (the parser stands at the retained abort header, Request.aborted is set);
   Token::run maps this to ExitStatus::ABORT and calls Request::close.  Statements only; proofs go to Async/AbortFlowProofs.v. *)
From FV Require Import Base.Bytes Gen.Generated Codec.Header Codec.Bodies Parser.ReqModel Parser.StreamModel Parser.AbsStream
  Parser.StreamInv Async.Conn Async.ConnWrites Async.ConnTotal Async.ConnReads.

Definition keep_conn (r : rstate) : Prop := N.land (r_flags (sreq (rsp r))) FLAG_KeepConn = FLAG_KeepConn.

(* what close writes for a request: the replies still pending in the parser's output buffer, then (only if the request had become
   writeable) the empty Stdout and Stderr records, then ONE EndRequest record with the given status *)
Definition close_bytes (r : rstate) (app ps : N) : bytes :=
  output_buffer (rsp r) ++
  flat_map (fun s => hdr_encode s (r_id (sreq (rsp r))) 0 0) (if rwriteable r then ROLE_OUTPUT_STREAMS else []) ++
  end_record app ps (r_id (sreq (rsp r))).

(* (1) Request::close on an aborted request, for EVERY transport without write faults (any accept sizes, Pending writes), whatever
   the client has or has not sent after the AbortRequest, whatever status (disc, code) is being reported:
   - it never suspends for good, panics or runs out of steps;
   - it reads nothing from the transport (the abort error is tolerated by writeable() and record_boundary());
   - it writes exactly close_bytes: the pending replies, the stream terminators owed, ONE EndRequest;
   - with KeepConn it hands back a request parser whose leftover input is exactly the stream parser's unparsed input — beginning
     with the retained AbortRequest header, which the next request parser skips as idle junk (C01/C07) —, same capacity,
     initial state; without KeepConn it ends the connection (ConnectionReset kind) after the complete epilogue. *)
Definition abort_close_stmt : Prop := forall maxc r disc code app ps w,
  rinv r -> err_at (abs (rsp r)) EAbortRequest -> raborted r = true -> rlock r = false ->
  world_ok w -> no_fault (wscript w) ->
  exit_to_end disc code = Some (app, ps) ->
  match do_close maxc r disc code w with
  | Ok (inl rp) w' =>
      keep_conn r /\ wlog w' = wlog w ++ close_bytes r app ps /\ remaining w' = remaining w /\ rscript w' = rscript w /\
      held rp = raw_bytes (rsp r) /\ cap rp = len (buffer (rsp r)) /\ st rp = Header
  | Ok (inr k) w' =>
      k = EK_Reset /\ ~ keep_conn r /\ wlog w' = wlog w ++ close_bytes r app ps /\ remaining w' = remaining w /\ rscript w' = rscript w
  | Halt _ _ => False
  end.

(* (2) where the aborted state comes from: a handler that only reads (any mix of read / read_to_end / fill_buf+consume / set_stream /
   writeable / a read polled once and dropped, each read either swallowed or propagated) and does not fabricate a ConnectionAborted
   error of its own ends with Err(ConnectionAborted) on a fault-free transport ONLY because a read hit the client's AbortRequest:
   the parser stands at the abort header and Request.aborted is set. *)
Inductive no_fab : list N -> Prop :=
| NF_nil : no_fab []
| NF_read n rest : no_fab rest -> no_fab (1 :: n :: rest)
| NF_all rest : no_fab rest -> no_fab (2 :: rest)
| NF_fill k rest : no_fab rest -> no_fab (3 :: k :: rest)
| NF_set s rest : no_fab rest -> no_fab (4 :: s :: rest)
| NF_wr rest : no_fab rest -> no_fab (5 :: rest)
| NF_exit d c rest : no_fab (8 :: d :: c :: rest)
| NF_fail k rest : k <> EK_Aborted -> no_fab (9 :: k :: rest)
| NF_readq n rest : no_fab rest -> no_fab (10 :: n :: rest)
| NF_poll n rest : no_fab rest -> no_fab (11 :: n :: rest).

Definition handler_abort_source_stmt : Prop := forall maxc f script r w r1 w1,
  no_fab script -> rinv r -> world_ok w -> no_fault (wscript w) -> rlock r = false ->
  run_handler maxc f script r w = Ok (inr EK_Aborted, r1) w1 ->
  rinv r1 /\ world_ok w1 /\ no_fault (wscript w1) /\ rlock r1 = false /\
  err_at (abs (rsp r1)) EAbortRequest /\ raborted r1 = true.

(* (3) one iteration of Token::run for such a request: the handler is called once, its Err(ConnectionAborted) becomes
   ExitStatus::ABORT (application status "ABRT", protocol status RequestComplete), exactly close_bytes are written after what the
   handler run had written, nothing more is read; with KeepConn the loop goes on with the handed-back parser (next request),
   otherwise the task returns. *)
Definition abort_iteration_stmt : Prop := forall (norm : bytes -> bytes) maxc fuel p scripts served w s0 w',
  stopped w = false ->
  parse_request norm maxc (io_fuel w 0) p [] w = Ok (inl s0) w' ->
  let rq := sreq s0 in
  let r0 := mkR s0 (len (role_input_streams (r_role rq)) <=? 1) false false in
  let env := EnvCanon.canon_env (r_env rq) in
  let w1 := fold_left (fun w p => w_ev (w_ev w (fst p)) (snd p)) env
              (w_ev (w_ev w' [100; epoch w']) [r_role rq; r_flags rq; len env; stream_code (stream s0);
                                      if rwriteable r0 then 1 else 0]) in
  let script := nth served scripts (last scripts []) in
  forall r1 w2,
  no_fab script -> rinv r0 -> world_ok w1 -> no_fault (wscript w1) ->
  run_handler maxc (length script + 2) script r0 w1 = Ok (inr EK_Aborted, r1) w2 ->
  exists w3,
    wlog w3 = wlog w2 ++ close_bytes r1 EXIT_ABORT_CODE PS_RequestComplete /\
    remaining w3 = remaining w2 /\
    ((keep_conn r1 /\ exists rp, held rp = raw_bytes (rsp r1) /\ cap rp = len (buffer (rsp r1)) /\ st rp = Header /\
        run_loop norm maxc (S fuel) p scripts served w = run_loop norm maxc fuel rp scripts (S served) w3) \/
     (~ keep_conn r1 /\ run_loop norm maxc (S fuel) p scripts served w = (ORet, w3))).
