(* Async/PeerProofs4.v — proof of Async/PeerTargets4.v: over a whole connection of the ONE-OUTSTANDING client the requests
   handed to the handler are the requests the client sent, in order, each once.
   Part 0: the ghost trace erases.
   Part A: the content walk: from the framing position of the stream parser, (unparsed bytes ++ rest of the segment) is
           the rest of one record followed by whole records of the request's stream section; every parse call conserves it.
   Part B: segment bookkeeping: what one transport read does to "rest of the current segment ++ segments not yet opened".
   Part C: the invariant of a request in progress and its conservation through the layers of the connection task
           (poll_input, the handler operations, record_boundary, close).  A read happens only where the structure walk of
           PeerProofs3 over the bytes held is incomplete, hence inside the current segment: the next segment is never
           touched before the close (this does not depend on the gates).
   Part D: Token::parse_request between two requests: which segment it reads from.
   Part E: Token::run with the trace, the theorem.   Part F: an instance. *)
From Coq Require Import ZArith.
From FV Require Import Base.Bytes Base.BytesLemmas Gen.Generated Codec.Varint Codec.VarintProofs Codec.NV Codec.NVProofs
  Codec.Header Codec.Bodies Codec.Vars Codec.ProtoProofs
  Parser.ReqModel Parser.ReqParamsSpec Parser.ReqWire Parser.ReqTargets Parser.ReqParams Parser.ReqDrive Parser.ReqRecords Parser.ReqFinal
  Parser.StreamModel Parser.AbsStream Parser.StreamRefine Parser.StreamSpec Parser.StreamInv Parser.StreamSeqProofs Parser.StreamFinal Parser.EnvCanon
  Async.ConnWrites Async.ConnTotal Async.Conn Async.ConnReads Async.PeerTargets Async.PeerProofs Async.PeerTargets2 Async.PeerProofs2
  Async.PeerTargets3 Async.PeerProofs3 Async.LoopTargets Async.LoopProofs Async.PeerTargets4.
From Coq Require Import ZifyBool ZifyNat ZifyN.
Ltac Zify.zify_post_hook ::= Z.div_mod_to_equations.

Notation flat := (flat_map (fun s : N * N * bytes => snd s)).

(* ------------------------------------------------------------------------------------------ *)
(* Part 0: the ghost trace erases                                                               *)
(* ------------------------------------------------------------------------------------------ *)
Theorem run_loop_tr_erase_proof : run_loop_tr_erase_stmt.
Proof.
  intros norm maxc fuel. induction fuel as [|f IH]; intros p scripts served w acc; [reflexivity|].
  cbn [run_loop_tr run_loop]. destruct (stopped w); [reflexivity|].
  destruct (parse_request norm maxc (io_fuel w 0) p [] w) as [[s0|k] w1|o w1]; [|reflexivity|reflexivity].
  cbv zeta.
  match goal with |- context [run_handler maxc ?fu ?sc ?r0 ?w2] => destruct (run_handler maxc fu sc r0 w2) as [[st r1] w3|o w3] end;
    [|reflexivity].
  match goal with |- fst (match ?s with Some _ => _ | None => _ end) = _ => destruct s as [[d c]|] end; [|reflexivity].
  destruct (do_close maxc r1 d c w3) as [[rp|k] w4|o w4]; [apply IH|reflexivity|reflexivity].
Qed.

(* ------------------------------------------------------------------------------------------ *)
(* Part A: the content walk                                                                     *)
(* ------------------------------------------------------------------------------------------ *)
Definition sfx {A} (l' l : list A) : Prop := exists pre, l = pre ++ l'.

Lemma sfx_refl {A} (l : list A) : sfx l l.
Proof. exists []. reflexivity. Qed.

Lemma sfx_trans {A} (a b c : list A) : sfx a b -> sfx b c -> sfx a c.
Proof. intros [p1 ->] [p2 ->]. exists (p2 ++ p1). apply app_assoc. Qed.

Lemma sfx_Forall {A} (P : A -> Prop) (l' l : list A) : sfx l' l -> Forall P l -> Forall P l'.
Proof. intros [pre ->] H. apply Forall_app in H. apply H. Qed.

(* [y] is the last p + q bytes of one record followed by the whole records [tl] *)
Definition CW (p q : N) (y : bytes) (tl : list rcd) : Prop := exists x, y = x ++ enc_rcds tl /\ len x = p + q.

Lemma CW_adv p q y tl n : n <= p + q -> n <= len y -> CW p q y tl -> exists x, drop n y = x ++ enc_rcds tl /\ len x = p + q - n.
Proof.
  intros Hn Hy (x & -> & Hx). exists (drop n x). split; [apply drop_app_le; lia|]. rewrite len_drop. lia.
Qed.

(* at a record boundary with a complete header in front: the header is that of the first record of the list *)
Lemma CW_head raw u tl : Forall rcd_ok tl -> HEADER_LEN <= len raw -> CW 0 0 (raw ++ u) tl ->
  exists r tl', tl = r :: tl' /\ rcd_ok r /\ take HEADER_LEN raw = hdr8 r /\
                drop HEADER_LEN raw ++ u = rbody r ++ rpad r ++ enc_rcds tl'.
Proof.
  intros Hok Hl (x & E & Hx). assert (x = []) by (apply len_zero_nil; lia). subst x. cbn [app] in E.
  destruct tl as [|r tl'].
  { exfalso. cbn [enc_rcds flat_map] in E. apply (f_equal len) in E. rewrite len_app, len_nil in E. unfold HEADER_LEN in Hl. lia. }
  inversion Hok as [|? ? Hr Hok']; subst. exists r, tl'. split; [reflexivity|]. split; [exact Hr|].
  rewrite enc_rcds_cons, enc_rcd_app in E.
  split.
  - rewrite <- (take_app_le HEADER_LEN raw u Hl), E. apply take8_hdr8.
  - rewrite <- (drop_app_le HEADER_LEN raw u Hl), E. apply drop8_hdr8.
Qed.

Section ContentMachine.
Variable maxc : N.

Definition CA (a : ast) (u : bytes) (tl : list rcd) : Prop := CW (a_prem a) (a_pad a) (a_raw a ++ u) tl.

(* a' is a later state of a: the buffer size is the same, and the parser has moved along the record list *)
Definition c_rel (a a' : ast) : Prop :=
  a_B a' = a_B a /\ forall tl u, Forall rcd_ok tl -> CA a u tl -> exists tl', sfx tl' tl /\ CA a' u tl'.

Definition c_post (a : ast) (fl : aflow) : Prop :=
  match fl with AContinue l' | ABreak l' | AErr l' _ => c_rel a (al l') | APanic _ => True end.

Lemma c_rel_refl a : c_rel a a.
Proof. split; [reflexivity|]. intros tl u _ H. exists tl. split; [apply sfx_refl|exact H]. Qed.

Lemma c_rel_trans a1 a2 a3 : c_rel a1 a2 -> c_rel a2 a3 -> c_rel a1 a3.
Proof.
  intros [B1 H1] [B2 H2]. split; [congruence|]. intros tl u Hok H. destruct (H1 tl u Hok H) as (tl1 & S1 & C1).
  destruct (H2 tl1 u (sfx_Forall _ _ _ S1 Hok) C1) as (tl2 & S2 & C2). exists tl2. split; [apply (sfx_trans _ _ _ S2 S1)|exact C2].
Qed.

Lemma c_post_trans a1 a2 fl : c_rel a1 a2 -> c_post a2 fl -> c_post a1 fl.
Proof. intros H12 H. destruct fl as [l'|l'|l' e|n]; cbn [c_post] in *; try (apply (c_rel_trans _ _ _ H12 H)). exact I. Qed.

(* n bytes of the record in front are consumed *)
Lemma c_rel_adv a B' sp parsed out rq sm st' n p' q' :
  B' = a_B a -> n <= len (a_raw a) -> n <= a_prem a + a_pad a -> p' + q' = a_prem a + a_pad a - n ->
  c_rel a (mkA B' sp parsed (drop n (a_raw a)) out rq sm p' q' st').
Proof.
  intros -> H1 H2 H3. split; [reflexivity|]. intros tl u _ H. exists tl. split; [apply sfx_refl|].
  unfold CA in *. cbn [a_prem a_pad a_raw].
  assert (Hy : n <= len (a_raw a ++ u)) by (rewrite len_app; lia).
  destruct (CW_adv _ _ _ tl n H2 Hy H) as (x & E & Hx).
  exists x. split; [rewrite <- E; symmetry; apply drop_app_le; exact H1|lia].
Qed.

Lemma pfin_C a parsed' out' st' res cap' n : c_post a (pfin' a parsed' out' st' res cap' n).
Proof.
  unfold pfin'. cbv zeta.
  destruct (N.ltb_spec (N.min (a_prem a) (len (a_raw a))) n) as [Hn|Hn]; [exact I|].
  assert (Hrel : c_rel a (mkA (a_B a) (a_space a) parsed' (drop n (a_raw a)) out' (a_req a) (a_stream a)
                              (a_prem a - n) (a_pad a) st')) by (apply c_rel_adv; try reflexivity; lia).
  match goal with |- c_post _ (if ?c then _ else _) => destruct c end; cbn [c_post al]; exact Hrel.
Qed.

Lemma payload_C l : c_post (al l) (aparse_payload maxc l).
Proof.
  rewrite aparse_payload_eq. cbv zeta. destruct l as [a res cap]. cbn [al ares acap].
  destruct (a_st a).
  - destruct cap as [c|]; apply pfin_C.
  - apply pfin_C.
  - destruct (nv_run (take (N.min (a_prem a) (len (a_raw a))) (a_raw a))) as [ps rest].
    destruct (len (a_raw a) <? a_prem a); apply pfin_C.
Qed.

(* a header the parser goes past: the record list loses its first record *)
Lemma hgo_C l st cl pl out added : a_prem (al l) = 0 -> a_pad (al l) = 0 -> HEADER_LEN <= len (a_raw (al l)) ->
  (forall r, rcd_ok r -> take HEADER_LEN (a_raw (al l)) = hdr8 r -> cl = len (rbody r) /\ pl = len (rpad r)) ->
  c_post (al l) (StreamInv.hgo l st cl pl out added).
Proof.
  intros Hp Hq Hl Hd. unfold StreamInv.hgo. cbn [c_post al]. split; [reflexivity|].
  intros tl u Hok H. unfold CA in *. rewrite Hp, Hq in H. cbn [a_prem a_pad a_raw].
  destruct (CW_head _ _ _ Hok Hl H) as (r & tl' & -> & Hr & Eh & Ed). destruct (Hd r Hr Eh) as [-> ->].
  exists tl'. split; [exists [r]; reflexivity|]. exists (rbody r ++ rpad r).
  split; [rewrite Ed, <- app_assoc; reflexivity|apply len_app].
Qed.

Lemma head_C l : a_prem (al l) = 0 -> a_pad (al l) = 0 -> c_post (al l) (aparse_head l).
Proof.
  intros Hp Hq. rewrite aparse_head_eq. cbv zeta.
  destruct (negb (a_boundary (al l))); [exact I|].
  destruct (N.ltb_spec (len (a_raw (al l))) HEADER_LEN) as [Hl|Hl]; [apply c_rel_refl|].
  destruct (hdr_decode (take HEADER_LEN (a_raw (al l)))) as [t hid cl pl|v|t] eqn:Ed.
  - assert (GO : forall st out added, c_post (al l) (StreamInv.hgo l st cl pl out added)).
    { intros st out added. apply hgo_C; try assumption. intros r Hr Eh. rewrite Eh, (hdr_decode_hdr8 r Hr) in Ed.
      destruct (known_type (rt r)); [|discriminate Ed]. injection Ed as _ _ <- <-. split; reflexivity. }
    destruct (is_input_stream t && (hid =? r_id (a_req (al l)))).
    + destruct (cmp_input_streams (r_role (a_req (al l))) t (a_stream (al l))) as [[| |]|].
      * apply GO.
      * destruct (cl =? 0); cbn [negb]; [cbn [c_post al]; apply c_rel_refl|apply GO].
      * cbn [c_post al]. apply c_rel_refl.
      * exact I.
    + destruct ((t =? RT_AbortRequest) && (hid =? r_id (a_req (al l)))); [apply c_rel_refl|].
      destruct ((t =? RT_BeginRequest) && negb (hid =? r_id (a_req (al l)))); [apply GO|].
      destruct ((t =? RT_GetValues) && hdr_is_management t hid); apply GO.
  - apply c_rel_refl.
  - apply hgo_C; try assumption. intros r Hr Eh. rewrite Eh. destruct (hdr8_fields r Hr) as (_ & -> & ->). split; reflexivity.
Qed.

Lemma after_payload_C l : c_post (al l) (after_payload l).
Proof.
  unfold after_payload. cbv zeta.
  destruct (N.ltb_spec 0 (a_pad (al l))) as [Hq|Hq].
  - destruct (N.eqb_spec (a_prem (al l)) 0) as [Hp|Hp]; cbn [negb]; [|exact I].
    destruct (N.leb_spec (len (a_raw (al l))) (a_pad (al l))) as [Hl|Hl].
    + cbn [c_post al]. unfold a_set.
      rewrite <- (drop_all (len (a_raw (al l))) (a_raw (al l))) at 1 by lia.
      apply c_rel_adv; try reflexivity; lia.
    + set (l2 := mkAL (a_set (al l) (a_parsed (al l)) (drop (a_pad (al l)) (a_raw (al l))) (a_out (al l))
                              (a_prem (al l)) 0 (a_st (al l))) (ares l) (acap l)).
      apply (c_post_trans (al l) (al l2)).
      * unfold l2, a_set. cbn [al]. apply c_rel_adv; try reflexivity; lia.
      * apply head_C; unfold l2, a_set; cbn [al a_prem a_pad]; [exact Hp|reflexivity].
  - destruct (N.eq_dec (a_prem (al l)) 0) as [Hp|Hp].
    + apply head_C; [exact Hp|lia].
    + rewrite aparse_head_eq. cbv zeta. unfold a_boundary.
      destruct (N.eqb_spec (a_prem (al l)) 0) as [Hz|_]; [contradiction|]. cbn [andb negb]. exact I.
Qed.

Lemma iter_C l : c_post (al l) (aparse_iter maxc l).
Proof.
  rewrite aparse_iter_eq.
  destruct (0 <? a_prem (al l)); [|apply after_payload_C].
  pose proof (payload_C l) as H.
  destruct (aparse_payload maxc l) as [l'|l'|l' e|n]; cbn [c_post] in H.
  - apply (c_post_trans _ _ _ H). apply after_payload_C.
  - exact H.
  - exact H.
  - exact I.
Qed.

Lemma loop_C fuel : forall l, c_post (al l) (aparse_loop maxc fuel l).
Proof.
  induction fuel as [|f IH]; intros l; [exact I|].
  cbn [aparse_loop]. destruct (a_raw (al l)) as [|b r]; [apply c_rel_refl|].
  pose proof (iter_C l) as H.
  destruct (aparse_iter maxc l) as [l'|l'|l' e|n]; cbn [c_post] in H.
  - apply (c_post_trans _ _ _ H). apply IH.
  - exact H.
  - exact H.
  - exact I.
Qed.

(* every call conserves the content walk *)
Theorem content_law a new dest a' s :
  (aparse maxc a new dest = AOk a' s \/ exists e, aparse maxc a new dest = AFail a' e s) ->
  a_B a' = a_B a /\ forall tl u, Forall rcd_ok tl -> CA a (new ++ u) tl -> exists tl', sfx tl' tl /\ CA a' u tl'.
Proof.
  intros Hres. unfold aparse in Hres.
  destruct (match dest with Some _ => negb (len (a_parsed a) =? 0) | None => false end).
  { destruct Hres as [H|[e H]]; discriminate H. }
  destruct (a_space a <? len new).
  { destruct Hres as [H|[e H]]; discriminate H. }
  cbv zeta in Hres.
  set (a1 := mkA (a_B a) (a_space a - len new) (a_parsed a) (a_raw a ++ new) (a_out a) (a_req a)
                                     (a_stream a) (a_prem a) (a_pad a) (a_st a)) in *.
  assert (FIN : forall l', c_rel a1 (al l') ->
            a_B (al l') = a_B a /\ forall tl u, Forall rcd_ok tl -> CA a (new ++ u) tl -> exists tl', sfx tl' tl /\ CA (al l') u tl').
  { intros l' [HB H]. split; [exact HB|]. intros tl u Hok Hc. apply (H tl u Hok). unfold CA in *. unfold a1.
    cbn [a_prem a_pad a_raw]. rewrite <- app_assoc. exact Hc. }
  match type of Hres with context [aparse_loop maxc ?f ?l] =>
    pose proof (loop_C f l) as H; destruct (aparse_loop maxc f l) as [l'|l'|l' e'|n] end; cbn [c_post al] in H.
  - destruct Hres as [Hr|[e Hr]]; [|discriminate Hr]. inversion Hr; subst a' s. apply FIN, H.
  - destruct Hres as [Hr|[e Hr]]; [|discriminate Hr]. inversion Hr; subst a' s. apply FIN, H.
  - destruct Hres as [Hr|[e Hr]]; [discriminate Hr|]. inversion Hr; subst a' s. apply FIN, H.
  - destruct Hres as [Hr|[e Hr]]; discriminate Hr.
Qed.

Lemma sparse_content p new dest : pinv p ->
  match sparse maxc p new dest with
  | StOk p' _ | StErr p' _ _ =>
      a_B (abs p') = a_B (abs p) /\
      forall tl u, Forall rcd_ok tl -> CA (abs p) (new ++ u) tl -> exists tl', sfx tl' tl /\ CA (abs p') u tl'
  | StPanic _ => True
  end.
Proof.
  intros [HRI _]. destruct (sparse_refines maxc p new dest HRI) as [Ga _].
  destruct (sparse maxc p new dest) as [p' s|p' e s|n]; cbn [absres] in Ga; [| |exact I].
  - apply (content_law (abs p) new dest (abs p') s (or_introl Ga)).
  - apply (content_law (abs p) new dest (abs p') s (or_intror (ex_intro _ e Ga))).
Qed.
End ContentMachine.
