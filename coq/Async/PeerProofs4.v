(* Async/PeerProofs4.v — proof of Async/PeerTargets4.v: over a whole connection of the ONE-OUTSTANDING client the requests
   handed to the handler are the requests the client sent, in order, each once.
   Part 0: the ghost trace erases.
   Part A: the content walk: from the framing position of the stream parser, (unparsed bytes ++ rest of the segment) is
           the rest of one record followed by whole records of the request's stream section; every parse call conserves it.
   Part B: segment bookkeeping: what one transport read does to "rest of the current segment ++ segments not yet opened".
   Part C: the invariant of a request in progress and its conservation through the layers of the connection task
           (poll_input, the handler operations, record_boundary, close).  A read happens only where the structure walk of
           PeerProofs3 over the bytes held is incomplete, hence inside the current segment: the next segment is never
           touched before the close (this does not depend on the gates).
   Part D: Token::parse_request between two requests: which segment it reads from.
   Part E: Token::run with the trace, the theorem.   Part F: an instance. *)
From Coq Require Import ZArith.
From FV Require Import Base.Bytes Base.BytesLemmas Gen.Generated Codec.Varint Codec.VarintProofs Codec.NV Codec.NVProofs
  Codec.Header Codec.Bodies Codec.Vars Codec.ProtoProofs
  Parser.ReqModel Parser.ReqParamsSpec Parser.ReqWire Parser.ReqTargets Parser.ReqParams Parser.ReqDrive Parser.ReqRecords Parser.ReqFinal
  Parser.StreamModel Parser.AbsStream Parser.StreamRefine Parser.StreamSpec Parser.StreamInv Parser.StreamSeqProofs Parser.StreamFinal Parser.EnvCanon
  Async.ConnWrites Async.ConnTotal Async.Conn Async.ConnReads Async.PeerTargets Async.PeerProofs Async.PeerTargets2 Async.PeerProofs2
  Async.PeerTargets3 Async.PeerProofs3 Async.LoopTargets Async.LoopProofs Async.PeerTargets4.
From Coq Require Import ZifyBool ZifyNat ZifyN.
Ltac Zify.zify_post_hook ::= Z.div_mod_to_equations.

Notation flat := (flat_map (fun s : N * N * bytes => snd s)).

(* ------------------------------------------------------------------------------------------ *)
(* Part 0: the ghost trace erases                                                               *)
(* ------------------------------------------------------------------------------------------ *)
Theorem run_loop_tr_erase_proof : run_loop_tr_erase_stmt.
Proof.
  intros norm maxc fuel. induction fuel as [|f IH]; intros p scripts served w acc; [reflexivity|].
  cbn [run_loop_tr run_loop]. destruct (stopped w); [reflexivity|].
  destruct (parse_request norm maxc (io_fuel w 0) p [] w) as [[s0|k] w1|o w1]; [|reflexivity|reflexivity].
  cbv zeta.
  match goal with |- context [run_handler maxc ?fu ?sc ?r0 ?w2] => destruct (run_handler maxc fu sc r0 w2) as [[st r1] w3|o w3] end;
    [|reflexivity].
  match goal with |- fst (match ?s with Some _ => _ | None => _ end) = _ => destruct s as [[d c]|] end; [|reflexivity].
  destruct (do_close maxc r1 d c w3) as [[rp|k] w4|o w4]; [apply IH|reflexivity|reflexivity].
Qed.

(* ------------------------------------------------------------------------------------------ *)
(* Part A: the content walk                                                                     *)
(* ------------------------------------------------------------------------------------------ *)
Definition sfx {A} (l' l : list A) : Prop := exists pre, l = pre ++ l'.

Lemma sfx_refl {A} (l : list A) : sfx l l.
Proof. exists []. reflexivity. Qed.

Lemma sfx_trans {A} (a b c : list A) : sfx a b -> sfx b c -> sfx a c.
Proof. intros [p1 ->] [p2 ->]. exists (p2 ++ p1). apply app_assoc. Qed.

Lemma sfx_Forall {A} (P : A -> Prop) (l' l : list A) : sfx l' l -> Forall P l -> Forall P l'.
Proof. intros [pre ->] H. apply Forall_app in H. apply H. Qed.

(* [y] is the last p + q bytes of one record followed by the whole records [tl] *)
Definition CW (p q : N) (y : bytes) (tl : list rcd) : Prop := exists x, y = x ++ enc_rcds tl /\ len x = p + q.

Lemma CW_adv p q y tl n : n <= p + q -> n <= len y -> CW p q y tl -> exists x, drop n y = x ++ enc_rcds tl /\ len x = p + q - n.
Proof.
  intros Hn Hy (x & -> & Hx). exists (drop n x). split; [apply drop_app_le; lia|]. rewrite len_drop. lia.
Qed.

(* at a record boundary with a complete header in front: the header is that of the first record of the list *)
Lemma CW_head raw u tl : Forall rcd_ok tl -> HEADER_LEN <= len raw -> CW 0 0 (raw ++ u) tl ->
  exists r tl', tl = r :: tl' /\ rcd_ok r /\ take HEADER_LEN raw = hdr8 r /\
                drop HEADER_LEN raw ++ u = rbody r ++ rpad r ++ enc_rcds tl'.
Proof.
  intros Hok Hl (x & E & Hx). assert (x = []) by (apply len_zero_nil; lia). subst x. cbn [app] in E.
  destruct tl as [|r tl'].
  { exfalso. cbn [enc_rcds flat_map] in E. apply (f_equal len) in E. rewrite len_app, len_nil in E. unfold HEADER_LEN in Hl. lia. }
  inversion Hok as [|? ? Hr Hok']; subst. exists r, tl'. split; [reflexivity|]. split; [exact Hr|].
  rewrite enc_rcds_cons, enc_rcd_app in E.
  split.
  - rewrite <- (take_app_le HEADER_LEN raw u Hl), E. apply take8_hdr8.
  - rewrite <- (drop_app_le HEADER_LEN raw u Hl), E. apply drop8_hdr8.
Qed.

Section ContentMachine.
Variable maxc : N.

Definition CA (a : ast) (u : bytes) (tl : list rcd) : Prop := CW (a_prem a) (a_pad a) (a_raw a ++ u) tl.

(* a' is a later state of a: the buffer size is the same, and the parser has moved along the record list *)
Definition c_rel (a a' : ast) : Prop :=
  a_B a' = a_B a /\ forall tl u, Forall rcd_ok tl -> CA a u tl -> exists tl', sfx tl' tl /\ CA a' u tl'.

Definition c_post (a : ast) (fl : aflow) : Prop :=
  match fl with AContinue l' | ABreak l' | AErr l' _ => c_rel a (al l') | APanic _ => True end.

Lemma c_rel_refl a : c_rel a a.
Proof. split; [reflexivity|]. intros tl u _ H. exists tl. split; [apply sfx_refl|exact H]. Qed.

Lemma c_rel_trans a1 a2 a3 : c_rel a1 a2 -> c_rel a2 a3 -> c_rel a1 a3.
Proof.
  intros [B1 H1] [B2 H2]. split; [congruence|]. intros tl u Hok H. destruct (H1 tl u Hok H) as (tl1 & S1 & C1).
  destruct (H2 tl1 u (sfx_Forall _ _ _ S1 Hok) C1) as (tl2 & S2 & C2). exists tl2. split; [apply (sfx_trans _ _ _ S2 S1)|exact C2].
Qed.

Lemma c_post_trans a1 a2 fl : c_rel a1 a2 -> c_post a2 fl -> c_post a1 fl.
Proof. intros H12 H. destruct fl as [l'|l'|l' e|n]; cbn [c_post] in *; try (apply (c_rel_trans _ _ _ H12 H)). exact I. Qed.

(* n bytes of the record in front are consumed *)
Lemma c_rel_adv a B' sp parsed out rq sm st' n p' q' :
  B' = a_B a -> n <= len (a_raw a) -> n <= a_prem a + a_pad a -> p' + q' = a_prem a + a_pad a - n ->
  c_rel a (mkA B' sp parsed (drop n (a_raw a)) out rq sm p' q' st').
Proof.
  intros -> H1 H2 H3. split; [reflexivity|]. intros tl u _ H. exists tl. split; [apply sfx_refl|].
  unfold CA in *. cbn [a_prem a_pad a_raw].
  assert (Hy : n <= len (a_raw a ++ u)) by (rewrite len_app; lia).
  destruct (CW_adv _ _ _ tl n H2 Hy H) as (x & E & Hx).
  exists x. split; [rewrite <- E; symmetry; apply drop_app_le; exact H1|lia].
Qed.

Lemma pfin_C a parsed' out' st' res cap' n : c_post a (pfin' a parsed' out' st' res cap' n).
Proof.
  unfold pfin'. cbv zeta.
  destruct (N.ltb_spec (N.min (a_prem a) (len (a_raw a))) n) as [Hn|Hn]; [exact I|].
  assert (Hrel : c_rel a (mkA (a_B a) (a_space a) parsed' (drop n (a_raw a)) out' (a_req a) (a_stream a)
                              (a_prem a - n) (a_pad a) st')) by (apply c_rel_adv; try reflexivity; lia).
  match goal with |- c_post _ (if ?c then _ else _) => destruct c end; cbn [c_post al]; exact Hrel.
Qed.

Lemma payload_C l : c_post (al l) (aparse_payload maxc l).
Proof.
  rewrite aparse_payload_eq. cbv zeta. destruct l as [a res cap]. cbn [al ares acap].
  destruct (a_st a).
  - destruct cap as [c|]; apply pfin_C.
  - apply pfin_C.
  - destruct (nv_run (take (N.min (a_prem a) (len (a_raw a))) (a_raw a))) as [ps rest].
    destruct (len (a_raw a) <? a_prem a); apply pfin_C.
Qed.

(* a header the parser goes past: the record list loses its first record *)
Lemma hgo_C l st cl pl out added : a_prem (al l) = 0 -> a_pad (al l) = 0 -> HEADER_LEN <= len (a_raw (al l)) ->
  (forall r, rcd_ok r -> take HEADER_LEN (a_raw (al l)) = hdr8 r -> cl = len (rbody r) /\ pl = len (rpad r)) ->
  c_post (al l) (StreamInv.hgo l st cl pl out added).
Proof.
  intros Hp Hq Hl Hd. unfold StreamInv.hgo. cbn [c_post al]. split; [reflexivity|].
  intros tl u Hok H. unfold CA in *. rewrite Hp, Hq in H. cbn [a_prem a_pad a_raw].
  destruct (CW_head _ _ _ Hok Hl H) as (r & tl' & -> & Hr & Eh & Ed). destruct (Hd r Hr Eh) as [-> ->].
  exists tl'. split; [exists [r]; reflexivity|]. exists (rbody r ++ rpad r).
  split; [rewrite Ed, <- app_assoc; reflexivity|apply len_app].
Qed.

Lemma head_C l : a_prem (al l) = 0 -> a_pad (al l) = 0 -> c_post (al l) (aparse_head l).
Proof.
  intros Hp Hq. rewrite aparse_head_eq. cbv zeta.
  destruct (negb (a_boundary (al l))); [exact I|].
  destruct (N.ltb_spec (len (a_raw (al l))) HEADER_LEN) as [Hl|Hl]; [apply c_rel_refl|].
  destruct (hdr_decode (take HEADER_LEN (a_raw (al l)))) as [t hid cl pl|v|t] eqn:Ed.
  - assert (GO : forall st out added, c_post (al l) (StreamInv.hgo l st cl pl out added)).
    { intros st out added. apply hgo_C; try assumption. intros r Hr Eh. rewrite Eh, (hdr_decode_hdr8 r Hr) in Ed.
      destruct (known_type (rt r)); [|discriminate Ed]. injection Ed as _ _ <- <-. split; reflexivity. }
    destruct (is_input_stream t && (hid =? r_id (a_req (al l)))).
    + destruct (cmp_input_streams (r_role (a_req (al l))) t (a_stream (al l))) as [[| |]|].
      * apply GO.
      * destruct (cl =? 0); cbn [negb]; [cbn [c_post al]; apply c_rel_refl|apply GO].
      * cbn [c_post al]. apply c_rel_refl.
      * exact I.
    + destruct ((t =? RT_AbortRequest) && (hid =? r_id (a_req (al l)))); [apply c_rel_refl|].
      destruct ((t =? RT_BeginRequest) && negb (hid =? r_id (a_req (al l)))); [apply GO|].
      destruct ((t =? RT_GetValues) && hdr_is_management t hid); apply GO.
  - apply c_rel_refl.
  - apply hgo_C; try assumption. intros r Hr Eh. rewrite Eh. destruct (hdr8_fields r Hr) as (_ & -> & ->). split; reflexivity.
Qed.

Lemma after_payload_C l : c_post (al l) (after_payload l).
Proof.
  unfold after_payload. cbv zeta.
  destruct (N.ltb_spec 0 (a_pad (al l))) as [Hq|Hq].
  - destruct (N.eqb_spec (a_prem (al l)) 0) as [Hp|Hp]; cbn [negb]; [|exact I].
    destruct (N.leb_spec (len (a_raw (al l))) (a_pad (al l))) as [Hl|Hl].
    + cbn [c_post al]. unfold a_set.
      rewrite <- (drop_all (len (a_raw (al l))) (a_raw (al l))) at 1 by lia.
      apply c_rel_adv; try reflexivity; lia.
    + set (l2 := mkAL (a_set (al l) (a_parsed (al l)) (drop (a_pad (al l)) (a_raw (al l))) (a_out (al l))
                              (a_prem (al l)) 0 (a_st (al l))) (ares l) (acap l)).
      apply (c_post_trans (al l) (al l2)).
      * unfold l2, a_set. cbn [al]. apply c_rel_adv; try reflexivity; lia.
      * apply head_C; unfold l2, a_set; cbn [al a_prem a_pad]; [exact Hp|reflexivity].
  - destruct (N.eq_dec (a_prem (al l)) 0) as [Hp|Hp].
    + apply head_C; [exact Hp|lia].
    + rewrite aparse_head_eq. cbv zeta. unfold a_boundary.
      destruct (N.eqb_spec (a_prem (al l)) 0) as [Hz|_]; [contradiction|]. cbn [andb negb]. exact I.
Qed.

Lemma iter_C l : c_post (al l) (aparse_iter maxc l).
Proof.
  rewrite aparse_iter_eq.
  destruct (0 <? a_prem (al l)); [|apply after_payload_C].
  pose proof (payload_C l) as H.
  destruct (aparse_payload maxc l) as [l'|l'|l' e|n]; cbn [c_post] in H.
  - apply (c_post_trans _ _ _ H). apply after_payload_C.
  - exact H.
  - exact H.
  - exact I.
Qed.

Lemma loop_C fuel : forall l, c_post (al l) (aparse_loop maxc fuel l).
Proof.
  induction fuel as [|f IH]; intros l; [exact I|].
  cbn [aparse_loop]. destruct (a_raw (al l)) as [|b r]; [apply c_rel_refl|].
  pose proof (iter_C l) as H.
  destruct (aparse_iter maxc l) as [l'|l'|l' e|n]; cbn [c_post] in H.
  - apply (c_post_trans _ _ _ H). apply IH.
  - exact H.
  - exact H.
  - exact I.
Qed.

(* every call conserves the content walk *)
Theorem content_law a new dest a' s :
  (aparse maxc a new dest = AOk a' s \/ exists e, aparse maxc a new dest = AFail a' e s) ->
  a_B a' = a_B a /\ forall tl u, Forall rcd_ok tl -> CA a (new ++ u) tl -> exists tl', sfx tl' tl /\ CA a' u tl'.
Proof.
  intros Hres. unfold aparse in Hres.
  destruct (match dest with Some _ => negb (len (a_parsed a) =? 0) | None => false end).
  { destruct Hres as [H|[e H]]; discriminate H. }
  destruct (a_space a <? len new).
  { destruct Hres as [H|[e H]]; discriminate H. }
  cbv zeta in Hres.
  set (a1 := mkA (a_B a) (a_space a - len new) (a_parsed a) (a_raw a ++ new) (a_out a) (a_req a)
                                     (a_stream a) (a_prem a) (a_pad a) (a_st a)) in *.
  assert (FIN : forall l', c_rel a1 (al l') ->
            a_B (al l') = a_B a /\ forall tl u, Forall rcd_ok tl -> CA a (new ++ u) tl -> exists tl', sfx tl' tl /\ CA (al l') u tl').
  { intros l' [HB H]. split; [exact HB|]. intros tl u Hok Hc. apply (H tl u Hok). unfold CA in *. unfold a1.
    cbn [a_prem a_pad a_raw]. rewrite <- app_assoc. exact Hc. }
  match type of Hres with context [aparse_loop maxc ?f ?l] =>
    pose proof (loop_C f l) as H; destruct (aparse_loop maxc f l) as [l'|l'|l' e'|n] end; cbn [c_post al] in H.
  - destruct Hres as [Hr|[e Hr]]; [|discriminate Hr]. inversion Hr; subst a' s. apply FIN, H.
  - destruct Hres as [Hr|[e Hr]]; [|discriminate Hr]. inversion Hr; subst a' s. apply FIN, H.
  - destruct Hres as [Hr|[e Hr]]; [discriminate Hr|]. inversion Hr; subst a' s. apply FIN, H.
  - destruct Hres as [Hr|[e Hr]]; discriminate Hr.
Qed.

Lemma sparse_content p new dest : pinv p ->
  match sparse maxc p new dest with
  | StOk p' _ | StErr p' _ _ =>
      a_B (abs p') = a_B (abs p) /\
      forall tl u, Forall rcd_ok tl -> CA (abs p) (new ++ u) tl -> exists tl', sfx tl' tl /\ CA (abs p') u tl'
  | StPanic _ => True
  end.
Proof.
  intros [HRI _]. destruct (sparse_refines maxc p new dest HRI) as [Ga _].
  destruct (sparse maxc p new dest) as [p' s|p' e s|n]; cbn [absres] in Ga; [| |exact I].
  - apply (content_law (abs p) new dest (abs p') s (or_introl Ga)).
  - apply (content_law (abs p) new dest (abs p') s (or_intror (ex_intro _ e Ga))).
Qed.
End ContentMachine.

(* ------------------------------------------------------------------------------------------ *)
(* Part B: segment bookkeeping                                                                  *)
(* ------------------------------------------------------------------------------------------ *)
Notation seg := (N * N * bytes)%type.
Definition nonempty_segs (LS : list seg) : Prop := Forall (fun s : seg => snd s <> []) LS.

(* what a read (successful or not) does to the segment list: empty segments in front may be dropped; a delivery takes
   a prefix of the first segment with bytes left *)
Definition rd_segs (sg : list seg) (x : bytes + N) (sg' : list seg) : Prop :=
  match x with
  | inl b => (b = [] /\ exists E, flat E = [] /\ sg = E ++ sg') \/
             (exists E ge gm bb rest n, flat E = [] /\ sg = E ++ (ge, gm, bb) :: rest /\ bb <> [] /\ b = take n bb /\
                                        sg' = (ge, gm, drop n bb) :: rest)
  | inr _ => exists E, flat E = [] /\ sg = E ++ sg'
  end.

Lemma rd_segs_pre E sg x sg' : flat E = [] -> rd_segs sg x sg' -> rd_segs (E ++ sg) x sg'.
Proof.
  intros HF. destruct x as [b|k]; cbn [rd_segs].
  - intros [(Hb & E1 & H1 & ->)|(E1 & ge & gm & bb & rest & n & H1 & -> & H3 & H4 & H5)].
    + left. split; [exact Hb|]. exists (E ++ E1). split; [rewrite flat_map_app, HF, H1; reflexivity|apply app_assoc].
    + right. exists (E ++ E1), ge, gm, bb, rest, n. split; [rewrite flat_map_app, HF, H1; reflexivity|].
      split; [apply app_assoc|]. split; [exact H3|]. split; assumption.
  - intros (E1 & H1 & ->). exists (E ++ E1). split; [rewrite flat_map_app, HF, H1; reflexivity|apply app_assoc].
Qed.

Lemma t_poll_read_rd L w pr w1 : t_poll_read L w = (pr, w1) ->
  match pr with
  | PReady x => rd_segs (segs w) x (segs w1)
  | PWake => exists E, flat E = [] /\ segs w = E ++ segs w1
  | PBlock => w1 = w
  end.
Proof.
  intros ET. pose proof (t_poll_read_segs _ _ _ _ ET) as S2. destruct pr as [[b|k]| |]; cbv beta iota in S2; cbn [rd_segs].
  - destruct S2 as [H|(E0 & ge & gm & bb & rest & n & H1 & H2 & H3 & H4 & H5 & _)]; [left; exact H|].
    right. exists E0, ge, gm, bb, rest, n. repeat split; assumption.
  - exact S2.
  - exact S2.
  - unfold t_poll_read in ET. destruct (L =? 0); [discriminate ET|].
    destruct (skip_empty_segs (segs w)) as [|[[ge gm] b] rest]; [discriminate ET|].
    destruct (count_records (length (wlog w)) (wlog w) 0 0) as [e m].
    destruct ((e <? ge) || (m <? gm)); [injection ET as <-; reflexivity|].
    destruct (rscript w) as [|r t]; cbv beta iota zeta in ET.
    + destruct (L =? 0); [discriminate ET|]. destruct (L =? R_ERR); discriminate ET.
    + destruct (r =? 0); [discriminate ET|]. destruct (r =? R_ERR); discriminate ET.
Qed.

Lemma await_read_rd : forall fuel sel L w x w', await_read fuel sel L w = Ok x w' -> rd_segs (segs w) x (segs w').
Proof.
  induction fuel as [|f IH]; intros sel L w x w' E; [discriminate E|]. cbn [await_read] in E.
  destruct (t_poll_read L w) as [pr w1] eqn:ET. pose proof (t_poll_read_rd _ _ _ _ ET) as S2.
  destruct pr as [y| |].
  - injection E as <- <-. exact S2.
  - unfold on_wake in E. destruct (sel && stopped (w_bump w1)); [discriminate E|].
    destruct S2 as (E0 & HF & ->). apply rd_segs_pre; [exact HF|]. apply (IH _ _ _ _ _ E).
  - subst w1. unfold on_block in E. destruct (negb (stop_at w =? 0) && negb (stopped w)); [|discriminate E].
    destruct sel; [discriminate E|]. apply (IH _ _ _ _ _ E).
Qed.

(* empty segments dropped in front: they belong to the current segment's part *)
Lemma split_empties (LS : list seg) : nonempty_segs LS -> forall E cur sg', cur ++ LS = E ++ sg' -> flat E = [] ->
  exists cur', cur = E ++ cur' /\ sg' = cur' ++ LS.
Proof.
  intros HLS. induction E as [|e E IH]; intros cur sg' Es HF.
  - exists cur. split; [reflexivity|]. symmetry. exact Es.
  - cbn [flat_map] in HF. apply app_eq_nil in HF. destruct HF as [He HF].
    destruct cur as [|c cur0].
    + exfalso. cbn [app] in Es. rewrite Es in HLS. inversion HLS as [|? ? H1 _]; subst. apply H1, He.
    + cbn [app] in Es. injection Es as -> Es. destruct (IH cur0 sg' Es HF) as (cur' & -> & ->).
      exists cur'. split; reflexivity.
Qed.

(* the first segment with bytes left is part of the current segment, or (nothing of it being left) the next one *)
Lemma split_read (LS : list seg) : nonempty_segs LS -> forall E cur x rest, cur ++ LS = E ++ x :: rest -> flat E = [] ->
  snd x <> [] ->
  (exists c2, cur = E ++ x :: c2 /\ rest = c2 ++ LS) \/ (flat cur = [] /\ LS = x :: rest).
Proof.
  intros HLS. induction E as [|e E IH]; intros cur x rest Es HF Hx.
  - destruct cur as [|c c0]; cbn [app] in Es.
    + right. split; [reflexivity|exact Es].
    + injection Es as -> Es. left. exists c0. split; [reflexivity|symmetry; exact Es].
  - cbn [flat_map] in HF. apply app_eq_nil in HF. destruct HF as [He HF].
    destruct cur as [|c cur0].
    + exfalso. cbn [app] in Es. rewrite Es in HLS. inversion HLS as [|? ? H1 _]; subst. apply H1, He.
    + cbn [app] in Es. injection Es as -> Es. destruct (IH cur0 x rest Es HF Hx) as [(c2 & -> & ->)|(H1 & H2)].
      * left. exists c2. split; reflexivity.
      * right. split; [cbn [flat_map]; rewrite He, H1; reflexivity|exact H2].
Qed.

(* a read seen from "rest of the current segment ++ segments not yet opened" *)
Lemma rd_split (LS : list seg) cur x sg' : nonempty_segs LS -> rd_segs (cur ++ LS) x sg' ->
  match x with
  | inl b => (exists cur', sg' = cur' ++ LS /\ flat cur = b ++ flat cur') \/
             (flat cur = [] /\ exists ge gm bb rest n, LS = (ge, gm, bb) :: rest /\ bb <> [] /\ b = take n bb /\
                                                     sg' = (ge, gm, drop n bb) :: rest)
  | inr _ => exists cur', sg' = cur' ++ LS /\ flat cur = flat cur'
  end.
Proof.
  intros HLS. destruct x as [b|k]; cbn [rd_segs].
  - intros [(-> & E & HF & Es)|(E & ge & gm & bb & rest & n & HF & Es & Hbb & -> & ->)].
    + destruct (split_empties LS HLS E cur sg' Es HF) as (cur' & -> & ->). left. exists cur'. split; [reflexivity|].
      rewrite flat_map_app, HF. reflexivity.
    + destruct (split_read LS HLS E cur (ge, gm, bb) rest Es HF Hbb) as [(c2 & -> & ->)|(H1 & H2)].
      * left. exists ((ge, gm, drop n bb) :: c2). split; [reflexivity|].
        rewrite flat_map_app, HF. cbn [flat_map snd app]. rewrite app_assoc, take_drop. reflexivity.
      * right. split; [exact H1|]. exists ge, gm, bb, rest, n. repeat split; assumption.
  - intros (E & HF & Es). destruct (split_empties LS HLS E cur sg' Es HF) as (cur' & -> & ->). exists cur'. split; [reflexivity|].
    rewrite flat_map_app, HF. reflexivity.
Qed.

(* ------------------------------------------------------------------------------------------ *)
(* Part C: the invariant of a request in progress                                               *)
(* ------------------------------------------------------------------------------------------ *)
Section Layers4.
Variable maxc : N.
(* the size of the parser's buffer; the stream records of the request in progress; the segments not yet opened *)
Variable CAP : N.
Variable srs : list rcd.
Variable LS : list seg.
Hypothesis Hsrs : Forall rcd_ok srs.
Hypothesis HLS : nonempty_segs LS.

(* [cur]: what is left of the segment of the request in progress.  From the parser's framing position, the bytes it
   holds, the bytes read but not yet fed and the rest of the segment are the rest of one record and then a suffix of the
   request's stream records; the structure walk of PeerProofs3 over them is complete *)
Definition Kc (a : ast) (new : bytes) (sg : list seg) : Prop :=
  a_B a = CAP /\ exists vm tl cur, SREL a vm /\ sfx tl srs /\ sg = cur ++ LS /\
    CW (a_prem a) (a_pad a) (a_raw a ++ new ++ flat cur) tl /\
    VB vm (a_prem a) (a_pad a) (a_raw a ++ new ++ flat cur) = true.

Lemma Kc_same a a' new sg : a_B a' = a_B a -> a_raw a' = a_raw a -> a_prem a' = a_prem a -> a_pad a' = a_pad a ->
  a_req a' = a_req a -> a_stream a' = a_stream a -> Kc a new sg -> Kc a' new sg.
Proof.
  intros E1 E2 E3 E4 E5 E6 (HB & vm & tl & cur & HS & Hs & Hsg & HC & HV).
  split; [congruence|]. exists vm, tl, cur. rewrite E2, E3, E4.
  split; [apply (SREL_same a); assumption|]. repeat split; assumption.
Qed.

Lemma Kc_sparse p new dest sg : pinv p -> Kc (abs p) new sg ->
  match sparse maxc p new dest with
  | StOk p' _ | StErr p' _ _ => Kc (abs p') [] sg
  | StPanic _ => True
  end.
Proof.
  intros Hinv (HB & vm & tl & cur & HS & Hs & Hsg & HC & HV).
  pose proof (sparse_content maxc p new dest Hinv) as SC.
  pose proof (sparse_struct maxc p new dest vm Hinv HS) as SV.
  destruct (sparse maxc p new dest) as [p' s|p' e s|n]; [| |exact I];
    destruct SC as [B1 SC]; destruct SV as (vm' & HS' & LV);
    destruct (SC tl (flat cur) (sfx_Forall _ _ _ Hs Hsrs) HC) as (tl' & S' & C');
    (split; [congruence|]); exists vm', tl', cur; (split; [exact HS'|]); (split; [apply (sfx_trans _ _ _ S' Hs)|]);
    (split; [exact Hsg|]); cbn [app]; (split; [exact C'|apply LV; exact HV]).
Qed.

Lemma Kc_skip a new sg E sg' : flat E = [] -> sg = E ++ sg' -> Kc a new sg -> Kc a new sg'.
Proof.
  intros HF -> (HB & vm & tl & cur & HS & Hs & Hsg & HC & HV).
  destruct (split_empties LS HLS E cur sg' (eq_sym Hsg) HF) as (cur' & -> & ->).
  split; [exact HB|]. exists vm, tl, cur'. rewrite flat_map_app, HF in HC, HV. repeat split; assumption.
Qed.

(* a read at a place where the structure walk over the bytes held is not complete takes bytes of the current segment *)
Lemma Kc_rd a sg x sg' : rd_segs sg x sg' -> Kc a [] sg -> (forall vm, SREL a vm -> VA vm a [] = false) ->
  match x with inl b => Kc a b sg' | inr _ => Kc a [] sg' end.
Proof.
  intros RD (HB & vm & tl & cur & HS & Hs & -> & HC & HV) Hno.
  pose proof (rd_split LS cur x sg' HLS RD) as SP. cbn [app] in HC, HV. destruct x as [b|k].
  - destruct SP as [(cur' & -> & Ef)|(Ef & _)].
    + split; [exact HB|]. exists vm, tl, cur'. rewrite Ef in HC, HV. repeat split; assumption.
    + exfalso. specialize (Hno vm HS). unfold VA in Hno. rewrite Ef in HV. rewrite HV in Hno. discriminate Hno.
  - destruct SP as (cur' & -> & Ef). split; [exact HB|]. exists vm, tl, cur'. cbn [app]. rewrite <- Ef. repeat split; assumption.
Qed.

Lemma input_loop_K : forall fuel dest new r w p r' w',
  pinv (rsp r) -> bytes_ok (remaining w) -> bytes_ok new -> len new <= sinput_space (rsp r) ->
  stream_buffer (rsp r) = [] -> dest <> Some 0 ->
  (length (wscript w) + length (remaining w) + 2 <= fuel)%nat ->
  input_loop maxc fuel dest new r w = (p, r', w') ->
  Kc (abs (rsp r)) new (segs w) -> Kc (abs (rsp r')) [] (segs w').
Proof.
  induction fuel as [|f IH]; intros dest new r w p r' w' Hinv Hrem Hnew Hfit Hsb Hd0 Hf E HK; [lia|].
  cbn [input_loop] in E.
  pose proof (sparse_step maxc (rsp r) new dest Hinv Hnew Hfit ltac:(intros _; exact Hsb)) as SS.
  pose proof (Kc_sparse (rsp r) new dest (segs w) Hinv HK) as SK.
  destruct (sparse maxc (rsp r) new dest) as [p1 s|p1 e s|n] eqn:ESP; [| |contradiction].
  2:{ injection E as <- <- <-. cbn [rsp]. exact SK. }
  destruct SS as (SO & Hend).
  destruct (s_end s || (0 <? s_stream s)) eqn:Edone.
  { match type of E with (_, (if ?c then _ else _), _) = _ => destruct c end; injection E as <- <- <-; cbn [rsp]; exact SK. }
  apply orb_false_iff in Edone. destruct Edone as [Eend Estr].
  assert (Hz : s_stream s = 0) by (destruct (N.ltb_spec 0 (s_stream s)); [discriminate|lia]).
  assert (Hsb1 : stream_buffer p1 = []).
  { destruct dest as [c|].
    - destruct (so_some _ _ _ _ _ _ SO c eq_refl) as (A & _). exact A.
    - destruct (so_none _ _ _ _ _ _ SO eq_refl) as (_ & d & B & C). rewrite B, Hsb.
      assert (d = []) by (apply len_zero_nil; lia). subst d. reflexivity. }
  pose proof (so_inv _ _ _ _ _ _ SO) as [RI1 A1].
  destruct (compress_views p1 RI1) as (V1 & V2 & V3 & V4 & V5 & V6).
  pose proof (compress_abs p1 RI1) as CA.
  pose proof (sparse_stuck maxc (rsp r) new dest p1 s Hinv Hnew Hfit ltac:(intros _; exact Hsb) Hd0 ESP Eend Hz) as ST.
  assert (HV1 : forall vm, SREL (abs p1) vm -> VA vm (abs p1) [] = false).
  { intros vm1 HS1. destruct (a_stream (abs p1)) as [ta|] eqn:Es.
    - apply (stuck_quiet_V (abs p1) vm1 ta HS1 Es (stuck_E _ ST)).
    - exfalso. assert (H : s_end s = true) by (apply Hend; left; exact Es). rewrite H in Eend. discriminate Eend. }
  set (r2 := mkR (compress p1) (rwriteable r) (rlock r) (raborted r)) in E.
  assert (Hinv2 : pinv (rsp r2)).
  { split; [exact V1|]. cbn [r2 rsp]. rewrite CA. apply compress_inv. exact A1. }
  destruct (poll_output (S f) r2 w) as [[po r3] w0] eqn:EPO.
  destruct (poll_output_abs _ _ _ _ _ _ EPO Hinv2 ltac:(lia))
    as (fl & P1 & P2 & P3 & P4 & P5 & P6 & P7 & P8 & P9 & P10 & P11 & P12).
  cbn [r2 rsp rwriteable] in P4, P5, P6, P7, P8, P9, P11.
  pose proof (same_but_io_remaining _ _ P2) as Prem.
  assert (Psegs : segs w0 = segs w) by apply P2.
  assert (K3 : Kc (abs (rsp r3)) [] (segs w0)).
  { rewrite Psegs, P5, CA. exact SK. }
  assert (HV3 : forall vm, SREL (abs (rsp r3)) vm -> VA vm (abs (rsp r3)) [] = false).
  { rewrite P5, CA. exact HV1. }
  destruct po as [[u|k]| |].
  - destruct (t_poll_read (sinput_space (rsp r3)) w0) as [pr w1] eqn:ER.
    destruct (t_poll_read_rem _ _ _ _ ER) as (T1 & T2 & T3 & T4).
    pose proof (t_poll_read_rd _ _ _ _ ER) as RD.
    destruct pr as [[b|k]| |].
    + pose proof (Kc_rd _ _ _ _ RD K3 HV3) as K4. cbv beta iota in K4.
      destruct T4 as (Tr & Tl & Tnil). destruct b as [|x b'].
      * injection E as <- <- <-. exact K4.
      * assert (Hb : bytes_ok ((x :: b') ++ remaining w1)) by (rewrite <- Tr, Prem; exact Hrem).
        apply bytes_ok_app in Hb.
        assert (Hf' : (length (wscript w1) + length (remaining w1) + 2 <= f)%nat).
        { rewrite T2. pose proof (suffix_length _ _ P3). rewrite <- Prem, Tr in Hf.
          cbn [app length] in Hf. rewrite app_length in Hf. lia. }
        apply (IH dest (x :: b') r3 w1 p r' w' P10 (proj2 Hb) (proj1 Hb) Tl ltac:(rewrite P6, V2; exact Hsb1) Hd0 Hf' E K4).
    + injection E as <- <- <-. apply (Kc_rd _ _ (inr k) _ RD K3 HV3).
    + injection E as <- <- <-. destruct RD as (E0 & HF & Es). apply (Kc_skip _ _ _ E0 _ HF Es K3).
    + injection E as <- <- <-. rewrite RD. exact K3.
  - injection E as <- <- <-. exact K3.
  - injection E as <- <- <-. exact K3.
  - contradiction.
Qed.

Lemma poll_input_K fuel dest r w p r' w' :
  pinv (rsp r) -> bytes_ok (remaining w) ->
  (length (wscript w) + length (remaining w) + 2 <= fuel)%nat ->
  poll_input maxc fuel dest r w = (p, r', w') ->
  Kc (abs (rsp r)) [] (segs w) -> Kc (abs (rsp r')) [] (segs w').
Proof.
  intros Hinv Hrem Hf E HK.
  assert (EMPTY : stream_buffer (rsp r) = [] -> dest <> Some 0 ->
    (match poll_output fuel r w with
     | (PReady (inl _), r1, w1) => input_loop maxc fuel dest [] r1 w1
     | (PReady (inr k), r1, w1) => (PReady (inr k), r1, w1)
     | (PWake, r1, w1) => (PWake, r1, w1)
     | (PBlock, r1, w1) => (PBlock, r1, w1)
     end) = (p, r', w') -> Kc (abs (rsp r')) [] (segs w')).
  { intros Esb Hd0 E1.
    destruct (poll_output fuel r w) as [[po r1] w1] eqn:EPO.
    destruct (poll_output_abs _ _ _ _ _ _ EPO Hinv ltac:(lia))
      as (fl & P1 & P2 & P3 & P4 & P5 & P6 & P7 & P8 & P9 & P10 & P11 & P12).
    pose proof (same_but_io_remaining _ _ P2) as Prem.
    assert (Psegs : segs w1 = segs w) by apply P2.
    assert (K1 : Kc (abs (rsp r1)) [] (segs w1)) by (rewrite Psegs, P5; exact HK).
    destruct po as [[u|k]| |].
    - pose proof (suffix_length _ _ P3) as Hsl.
      apply (input_loop_K fuel dest [] r1 w1 p r' w' P10 ltac:(rewrite Prem; exact Hrem) ltac:(constructor)
               ltac:(rewrite len_nil; lia) ltac:(rewrite P6; exact Esb) Hd0 ltac:(rewrite Prem; lia) E1 K1).
    - injection E1 as <- <- <-. exact K1.
    - injection E1 as <- <- <-. exact K1.
    - contradiction. }
  destruct dest as [[|pc]|].
  - rewrite poll_input_zero in E. injection E as <- <- <-. exact HK.
  - unfold poll_input in E. cbv zeta in E. destruct (stream_buffer (rsp r)) as [|x sb] eqn:Esb.
    + apply EMPTY; [reflexivity|discriminate|exact E].
    + cbv beta iota in E. injection E as <- <- <-. cbn [rsp].
      destruct Hinv as [HRI HI0]. rewrite (consume_stream_abs (rsp r) _ HRI). exact HK.
  - unfold poll_input in E. cbv zeta in E. destruct (stream_buffer (rsp r)) as [|x sb] eqn:Esb.
    + apply EMPTY; [reflexivity|discriminate|exact E].
    + cbv beta iota in E. injection E as <- <- <-. exact HK.
Qed.

(* what holds between the operations of a handler *)
Definition KS (r : rstate) (w : world) : Prop :=
  pinv (rsp r) /\ bytes_ok (remaining w) /\ Kc (abs (rsp r)) [] (segs w).

(* one poll of poll_input, whatever its result (Ready or Pending): one iteration of an awaited read, or the single
   poll of an abandoned read (handler op 11) *)
Lemma poll_input_KS dest r w p r1 w1 : KS r w ->
  poll_input maxc (io_fuel w (len (buffer (rsp r)))) dest r w = (p, r1, w1) -> KS r1 w1.
Proof.
  intros (Hinv & Hrem & HK) EP.
  assert (Hfu : (length (wscript w) + length (remaining w) + 2 <= io_fuel w (len (buffer (rsp r))))%nat)
    by (rewrite io_fuel_remaining; lia).
  destruct (poll_input_reads maxc _ dest r w p r1 w1 Hinv Hrem Hfu EP) as (dl & A & _).
  pose proof (poll_input_K _ dest r w p r1 w1 Hinv Hrem Hfu EP HK) as K1.
  split; [apply (ac_inv _ _ _ _ _ _ _ A)|]. split; [apply (acct_bytes_ok _ _ _ _ _ _ _ A Hrem)|exact K1].
Qed.

Lemma await_input_KS : forall fuel dest r w x r' w', KS r w ->
  await_input maxc fuel dest r w = Ok (x, r') w' -> KS r' w'.
Proof.
  induction fuel as [|f IH]; intros dest r w x r' w' HKS E; [discriminate E|].
  cbn [await_input] in E.
  destruct (poll_input maxc (io_fuel w (len (buffer (rsp r)))) dest r w) as [[p r1] w1] eqn:EP.
  pose proof (poll_input_KS dest r w p r1 w1 HKS EP) as KS1.
  destruct p as [y| |].
  - injection E as <- <- <-. exact KS1.
  - unfold on_wake in E. cbn [andb] in E. apply (IH dest r1 (w_bump w1) x r' w' KS1 E).
  - unfold on_block in E. destruct (negb (stop_at w1 =? 0) && negb (stopped w1)); [|discriminate E].
    apply (IH dest r1 (w_stop w1) x r' w' KS1 E).
Qed.

Lemma consume_KS r w c wr lk ab : KS r w -> KS (mkR (consume_stream (rsp r) c) wr lk ab) w.
Proof.
  intros ([HRI HI0] & H2 & HK). pose proof (consume_stream_abs (rsp r) c HRI) as CA.
  split; [split; [apply consume_stream_RI; exact HRI|cbn [rsp]; rewrite CA; apply consume_stream_inv; exact HI0]|].
  split; [exact H2|]. cbn [rsp]. rewrite CA. exact HK.
Qed.

Lemma set_stream_KS r w s p' wr lk ab : KS r w -> set_stream (rsp r) s = SetOk p' -> KS (mkR p' wr lk ab) w.
Proof.
  intros (Hinv & Hrem & HK) E.
  destruct (set_stream_step maxc (rsp r) s p' Hinv E) as (I1 & _).
  split; [exact I1|]. split; [exact Hrem|]. cbn [rsp].
  destruct Hinv as [HRI _]. pose proof (set_stream_refines (rsp r) s HRI) as SR. rewrite E in SR.
  destruct (aset_stream (abs (rsp r)) s) as [a1| |] eqn:EA; try contradiction. destruct SR as [_ A1]. rewrite A1.
  unfold aset_stream in EA.
  destruct (accepts (r_role (a_req (abs (rsp r)))) (a_stream (abs (rsp r))) s) as [[|]|] eqn:Eacc; try discriminate EA.
  destruct (optN_eqb s (a_stream (abs (rsp r)))); injection EA as <-; [exact HK|].
  destruct HK as (HB & vm & tl & cur & HS & Hs & Hsg & HC & HV). split; [exact HB|]. exists vm, tl, cur.
  split; [apply (SREL_set _ _ _ _ _ _ _ _ _ _ _ HS Eacc)|]. repeat split; assumption.
Qed.

Lemma do_writeable_KS r w e r' w' : KS r w -> do_writeable maxc r w = Ok (e, r') w' -> KS r' w'.
Proof.
  intros H E. unfold do_writeable in E. destruct (rwriteable r); [injection E as <- <- <-; exact H|].
  destruct (set_stream (rsp r) _) as [p'| |] eqn:Es; [|discriminate E|discriminate E].
  pose proof (set_stream_KS r w _ p' false (rlock r) (raborted r) H Es) as H1.
  destruct (await_input maxc (io_fuel w 0) None (mkR p' false (rlock r) (raborted r)) w) as [[[x|k] r1] w1|o w1] eqn:EA;
    [| |discriminate E]; injection E as <- <- <-; apply (await_input_KS _ _ _ _ _ _ _ H1 EA).
Qed.

Lemma read_all_KS : forall fuel acc r w k acc' r' w', KS r w -> read_all maxc fuel acc r w = Ok (k, acc', r') w' -> KS r' w'.
Proof.
  induction fuel as [|f IH]; intros acc r w k acc' r' w' H E; [discriminate E|]. cbn [read_all] in E.
  destruct (await_input maxc (io_fuel w 0) (Some 64) r w) as [[[[n b]|e] r1] w1|o w1] eqn:EA; [| |discriminate E].
  - pose proof (await_input_KS _ _ _ _ _ _ _ H EA) as H1. destruct (n =? 0); [injection E as <- <- <- <-; exact H1|].
    apply (IH _ _ _ _ _ _ _ H1 E).
  - injection E as <- <- <- <-. apply (await_input_KS _ _ _ _ _ _ _ H EA).
Qed.

(* the handler's own output does not concern the client's bytes *)
Lemma io_KS r w w' x : io_rel w w' x -> KS r w -> KS r w'.
Proof.
  intros (Hsame & _) (H1 & H2 & H3). assert (Hsegs : segs w' = segs w) by apply Hsame.
  split; [exact H1|]. split; [rewrite (same_but_io_remaining _ _ Hsame); exact H2|rewrite Hsegs; exact H3].
Qed.

Lemma KS_ev r w e : KS r w -> KS r (w_ev w e).
Proof. exact (fun H => H). Qed.

Lemma run_handler_KS strict role cur script : script_ok strict role cur script ->
  forall f r w st r' w', KS r w -> run_handler maxc f script r w = Ok (st, r') w' -> KS r' w'.
Proof.
  induction 1 as [cur|cur n rest H IH|cur rest H IH|cur k rest H IH|cur s rest Hacc H IH|cur rest H IH
                  |cur s n rest H IH|cur s rest H IH|cur d c rest Hd|cur k rest|cur n rest H IH|cur n rest H IH];
    intros f r w st r' w' HSr E; (destruct f as [|f]; [discriminate E|]); cbn [run_handler] in E.
  - injection E as <- <- <-. apply KS_ev, HSr.
  - destruct (await_input maxc (io_fuel w 0) (Some n) r w) as [[[[c b]|k] r1] w1|o w1] eqn:EA; [| |discriminate E];
      pose proof (await_input_KS _ _ _ _ _ _ _ HSr EA) as A; apply (IH _ _ _ _ _ _ (KS_ev _ _ _ (KS_ev _ _ _ A)) E).
  - match type of E with context [read_all maxc ?fu [] r w] =>
      destruct (read_all maxc fu [] r w) as [[[k acc] r1] w1|o w1] eqn:EA end; [|discriminate E].
    pose proof (read_all_KS _ _ _ _ _ _ _ _ HSr EA) as A. apply (IH _ _ _ _ _ _ (KS_ev _ _ _ (KS_ev _ _ _ A)) E).
  - destruct (await_input maxc (io_fuel w 0) None r w) as [[[[c b]|e] r1] w1|o w1] eqn:EA; [| |discriminate E];
      pose proof (await_input_KS _ _ _ _ _ _ _ HSr EA) as A.
    + apply (IH _ _ _ _ _ _ (KS_ev _ _ _ (KS_ev _ _ _ (consume_KS _ _ _ _ _ _ A))) E).
    + apply (IH _ _ _ _ _ _ (KS_ev _ _ _ (KS_ev _ _ _ A)) E).
  - destruct (set_stream (rsp r) (Some s)) as [p'| |] eqn:Es; [|discriminate E|discriminate E].
    apply (IH _ _ _ _ _ _ (KS_ev _ _ _ (set_stream_KS r w (Some s) p' _ _ _ HSr Es)) E).
  - destruct (do_writeable maxc r w) as [[e r1] w1|o w1] eqn:ED; [|discriminate E].
    apply (IH _ _ _ _ _ _ (KS_ev _ _ _ (do_writeable_KS _ _ _ _ _ HSr ED)) E).
  - destruct (negb (rwriteable r)); [apply (IH _ _ _ _ _ _ (KS_ev _ _ _ HSr) E)|].
    destruct (rlock r && negb (len (take n rest) =? 0)); [discriminate E|].   (* a writer waiting for Request.lock ends the run *)
    pose proof (writer_write_all_spec (N.to_nat (n / 65535) + 2) s (r_id (sreq (rsp r))) (take n rest) w) as S.
    destruct (writer_write_all (N.to_nat (n / 65535) + 2) s (r_id (sreq (rsp r))) (take n rest) w) as [[k|] w1|o w1];
      cbn [wspec] in S; [| |discriminate E].
    + destruct S as (_ & _ & b1 & b2 & _ & _ & HIO). pose proof (io_KS _ _ _ _ HIO HSr) as A.
      injection E as <- <- <-. apply KS_ev, A.
    + apply (IH _ _ _ _ _ _ (KS_ev _ _ _ (io_KS _ _ _ _ S HSr)) E).
  - destruct (rwriteable r); [destruct (rlock r); [discriminate E|]|]; apply (IH _ _ _ _ _ _ (KS_ev _ _ _ HSr) E).
  - injection E as <- <- <-. apply KS_ev, HSr.
  - injection E as <- <- <-. apply KS_ev, HSr.
  - destruct (await_input maxc (io_fuel w 0) (Some n) r w) as [[[[c b]|k] r1] w1|o w1] eqn:EA; [| |discriminate E];
      pose proof (await_input_KS _ _ _ _ _ _ _ HSr EA) as A.
    + apply (IH _ _ _ _ _ _ (KS_ev _ _ _ (KS_ev _ _ _ A)) E).
    + injection E as <- <- <-. apply KS_ev, KS_ev, A.
  - (* 11 n: a single poll of poll_input, not awaited: exactly one iteration of await_input *)
    destruct (poll_input maxc (io_fuel w (len (buffer (rsp r)))) (Some n) r w) as [[p r1] w1] eqn:EP.
    pose proof (poll_input_KS (Some n) r w p r1 w1 HSr EP) as A.
    destruct p as [[[c b]|k]| |]; apply (IH _ _ _ _ _ _ (KS_ev _ _ _ (KS_ev _ _ _ A)) E).
Qed.

(* Request::record_boundary: a read inside the skip loop happens strictly inside a record *)
Lemma boundary_loop_K : forall fuel new r w e r' w',
  pinv (rsp r) -> bytes_ok new -> len new <= sinput_space (rsp r) -> bytes_ok (remaining w) ->
  Kc (abs (rsp r)) new (segs w) ->
  boundary_loop maxc fuel new r w = Ok (e, r') w' -> KS r' w'.
Proof.
  induction fuel as [|f IH]; intros new r w e r' w' Hinv Hnew Hfit Hrem HK E; [discriminate E|].
  rewrite ConnWrites.boundary_loop_S in E.
  pose proof (sparse_step maxc (rsp r) new None Hinv Hnew Hfit ltac:(intros H; contradiction)) as SS.
  pose proof (Kc_sparse (rsp r) new None (segs w) Hinv HK) as SK.
  assert (AFTER : forall p1 s, sparse_ok maxc (rsp r) new None p1 s -> Kc (abs p1) [] (segs w) ->
            (stuck (abs p1) \/ is_record_boundary p1 = true) ->
            ConnWrites.bl_after maxc f r w p1 = Ok (e, r') w' -> KS r' w').
  { intros p1 s SO K1 Hstop Ea. pose proof (so_inv _ _ _ _ _ _ SO) as [RI1 A1].
    unfold ConnWrites.bl_after in Ea. cbv zeta in Ea. destruct (is_record_boundary p1) eqn:Eb.
    { injection Ea as <- <- <-. split; [split; assumption|]. split; [exact Hrem|exact K1]. }
    destruct Hstop as [ST|Hc]; [|discriminate Hc].
    destruct (compress_views p1 RI1) as (V1 & V2 & V3 & V4 & V5 & V6).
    pose proof (compress_abs p1 RI1) as CA.
    assert (I2 : pinv (compress p1)) by (split; [exact V1|rewrite CA; apply compress_inv; exact A1]).
    assert (K2 : Kc (abs (compress p1)) [] (segs w)) by (rewrite CA; exact K1).
    assert (HV : forall vm, SREL (abs (compress p1)) vm -> VA vm (abs (compress p1)) [] = false).
    { rewrite CA. intros vm _. apply (stuck_V (abs p1) vm ST Eb). }
    pose proof (await_read_rem (io_fuel w 0) false (sinput_space (compress p1)) w) as RM.
    destruct (await_read (io_fuel w 0) false (sinput_space (compress p1)) w) as [[b|k] w1|o w1] eqn:ER; [| |discriminate Ea].
    - pose proof (Kc_rd _ _ _ _ (await_read_rd _ _ _ _ _ _ ER) K2 HV) as K3. cbv beta iota in K3.
      destruct RM as (R1 & R2 & R3 & R4 & _). rewrite R3 in Hrem. apply bytes_ok_app in Hrem. destruct b as [|x b].
      + injection Ea as <- <- <-. split; [exact I2|]. split; [apply Hrem|exact K3].
      + apply (IH (x :: b) (mkR (compress p1) (rwriteable r) (rlock r) (raborted r)) w1 e r' w' I2 (proj1 Hrem) R4 (proj2 Hrem) K3 Ea).
    - pose proof (Kc_rd _ _ _ _ (await_read_rd _ _ _ _ _ _ ER) K2 HV) as K3. cbv beta iota in K3.
      destruct RM as (R1 & R2 & R3 & _). injection Ea as <- <- <-. split; [exact I2|]. split; [rewrite R3; exact Hrem|exact K3]. }
  destruct (sparse maxc (rsp r) new None) as [p1 s|p1 pe s|n] eqn:ESP; [| |discriminate E].
  - apply (AFTER p1 s); [apply SS|exact SK|apply (sparse_none_stop maxc (rsp r) new p1 s Hinv ESP)|exact E].
  - destruct SS as (SO & He & _).
    destruct pe; try (injection E as <- <- <-; split; [apply (so_inv _ _ _ _ _ _ SO)|split; [exact Hrem|exact SK]]).
    apply (AFTER p1 s SO SK); [right; apply (err_at_boundary _ _ He)|exact E].
Qed.

Lemma record_boundary_KS r w e r' w' : KS r w -> record_boundary maxc r w = Ok (e, r') w' -> KS r' w'.
Proof.
  intros H E. unfold record_boundary in E. destruct (is_record_boundary (rsp r)); [injection E as <- <- <-; exact H|].
  destruct H as (H1 & H2 & H3).
  apply (boundary_loop_K _ [] r w e r' w' H1 ltac:(constructor) ltac:(rewrite len_nil; lia) H2 H3 E).
Qed.

(* Request::close hands back a parser whose leftover, together with the rest of the segment, is whole records of the
   stream section of the request just closed; the segments not yet opened are untouched *)
Definition closed_ok (rp : parser) (w : world) : Prop :=
  bytes_ok (remaining w) /\ len (held rp) <= CAP /\
  exists tl cur, sfx tl srs /\ segs w = cur ++ LS /\ held rp ++ flat cur = enc_rcds tl /\ rp = mkParser CAP (held rp) Header.

Lemma close_tail_K r1 disc code w1 rp w' : KS r1 w1 -> close_tail maxc r1 disc code w1 = Ok (inl rp) w' -> closed_ok rp w'.
Proof.
  intros H E. rewrite close_tail_unfold in E.
  destruct (set_stream (rsp r1) None) as [p2| |] eqn:Es; [|discriminate E|discriminate E].
  pose proof (set_stream_KS r1 w1 None p2 (rwriteable r1) (rlock r1) (raborted r1) H Es) as H2.
  destruct (record_boundary maxc (mkR p2 (rwriteable r1) (rlock r1) (raborted r1)) w1) as [[[k2|] r3] w2|o w2] eqn:ERB;
    [discriminate E| |discriminate E].
  destruct (record_boundary_KS _ _ _ _ _ H2 ERB) as ([RI3 A3] & R2 & K3).
  destruct (record_boundary_spec maxc _ _ _ _ _ ERB) as (_ & _ & _ & _ & Eb).
  pose proof (close_finish_spec r3 disc code w2) as CF.
  destruct (epilogue (r_id (sreq (rsp r3))) disc code (if rwriteable r3 then ROLE_OUTPUT_STREAMS else [])) as [ep|] eqn:Eep;
    [|rewrite CF in E; discriminate E].
  rewrite E in CF. unfold cf_post in CF. cbv zeta in CF. destruct CF as ((Hsame & _) & Hconv & _).
  assert (Hsegs : segs w' = segs w2) by apply Hsame.
  destruct (close_p4_spec r3) as (Hsp & Ho4 & _). destruct (sp_same_views _ _ Hsp) as (_ & V2 & _ & V4 & _).
  assert (RI4 : RI (close_p4 r3)).
  { unfold close_p4. destruct (output_buffer (rsp r3)); [exact RI3|apply consume_output_RI; exact RI3]. }
  pose proof (into_request_parser_refines (close_p4 r3) RI4) as IR. rewrite Hconv in IR. cbn [absconv] in IR.
  unfold ainto_request_parser in IR. change (a_boundary (abs (close_p4 r3))) with (is_record_boundary (close_p4 r3)) in IR.
  rewrite V4, Eb in IR. cbn [negb] in IR.
  destruct (negb (len (a_out (abs (close_p4 r3))) =? 0)); [discriminate IR|]. injection IR as <-. cbn [held].
  split; [rewrite (same_but_io_remaining _ _ Hsame); exact R2|].
  destruct K3 as (HB & vm & tl & cur & HS & Hs & Hsg & HC & HV).
  split.
  { change (a_raw (abs (close_p4 r3))) with (raw_bytes (close_p4 r3)). rewrite V2.
    destruct A3 as (Hok & _). unfold a_ok in Hok. rewrite HB in Hok. change (a_raw (abs (rsp r3))) with (raw_bytes (rsp r3)) in Hok. cbn [held]. lia. }
  exists tl, cur. split; [exact Hs|]. split; [rewrite Hsegs; exact Hsg|].
  change (a_raw (abs (close_p4 r3))) with (raw_bytes (close_p4 r3)). rewrite V2. split.
  - unfold is_record_boundary in Eb. apply andb_true_iff in Eb. destruct Eb as [Ep Eq]. apply N.eqb_eq in Ep. apply N.eqb_eq in Eq.
    destruct HC as (x & Ex & Hx). cbn [abs a_prem a_pad a_raw] in Ex, Hx. rewrite Ep, Eq in Hx.
    assert (x = []) by (apply len_zero_nil; lia). subst x. cbn [app] in Ex. exact Ex.
  - f_equal. cbn [abs a_B] in HB |- *. destruct Hsp as (Hbuf & _). rewrite Hbuf. exact HB.
Qed.

Lemma do_close_K r disc code w rp w' : KS r w -> do_close maxc r disc code w = Ok (inl rp) w' -> closed_ok rp w'.
Proof.
  intros H E. unfold do_close in E.
  destruct (do_writeable maxc r w) as [[[k|] r1] w1|o w1] eqn:ED; [| |discriminate E];
    pose proof (do_writeable_KS _ _ _ _ _ H ED) as H1.
  - destruct ((k =? EK_Aborted) && raborted r1); [apply (close_tail_K _ _ _ _ _ _ H1 E)|discriminate E].
  - apply (close_tail_K _ _ _ _ _ _ H1 E).
Qed.
End Layers4.

(* ------------------------------------------------------------------------------------------ *)
(* Part D: Token::parse_request between two requests                                            *)
(* ------------------------------------------------------------------------------------------ *)
Section Between4.
Variable norm : bytes -> bytes.
Variable maxc : N.
(* the segment of the next request, the segments after it *)
Variables (ge gm : N) (bI : bytes) (LS1 : list seg).
Hypothesis HbI : seg_ok bI.
Hypothesis HLS1 : nonempty_segs LS1.

(* g: the segment of the next request has been opened *)
Definition nextsegs (g : bool) : list seg := if g then LS1 else (ge, gm, bI) :: LS1.

Lemma nextsegs_ne g : nonempty_segs (nextsegs g).
Proof. destruct g; [exact HLS1|]. constructor; [apply HbI|exact HLS1]. Qed.

(* [cur]: what is left of the segment the parser is in (that of the request just closed, or, once opened, that of the
   next request); the structure walk over the bytes held, the bytes read and the rest of that segment is complete *)
Definition PK (g : bool) (p : parser) (new : bytes) (sg : list seg) : Prop :=
  exists cur, sg = cur ++ nextsegs g /\ VS g (st p) (held p ++ new ++ flat cur) = true.

(* a read happens only when the call just made is not done; if nothing of the current segment is left, the walk over
   the bytes held is complete, which for a parser that is not done means it stands between two requests: the read opens
   the segment of the next request, and never a later one *)
Lemma parse_request_K : forall fuel g p new w s0 w',
  parser_ok p -> bytes_ok new -> len new <= input_space p -> bytes_ok (remaining w) -> PK g p new (segs w) ->
  parse_request norm maxc fuel p new w = Ok (inl s0) w' ->
  exists g' p' rq, parser_ok p' /\ cap p' = cap p /\ st p' = Done rq /\ into_stream_parser p' = inl s0 /\
                   PK g' p' [] (segs w') /\ bytes_ok (remaining w').
Proof.
  induction fuel as [|f IH]; intros g p new w s0 w' Hp Hn Hl Hrem (cur & Hsg & HV) E; [discriminate E|].
  rewrite parse_request_iter in E.
  destruct (F_parse_total norm maxc p new Hp Hn Hl) as (p' & d & o & EP & Hp' & Hcap & _).
  destruct (parse_facts norm maxc p new Hp Hn Hl) as (p'' & d' & o' & EP' & _ & Hd & _).
  rewrite EP in EP'. injection EP' as <- <- <-. rewrite EP in E.
  pose proof (await_write_all_spec (io_fuel w (len o)) true o w) as WS1.
  destruct (await_write_all (io_fuel w (len o)) true o w) as [[k|] w1|o1 w1]; [discriminate E| |discriminate E].
  destruct WS1 as (Hsame & _).
  assert (Hrem1 : bytes_ok (remaining w1)) by (rewrite (same_but_io_remaining _ _ Hsame); exact Hrem).
  assert (Hsegs : segs w1 = segs w) by apply Hsame.
  destruct d.
  - destruct (into_stream_parser p') as [s|e] eqn:EI; [|discriminate E]. injection E as <- <-.
    pose proof EI as EI'. unfold into_stream_parser in EI'.
    destruct (st p') as [| | | | | | |rq|e] eqn:Est; try discriminate EI'.
    exists g, p', rq. split; [exact Hp'|]. split; [exact Hcap|]. split; [exact Est|]. split; [exact EI|]. split; [|exact Hrem1].
    exists cur. rewrite Hsegs. split; [exact Hsg|].
    destruct (parse_vlaw norm maxc g p new p' true o Hp Hn Hl EP ltac:(rewrite Est; reflexivity)) as (LV & _).
    cbn [app]. apply (LV (flat cur) HV).
  - assert (Hnfin : is_final (st p') = false) by (symmetry; exact Hd).
    assert (Hnfat : is_fatal (st p') = false) by (destruct (st p'); try reflexivity; discriminate Hd).
    destruct (parse_vlaw norm maxc g p new p' false o Hp Hn Hl EP Hnfat) as (LV & SV). specialize (SV eq_refl).
    destruct (LV (flat cur) HV) as [HV1 _].
    pose proof (await_read_rem (io_fuel w1 0) true (input_space p') w1) as RM.
    destruct (await_read (io_fuel w1 0) true (input_space p') w1) as [[b|k] w2|o2 w2] eqn:ER; [|discriminate E|discriminate E].
    destruct b as [|x b]; [discriminate E|]. destruct RM as (R1 & R2 & R3 & R4 & _).
    rewrite R3 in Hrem1. apply bytes_ok_app in Hrem1.
    pose proof (await_read_rd _ _ _ _ _ _ ER) as RD. rewrite Hsegs, Hsg in RD.
    pose proof (rd_split (nextsegs g) cur _ _ (nextsegs_ne g) RD) as SP. cbv beta iota in SP.
    assert (STEP : exists g1, PK g1 p' (x :: b) (segs w2)).
    { destruct SP as [(cur' & Es' & Ef)|(Ef & ge' & gm' & bb & rest & n & ELS & Hbb & Eb & Es')].
      - exists g, cur'. split; [exact Es'|]. rewrite <- Ef. exact HV1.
      - rewrite Ef, app_nil_r in HV1. pose proof (SV HV1) as Hm. destruct g.
        + exfalso. pose proof (rvm_open true _ Hnfin Hm) as H. rewrite Hm in H. discriminate H.
        + cbn [nextsegs] in ELS. injection ELS as <- <- <- <-.
          exists true, [(ge, gm, drop n bI)]. split; [rewrite Es'; reflexivity|].
          cbn [flat_map snd]. rewrite app_nil_r, Eb, take_drop.
          unfold VS in *. rewrite (rvm_open false _ Hnfin Hm). rewrite Hm in HV1. apply (proj2 HbI). exact HV1. }
    destruct STEP as (g1 & HPK).
    destruct (IH g1 p' (x :: b) w2 s0 w' Hp' (proj1 Hrem1) R4 (proj2 Hrem1) HPK E) as (g' & p2 & rq & C1 & C2 & C3 & C4 & C5 & C6).
    exists g', p2, rq. split; [exact C1|]. split; [congruence|]. repeat split; assumption.
Qed.
End Between4.

(* ------------------------------------------------------------------------------------------ *)
(* Part E: Token::run with the trace                                                            *)
(* ------------------------------------------------------------------------------------------ *)
Lemma world_ok_of_remaining w : bytes_ok (remaining w) -> world_ok w.
Proof.
  unfold world_ok, remaining. induction (segs w) as [|s t IH]; intros H; [constructor|].
  cbn [flat_map] in H. apply bytes_ok_app in H. constructor; [apply H|apply IH, H].
Qed.

Lemma enc_client_ne cs : Forall (fun s : N * N * creq => creq_ok (snd s)) cs -> nonempty_segs (enc_client cs).
Proof.
  induction 1 as [|[[ge gm] c] t Hc Ht IH]; [constructor|]. cbn [enc_client map fst snd]. constructor; [|exact IH].
  cbn [snd]. apply (creq_seg_ok c Hc).
Qed.

Lemma flat_enc_client_cons ge gm c cs :
  flat (enc_client ((ge, gm, c) :: cs)) = enc_rcds (preamble_rcds (c_pre c)) ++ enc_rcds (c_srs c) ++ flat (enc_client cs).
Proof. cbn [enc_client map flat_map fst snd]. unfold creq_rcds. rewrite enc_rcds_app, <- app_assoc. reflexivity. Qed.

Lemma rcds_bytes_ok rs : Forall rcd_ok rs -> bytes_ok (enc_rcds rs).
Proof. intros H. apply whole_bytes_ok. exists rs. split; [exact H|reflexivity]. Qed.

Lemma VB_MI_junk rs : Forall rcd_ok rs -> Forall no_begin_abort rs -> VB MI 0 0 (enc_rcds rs) = true.
Proof.
  intros H1 H2. rewrite <- (app_nil_r (enc_rcds rs)).
  rewrite (VB_junk MI rs [] H1 (junks_plain MI rs H2 (or_introl eq_refl))). rewrite VB_nil. reflexivity.
Qed.

Lemma len_enc_rcds_sfx (tl rs : list rcd) : sfx tl rs -> len (enc_rcds tl) <= len (enc_rcds rs).
Proof. intros [pre ->]. rewrite enc_rcds_app, len_app. lia. Qed.

(* a preamble preceded by more junk *)
Definition pre_with (junk : list rcd) (pw : preamble) : preamble :=
  mkPreamble (junk ++ w_idle pw) (w_id pw) (w_role pw) (w_flags pw) (w_beginpad pw) (w_pieces pw) (w_endjunk pw) (w_endpad pw).

Lemma preamble_rcds_with junk pw : preamble_rcds (pre_with junk pw) = junk ++ preamble_rcds pw.
Proof. unfold preamble_rcds, pre_with. cbn [w_idle w_id w_role w_flags w_beginpad w_pieces w_endjunk w_endpad]. rewrite <- app_assoc. reflexivity. Qed.

Lemma preamble_ok_with junk pw : Forall rcd_ok junk -> Forall no_begin_abort junk -> preamble_ok pw -> preamble_ok (pre_with junk pw).
Proof.
  intros H1 H2 (P1 & P). unfold preamble_ok, pre_with. cbn [w_idle w_id w_role w_flags w_beginpad w_pieces w_endjunk w_endpad].
  split; [|exact P]. apply Forall_app. split; [|exact P1].
  rewrite Forall_forall in *. intros r Hr. split; [apply H1, Hr|left; apply (H2 r Hr)].
Qed.

Lemma preamble_fits_with c junk pw : Forall (gv_fits c) junk -> preamble_fits c pw -> preamble_fits c (pre_with junk pw).
Proof.
  intros H (P1 & P). unfold preamble_fits, pre_with. cbn [w_idle w_pieces w_endjunk]. split; [|exact P].
  apply Forall_app. split; assumption.
Qed.

Lemma len_enc_preamble pw : 24 <= len (enc_rcds (preamble_rcds pw)).
Proof.
  unfold preamble_rcds. rewrite !enc_rcds_app, !len_app. cbn [enc_rcds flat_map]. rewrite !app_nil_r, !len_enc_rcd.
  cbn [rbody rpad]. change (len (begin_encode (w_role pw) (w_flags pw))) with 8. rewrite len_nil. lia.
Qed.

Section Loop4.
Variable norm : bytes -> bytes.
Variable maxc : N.
Variable B : N.
Hypothesis HB : B < SIZE_LIMIT - 8.
Variable scripts : list (list N).
Hypothesis Hscripts : scripts_ok true scripts.
Notation CAP := (aligned_bufsize B).

Definition junk_ok (junk : list rcd) : Prop :=
  Forall rcd_ok junk /\ Forall no_begin_abort junk /\ Forall (gv_fits CAP) junk.

(* between two requests, [cs] being the requests not yet released: the leftover of the parser and the rest of the
   segment it was read from are whole records that start no request *)
Definition between (cs : list (N * N * creq)) (p : parser) (w : world) : Prop :=
  exists junk cur, junk_ok junk /\ segs w = cur ++ enc_client cs /\ held p ++ flat cur = enc_rcds junk /\
    p = mkParser CAP (held p) Header /\ len (held p) <= CAP /\ bytes_ok (remaining w) /\
    len (enc_rcds junk) + len (flat (enc_client cs)) < SIZE_LIMIT /\ len (enc_rcds junk) + 24 < SIZE_LIMIT.

Lemma between_flat cs p w junk cur : segs w = cur ++ enc_client cs -> held p ++ flat cur = enc_rcds junk ->
  held p ++ remaining w = enc_rcds junk ++ flat (enc_client cs).
Proof. intros Hsg Hh. unfold remaining. rewrite Hsg, flat_map_app, app_assoc, Hh. reflexivity. Qed.

(* no request is left: no handler is started any more *)
Lemma no_request_left p w fuel s0 w1 : between [] p w -> parse_request norm maxc fuel p [] w <> Ok (inl s0) w1.
Proof.
  intros (junk & cur & (J1 & J2 & J3) & Hsg & Hheld & Hp & HL & Hrem & _ & Hsz).
  destruct p as [pc L ps0]. cbn [held] in *. injection Hp as -> ->.
  pose proof (between_flat [] (mkParser CAP L Header) w junk cur Hsg Hheld) as Hfl. cbn [held enc_client map flat_map] in Hfl.
  rewrite app_nil_r in Hfl.
  assert (HbL : bytes_ok L).
  { pose proof (rcds_bytes_ok junk J1) as H. rewrite <- Hheld in H. apply bytes_ok_app in H. apply H. }
  set (pw := mkPreamble junk 1 ROLE_Responder 0 [] [] [] []).
  set (missing := enc_rcds [begin_rcd 1 ROLE_Responder 0 []; mkRcd RT_Params 1 [] []]).
  assert (Hm : len missing = 24) by (vm_compute; reflexivity).
  assert (Hwire : (L ++ remaining w) ++ missing = enc_rcds (preamble_rcds pw)).
  { rewrite Hfl. unfold pw, preamble_rcds. cbn [w_idle w_id w_role w_flags w_beginpad w_pieces w_endjunk w_endpad flat_map app].
    rewrite enc_rcds_app. reflexivity. }
  apply (no_handler_for_partial norm maxc fuel B L w pw [] missing HB HbL HL (world_ok_of_remaining _ Hrem)).
  - unfold preamble_ok, pw. cbn [w_idle w_id w_role w_flags w_beginpad w_pieces w_endjunk w_endpad].
    split; [rewrite Forall_forall in *; intros r Hr; split; [apply J1, Hr|left; apply (J2 r Hr)]|].
    split; [lia|]. split; [reflexivity|]. split; [lia|]. split; [rewrite len_nil; lia|]. split; [constructor|].
    split; [constructor|]. split; [constructor|]. split; [rewrite len_nil; lia|constructor].
  - constructor.
  - reflexivity.
  - constructor.
  - unfold preamble_fits, pw. cbn [w_idle w_pieces w_endjunk]. split; [exact J3|]. split; constructor.
  - rewrite <- Hwire, len_app, Hm, Hfl. lia.
  - intros H. rewrite H in Hm. discriminate Hm.
  - exact Hwire.
Qed.

(* the request the next handler is started with is the next request of the client; afterwards the invariant of a
   request in progress holds *)
Lemma handover ge gm c cs' ps p w fuel s0 w1 :
  creq_ok c -> Forall (fun s : N * N * creq => creq_ok (snd s)) cs' -> creq_fits B c ps ->
  between ((ge, gm, c) :: cs') p w ->
  parse_request norm maxc fuel p [] w = Ok (inl s0) w1 ->
  sreq s0 = sent_request norm c ps /\ forall wr lk ab, KS CAP (c_srs c) (enc_client cs') (mkR s0 wr lk ab) w1.
Proof.
  intros Hc Hcs' (F1 & F2 & F3 & F4 & F5) (junk & cur & (J1 & J2 & J3) & Hsg & Hheld & Hp & HL & Hrem & Hsz & _) E.
  destruct p as [pc L ps0]. cbn [held] in *. injection Hp as -> ->.
  pose proof (between_flat _ (mkParser CAP L Header) w junk cur Hsg Hheld) as Hfl. cbn [held] in Hfl.
  assert (HbL : bytes_ok L).
  { pose proof (rcds_bytes_ok junk J1) as H. rewrite <- Hheld in H. apply bytes_ok_app in H. apply H. }
  assert (Hpok : parser_ok (mkParser CAP L Header)) by (apply reuse_parser_ok; assumption).
  pose proof Hc as (C1 & C2 & C3 & C4 & C5 & C6 & C7).
  set (X := flat (enc_client cs')) in *.
  assert (HflX : flat (enc_client ((ge, gm, c) :: cs')) = enc_rcds (preamble_rcds (c_pre c)) ++ enc_rcds (c_srs c) ++ X).
  { cbn [enc_client map flat_map fst snd]. unfold creq_rcds. rewrite enc_rcds_app, <- app_assoc. reflexivity. }
  set (pw := pre_with junk (c_pre c)).
  set (trailing := enc_rcds (c_srs c) ++ X).
  assert (Hwire : L ++ remaining w = enc_rcds (preamble_rcds pw) ++ trailing).
  { rewrite Hfl, HflX. unfold pw, trailing. rewrite preamble_rcds_with, enc_rcds_app, <- app_assoc. reflexivity. }
  assert (Htr : bytes_ok trailing).
  { pose proof (world_ok_remaining w (world_ok_of_remaining _ Hrem)) as H.
    assert (H2 : bytes_ok (L ++ remaining w)) by (apply bytes_ok_app; split; assumption).
    rewrite Hwire in H2. apply bytes_ok_app in H2. apply H2. }
  assert (Hsz' : len (enc_rcds (preamble_rcds pw) ++ trailing) < SIZE_LIMIT).
  { rewrite <- Hwire, Hfl, len_app. exact Hsz. }
  destruct (handler_sees_request norm maxc fuel B L w pw ps trailing s0 w1 HB HbL HL (world_ok_of_remaining _ Hrem)
              (preamble_ok_with junk (c_pre c) J1 J2 C1) F1 F2 F3 (preamble_fits_with CAP junk (c_pre c) J3 F4) Htr Hsz' Hwire E)
    as (R1 & _ & R3 & _).
  split; [exact R1|].
  (* which segments were read *)
  assert (PK0 : PK ge gm (enc_rcds (creq_rcds c)) (enc_client cs') false (mkParser CAP L Header) [] (segs w)).
  { exists cur. split; [exact Hsg|]. cbn [st held app]. rewrite Hheld. unfold VS. cbn [rvm sprem spad].
    apply VB_MI_junk; assumption. }
  destruct (parse_request_K norm maxc ge gm (enc_rcds (creq_rcds c)) (enc_client cs') (creq_seg_ok c Hc) (enc_client_ne cs' Hcs')
              fuel false (mkParser CAP L Header) [] w s0 w1 Hpok ltac:(constructor) ltac:(rewrite len_nil; lia) Hrem PK0 E)
    as (g' & p' & rq & P1 & P2 & P3 & P4 & (cur' & Hsg' & HV') & P6).
  destruct (into_stream_parser_inv p' rq P1 P3) as (sp0 & EI & Hspinv & _ & _ & _ & _ & _ & I6 & _ & _ & Habs).
  rewrite P4 in EI. injection EI as <-.
  rewrite I6 in R3. unfold remaining in R3. rewrite Hsg', flat_map_app in R3.
  destruct g'; cbn [nextsegs] in Hsg', R3.
  2:{ exfalso. cbn [flat_map snd] in R3. fold X in R3. unfold creq_rcds, trailing in R3. rewrite enc_rcds_app in R3.
      apply (f_equal len) in R3. rewrite !len_app in R3. pose proof (len_enc_preamble (c_pre c)). lia. }
  fold X in R3. unfold trailing in R3. rewrite app_assoc in R3. apply app_inv_tail in R3.
  intros wr lk ab. split; [exact Hspinv|]. split; [exact P6|]. cbn [rsp]. rewrite Habs.
  split; [cbn [a_B]; rewrite P2; reflexivity|].
  exists (done_mode (r_id rq) (r_role rq)), (c_srs c), cur'.
  split; [apply SREL_init|]. split; [apply sfx_refl|]. split; [exact Hsg'|].
  cbn [a_prem a_pad a_raw app]. split.
  - exists []. split; [exact R3|reflexivity].
  - rewrite P3 in HV'. exact HV'.
Qed.

(* after the close: between two requests again *)
Lemma closed_between ge gm c cs' ps junk rp w :
  creq_ok c -> creq_fits B c ps ->
  len (enc_rcds junk) + len (flat (enc_client ((ge, gm, c) :: cs'))) < SIZE_LIMIT ->
  closed_ok CAP (c_srs c) (enc_client cs') rp w -> between cs' rp w.
Proof.
  intros (C1 & C2 & C3 & C4 & C5 & C6 & C7) (F1 & F2 & F3 & F4 & F5) Hsz (Hrem & HL & tl & cur & Hs & Hsg & Hheld & Hrp).
  exists tl, cur.
  split; [split; [apply (sfx_Forall _ _ _ Hs C5)|split; [apply (sfx_Forall _ _ _ Hs C6)|apply (sfx_Forall _ _ _ Hs F5)]]|].
  split; [exact Hsg|]. split; [exact Hheld|]. split; [exact Hrp|]. split; [exact HL|]. split; [exact Hrem|].
  rewrite flat_enc_client_cons, !len_app in Hsz.
  pose proof (len_enc_preamble (c_pre c)). pose proof (len_enc_rcds_sfx _ _ Hs). split; lia.
Qed.

Definition sents (cs : list (N * N * creq)) (pairss : list (list (bytes * bytes))) : list req :=
  map (fun cp => sent_request norm (fst cp) (snd cp)) (combine (map snd cs) pairss).

Lemma KS_fold srs LS r (env : list (bytes * bytes)) : forall w, KS CAP srs LS r w ->
  KS CAP srs LS r (fold_left (fun w p => w_ev (w_ev w (fst p)) (snd p)) env w).
Proof. induction env as [|e t IH]; intros w H; [exact H|]. cbn [fold_left]. apply IH. exact H. Qed.

(* Token::run: the trace grows by the requests of the client, in order *)
Lemma run_loop_tr_prefix : forall fuel cs pairss p served w acc,
  Forall (fun s : N * N * creq => creq_ok (snd s)) cs ->
  Forall2 (fun (s : N * N * creq) ps => creq_fits B (snd s) ps) cs pairss ->
  between cs p w ->
  exists m, snd (run_loop_tr norm maxc fuel p scripts served w acc) = acc ++ firstn m (sents cs pairss).
Proof.
  induction fuel as [|f IH]; intros cs pairss p served w acc Hcs Hfit Hbt.
  { exists 0%nat. cbn [run_loop_tr snd firstn]. rewrite app_nil_r. reflexivity. }
  assert (NOW : forall (o : outcome) (w' : world), exists m, snd (o, w', acc) = acc ++ firstn m (sents cs pairss)).
  { intros o w'. exists 0%nat. cbn [snd firstn]. rewrite app_nil_r. reflexivity. }
  cbn [run_loop_tr]. destruct (stopped w); [apply NOW|].
  destruct (parse_request norm maxc (io_fuel w 0) p [] w) as [[s0|k] w1|o w1] eqn:EPR; [|apply NOW|apply NOW].
  destruct cs as [|[[ge gm] c] cs'].
  { exfalso. apply (no_request_left p w _ s0 w1 Hbt EPR). }
  inversion Hcs as [|? ? Hc Hcs']; subst. inversion Hfit as [|? ps ? pairss' Hf Hfit']; subst. cbn [snd] in Hc, Hf.
  destruct (handover ge gm c cs' ps p w _ s0 w1 Hc Hcs' Hf Hbt EPR) as (Hreq & HKS).
  cbv zeta.
  assert (Hsents : sents ((ge, gm, c) :: cs') (ps :: pairss') = sreq s0 :: sents cs' pairss').
  { unfold sents. cbn [map combine fst snd]. rewrite Hreq. reflexivity. }
  assert (ONE : forall (o : outcome) (w' : world),
            exists m, snd (o, w', acc ++ [sreq s0]) = acc ++ firstn m (sents ((ge, gm, c) :: cs') (ps :: pairss'))).
  { intros o w'. exists 1%nat. rewrite Hsents. reflexivity. }
  set (role := r_role (sreq s0)) in *.
  set (r0 := mkR s0 (len (role_input_streams role) <=? 1) false false).
  match goal with |- context [run_handler maxc _ _ r0 ?ww] => set (w2 := ww) end.
  pose proof Hc as (_ & _ & _ & _ & C5 & _).
  pose proof (enc_client_ne cs' Hcs') as HLS.
  assert (HS2 : KS CAP (c_srs c) (enc_client cs') r0 w2) by (apply KS_fold; apply HKS).
  set (script := nth served scripts (last scripts [])).
  assert (Hscript : script_ok true role (next_input_stream role None) script).
  { subst script. apply (Forall_nth_default (fun s => forall role, script_ok true role (next_input_stream role None) s));
      [exact Hscripts|]. apply Forall_last; [exact Hscripts|]. intros role'. constructor. }
  destruct (run_handler maxc (length script + 2) script r0 w2) as [[st r1] w3|o w3] eqn:ERH; [|apply ONE].
  pose proof (run_handler_KS maxc CAP (c_srs c) (enc_client cs') C5 HLS true role _ script Hscript _ r0 w2 st r1 w3 HS2 ERH) as HS3'.
  assert (CLOSE : forall d cc, exists m,
    snd (match do_close maxc r1 d cc w3 with
         | Halt o w4 => (o, w4, acc ++ [sreq s0])
         | Ok (inl rp) w4 => run_loop_tr norm maxc f rp scripts (S served) w4 (acc ++ [sreq s0])
         | Ok (inr _) w4 => (ORet, w4, acc ++ [sreq s0])
         end) = acc ++ firstn m (sents ((ge, gm, c) :: cs') (ps :: pairss'))).
  { intros d cc. destruct (do_close maxc r1 d cc w3) as [[rp|k] w4|o w4] eqn:EDC; [|apply ONE|apply ONE].
    pose proof (do_close_K maxc CAP (c_srs c) (enc_client cs') C5 HLS r1 d cc w3 rp w4 HS3' EDC) as HCL.
    destruct Hbt as (junk & cur & _ & _ & _ & _ & _ & _ & Hsz & _).
    pose proof (closed_between ge gm c cs' ps junk rp w4 Hc Hf Hsz HCL) as Hbt'.
    destruct (IH cs' pairss' rp (S served) w4 (acc ++ [sreq s0]) Hcs' Hfit' Hbt') as (m & Em).
    exists (S m). rewrite Em, Hsents. cbn [firstn]. rewrite <- app_assoc. reflexivity. }
  destruct st as [[d cc]|k].
  - apply CLOSE.
  - destruct ((k =? EK_Aborted) && raborted r1); [apply CLOSE|apply ONE].
Qed.
End Loop4.

Lemma client_creq_ok : forall cs done sofar, client_segs done sofar cs -> Forall (fun s : N * N * creq => creq_ok (snd s)) cs.
Proof.
  induction cs as [|[[ge gm] c] t IH]; intros done sofar H; [constructor|]. cbn [client_segs] in H.
  destruct H as (_ & _ & Hc & H). constructor; [exact Hc|apply (IH _ _ H)].
Qed.

Lemma fits_Forall2 B : forall (cs : list (N * N * creq)) pairss, length pairss = length cs ->
  (forall i c ps, nth_error (map snd cs) i = Some c -> nth_error pairss i = Some ps -> creq_fits B c ps) ->
  Forall2 (fun (s : N * N * creq) ps => creq_fits B (snd s) ps) cs pairss.
Proof.
  induction cs as [|s t IH]; intros [|ps pt] Hl H; cbn [length] in Hl; try discriminate Hl; constructor.
  - apply (H 0%nat); reflexivity.
  - apply IH; [lia|]. intros i c ps' H1 H2. apply (H (S i)); assumption.
Qed.

Theorem requests_in_order_proof : requests_in_order_stmt.
Proof.
  intros norm maxc scripts B cs pairss w0 HB Hs Hsegs Hcl Hlog Hnf Hlen Hfits Hsz tr.
  pose proof (client_creq_ok cs 0 0 Hcl) as Hcs.
  pose proof (fits_Forall2 B cs pairss Hlen Hfits) as Hfit.
  assert (Hbt : between B cs (new_parser B) w0).
  { exists [], []. split; [split; [constructor|split; constructor]|]. split; [exact Hsegs|]. split; [reflexivity|].
    split; [reflexivity|]. cbn [new_parser held]. split; [rewrite len_nil; lia|].
    split; [apply world_ok_remaining; unfold world_ok; rewrite Hsegs; apply (client_world cs 0 0 Hcl)|].
    rewrite <- Hsegs. cbn [enc_rcds flat_map]. rewrite len_nil. split; [lia|]. unfold SIZE_LIMIT. lia. }
  destruct (run_loop_tr_prefix norm maxc B HB scripts Hs (nb w0 + 4) cs pairss (new_parser B) 0%nat w0 [] Hcs Hfit Hbt) as (m & Em).
  exists m. exact Em.
Qed.

Theorem run_loop_tr_erase : run_loop_tr_erase_stmt.
Proof. exact run_loop_tr_erase_proof. Qed.
Print Assumptions run_loop_tr_erase.

Theorem requests_in_order : requests_in_order_stmt.
Proof. exact requests_in_order_proof. Qed.
Print Assumptions requests_in_order.

(* ------------------------------------------------------------------------------------------ *)
(* Part F: an instance: two KeepConn requests with different ids and environments in two segments; the client releases
   the second only after it has counted the EndRequest of the first.  The first handler returns WITHOUT reading its
   Stdin: the unread Stdin records and a record of unknown type are the leftover in front of the second request. *)
(* ------------------------------------------------------------------------------------------ *)
Definition ex4_pay (ps : list (bytes * bytes)) : bytes := match nv_write_all ps with Some e => e | None => [] end.

Definition ex4_c (id : N) (ps : list (bytes * bytes)) (body : bytes) : creq :=
  mkCReq (mkPreamble [] id ROLE_Responder FLAG_KeepConn [] [mkPiece [] (ex4_pay ps) []] [] [])
         [ mkRcd RT_Stdin id body [0; 0; 0]; mkRcd 99 0 [1; 2] []; mkRcd RT_Stdin id [] [] ].

Definition ex4_ps1 : list (bytes * bytes) := [([65; 66], [7; 8])].
Definition ex4_ps2 : list (bytes * bytes) := [([67], [9]); ([68; 69], [])].
Definition ex4_c1 : creq := ex4_c 1 ex4_ps1 [97; 98; 99].
Definition ex4_c2 : creq := ex4_c 2 ex4_ps2 [100; 101].
Definition ex4_cs : list (N * N * creq) := [ (0, 0, ex4_c1); (1, 0, ex4_c2) ].
Definition ex4_pairss : list (list (bytes * bytes)) := [ex4_ps1; ex4_ps2].
Definition ex4_w : world := mkW [] [] (enc_client ex4_cs) [] 0 1 0 false false [].
(* the first handler returns at once; the second reads its Stdin to the end *)
Definition ex4_scripts : list (list N) := [[]; [2]].

Ltac ex4_dec :=
  first [ apply bytes_okb_ok; vm_compute; reflexivity
        | vm_compute; reflexivity
        | vm_compute; discriminate ].

Lemma ex4_creq_ok id ps body :
  (0 <? id) && (id <? 65536) = true -> (0 <? len (ex4_pay ps)) && (len (ex4_pay ps) <? 65536) = true ->
  bytes_okb (ex4_pay ps) = true -> forallb rcd_okb (c_srs (ex4_c id ps body)) = true ->
  ended_rcds ROLE_Responder id (Some RT_Stdin) (c_srs (ex4_c id ps body)) = true ->
  creq_ok (ex4_c id ps body).
Proof.
  intros Hid Hpl Hpb Hrs Hend.
  apply andb_true_iff in Hid. destruct Hid as [I1 I2]. apply N.ltb_lt in I1. apply N.ltb_lt in I2.
  apply andb_true_iff in Hpl. destruct Hpl as [L1 L2]. apply N.ltb_lt in L1. apply N.ltb_lt in L2.
  unfold creq_ok. cbn [ex4_c c_pre w_idle w_pieces w_endjunk w_role w_id].
  split.
  { unfold preamble_ok. cbn [w_idle w_id w_role w_flags w_beginpad w_pieces w_endjunk w_endpad].
    split; [constructor|]. split; [split; assumption|]. split; [reflexivity|]. split; [vm_compute; reflexivity|].
    split; [vm_compute; reflexivity|]. split; [constructor|]. split.
    { constructor; [|constructor]. unfold piece_ok. cbn [pjunk pbody ppad]. split; [constructor|]. split; [split; assumption|].
      split; [vm_compute; reflexivity|]. split; [apply bytes_okb_ok; exact Hpb|constructor]. }
    split; [constructor|]. split; [vm_compute; reflexivity|constructor]. }
  split; [constructor|]. split; [constructor; [constructor|constructor]|]. split; [constructor|].
  split; [apply rcd_okb_ok; exact Hrs|]. split.
  { cbn [c_srs]. repeat (constructor; [split; cbn [rt]; discriminate|]). constructor. }
  change (role_input_streams ROLE_Responder) with [RT_Stdin]. constructor; [exact Hend|constructor].
Qed.

Lemma ex4_creq_fits id ps body : Forall pair_ok ps -> nv_write_all ps <> None ->
  Forall (pair_fits (aligned_bufsize 64)) ps -> creq_fits 64 (ex4_c id ps body) ps.
Proof.
  intros H1 H2 H3. unfold creq_fits. split; [exact H1|]. split.
  { cbn [ex4_c c_pre preamble_payload w_pieces flat_map pbody]. rewrite app_nil_r. unfold ex4_pay.
    destruct (nv_write_all ps); [reflexivity|contradiction]. }
  split; [exact H3|]. split.
  { unfold preamble_fits. cbn [ex4_c c_pre w_idle w_pieces w_endjunk pjunk]. split; [constructor|]. split; [|constructor].
    constructor; [constructor|constructor]. }
  cbn [ex4_c c_srs]. repeat (constructor; [intros H; vm_compute in H; discriminate H|]). constructor.
Qed.

(* the hypotheses of the theorem hold for it *)
Example ex4_hyps :
  64 < SIZE_LIMIT - 8 /\ scripts_ok true ex4_scripts /\ segs ex4_w = enc_client ex4_cs /\ client_segs 0 0 ex4_cs /\
  wlog ex4_w = [] /\ no_fault (wscript ex4_w) /\ length ex4_pairss = length ex4_cs /\
  (forall i c ps, nth_error (map snd ex4_cs) i = Some c -> nth_error ex4_pairss i = Some ps -> creq_fits 64 c ps) /\
  len (flat (segs ex4_w)) < SIZE_LIMIT.
Proof.
  split; [vm_compute; reflexivity|]. split.
  { constructor; [|constructor; [|constructor]]; intros role; [apply SO_nil|apply SO_read_all, SO_nil]. }
  split; [reflexivity|]. split.
  { cbn [client_segs ex4_cs]. split; [reflexivity|]. split; [lia|].
    split; [apply ex4_creq_ok; vm_compute; reflexivity|].
    split; [reflexivity|]. split; [vm_compute; discriminate|]. split; [apply ex4_creq_ok; vm_compute; reflexivity|exact I]. }
  split; [reflexivity|]. split; [constructor|]. split; [reflexivity|]. split; [|vm_compute; reflexivity].
  intros [|[|i]] c ps H1 H2; cbn [ex4_cs ex4_pairss map snd nth_error] in H1, H2.
  - injection H1 as <-. injection H2 as <-. apply ex4_creq_fits.
    + constructor; [split; ex4_dec|constructor].
    + vm_compute. discriminate.
    + constructor; [ex4_dec|constructor].
  - injection H1 as <-. injection H2 as <-. apply ex4_creq_fits.
    + constructor; [split; ex4_dec|]. constructor; [split; ex4_dec|constructor].
    + vm_compute. discriminate.
    + constructor; [ex4_dec|]. constructor; [ex4_dec|constructor].
  - destruct i; discriminate H1.
Qed.

(* the run: the first handler is started with request 1 and its environment and returns without reading; the second
   handler is started with request 2 and its environment, although 3 unread records of request 1 stood before it *)
Example ex4_trace :
  snd (run_loop_tr (fun b => b) 10 (nb ex4_w + 4) (new_parser 64) ex4_scripts 0 ex4_w []) =
    [ mkReq 1 ROLE_Responder FLAG_KeepConn ex4_ps1; mkReq 2 ROLE_Responder FLAG_KeepConn ex4_ps2 ] /\
  [ mkReq 1 ROLE_Responder FLAG_KeepConn ex4_ps1; mkReq 2 ROLE_Responder FLAG_KeepConn ex4_ps2 ] =
    map (fun cp => sent_request (fun b => b) (fst cp) (snd cp)) (combine (map snd ex4_cs) ex4_pairss) /\
  In [100; 101] (events (snd (fst (run_loop_tr (fun b => b) 10 (nb ex4_w + 4) (new_parser 64) ex4_scripts 0 ex4_w [])))) /\
  fst (fst (run_loop_tr (fun b => b) 10 (nb ex4_w + 4) (new_parser 64) ex4_scripts 0 ex4_w [])) = ORet.
Proof. vm_compute. repeat split; auto 12. Qed.

(* ... and by the theorem, for every normalisation function and every max_conns: a prefix of the two sent requests *)
Example ex4_in_order norm maxc :
  exists m, snd (run_loop_tr norm maxc (nb ex4_w + 4) (new_parser 64) ex4_scripts 0 ex4_w []) =
            firstn m (map (fun cp => sent_request norm (fst cp) (snd cp)) (combine (map snd ex4_cs) ex4_pairss)).
Proof.
  destruct ex4_hyps as (H1 & H2 & H3 & H4 & H5 & H6 & H7 & H8 & H9).
  exact (requests_in_order norm maxc ex4_scripts 64 ex4_cs ex4_pairss ex4_w H1 H2 H3 H4 H5 H6 H7 H8 H9).
Qed.

Print Assumptions ex4_hyps.
Print Assumptions ex4_trace.
Print Assumptions ex4_in_order.
