(* Async/ShutdownTargets.v — statement: what a graceful shutdown does to a WHOLE connection (C14: "in-flight requests finish, nothing
   new starts"), for every client, transport, handler scripts and every moment at which the shutdown is requested.
   Statement only; proof in Async/ShutdownProofs.v. *)
From FV Require Import Base.Bytes Gen.Generated Parser.ReqModel Parser.StreamModel
  Async.Conn Async.ConnWrites Async.ConnTotal Async.ConnReads Async.LogTargets.

(* two worlds with the same client, transport scripts and transport log: they may differ in the shutdown bookkeeping (when the stop
   request fires, whether it has fired), in the poll counter and in the harness event list (which records poll numbers) *)
Definition same_io (w1 w2 : world) : Prop :=
  rscript w1 = rscript w2 /\ wscript w1 = wscript w2 /\ segs w1 = segs w2 /\ wlog w1 = wlog w2 /\
  consumed w1 = consumed w2 /\ vectored w1 = vectored w2.

Definition closed_entry (s : served) : Prop := sv_closed s <> None.

(* MAIN.  Run the same connection twice: in world w1 no shutdown is ever requested; in w2 it is requested at any moment (before
   any scheduling step, or already at the start).  Suppose the undisturbed run returns or ends up waiting for its client.  Then
   - either the shutdown made no difference: same outcome, the same handler invocations with the same results and the same
     transport log at every invocation boundary, the same final transport state;
   - or the second run RETURNED because of the shutdown, and it did so at a request boundary: its handler invocations are an initial
     segment of the undisturbed run's invocations - each with the same request, the same handler result and the same log before,
     after and at the end of its close() -, every one of them was closed (answered by its complete epilogue, by entry_ok of
     C07_connection_log), and its transport log is a prefix of the undisturbed run's log: no request was started after the
     shutdown, none in flight was cut short or answered differently, and nothing was written that the undisturbed run does not
     write as well. *)
Definition shutdown_cut_stmt : Prop := forall norm maxc fuel p scripts n w1 w2 acc,
  same_io w1 w2 -> stop_at w1 = 0 -> stopped w1 = false ->
  let '(o1, w1', l1) := run_loop_log norm maxc fuel p scripts n w1 acc in
  let '(o2, w2', l2) := run_loop_log norm maxc fuel p scripts n w2 acc in
  (o1 = ORet \/ o1 = ODeadlock) ->
  (o2 = o1 /\ l2 = l1 /\ same_io w1' w2')
  \/ (o2 = ORet /\ stopped w2' = true /\ (exists t, l1 = l2 ++ t) /\ Forall closed_entry (skipn (length acc) l2) /\
      is_prefix (wlog w2') (wlog w1') /\ consumed w2' <= consumed w1').
